#!/bin/sh
# tools/coqchk_all.sh: independent re-check (coqchk -o) of PV.All = every property theorem of the twenty properties and
# everything they depend on; writes the context summary (axioms etc.) to notes/coqchk_all.txt
cd /verif/coq || exit 2
[ -f theories/All.vo ] || timeout 1800 coqc -noglob -Q theories PV theories/All.v >/dev/null || exit 2
( echo "coqchk -silent -o -Q theories PV PV.All   ($(date -u +%Y-%m-%dT%H:%MZ), $(coqc --version | head -1))"; \
  /usr/bin/time -v timeout 7200 coqchk -silent -o -Q theories PV PV.All 2>&1 | grep -v "^\s*$" | grep -E "CONTEXT|=====|Theory|Axioms|Constants|Inductives|<none>|Maximum resident|Elapsed|Error|error|rror:" ) > /verif/notes/coqchk_all.txt 2>&1
# Link files that load a float-decoding comparator (see tools/gen_all_v.py SEPARATE): re-checked on their own; the primitive
# Int63 / PrimFloat declarations of Coq's standard library are listed by coqchk for them (kernel primitives, not axioms of
# this development; Print Assumptions of every theorem in these files: Closed under the global context).
for m in PV.C08.LinkTie2; do   # LinkTie2 requires LinkTie: one run re-checks both
( echo; echo "coqchk -silent -o -Q theories PV $m   ($(date -u +%Y-%m-%dT%H:%MZ))"; \
  timeout 7200 coqchk -silent -o -Q theories PV $m 2>&1 | grep -v "^\s*$" | sed -n '/CONTEXT SUMMARY/,$p' ) >> /verif/notes/coqchk_all.txt 2>&1
done
cat /verif/notes/coqchk_all.txt
