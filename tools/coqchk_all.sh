#!/bin/sh
# tools/coqchk_all.sh: independent re-check (coqchk -o) of PV.All = every property theorem of the twenty properties and
# everything they depend on; writes the context summary (axioms etc.) to notes/coqchk_all.txt
cd /verif/coq || exit 2
[ -f theories/All.vo ] || timeout 1800 coqc -noglob -Q theories PV theories/All.v >/dev/null || exit 2
( echo "coqchk -silent -o -Q theories PV PV.All   ($(date -u +%Y-%m-%dT%H:%MZ), $(coqc --version | head -1))"; \
  /usr/bin/time -v timeout 7200 coqchk -silent -o -Q theories PV PV.All 2>&1 | grep -v "^\s*$" | grep -E "CONTEXT|=====|Theory|Axioms|Constants|Inductives|<none>|Maximum resident|Elapsed|Error|error|rror:" ) > /verif/notes/coqchk_all.txt 2>&1
cat /verif/notes/coqchk_all.txt
