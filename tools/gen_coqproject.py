"""Regenerates coq/_CoqProject from the files present under coq/theories (sorted; dependencies are
found by coqdep).  Prints 'changed' when the file list differs from the existing _CoqProject."""
import os
import sys

COQ = os.path.join(os.path.dirname(os.path.dirname(os.path.abspath(__file__))), 'coq')


def main():
    files = []
    for root, _, names in os.walk(os.path.join(COQ, 'theories')):
        for n in names:
            if n.endswith('.v'):
                files.append(os.path.relpath(os.path.join(root, n), COQ))
    files.sort()
    txt = '-Q theories PV\n-arg -noglob\n' + '\n'.join(files) + '\n'
    path = os.path.join(COQ, '_CoqProject')
    old = open(path).read() if os.path.exists(path) else ''
    if old != txt:
        with open(path, 'w') as f:
            f.write(txt)
        print('changed')
    else:
        print('same')


if __name__ == '__main__':
    main()
