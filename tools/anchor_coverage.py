"""tools/anchor_coverage.py <PID> [tier]  — developer tool, not part of any check.
Runs the property's generator (bin/check <PID>) with line coverage of /repo/phylib switched on in the worker
processes and reports, for every function named in the property's anchors, the lines of phylib that NO generated
case executed.  A line the correspondence never executes cannot expose a change made to it: the report is used to
widen generators.  Output: notes/coverage/<PID>.txt"""
import ast, glob, json, os, re, shutil, subprocess, sys, tempfile
HERE = os.path.dirname(os.path.dirname(os.path.abspath(__file__)))
pid = sys.argv[1].upper()
tier = sys.argv[2] if len(sys.argv) > 2 else 'quick'
repo = os.environ.get('PHYLIB_REPO') or '/repo'
prop = next(json.loads(l) for l in open(os.path.join(HERE, 'properties.jsonl')) if json.loads(l)['id'] == pid)
text = json.dumps(prop['anchors'])
files = prop['anchors']['files']
d = tempfile.mkdtemp(prefix='cov_', dir=os.path.join(HERE, 'work'))
env = dict(os.environ, VT_COVERAGE=d)
r = subprocess.run([os.path.join(HERE, 'bin', 'check'), pid, '--tier', tier], env=env, stdout=subprocess.PIPE,
                   stderr=subprocess.STDOUT, text=True)
print(r.stdout[-600:])
import coverage
# union of the per-worker data files (coverage's own combine() was seen to drop lines of some workers)
class _Union(object):
    def __init__(self, paths):
        self.by_file = {}
        for f in paths:
            dd = coverage.CoverageData(basename=f)
            dd.read()
            for m in dd.measured_files():
                self.by_file.setdefault(m, set()).update(dd.lines(m) or [])
    def lines(self, path):
        return self.by_file.get(path, set())
data = _Union(glob.glob(os.path.join(d, 'cov.*')))
out = ['anchor coverage of %s (%s tier), /repo at %s' % (pid, tier, subprocess.run(
    ['git', '-C', repo, 'rev-parse', '--short', 'HEAD'], stdout=subprocess.PIPE, text=True).stdout.strip())]
words = set(re.findall(r'[A-Za-z_][A-Za-z_0-9]*', text))
for rel in files:
    path = os.path.join(repo, rel)
    src = open(path).read()
    lines = src.splitlines()
    executed = set(data.lines(path) or [])
    tree = ast.parse(src)
    for node in ast.walk(tree):
        if isinstance(node, (ast.FunctionDef, ast.AsyncFunctionDef)) and node.name in words:
            body = set()
            for sub in ast.walk(node):
                if isinstance(sub, ast.stmt) and sub is not node:
                    if isinstance(sub, ast.Expr) and isinstance(getattr(sub, 'value', None), ast.Constant) and isinstance(sub.value.value, str):
                        continue
                    body.add(sub.lineno)
            miss = sorted(body - executed)
            out.append('%s:%d %s  %d/%d statements executed' % (rel, node.lineno, node.name, len(body) - len(miss), len(body)))
            for m in miss:
                out.append('    NOT EXECUTED %d: %s' % (m, lines[m - 1].strip()))
os.makedirs(os.path.join(HERE, 'notes', 'coverage'), exist_ok=True)
open(os.path.join(HERE, 'notes', 'coverage', pid + '.txt'), 'w').write('\n'.join(out) + '\n')
print('\n'.join(out))
shutil.rmtree(d, ignore_errors=True)
