#!/bin/sh
# tools/mutate.sh <PID> <file relative to repo> <python-expr old> <python-expr new>
# Applies a one-line textual edit in a scratch worktree of /repo at $MUT_BASE (default main; set MUT_BASE=fix-cxx to mutate your fix branch), runs the quick check against it, removes the worktree.
PID="$1"; FILE="$2"; OLD="$3"; NEW="$4"
WT=$(mktemp -d /tmp/mutXXXXXX); rmdir "$WT"
git -C /repo worktree add -f --detach "$WT" "${MUT_BASE:-main}" >/dev/null 2>&1 || exit 2
/venv/bin/python - "$WT/$FILE" "$OLD" "$NEW" <<'PY'
import sys
p, old, new = sys.argv[1:4]
s = open(p).read()
if s.count(old) < 1:
    print('MUTATION TEXT NOT FOUND'); sys.exit(3)
open(p, 'w').write(s.replace(old, new, 1))
PY
rc=$?
if [ $rc -eq 0 ]; then
  (cd "$WT" && /venv/bin/python -m pytest -q -p no:cacheprovider --timeout=900 --continue-on-collection-errors 2>&1 | tail -1)
  TAG="mut_$$"; PHYLIB_REPO="$WT" VT_RUN_TAG="$TAG" /verif/bin/check "$PID" --tier quick 2>&1 | grep -E "VIOLATION|INTERNAL|tier done|outside" | head -5
  for f in /verif/work/alt-replays/$TAG/${PID}_*.json; do [ -f "$f" ] && /venv/bin/python -c "
import json,sys; d=json.load(open('$f')); print('  replay codes', d['codes'], d['kind'])"; done
fi
rm -f /verif/work/alt-replays/$TAG/${PID}_*.json
git -C /repo worktree remove --force "$WT"
