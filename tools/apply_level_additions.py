import json,re,sys
STAGE=sys.argv[1]+' '; pids=sys.argv[2:]
for pid in pids:
    notes=open('notes/%s.md'%pid).read()
    f='tools/levels/%s.json'%pid; d=json.load(open(f))
    def grab(tag):
        ms=list(re.finditer(r'%s:\s*"'%tag, notes))
        if not ms: return None
        s=notes[ms[-1].end():]
        # up to closing quote followed by end of paragraph
        m=re.search(r'"\s*(\n\s*\n|\Z|\n[#*-]|\n\S)', s)
        txt=s[:m.start()] if m else s.split('\n\n')[0].rstrip('"')
        return ' '.join(txt.split())
    t=grab('level text addition'); n=grab('level note addition')
    if t and t[:60] not in d['text']:
        d['text']=d['text'].rstrip()+' '+(t if t.startswith('Stage') else STAGE+t)
        if not d['text'].endswith('.'): d['text']+='.'
        print(pid,'text +',len(t))
    if n and not n.startswith('replace') and n[:60] not in d.get('note',''):
        d['note']=d.get('note','').rstrip()+' '+n
        print(pid,'note +',len(n))
    elif n: print(pid,'NOTE needs hand merge:',n[:200])
    json.dump(d,open(f,'w'),indent=1)
