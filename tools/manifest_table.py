"""Single source for MANIFEST.json: run `python3 tools/manifest_table.py` after editing.
CLAIMED maps property id -> (level text, level note, technique, design_ref)."""
import json
import os

HERE = os.path.dirname(os.path.dirname(os.path.abspath(__file__)))
ALL = ['C%02d' % i for i in range(1, 21)]

TECH = 'Coq 8.16 theorems on a hand-written Gallina model + vm_compute correspondence with /repo'
NOTE_COMMON = (' Trusted base: Coq 8.16.1 kernel + VM (no native_compute); no axioms (every theorem prints '
               '"Closed under the global context"); hand-written model tied to /repo only by the correspondence '
               'run (generators, materialisation, canonicalisation, Coq literal printer, NumPy-2 import shim '
               'harness/vt/npshim.py); NumPy/SciPy/CPython library behaviour is modelled, not verified.')

CLAIMED = {
    'C16': (
        'Theorems (coq/theories/C16/Props.v, all closed under the global context): C16_chunk_bounds (for every '
        'data list, chunk size and overlap < chunk size the generator terminates and the kept parts concatenate to '
        'exactly the data, each inside its chunk, no chunk longer than chunk_size), C16_termination_needs_ov_lt_cs, '
        'C16_checker_sound, C16_reader_bounds (any number of files, any sizes >= 0), C16_iter_base, '
        'C16_iter_mtscomp (every n_chunks >= 1, batch size >= 1), C16_tiles_data, C16_excerpts, C16_get_excerpts. '
        'Correspondence: exhaustive small scope + random, against chunk_bounds, excerpts, get_excerpts, '
        '_get_chunk_bounds, real Flat/Array/Npy readers and real mtscomp .cbin readers.',
        'Partial for the compressed reader: mtscomp thread pool, cache and decompression are runtime and only '
        'exercised; the model covers the interval arithmetic of the iterator.' + NOTE_COMMON,
        TECH, 'DESIGN.md §8 C16'),
    'C04': (
        'Theorems (coq/theories/C04/Props.v, all closed under the global context, each for every rounding/inverse oracle): '
        'C04_priority, C04_priority_none (an attribute is fed by the first existing name of its documented priority list), '
        'C04_rejects (non-monotonic spike times => load = Rejected), C04_loaded_times_sorted, C04_times_ks (times[i] = '
        'samples[i]/rate), C04_times_alf (stored seconds; samples = stored samples or round-half-even(times*rate) as uint64), '
        'C04_attributes (every listed attribute = squeeze/scrub of its source file, or the documented default), C04_scrub, '
        'C04_spike_attributes, C04_frame (files created = exactly the spike-cluster copy and the inverse whitening matrix, each '
        'only when missing), C04_traces (row i = raw row i with the channel map\'s columns). The loader\'s specification is a list '
        'of file->attribute rules, so these are decision/frame theorems about a faithful executable model of _load_data; the '
        'weight is on the correspondence: generated directories over the option product (KS/ALF names, label, (n,1) vectors, '
        'each optional file present/absent, both naming conventions present, dtypes, raw wider than the channel map, NaN/inf, '
        'all-NaN templates, fractional ALF times, extra attributes, non-monotonic times), every attribute compared exactly '
        '(dtype, shape, values), directory listing and SHA-256 of every file before/after, wm*wmi = I judged in exact arithmetic.',
        'Regime: no axis of length 1 other than the (n,1) vector layout (phylib squeezes every array, so 1-spike / 1-template '
        'datasets are outside what the loader supports), at most one file per glob pattern, distinct positions. Features / '
        'template features are C06\'s, metadata C10\'s. PrimFloat is used only in the comparator (one division / one product per '
        'spike), never in a theorem.' + NOTE_COMMON,
        TECH, 'DESIGN.md §8 C04'),
    'C03': (
        'Theorems (coq/theories/C03/Props.v, 7, all closed under the global context, polymorphic in the sample type): '
        'C03_extract (direct extraction = the zero-padded window for every recording, every spike inside it incl. 0, the last '
        'sample, closer than n//2 to either end and recordings shorter than the window, every window length >= 1, every channel '
        'list with -1 entries), C03_extract_waveforms, C03_window_meaning (the window is the statement cell by cell, no default '
        'value involved), C03_iter (over ANY chunking whose non-empty intervals tile the recording every spike of a sorted vector '
        'is extracted exactly once, in order), C03_iter_flat and C03_iter_mtscomp (instantiated with C16\'s chunk-bound theorems '
        'for flat/array readers of any files/chunk length and for the look-behind batches of the compressed reader), C03_export '
        '(the file is written, its payload dtype = the declared dtype for every kind of unit factor, computed from a promotion '
        'table, it loads with shape (n_spikes, n, nc) and holds window x factor in spike order). Correspondence: exhaustive small '
        'scope (length x window x all sorted spike vectors of <= 2 spikes x channel lists; exports over all splits into <= 2 files '
        'x every chunk length) + random boundary-biased cases, sample dtypes int16/float32/float64, spike dtypes '
        'int32/int64/uint32/uint64/python int, ndarray / Array / Flat / .cbin readers, int and float factors, subset-store '
        'look-ups in shuffled order (clause 24) and TemplateModel.get_waveforms (clause 25) judged against the same window.',
        'The subset-store look-up and the TemplateModel route are judged by the comparator (spec_b) but have no separate theorem '
        'yet. Model follows the code after fix commits 5c7cd68, 31042ba, d1272de, 7bdfb3a. Trusted: .npy header / tobytes byte '
        'layout, np.memmap, NumPy dtype promotion (tabulated, cross-checked on every export case), mtscomp, multi-file readers '
        'returning slices of the concatenation (C01).' + NOTE_COMMON,
        TECH, 'DESIGN.md §8 C03'),
    'C07': (
        'Theorems (coq/theories/C07/Props.v, 6, all closed under the global context, over Z): C07_groups (keys = exactly the ids '
        'present, strictly increasing; each group = the members of its key in input order, with or without a supplied spike-id '
        'vector), C07_partition (concatenated groups are a permutation of all spike ids, pairwise disjoint), C07_groups_positions, '
        'C07_groups_short_ids (a short spike-id vector is an error: the guard is exact), C07_in_clusters (selection = the sorted '
        'union of the requested groups, and that union is unique; unsorted / duplicated / absent requests), C07_cluster_spikes '
        '(TemplateModel.get_cluster_spikes / get_template_spikes = the group). The helpers _unique, _index_of, '
        '_flatten_per_cluster, grouped_mean and get_template_counts are modelled and judged on every case by the comparator '
        'clauses 24-28 (set-theoretic definitions as boolean specs) but their theorems are not yet in Props.v. Correspondence: '
        'EVERY assignment vector of length <= 6 (quick) / <= 8 (thorough) over the gapped alphabet {0,2,3,7}, with and without '
        'spike ids, every requested subset of {0,1,2,3,7,9}, every permutation of every subset as unsorted lookup, each under '
        'int32/int64/uint16/uint32; random long vectors.',
        'dtype wrap-around is not modelled (the only subtraction in the code is np.diff of sorted neighbours, exercised under the '
        'unsigned dtypes). The one float division of grouped_mean is reproduced with PrimFloat in the comparator only.' + NOTE_COMMON,
        TECH, 'DESIGN.md §8 C07'),
    'C17': (
        'Theorems (coq/theories/C17/Props.v, 10, all closed under the global context): C17_kept (kept chunks = grid intervals '
        'number 0, s, 2s, ... with s = max 1 ceil(n_chunks/k), all of them, never more than k), C17_kept_zero_raises, C17_parity '
        '(parity of searchsorted-right in the flattened kept bounds <-> t in some kept [a, b), equal neighbours allowed), '
        'C17_in_chunks, C17_select (the whole __call__ statement for EVERY np.random.choice oracle returning m distinct members: '
        'result strictly increasing, only eligible spikes of requested clusters / kept chunks / subset, per cluster all eligible '
        'or exactly the count), C17_route (the same through TemplateModel.save_spikes_subset_waveforms), C17_eligible_meaning, '
        'C17_unknown (unknown clusters and the empty request contribute nothing), C17_checker_sound (the boolean checkers run on '
        'phylib\'s outputs imply the statements), C17_oracle_satisfiable. Correspondence: exhaustive over grids x n_chunks_kept x '
        'spike patterns on / inside / outside the bounds x cluster vectors x counts {None,0,1,2,10} x request lists x chunk '
        'restriction x subset; sub-sampling calls repeated under 5 NumPy seeds and judged relationally; random stream.',
        'np.random.choice is an oracle (Section variable with the hypothesis "m distinct members"); _spikes_per_cluster is C07\'s. '
        'The float ceil of n_chunks / n_chunks_kept is exact below 2^52 (assumed).' + NOTE_COMMON,
        TECH, 'DESIGN.md §8 C17'),
    'C19': (
        'Theorems (coq/theories/C19/Props.v, 8, all closed under the global context): C19_dispatch (refinement: for every '
        'argument/result type, callback behaviour and history of connect / unconnect by function, sender or owner / reset / '
        'set_silent / silent() enter, leave / emit inside the reading, what emit does equals spec_emit, which is defined on the '
        'HISTORY alone: registered-now, event and sender filter, non-last before last in registration order, arguments unchanged, '
        'results in call order, single = first result after one call, nothing while silenced), C19_registered_meaning, '
        'C19_called_exactly, C19_last_after_others, C19_dispatch_needs_reading (set_silent(False) inside a silent() block is '
        'outside the reading, with witness), C19_progress (completion announced during o iff o is a value update reaching the '
        'maximum and every earlier announcement is followed by an operation setting the value below the maximum or raising the '
        'maximum — history-defined), C19_progress_unique (the statement determines the trace), C19_progress_values. '
        'Correspondence: EVERY well-bracketed emitter history up to the tier length over a 12-operation alphabet and every '
        'reporter history over {increment, value, maximum, set_complete, reset}; random longer histories over a wide alphabet; '
        'two configurations (fresh emitter / the global emitter with decorator connects).',
        'Model = phylib/utils/event.py after fix commits bab0f92 and 2a11cae (on the unrepaired code both statements fail: nested '
        'silent(), reset after completion). Callbacks do not raise or re-enter the emitter (assumed).' + NOTE_COMMON,
        TECH, 'DESIGN.md §8 C19'),
    'C20': (
        'Theorems (coq/theories/C20/Props.v, 13, all closed under the global context, each for EVERY world — data-URL script of any '
        'length, checksum answers that may change between requests, any prior file — and EVERY digest function): C20_sound, '
        'C20_sound_const, C20_sound_good_body (returned normally + checksum available => the file has the published MD5 / is the '
        'good body), C20_skip (zero data GETs exactly when a valid file exists), C20_one_retry (never more than two data GETs; two '
        'iff the first 200 body failed verification), C20_raises, C20_persistent_raises, C20_file_after (an HTTP error never '
        'damages the file), C20_requests (every body written was verified), C20_model_meets_spec, C20_checker_iff, '
        'C20_save_stream (any chunking, empty chunks included), C20_md5_blocks (any block size, any hash whose update is a monoid '
        'action). Correspondence: fault enumeration — all 351 (quick) / 1080 (thorough) scripted worlds against the real '
        'download_file over real HTTP on 127.0.0.1 with request logging, several server configurations each, plus varying '
        'checksum scripts and a random stream.',
        'Partial: real networks, partial transfers and time-outs are not modelled; the byte-level contract (what is on disk when the '
        'call returns, which requests were made) is. The checksum file is read in md5sum format (digest then space or EOF).' + NOTE_COMMON,
        TECH, 'DESIGN.md §8 C20'),
}

import glob as _glob
for _f in sorted(_glob.glob(os.path.join(HERE, 'tools', 'levels', 'C*.json'))):
    _d = json.load(open(_f))
    _note = _d['note']
    if 'Coq 8.16.1 kernel' not in _note:
        _note += NOTE_COMMON
    CLAIMED[os.path.basename(_f)[:-5]] = (_d['text'], _note, TECH, _d.get('design_ref', 'DESIGN.md §8'))

NOT_YET = 'not claimed yet: model/theorems/correspondence for this property are still being built (DESIGN.md §10); it is applicable'


def main():
    checks = []
    for pid in ALL:
        if pid not in CLAIMED:
            continue
        text, note, tech, ref = CLAIMED[pid]
        checks.append({
            'property_id': pid,
            'quick_cmd': 'bin/check %s --tier quick' % pid,
            'thorough_cmd': 'bin/check %s --tier thorough' % pid,
            'evidence_file': 'evidence/%s.json' % pid,
            'replay_cmd_template': 'bin/check %s --replay {path}' % pid,
            'engine': 'coq-proof+correspondence',
            'level_claimed': {'category': 'proof', 'text': text, 'design_ref': ref},
            'level_note': note,
            'technique': tech,
        })
    fixes = []
    fx = os.path.join(HERE, 'fix_commits.txt')
    if os.path.exists(fx):
        fixes = [l.split()[0] for l in open(fx) if l.strip() and not l.startswith('#')]
    doc = {
        'version': 1,
        'setup_cmd': 'bin/setup',
        'hooks': {
            'guard': 'PHYLIB_VERIF',
            'enable': 'none needed: every observable is reached through public functions, attributes and files; '
                      'the guard name is reserved and unused',
            'baseline_off_cmd': 'cd /repo && /venv/bin/python -m pytest -ra -q -p no:cacheprovider --timeout=900 '
                                '--continue-on-collection-errors',
            'source_commits': [],   # no hook or instrumentation commit exists; the unguarded fix: commits are listed in fix_commits.txt
            'add_only': True,
        },
        'engines': [{
            'name': 'coq-proof+correspondence', 'path': 'bin/check',
            'serves_properties': sorted(CLAIMED),
            'kind_free_text': 'Coq 8.16.1 development under coq/ (model, spec, proofs, property theorems, comparator per '
                              'property) + Python harness under harness/vt that runs /repo and evaluates the comparator '
                              'with vm_compute inside coqc',
        }],
        'checks': checks,
        'notes': 'See DESIGN.md (section 0: status). No hooks were added to /repo. The %d unguarded "fix:" commits in /repo (genuine defects found by the checks, each repaired minimally) are listed in fix_commits.txt and known_findings.json (all with status fixed; there is no open finding); seeded/ holds the confirmed seeded changes and which check catches them.' % len(fixes),
        'not_applicable': [{'property_id': p, 'reason': NOT_YET} for p in ALL if p not in CLAIMED],
    }
    with open(os.path.join(HERE, 'MANIFEST.json'), 'w') as f:
        json.dump(doc, f, indent=1)
    print('MANIFEST.json: %d checks, %d not yet claimed' % (len(checks), len(doc['not_applicable'])))


if __name__ == '__main__':
    main()
