"""Single source for MANIFEST.json: run `python3 tools/manifest_table.py` after editing.
CLAIMED maps property id -> (level text, level note, technique, design_ref)."""
import json
import os

HERE = os.path.dirname(os.path.dirname(os.path.abspath(__file__)))
ALL = ['C%02d' % i for i in range(1, 21)]

TECH = 'Coq 8.16 theorems on a hand-written Gallina model + vm_compute correspondence with /repo'
NOTE_COMMON = (' Trusted base: Coq 8.16.1 kernel + VM (no native_compute); no axioms (every theorem prints '
               '"Closed under the global context"); hand-written model tied to /repo only by the correspondence '
               'run (generators, materialisation, canonicalisation, Coq literal printer, NumPy-2 import shim '
               'harness/vt/npshim.py); NumPy/SciPy/CPython library behaviour is modelled, not verified.')

CLAIMED = {
    'C16': (
        'Theorems (coq/theories/C16/Props.v, all closed under the global context): C16_chunk_bounds (for every '
        'data list, chunk size and overlap < chunk size the generator terminates and the kept parts concatenate to '
        'exactly the data, each inside its chunk, no chunk longer than chunk_size), C16_termination_needs_ov_lt_cs, '
        'C16_checker_sound, C16_reader_bounds (any number of files, any sizes >= 0), C16_iter_base, '
        'C16_iter_mtscomp (every n_chunks >= 1, batch size >= 1), C16_tiles_data, C16_excerpts, C16_get_excerpts. '
        'Correspondence: exhaustive small scope + random, against chunk_bounds, excerpts, get_excerpts, '
        '_get_chunk_bounds, real Flat/Array/Npy readers and real mtscomp .cbin readers.',
        'Partial for the compressed reader: mtscomp thread pool, cache and decompression are runtime and only '
        'exercised; the model covers the interval arithmetic of the iterator.' + NOTE_COMMON,
        TECH, 'DESIGN.md §8 C16'),
    'C04': (
        'Theorems (coq/theories/C04/Props.v, all closed under the global context, each for every rounding/inverse oracle): '
        'C04_priority, C04_priority_none (an attribute is fed by the first existing name of its documented priority list), '
        'C04_rejects (non-monotonic spike times => load = Rejected), C04_loaded_times_sorted, C04_times_ks (times[i] = '
        'samples[i]/rate), C04_times_alf (stored seconds; samples = stored samples or round-half-even(times*rate) as uint64), '
        'C04_attributes (every listed attribute = squeeze/scrub of its source file, or the documented default), C04_scrub, '
        'C04_spike_attributes, C04_frame (files created = exactly the spike-cluster copy and the inverse whitening matrix, each '
        'only when missing), C04_traces (row i = raw row i with the channel map\'s columns). The loader\'s specification is a list '
        'of file->attribute rules, so these are decision/frame theorems about a faithful executable model of _load_data; the '
        'weight is on the correspondence: generated directories over the option product (KS/ALF names, label, (n,1) vectors, '
        'each optional file present/absent, both naming conventions present, dtypes, raw wider than the channel map, NaN/inf, '
        'all-NaN templates, fractional ALF times, extra attributes, non-monotonic times), every attribute compared exactly '
        '(dtype, shape, values), directory listing and SHA-256 of every file before/after, wm*wmi = I judged in exact arithmetic.',
        'Regime: no axis of length 1 other than the (n,1) vector layout (phylib squeezes every array, so 1-spike / 1-template '
        'datasets are outside what the loader supports), at most one file per glob pattern, distinct positions. Features / '
        'template features are C06\'s, metadata C10\'s. PrimFloat is used only in the comparator (one division / one product per '
        'spike), never in a theorem.' + NOTE_COMMON,
        TECH, 'DESIGN.md §8 C04'),
}

NOT_YET = 'not claimed yet: model/theorems/correspondence for this property are still being built (DESIGN.md §10); it is applicable'


def main():
    checks = []
    for pid in ALL:
        if pid not in CLAIMED:
            continue
        text, note, tech, ref = CLAIMED[pid]
        checks.append({
            'property_id': pid,
            'quick_cmd': 'bin/check %s --tier quick' % pid,
            'thorough_cmd': 'bin/check %s --tier thorough' % pid,
            'evidence_file': 'evidence/%s.json' % pid,
            'replay_cmd_template': 'bin/check %s --replay {path}' % pid,
            'engine': 'coq-proof+correspondence',
            'level_claimed': {'category': 'proof', 'text': text, 'design_ref': ref},
            'level_note': note,
            'technique': tech,
        })
    fixes = []
    fx = os.path.join(HERE, 'fix_commits.txt')
    if os.path.exists(fx):
        fixes = [l.split()[0] for l in open(fx) if l.strip() and not l.startswith('#')]
    doc = {
        'version': 1,
        'setup_cmd': 'bin/setup',
        'hooks': {
            'guard': 'PHYLIB_VERIF',
            'enable': 'none needed: every observable is reached through public functions, attributes and files; '
                      'the guard name is reserved and unused',
            'baseline_off_cmd': 'cd /repo && /venv/bin/python -m pytest -ra -q -p no:cacheprovider --timeout=900 '
                                '--continue-on-collection-errors',
            'source_commits': fixes,
            'add_only': True,
        },
        'engines': [{
            'name': 'coq-proof+correspondence', 'path': 'bin/check',
            'serves_properties': sorted(CLAIMED),
            'kind_free_text': 'Coq 8.16.1 development under coq/ (model, spec, proofs, property theorems, comparator per '
                              'property) + Python harness under harness/vt that runs /repo and evaluates the comparator '
                              'with vm_compute inside coqc',
        }],
        'checks': checks,
        'notes': 'See DESIGN.md. known_findings.json lists open/fixed findings; seeded/ holds confirmed seeded changes.',
        'not_applicable': [{'property_id': p, 'reason': NOT_YET} for p in ALL if p not in CLAIMED],
    }
    with open(os.path.join(HERE, 'MANIFEST.json'), 'w') as f:
        json.dump(doc, f, indent=1)
    print('MANIFEST.json: %d checks, %d not yet claimed' % (len(checks), len(doc['not_applicable'])))


if __name__ == '__main__':
    main()
