"""tools/level_from_notes.py <PID> [old_sha=new_sha ...]: extracts the builder's proposed MANIFEST level text / note from
notes/<PID>.md into tools/levels/<PID>.json (then edited by hand if needed); tools/manifest_table.py reads that directory."""
import json, os, re, sys
HERE = os.path.dirname(os.path.dirname(os.path.abspath(__file__)))
pid = sys.argv[1]
subs = [a.split('=') for a in sys.argv[2:]]
s = open(os.path.join(HERE, 'notes', pid + '.md')).read()
# the LAST proposal in the notes wins (strengthening passes append an updated text)
_idx = [m_.start() for m_ in re.finditer(r'(?i)level[ _]text', s)]
if len(_idx) > 1:
    _notes_before = [m_.start() for m_ in re.finditer(r'(?i)level[ _]note', s)]
    # start at the last 'level text' that is followed by a 'level note'
    _cands = [i for i in _idx if any(j > i for j in _notes_before)]
    s = s[max(0, _cands[-1] - 3):]
m = re.search(r'(?is)[`*\s]*level[ _]text[`*\s]*[:(][^\n]*?(?=\S)(.*?)[`*\s(]*level[ _]note[`*\s)]*[:(](.*?)(?=\n#+ |\Z)', s)
if not m:
    m2 = re.search(r'(?is)level[ _]text(.*?)level[ _]note(.*?)(?=\n#+ |\Z)', s)
    if not m2:
        sys.exit('no level text found in notes/%s.md' % pid)
    text, note = m2.group(1), m2.group(2)
else:
    text, note = m.group(1), m.group(2)
def clean(t):
    t = t.strip()
    t = re.sub(r'^[\s:`"*(]+', '', t)
    t = re.sub(r'[\s`"*]+$', '', t)
    t = re.sub(r'\s*\+\s*(the\s+)?common note\.?\s*$', '', t, flags=re.I)
    t = re.sub(r'[`"]\s*$', '', t.strip())
    t = re.sub(r'\s+', ' ', t).replace('`', "'")
    for a, b in subs:
        t = t.replace(a, b)
    return t
doc = {'text': clean(text), 'note': clean(note), 'design_ref': 'DESIGN.md §8 ' + pid}
json.dump(doc, open(os.path.join(HERE, 'tools', 'levels', pid + '.json'), 'w'), indent=1, ensure_ascii=False)
print(json.dumps(doc, indent=1, ensure_ascii=False)[:3000])
