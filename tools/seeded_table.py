"""Regenerates the table of seeded changes in DESIGN.md (between the SEEDED-TABLE markers) from seeded/*/meta.json."""
import glob, json, os, re
HERE = os.path.dirname(os.path.dirname(os.path.abspath(__file__)))
rows = []
for f in sorted(glob.glob(os.path.join(HERE, 'seeded', '*', 'meta.json'))):
    m = json.load(open(f))
    clauses = sorted({c for r in m.get('replays', []) for c in (r.get('codes') or [])})
    rows.append('| %s | %s | %s | %s | %s | %s |' % (
        m.get('id'), (m.get('site') or '').replace('|', '/'),
        (m.get('summary') or '').replace('|', '/').replace('\n', ' ')[:260],
        (m.get('needs_to_manifest') or '').replace('|', '/').replace('\n', ' ')[:200],
        'yes, concrete input' if m.get('detected_with_concrete_input') else ('yes, no-failing-input-found' if m.get('detected') else ('no: outside the reading (see meta.json disposition)' if m.get('disposition') else '**MISSED**')),
        ', '.join(str(c) for c in clauses)))
table = ('| id | site | change | needs to manifest | caught by `bin/check <PID> --tier quick` | failing codes (1 = model mismatch, 2x = clause of the property) |\n'
         '|---|---|---|---|---|---|\n' + '\n'.join(rows))
p = os.path.join(HERE, 'DESIGN.md')
s = open(p).read()
a, b = '<!-- SEEDED-TABLE:BEGIN -->', '<!-- SEEDED-TABLE:END -->'
if a in s:
    s = re.sub(re.escape(a) + '.*?' + re.escape(b), a + '\n' + table + '\n' + b, s, flags=re.S)
    open(p, 'w').write(s)
print('%d seeded changes, %d caught' % (len(rows), sum('MISSED' not in r for r in rows)))
