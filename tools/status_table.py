"""Regenerates the status table in DESIGN.md (between the STATUS-TABLE markers) from MANIFEST.json, coq/theories/*/Props.v,
evidence/*.json, fix_commits.txt and seeded/*/meta.json."""
import glob, json, os, re
HERE = os.path.dirname(os.path.dirname(os.path.abspath(__file__)))
man = json.load(open(os.path.join(HERE, 'MANIFEST.json')))
claimed = [c['property_id'] for c in man['checks']]
fixes = {}
for l in open(os.path.join(HERE, 'fix_commits.txt')):
    if l.strip() and not l.startswith('#'):
        sha, pid = l.split()[:2]
        fixes.setdefault(pid, []).append(sha)
seeded = {}
for f in glob.glob(os.path.join(HERE, 'seeded', '*', 'meta.json')):
    m = json.load(open(f))
    s = seeded.setdefault(m['property'], [0, 0, 0])
    s[0] += 1
    if m.get('detected_with_concrete_input'):
        s[1] += 1
    elif m.get('disposition'):
        s[2] += 1
rows = []
for pid in ['C%02d' % i for i in range(1, 21)]:
    props = os.path.join(HERE, 'coq', 'theories', pid, 'Props.v')
    nth = len(re.findall(r'(?m)^\s*Theorem\s+\w+', open(props).read())) if os.path.exists(props) else 0
    ev = os.path.join(HERE, 'evidence', pid + '.json')
    e = json.load(open(ev)) if os.path.exists(ev) else None
    cov = e['coverage'] if e else {}
    sd = seeded.get(pid, [0, 0, 0])
    rows.append('| %s | %s | %d | %s | %s | %s | %s | %s |' % (
        pid, 'claimed' if pid in claimed else 'not claimed', nth,
        ('%d/%d' % (cov.get('discharged', 0), cov.get('obligations', 0))) if e else '-',
        ('%d (%d non-trivial, %s tier)' % (cov.get('evaluations', 0), cov.get('distinct_nontrivial', 0), e.get('tier'))) if e else '-',
        ('%.0f s' % e['wall_s']) if e else '-',
        ', '.join(fixes.get(pid, [])) or '-',
        ('%d/%d' % (sd[1], sd[0]) + (' (+%d outside the reading)' % sd[2] if sd[2] else '')) if sd[0] else '-'))
table = ('| property | status | theorems in Props.v | discharged in the last run | correspondence cases in the last run | wall | fix: commits in /repo | seeded changes caught with a concrete input |\n'
         '|---|---|---|---|---|---|---|---|\n' + '\n'.join(rows))
p = os.path.join(HERE, 'DESIGN.md')
s = open(p).read()
a, b = '<!-- STATUS-TABLE:BEGIN -->', '<!-- STATUS-TABLE:END -->'
if a in s:
    s = re.sub(re.escape(a) + '.*?' + re.escape(b), lambda m: a + '\n' + table + '\n' + b, s, flags=re.S)
    open(p, 'w').write(s)
print(table)

# ---- table of repaired defects (DESIGN.md section 13)
kf = json.load(open(os.path.join(HERE, 'known_findings.json')))['findings']
order = [l.split()[0] for l in open(os.path.join(HERE, 'fix_commits.txt')) if l.strip() and not l.startswith('#')]
kf.sort(key=lambda e: order.index(e['commit']) if e.get('commit') in order else 999)
frows = ['| %s | %s | %s | %s |' % (e.get('commit', '-'), e['property'], e['status'], e['what'].replace('|', '/')) for e in kf]
ftable = '| commit | property | status | what failed |\n|---|---|---|---|\n' + '\n'.join(frows)
s = open(p).read()
a, b = '<!-- FIXES-TABLE:BEGIN -->', '<!-- FIXES-TABLE:END -->'
if a in s:
    s = re.sub(re.escape(a) + '.*?' + re.escape(b), lambda m: a + '\n' + ftable + '\n' + b, s, flags=re.S)
    open(p, 'w').write(s)

# ---- table of mutation sweeps (DESIGN.md section 12b)
import collections
mrows = []
mtot = collections.Counter()
_all = sorted(glob.glob(os.path.join(HERE, 'notes', 'mutation', 'C*.json')))
_full = set(os.path.basename(f)[:3] for f in _all if f.endswith('-full.json'))
for f in _all:
    # a property that has a report of ALL its first-order mutants (Cxx-full) is counted by that report only;
    # the earlier sampled reports of the same mutants stay in notes/mutation/ for the record
    if os.path.basename(f)[:3] in _full and not f.endswith('-full.json'):
        continue
    if 'seed0' in os.path.basename(f):      # a first sample that a later report of the same property contains
        continue
    try:
        d = json.load(open(f))
    except Exception:
        continue
    c = collections.Counter(r.get('status', '?') for r in d)
    mtot.update(c)
    mrows.append('| %s | %d | %d | %d | %d |' % (os.path.basename(f)[:-5], len(d), c.get('killed', 0), c.get('detected-no-input', 0),
                                              len(d) - c.get('killed', 0) - c.get('detected-no-input', 0)))
mrows.append('| **total** | %d | %d | %d | %d |' % (sum(mtot.values()), mtot.get('killed', 0), mtot.get('detected-no-input', 0),
                                                   sum(mtot.values()) - mtot.get('killed', 0) - mtot.get('detected-no-input', 0)))
mtable = ('| sweep report | mutants run | reported with a concrete failing input | reported as model mismatch only | not reported (triaged in notes/Cxx.md) |\n'
          '|---|---|---|---|---|\n' + '\n'.join(mrows))
s = open(p).read()
a, b = '<!-- MUTATION-TABLE:BEGIN -->', '<!-- MUTATION-TABLE:END -->'
if a in s:
    s = re.sub(re.escape(a) + '.*?' + re.escape(b), lambda m: a + '\n' + mtable + '\n' + b, s, flags=re.S)
    open(p, 'w').write(s)
