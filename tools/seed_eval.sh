#!/bin/sh
# tools/seed_eval.sh <PID> <dir with mK.diff mK_demo.py mK.json> <K> [tier]
# Confirms a seeded change independently (tests still pass, demo passes without / fails with the change), runs the
# property's check against a scratch worktree carrying the change, and files the change under seeded/<PID>-mK/.
PID="$1"; SRC="$2"; K="$3"; TIER="${4:-quick}"
VERIF=/verif
WT=$(mktemp -d /tmp/sevXXXXXX); rmdir "$WT"
git -C /repo worktree add -f --detach "$WT" "${MUT_BASE:-main}" >/dev/null 2>&1 || exit 2
cleanup() { git -C /repo worktree remove --force "$WT" >/dev/null 2>&1; rm -rf "$WT"; }
trap cleanup EXIT
D="$VERIF/seeded/$PID-m$K"; mkdir -p "$D"
PYTHONPATH="$WT" /venv/bin/python "$SRC/m${K}_demo.py" >/dev/null 2>&1; demo0=$?
git -C "$WT" apply "$SRC/m$K.diff" || { echo "patch does not apply"; exit 2; }
tests=$(cd "$WT" && /venv/bin/python -m pytest -q -p no:cacheprovider --timeout=900 --continue-on-collection-errors 2>&1 | tail -1)
PYTHONPATH="$WT" /venv/bin/python "$SRC/m${K}_demo.py" >/dev/null 2>&1; demo1=$?
TAG="seed_$$"; RD="$VERIF/work/alt-replays/$TAG"; rm -rf "$RD"
PHYLIB_REPO="$WT" VT_RUN_TAG="$TAG" $VERIF/bin/check "$PID" --tier "$TIER" > "$D/check.log" 2>&1; rc=$?
grep -E "VIOLATION|KNOWN-FINDING|INTERNAL|tier done|outside" "$D/check.log" | sed "s#$WT#<worktree>#g; s#work/alt-replays/$TAG/#work/alt-replays/#g" > "$D/check_summary.txt"
cp "$SRC/m$K.diff" "$D/patch.diff"; cp "$SRC/m${K}_demo.py" "$D/demo.py"
rm -f "$D"/replay_*.json; n=0; for f in $RD/${PID}_*.json; do [ -f "$f" ] && { cp "$f" "$D/replay_$n.json"; n=$((n+1)); }; done
/venv/bin/python - "$PID" "$K" "$SRC/m$K.json" "$D" "$demo0" "$demo1" "$tests" "$rc" "$TIER" <<'PY'
import json, sys, glob, os
pid, k, src, d, demo0, demo1, tests, rc, tier = sys.argv[1:10]
try:
    meta = json.load(open(src))
except Exception:
    meta = {}
lines = open(os.path.join(d, 'check_summary.txt')).read().splitlines()
viol = [l for l in lines if l.startswith('VIOLATION')]
concrete = [l for l in viol if 'no-failing-input-found' not in l]
reps = []
for f in sorted(glob.glob(os.path.join(d, 'replay_*.json'))):
    r = json.load(open(f)); reps.append({'file': os.path.basename(f), 'kind': r.get('kind'), 'codes': r.get('codes'), 'clauses': r.get('clauses')})
meta.update({
    'property': pid, 'id': '%s-m%s' % (pid, k),
    'confirmed': {'baseline_tests_with_change': tests, 'demo_exit_without_change': int(demo0), 'demo_exit_with_change': int(demo1)},
    'what_i_ran': 'tools/seed_eval.sh %s <seed dir> %s %s  (scratch worktree of /repo main + patch.diff; PHYLIB_REPO=<worktree> bin/check %s --tier %s)' % (pid, k, tier, pid, tier),
    'check_exit': int(rc), 'check_lines': lines, 'replays': reps,
    'detected': bool(viol), 'detected_with_concrete_input': bool(concrete),
})
json.dump(meta, open(os.path.join(d, 'meta.json'), 'w'), indent=1)
ok = ('52 passed' in tests) and int(demo0) == 0 and int(demo1) != 0
print('%s-m%s confirmed=%s tests=[%s] demo %s->%s check_exit=%s detected=%s concrete=%s' % (pid, k, ok, tests.strip(), demo0, demo1, rc, bool(viol), bool(concrete)))
PY
rm -f "$D/check.log"
rm -rf "$RD" "$VERIF/work/alt-evidence/$TAG"
