"""tools/mutation_sweep.py <PID> [--max N] [--jobs J] [--seed S] [--workers W]   — developer tool, not part of any check.

Systematic first-order mutants of the phylib functions named in the property's anchors (AST level: comparison
operators, +/- and // vs /, integer constants +-1, 'left'/'right', dropped kind= keyword, min/max, and/or, negated
conditions, True/False, axis 0/1, sliced bounds, deleted `+ 1` / `- 1`), each applied to a scratch COPY of /repo's
working tree (never to /repo), and the property's quick check run against the copy
(PHYLIB_REPO=<copy>, proofs not re-checked, evaluation stops at the first failing slice).

The result is the detection power of the correspondence for that property: killed (VIOLATION with a concrete input),
detected without input (no-failing-input-found), crashed-only, survived.  Survivors are either equivalent mutants
(the property still holds) or generator gaps; they are listed with their diff for triage in notes/mutation/<PID>.md.
"""
import argparse, ast, copy, json, os, random, re, shutil, subprocess, sys, tempfile, time
from concurrent.futures import ThreadPoolExecutor

HERE = os.path.dirname(os.path.dirname(os.path.abspath(__file__)))
REPO = '/repo'


def anchored_functions(pid, extra=()):
    prop = next(json.loads(l) for l in open(os.path.join(HERE, 'properties.jsonl')) if json.loads(l)['id'] == pid)
    words = set(re.findall(r'[A-Za-z_][A-Za-z_0-9]*', json.dumps(prop['anchors']))) | set(extra)
    out = []
    for rel in prop['anchors']['files']:
        src = open(os.path.join(REPO, rel)).read()
        tree = ast.parse(src)
        for node in ast.walk(tree):
            if isinstance(node, (ast.FunctionDef,)) and node.name in words:
                out.append((rel, node.name, node.lineno, node.end_lineno))
    return out


CMP = {ast.Lt: [ast.LtE], ast.LtE: [ast.Lt], ast.Gt: [ast.GtE], ast.GtE: [ast.Gt], ast.Eq: [ast.NotEq],
       ast.NotEq: [ast.Eq], ast.Is: [ast.IsNot], ast.IsNot: [ast.Is], ast.In: [ast.NotIn], ast.NotIn: [ast.In]}
BIN = {ast.Add: [ast.Sub], ast.Sub: [ast.Add], ast.FloorDiv: [ast.Div], ast.Div: [ast.FloorDiv], ast.Mult: [ast.FloorDiv],
       ast.BitAnd: [ast.BitOr], ast.BitOr: [ast.BitAnd], ast.Mod: [ast.FloorDiv]}
NAMESWAP = {'min': 'max', 'max': 'min', 'argmax': 'argmin', 'argmin': 'argmax', 'any': 'all', 'all': 'any',
            'floor': 'ceil', 'ceil': 'floor', 'cumsum': 'cumprod', 'vstack': 'hstack', 'sorted': 'list',
            'zeros': 'ones', 'unique': 'sort', 'isin': 'equal', 'intersect1d': 'union1d'}


def mutants_of(src, lo, hi):
    """Yield (description, new_source) for first-order mutants of the statements in lines [lo, hi]."""
    tree = ast.parse(src)
    sites = []
    for node in ast.walk(tree):
        ln = getattr(node, 'lineno', None)
        if ln is None or not (lo <= ln <= hi):
            continue
        sites.append(node)
    seen = set()
    for idx, node in enumerate(sites):
        for desc, mutate in _site_mutations(node):
            t2 = copy.deepcopy(tree)
            # locate the same node in the copy by (type, lineno, col_offset, end positions)
            key = (type(node), node.lineno, node.col_offset, getattr(node, 'end_lineno', None), getattr(node, 'end_col_offset', None))
            target = None
            for n2 in ast.walk(t2):
                if (type(n2), getattr(n2, 'lineno', None), getattr(n2, 'col_offset', None),
                        getattr(n2, 'end_lineno', None), getattr(n2, 'end_col_offset', None)) == key:
                    target = n2
                    break
            if target is None:
                continue
            try:
                mutate(target)
                ast.fix_missing_locations(t2)
                new_line = _line_patch(src, node, target)
            except Exception:
                continue
            if new_line is None:
                continue
            new_src, what = new_line
            if new_src == src or (node.lineno, what) in seen:
                continue
            seen.add((node.lineno, what))
            yield ('L%d %s: %s' % (node.lineno, desc, what), new_src)


def _line_patch(src, node, mutated):
    """Re-print only the mutated expression/statement node in place (keeps the rest of the file byte-identical)."""
    lines = src.splitlines(keepends=True)
    if node.lineno != node.end_lineno:
        return None            # multi-line nodes: skip (keeps the patch local and readable)
    line = lines[node.lineno - 1]
    # ast offsets are in utf-8 bytes
    b = line.encode('utf-8')
    old = b[node.col_offset:node.end_col_offset].decode('utf-8')
    new = ast.unparse(mutated)
    if isinstance(node, ast.stmt):
        new = new  # statements are unparsed whole
    if old == new:
        return None
    nb = b[:node.col_offset] + new.encode('utf-8') + b[node.end_col_offset:]
    lines[node.lineno - 1] = nb.decode('utf-8')
    return ''.join(lines), '`%s` -> `%s`' % (old.strip()[:70], new.strip()[:70])


def _site_mutations(node):
    if isinstance(node, ast.Compare) and len(node.ops) >= 1:
        for k, op in enumerate(node.ops):
            for alt in CMP.get(type(op), []):
                def m(t, k=k, alt=alt):
                    t.ops[k] = alt()
                yield ('compare', m)
    if isinstance(node, ast.BinOp):
        for alt in BIN.get(type(node.op), []):
            def m(t, alt=alt):
                t.op = alt()
            yield ('binop', m)
        # drop "+ 1" / "- 1"
        if isinstance(node.op, (ast.Add, ast.Sub)) and isinstance(node.right, ast.Constant) and node.right.value in (1, 2):
            def m(t):
                t.right = ast.Constant(0)
            yield ('drop-offset', m)
    if isinstance(node, ast.Constant) and isinstance(node.value, bool):
        def m(t):
            t.value = not t.value
        yield ('bool', m)
    elif isinstance(node, ast.Constant) and isinstance(node.value, int) and abs(node.value) <= 1000:
        for d in (1, -1):
            def m(t, d=d):
                t.value = t.value + d
            yield ('const%+d' % d, m)
    elif isinstance(node, ast.Constant) and isinstance(node.value, str) and node.value in ('left', 'right', 'stable', 'mergesort'):
        def m(t):
            t.value = {'left': 'right', 'right': 'left', 'stable': 'quicksort', 'mergesort': 'quicksort'}[t.value]
        yield ('str', m)
    if isinstance(node, ast.BoolOp):
        def m(t):
            t.op = ast.Or() if isinstance(t.op, ast.And) else ast.And()
        yield ('boolop', m)
    if isinstance(node, ast.UnaryOp) and isinstance(node.op, ast.Not):
        def m(t):
            t.op = ast.UAdd()
        yield ('drop-not', m)
    if isinstance(node, ast.UnaryOp) and isinstance(node.op, ast.USub) and not isinstance(node.operand, ast.Constant):
        def m(t):
            t.op = ast.UAdd()
        yield ('drop-neg', m)
    if isinstance(node, ast.Call):
        fn = node.func
        name = fn.attr if isinstance(fn, ast.Attribute) else (fn.id if isinstance(fn, ast.Name) else None)
        if name in NAMESWAP:
            def m(t, name=name):
                if isinstance(t.func, ast.Attribute):
                    t.func.attr = NAMESWAP[name]
                else:
                    t.func.id = NAMESWAP[name]
            yield ('call-swap', m)
        for k, kw in enumerate(node.keywords):
            if kw.arg in ('kind', 'minlength', 'axis', 'side', 'dtype', 'multiple_ok', 'mmap_mode'):
                def m(t, k=k):
                    del t.keywords[k]
                yield ('drop-kw %s' % kw.arg, m)
        if len(node.args) == 2 and name not in ('range', 'isinstance', 'getattr', 'zip'):
            def m(t):
                t.args = [t.args[1], t.args[0]]
            yield ('swap-args', m)
    if isinstance(node, ast.If) or isinstance(node, ast.While):
        def m(t):
            t.test = ast.UnaryOp(op=ast.Not(), operand=t.test)
        # statements span several lines: handled by patching only the test expression
        if node.test.lineno == node.test.end_lineno:
            pass
    if isinstance(node, ast.Slice):
        if node.lower is not None and node.upper is not None:
            def m(t):
                t.lower = None
            yield ('slice-drop-lower', m)
        if node.upper is not None:
            def m(t):
                t.upper = ast.BinOp(left=t.upper, op=ast.Sub(), right=ast.Constant(1))
            yield ('slice-upper-1', m)
    if isinstance(node, ast.Subscript) and isinstance(node.slice, ast.Constant) and isinstance(node.slice.value, int):
        def m(t):
            t.slice = ast.Constant({0: 1, 1: 0, -1: 0, 2: 1}.get(t.slice.value, t.slice.value + 1))
        yield ('index', m)


def run_mutant(k, pid, rel, desc, new_src, workers, keep_dir):
    tag = 'ms%d_%d' % (os.getpid(), k)
    d = tempfile.mkdtemp(prefix='msweep_')
    try:
        shutil.copytree(REPO, os.path.join(d, 'r'), ignore=shutil.ignore_patterns('.git', '__pycache__', '*.pyc'))
        root = os.path.join(d, 'r')
        open(os.path.join(root, rel), 'w').write(new_src)
        r = subprocess.run(['/venv/bin/python', '-m', 'py_compile', os.path.join(root, rel)], stdout=subprocess.PIPE,
                           stderr=subprocess.STDOUT)
        if r.returncode != 0:
            return {'k': k, 'desc': desc, 'file': rel, 'status': 'does-not-compile'}
        env = dict(os.environ, PHYLIB_REPO=root, VT_RUN_TAG=tag, VT_SKIP_PROOFS='1', VT_FAILFAST='1', VT_WORKERS=str(workers))
        t0 = time.time()
        r = subprocess.run([os.path.join(HERE, 'bin', 'check'), pid, '--tier', 'quick'], env=env, stdout=subprocess.PIPE,
                           stderr=subprocess.STDOUT, text=True, timeout=3600)
        out = r.stdout
        viol = [l for l in out.splitlines() if l.startswith('VIOLATION')]
        status = ('killed' if any('no-failing-input-found' not in l for l in viol) else
                  'detected-no-input' if viol else
                  'machinery-exit-2' if r.returncode == 2 else 'survived')
        codes = []
        rd = os.path.join(HERE, 'work', 'alt-replays', tag)
        if os.path.isdir(rd):
            for f in sorted(os.listdir(rd)):
                try:
                    codes.append(json.load(open(os.path.join(rd, f))).get('codes'))
                except Exception:
                    pass
        res = {'k': k, 'desc': desc, 'file': rel, 'status': status, 'codes': codes, 'wall_s': round(time.time() - t0, 1)}
        if status in ('survived', 'machinery-exit-2'):
            res['tail'] = out[-600:]
        return res
    except subprocess.TimeoutExpired:
        return {'k': k, 'desc': desc, 'file': rel, 'status': 'check-timeout'}
    finally:
        shutil.rmtree(d, ignore_errors=True)
        for sub in ('alt-replays', 'alt-evidence'):
            shutil.rmtree(os.path.join(HERE, 'work', sub, tag), ignore_errors=True)
        import glob as _g
        for w in _g.glob(os.path.join(HERE, 'work', pid + '.' + tag + '*')):
            shutil.rmtree(w, ignore_errors=True)


def main():
    ap = argparse.ArgumentParser()
    ap.add_argument('pid')
    ap.add_argument('--max', type=int, default=40)
    ap.add_argument('--jobs', type=int, default=4)
    ap.add_argument('--workers', type=int, default=4)
    ap.add_argument('--seed', type=int, default=0)
    ap.add_argument('--names', default='', help='comma-separated extra function names to mutate (besides those in the anchors)')
    ap.add_argument('--suffix', default='', help='suffix of the report files notes/mutation/<PID><suffix>.{md,json}')
    a = ap.parse_args()
    pid = a.pid.upper()
    funcs = anchored_functions(pid, [n for n in a.names.split(',') if n])
    allm = []
    for rel, name, lo, hi in funcs:
        src = open(os.path.join(REPO, rel)).read()
        for desc, new_src in mutants_of(src, lo, hi):
            allm.append((rel, '%s %s' % (name, desc), new_src))
    rng = random.Random(a.seed)
    rng.shuffle(allm)
    chosen = allm[:a.max]
    print('%s: %d anchored functions, %d first-order mutants, running %d' % (pid, len(funcs), len(allm), len(chosen)))
    results = []
    with ThreadPoolExecutor(max_workers=a.jobs) as ex:
        futs = [ex.submit(run_mutant, k, pid, rel, desc, new_src, a.workers, None) for k, (rel, desc, new_src) in enumerate(chosen)]
        for f in futs:
            r = f.result()
            results.append(r)
            print('  [%s] %s %s' % (r['status'], r['file'], r['desc']), flush=True)
    os.makedirs(os.path.join(HERE, 'notes', 'mutation'), exist_ok=True)
    counts = {}
    for r in results:
        counts[r['status']] = counts.get(r['status'], 0) + 1
    head = subprocess.run(['git', '-C', REPO, 'rev-parse', '--short', 'HEAD'], stdout=subprocess.PIPE, text=True).stdout.strip()
    with open(os.path.join(HERE, 'notes', 'mutation', pid + a.suffix + '.md'), 'w') as f:
        f.write('# Mutation sweep of %s (quick tier, /repo at %s, seed %d)\n\n' % (pid, head, a.seed))
        f.write('%d first-order mutants of the anchored functions were generated, %d sampled and run: %s\n\n' % (
            len(allm), len(chosen), ', '.join('%s %d' % kv for kv in sorted(counts.items()))))
        f.write('| # | status | file | mutant | failing codes |\n|---|---|---|---|---|\n')
        for r in results:
            f.write('| %d | %s | %s | %s | %s |\n' % (r['k'], r['status'], r['file'], r['desc'].replace('|', '\\|'), r.get('codes', '')))
        surv = [r for r in results if r['status'] in ('survived', 'machinery-exit-2', 'check-timeout')]
        if surv:
            f.write('\n## Not reported (to triage: equivalent mutant, outside the reading, or generator gap)\n\n')
            for r in surv:
                f.write('* #%d %s %s\n```\n%s\n```\n' % (r['k'], r['file'], r['desc'], r.get('tail', '')[-400:]))
    json.dump(results, open(os.path.join(HERE, 'notes', 'mutation', pid + a.suffix + '.json'), 'w'), indent=1)
    print(counts)


if __name__ == '__main__':
    main()
