#!/bin/sh
# tools/run_all.sh [tier] [jobs]: every claimed check of MANIFEST.json against /repo, J at a time; summary at the end.
TIER="${1:-quick}"; J="${2:-3}"
cd /verif || exit 2
mkdir -p work/all
PIDS=$(/venv/bin/python -c "import json;print(' '.join(c['property_id'] for c in json.load(open('MANIFEST.json'))['checks']))")
echo $PIDS | tr ' ' '\n' | xargs -P "$J" -I{} sh -c "bin/check {} --tier $TIER > work/all/{}.log 2>&1; echo {} exit \$? >> work/all/summary.$$"
sort work/all/summary.$$; grep -h "VIOLATION\|KNOWN-FINDING\|INTERNAL" work/all/*.log
bad=$(grep -vc "exit 0" work/all/summary.$$); rm -f work/all/summary.$$
echo "checks with non-zero exit: $bad"
