"""Semantic datasets for C09 (amplitude / depth / duration / peak-channel summaries).

Produces the same `sem` dictionaries as datasets.gen_semantic (so that datasets.render / materialise write the
files) but with the exact-arithmetic regime of DESIGN.md §8 C09 under the generator's control: integer templates,
integer inverse whitening matrix, integer amplitudes (optionally with per-id sums divisible by the counts),
first-principal-component feature rows whose positive squares sum to a power of two (or vanish), ids without
spikes at chosen positions.  Trusted base of the correspondence."""
import itertools

LCM10 = 2520          # curated datasets: template values are multiples of lcm(1..10) and n_spikes <= 10, so every
                      # weighted mean taken by cluster_waveforms is an integer

_POW2 = {1, 2, 4, 8, 16, 32, 64, 128}
_ROWS = {}


def pow2_rows(ncl):
    """all tuples in {0..8}^ncl whose sum of squares is a power of two"""
    if ncl not in _ROWS:
        _ROWS[ncl] = [t for t in itertools.product(range(0, 9), repeat=ncl) if sum(x * x for x in t) in _POW2]
    return _ROWS[ncl]


def feature_row(rng, ncl, vanish=False):
    """first-PC row: positive squares sum to a power of two; zeros may become negative values; or no positive part"""
    if vanish:
        return [float(-rng.randint(0, 8)) for _ in range(ncl)]
    if rng.random() < 0.3:          # any small integers: the division rounds, judged to 2^-48 relative
        return [float(rng.randint(-8, 8)) for _ in range(ncl)]
    t = list(rng.choice(pow2_rows(ncl)))
    return [float(x) if x > 0 else float(-rng.randint(0, 8)) for x in t]


def int_matrix(rng, nc, kind):
    """inverse whitening matrices with small integer entries (kind 'file'), or a whitening matrix whose LAPACK
    inverse is an exact integer matrix (kind 'inv': signed permutation with entries 1, -1, 1/2, 1/4)"""
    if kind == 'file':
        while True:
            M = [[float(rng.choice([0, 0, 1, 1, -1, 2, -2, 3])) for _ in range(nc)] for _ in range(nc)]
            if M != [list(r) for r in zip(*M)] and any(any(r) for r in M):      # not symmetric
                return M
    M = [[0.0] * nc for _ in range(nc)]
    p = list(range(nc))
    rng.shuffle(p)
    for i in range(nc):
        M[i][p[i]] = float(rng.choice([1, -1, 0.5, 0.25, 1]))
    return M


def assign_ids(rng, n, nids, empty):
    """n spike ids in range(nids); `empty` in none|start|middle|end|ends|most says which ids get no spike"""
    ids = list(range(nids))
    drop = set()
    if empty == 'start':
        drop = {0}
    elif empty == 'end':
        drop = {nids - 1}
    elif empty == 'middle' and nids >= 3:
        drop = {rng.randrange(1, nids - 1)}
    elif empty == 'ends':
        drop = {0, nids - 1}
    elif empty == 'tail2' and nids >= 3:
        drop = {nids - 1, nids - 2}
    elif empty == 'most':
        keep = rng.randrange(nids)
        drop = set(ids) - {keep}
    live = [i for i in ids if i not in drop] or [0]
    st = [rng.choice(live) for _ in range(n)]
    # every live id gets at least one spike when there is room
    for k, i in enumerate(live[:n]):
        st[k] = i
    rng.shuffle(st)
    return st


def curate(rng, st, nops=None, ops=None):
    """manual curation of the spike clusters.  ops: the operations to apply, in order (default: 1-3 drawn from
    merge / split / move / gap / renumber).  'renumber' moves ALL spikes of one cluster to a fresh id above the
    highest one (top + 1, + 2 or + 5): the old id stays in the id space as an id without spikes BELOW the highest
    id, so that the number of ids in use is smaller than max id + 1 (what phy does on every merge / split)."""
    sc = list(st)
    n = len(sc)
    if ops is None:
        ops = [rng.choice(['merge', 'split', 'move', 'gap', 'renumber'])
               for _ in range(nops if nops is not None else rng.randint(1, 3))]
    for op in ops:
        top = max(sc)
        if op == 'merge' and top >= 1:
            a, b = rng.sample(range(top + 1), 2)
            sc = [top + 1 if c in (a, b) else c for c in sc]
        elif op == 'split':
            a = rng.choice(sc)
            sc = [top + 1 if (c == a and rng.random() < 0.5) else c for c in sc]
        elif op == 'move':
            sc[rng.randrange(n)] = rng.randint(0, top + 1)
        elif op == 'renumber':
            a = rng.choice(sorted(set(sc)))
            new = top + rng.choice([1, 1, 2, 5])
            sc = [new if c == a else c for c in sc]
        else:   # leave a gap in the id space
            sc[rng.randrange(n)] = top + 2
    if sc == list(st):
        sc[0] = max(sc) + 1
    return sc


def gen(rng, **o):
    """One semantic dataset.  Options: nc, nt, nsw, nspk, curated, empty, wmi ('file'|'inv'|'none'), div (bool),
    features ('full'|'subset'|'none'), vanish (probability of an all-non-positive feature row), probes, shanks,
    rate, tamp (template value range), ties (bool), zero_template (bool), neg_amp (bool), curate_ops (list of
    curation operations, see curate)."""
    curated = o.get('curated', rng.random() < 0.4)
    nc = o.get('nc', rng.randint(2, 5))
    nt = o.get('nt', rng.randint(2, 4))
    nsw = o.get('nsw', rng.randint(2, 5))
    nspk = o.get('nspk', rng.randint(2, 10 if curated else 14))
    if curated:
        nspk = min(nspk, 10)
    scale = LCM10 if curated else 1
    tamp = o.get('tamp', rng.choice([3, 9, 20]))
    ties = o.get('ties', rng.random() < 0.5)
    tmpl = []
    for _ in range(nt):
        if ties:
            vals = [rng.choice([-2, -1, 0, 0, 1, 2]) for _ in range(nsw * nc)]
        else:
            vals = [rng.randint(-tamp, tamp) if rng.random() < 0.85 else 0 for _ in range(nsw * nc)]
        tmpl.append([[float(vals[s * nc + c] * scale) for c in range(nc)] for s in range(nsw)])
    empty = o.get('empty', rng.choice(['none', 'none', 'start', 'middle', 'end', 'end', 'ends', 'tail2', 'most']))
    st = assign_ids(rng, nspk, nt, empty)
    if o.get('zero_template', rng.random() < 0.12):
        k = rng.randrange(nt)
        tmpl[k] = [[0.0] * nc for _ in range(nsw)]
    cells = [(x, y) for x in range(0, 3) for y in range(0, 9)]
    pos = [[float(x * 16), float(y * 20)] for x, y in rng.sample(cells, nc)]
    samples, t = [], rng.randint(0, 3)
    for _ in range(nspk):
        samples.append(t)
        t += rng.choice([0, 1, 1, 2, 5])
    amps = [rng.randint(1, 8) for _ in range(nspk)]
    if o.get('neg_amp', rng.random() < 0.1):
        amps[rng.randrange(nspk)] = rng.choice([0, -1, -3])
    if o.get('div', rng.random() < 0.5):
        # per-template sums divisible by the counts: the rescaling factor is then exact
        for tid in set(st):
            idx = [k for k in range(nspk) if st[k] == tid]
            r = sum(amps[k] for k in idx) % len(idx)
            if r:
                amps[idx[-1]] += len(idx) - r
    sem = {
        'n_channels': nc, 'n_channels_dat': nc, 'n_templates': nt, 'n_samples_wf': nsw, 'n_spikes': nspk,
        'channel_map': list(range(nc)), 'positions': pos,
        'rate': float(o.get('rate', rng.choice([100, 1000, 25000, 30000]))),
        'spike_samples': samples, 'spike_templates': st,
        'spike_clusters': curate(rng, st, ops=o.get('curate_ops')) if curated else None,
        'amplitudes': [float(a) for a in amps], 'shanks': None, 'probes': None, 'wm': None, 'wmi': None,
        'similar': None, 'features': None, 'template_features': None, 'raw': None, 'templates': tmpl,
    }
    if o.get('shanks', rng.random() < 0.25):
        sem['shanks'] = [rng.randrange(2) for _ in range(nc)]
    if o.get('probes', rng.random() < 0.6):
        sem['probes'] = [rng.randrange(3) for _ in range(nc)]
    w = o.get('wmi', rng.choice(['file', 'file', 'file', 'inv', 'none']))
    if w == 'file':
        sem['wmi'] = int_matrix(rng, nc, 'file')
        if rng.random() < 0.5:
            sem['wm'] = int_matrix(rng, nc, 'inv')       # unrelated to the stored inverse on purpose
    elif w == 'inv':
        sem['wm'] = int_matrix(rng, nc, 'inv')
    fk = o.get('features', rng.choice(['full', 'full', 'full', 'subset', 'none']))
    if fk != 'none':
        ncl = rng.randint(2, min(3, nc))
        npcs = rng.choice([2, 3])
        ind = [rng.sample(range(nc), ncl) for _ in range(nt)]
        rows = None
        if fk == 'subset' and nspk >= 3:
            rows = sorted(rng.sample(range(nspk), rng.randint(2, nspk - 1)))
        nrows = len(rows) if rows is not None else nspk
        pv = o.get('vanish', 0.2)
        data = []
        for _ in range(nrows):
            first = feature_row(rng, ncl, vanish=rng.random() < pv)
            data.append([first] + [[float(rng.randint(-8, 8)) for _ in range(ncl)] for _ in range(npcs - 1)])
        sem['features'] = {'data': data, 'ind': ind, 'rows': rows, 'npcs': npcs, 'ncl': ncl}
    sem['opts'] = {'curated': curated, 'empty': empty, 'wmi': w, 'features': fk, 'ties': ties}
    return sem


def drop_spike(sem, k):
    """the dataset without spike k (None if it cannot be removed)"""
    import copy
    n = sem['n_spikes']
    if n <= 2:
        return None
    s = copy.deepcopy(sem)
    s['n_spikes'] = n - 1
    for key in ('spike_samples', 'spike_templates', 'spike_clusters', 'amplitudes'):
        if s.get(key) is not None:
            del s[key][k]
    f = s.get('features')
    if f is not None:
        if f['rows'] is None:
            del f['data'][k]
        else:
            if k in f['rows']:
                j = f['rows'].index(k)
                del f['rows'][j]
                del f['data'][j]
            f['rows'] = [r - 1 if r > k else r for r in f['rows']]
            if len(f['rows']) < 2:
                return None
    if s.get('spike_clusters') is not None and s['spike_clusters'] == s['spike_templates']:
        s['spike_clusters'] = None
    return s
