"""C03 helpers: a minimal KiloSort-style dataset directory around a recording whose (channel-mapped) samples are
the integers 10*row + col + 1, and the three _phy_spikes_subset.* files of a spike-subset store written with
phylib's own export_waveforms.  Trusted base of the correspondence, like datasets.py.

Abstract input of a 'model' case (small JSON):
  {'sizes': [rows per raw file], 'nc': mapped channels, 'cs': chunk length (sample_rate = cs/600),
   'dtype': raw sample type, 'samples': sorted spike samples (one per spike id), 'n': window length,
   'extra': unmapped channels in the raw file, 'cmrot': rotation of the channel map, 'offset': header bytes,
   'tdtype': dtype of spike_times.npy, 'raw': bool (is the raw file given to the model),
   'store': None | {'ids': [...], 'table': [[...]], 'factor': key, 'via': 'export'|'save'},
   'q_ids': [...], 'q_ch': None | [...], 'qkind': 'list'|'i64'|'i32',
   optional (stage 5): 'names': relative names of the raw files in the order given, 'pkind': 'path'|'str'}
"""
import os

FILLER = -77      # value of the raw-file columns that the channel map does not select


def channel_map(nc, extra, rot):
    """nc distinct columns of the nc + extra raw columns, in a rotated (non-monotonic when rot != 0) order."""
    ncd = nc + extra
    cols = [(rot + 2 * j) % ncd if ncd % 2 else (rot + j) % ncd for j in range(ncd)]
    seen, out = set(), []
    for c in cols + list(range(ncd)):
        if c not in seen:
            seen.add(c)
            out.append(c)
    return out[:nc]


def raw_matrix(np, nr, nc, extra, rot, dtype):
    """raw[r, cm[j]] = 10 r + j + 1; the other columns hold FILLER"""
    cm = channel_map(nc, extra, rot)
    raw = np.full((nr, nc + extra), FILLER, dtype=np.int64)
    vals = 10 * np.arange(nr)[:, None] + np.arange(nc)[None, :] + 1
    raw[:, cm] = vals
    return raw.astype(dtype), cm


def poison_raw(np, raw, cm, inp):
    """stage 6: every sample of the raw file outside the windows that the case requests (the queried spikes on the queried
    channels, the store's spikes on their stored channels; every unmapped column) holds an extreme value of the sample
    type (NaN / +-inf / largest magnitude for float files, +-32767/-32768 for int16).  Not used with via='save' stores
    (phylib chooses their spikes and channels)."""
    nr, nc, n = raw.shape[0], inp['nc'], inp['n']
    ns = len(inp['samples'])
    pairs = []
    for x in inp['q_ids']:
        if -ns <= x < ns:
            pairs.append((inp['samples'][x], inp['q_ch']))
    st = inp.get('store')
    if st:
        for x, row in zip(st['ids'], st['table']):
            pairs.append((inp['samples'][x], row))
    ref = np.zeros(raw.shape, dtype=bool)
    for s, ch in pairs:
        t0 = int(s) - n // 2
        lo, hi = max(t0, 0), min(t0 + n, nr)
        cols = list(range(nc)) if ch is None else sorted(set(int(c) for c in ch if c >= 0))
        if lo < hi and cols:
            ref[lo:hi, [cm[c] for c in cols]] = True
    kind = inp['poison']
    if raw.dtype.kind == 'f':
        big = float(np.finfo(raw.dtype).max)
        vals = {'nan': [np.nan], 'inf': [np.inf], 'ninf': [-np.inf], 'big': [big, -big],
                'mix': [np.inf, np.nan, -np.inf, big, -big]}[kind]
    else:
        info = np.iinfo(raw.dtype)
        vals = [info.max, info.min] if kind != 'ninf' else [info.min]
    idx = np.argwhere(~ref)
    if len(idx):
        raw[idx[:, 0], idx[:, 1]] = np.array([vals[t % len(vals)] for t in range(len(idx))], dtype=raw.dtype)
    return raw


def write_dataset(np, d, inp):
    """-> kwargs for TemplateModel (with dat_path only if inp['raw'])"""
    from pathlib import Path
    nr, nc, n = sum(inp['sizes']), inp['nc'], inp['n']
    raw, cm = raw_matrix(np, nr, nc, inp.get('extra', 0), inp.get('cmrot', 0), inp['dtype'])
    if inp.get('poison'):
        raw = poison_raw(np, raw, cm, inp)
    paths, acc = [], 0
    names = inp.get('names')          # stage 5: names of the raw files in the order they are GIVEN (None: raw0.dat, raw1.dat, ...)
    for j, s in enumerate(inp['sizes']):
        p = os.path.join(d, *(names[j].split('/') if names else ['raw%d.dat' % j]))
        if os.path.dirname(p) != d:
            os.makedirs(os.path.dirname(p), exist_ok=True)
        with open(p, 'wb') as f:
            f.write(b'\x05' * inp.get('offset', 0))
            f.write(raw[acc:acc + s].tobytes())
        acc += s
        paths.append(p if inp.get('pkind') == 'str' else Path(p))
    ns = len(inp['samples'])
    nt = 2
    np.save(os.path.join(d, 'spike_times.npy'), np.array(inp['samples'], dtype=inp.get('tdtype', 'uint64')))
    np.save(os.path.join(d, 'spike_templates.npy'), np.array([i % nt for i in range(ns)], dtype=np.uint32))
    np.save(os.path.join(d, 'channel_map.npy'), np.array(cm, dtype=np.int32))
    np.save(os.path.join(d, 'channel_positions.npy'),
            np.array([[0.0, 20.0 * j] for j in range(nc)], dtype=np.float64))
    # templates only fix n_samples_waveforms (= n) here; distinct peak channels, exact in float32
    t = np.zeros((nt, n, nc), dtype=np.float32)
    for k in range(nt):
        t[k, n // 2, k % nc] = -8.0 - k
        t[k, 0, (k + 1) % nc] = 1.0
    np.save(os.path.join(d, 'templates.npy'), t)
    kw = {'dir_path': Path(d), 'sample_rate': inp['cs'] / 600.0, 'n_channels_dat': nc + inp.get('extra', 0),
          'dtype': np.dtype(inp['dtype']), 'offset': inp.get('offset', 0)}
    if len(inp['sizes']) > 1 and inp.get('offset', 0):
        raise ValueError('offset only with a single raw file')
    return kw, paths


STORE_FILES = ('_phy_spikes_subset.waveforms.npy', '_phy_spikes_subset.channels.npy', '_phy_spikes_subset.spikes.npy')


def write_store(np, d, model, st, factor):
    """the store of the abstract input, written next to the dataset with phylib's export_waveforms reading the
    model's own (channel-mapped) traces -- what TemplateModel.save_spikes_subset_waveforms does after choosing
    spikes and channels"""
    from phylib.io.traces import export_waveforms
    ids = np.array(st['ids'], dtype=np.int64)
    table = np.array(st['table'], dtype=np.int32).reshape(len(st['ids']), -1)
    np.save(os.path.join(d, STORE_FILES[2]), ids)
    np.save(os.path.join(d, STORE_FILES[1]), table)
    pre = st.get('pre')
    if pre == 'prev':         # stage 6: the fixed-name waveforms file already exported once, with another unit factor
        export_waveforms(os.path.join(d, STORE_FILES[0]), model.traces, model.spike_samples[ids], table,
                         n_samples_waveforms=model.n_samples_waveforms, sample2unit=3.0)
    elif pre:                 # ... or a complete file of the same shape / dtype holding other numbers
        np.save(os.path.join(d, STORE_FILES[0]),
                np.full((len(ids), model.n_samples_waveforms, table.shape[1]), 7.0))
    export_waveforms(os.path.join(d, STORE_FILES[0]), model.traces, model.spike_samples[ids], table,
                     n_samples_waveforms=model.n_samples_waveforms, sample2unit=factor)


def read_store(np, d):
    """(ids, table) as written by save_spikes_subset_waveforms, or None"""
    ps = [os.path.join(d, f) for f in STORE_FILES]
    if not all(os.path.exists(p) for p in ps):
        return None
    ids = np.load(ps[2])
    table = np.load(ps[1])
    return [int(x) for x in ids.ravel()], [[int(x) for x in r] for r in table.reshape(len(ids.ravel()), -1)]
