"""Abstract multi-probe inputs for C12 (channel / template side of phylib.io.merge.Merger) -> probe
directories on disk, and canonical observation of the merged directory.  Trusted base of the
correspondence (DESIGN.md §6.4).

Abstract input (small JSON):
  {'route': 'methods' | 'merge', 'vec2d': bool,
   'probes': [{'cm': [ints], 'cm_dtype': str,
               'pos': [[x4, y4], ...]   integers = coordinates in quarter units (x = x4 / 4), 'pos_dtype': str,
               'tmpl': [t][s][c] small ints, 'tmpl_dtype': str,
               'pc': [t][j] ints in [0, n_channels), 'tf': [t][j] ints in [0, n_templates), 'ind_dtype': str,
               'tf_dtype': str (optional, default ind_dtype),
               'wm' | 'wmi' | 'sim': None | [[numbers exact in float32]],
               'wm_dtype' | 'wmi_dtype' | 'sim_dtype': 'float32' | 'float64' (optional, default float64/float64/float32),
               'ncd': int, 'rate': float, 'offset': int,
               'st': [template id of each spike of the probe]   (optional),
               'lay': {file key: form}   (optional) STORAGE FORM of the probe's .npy files: file key in LAY_KEYS ('cm', 'pos',
                                   'tmpl', 'pc', 'tf', 'wm', 'wmi', 'sim'), form a string that may contain 'F' (the file is
                                   written in Fortran / column-major order, header fortran_order=True, as MATLAB npy writers
                                   do) and '>' (the file is written byte-swapped / big-endian, header descr '>i4', '>f8' ...).
                                   np.load returns exactly the same values and the same dtype name for every form, so
                                   the model does not see this field: the merged dataset must not depend on it.}, ...],
   'pre': [[probe indices], ...]   (optional) HISTORY: merges done earlier IN THE SAME PROCESS over (sub)lists of the same
                                   probe directories (any order, repetition of a list allowed), each into its own output
                                   directory, before the merge that is observed,
   'again': int (optional, default 1)  the observed merge is run this many times on the SAME Merger object / output dir}
Matrix entries are stored with the dtype of their file: a value that is not exact in float32 is rounded when its
file is float32 (mat_stored = what the file holds = what the model is given); float64 files hold full double precision
values (0.1, 1/3, 1 + 2**-30, 1e-50 ...), so that a conversion of one probe's matrix to another probe's dtype is visible.
Spike files: spike i of probe k has time 3 i + k, template (= cluster) st[i], amplitude 1.  Without 'st' every probe gets
max(2, n_templates + 1) spikes that use every template.  With 'st' some templates of a probe may have no spike --
trailing ones (the numbers of templates and max(spike_templates) + 1 then differ: the cross-property clause 27 of
C12/Corr.v) or middle ones."""
import os

UNIT = 4     # positions are integers in units of 1/UNIT


def gen_probe(rng, nc=None, nt=None, ns=3, pcw=2, tfw=2, **o):
    nc = nc if nc is not None else rng.randint(1, 6)
    nt = nt if nt is not None else rng.randint(1, 4)
    extra = o.get('extra', rng.choice([0, 0, 1, 3]))
    ncd = nc + extra
    cm = rng.sample(range(ncd), nc)
    if o.get('sorted_cm', rng.random() < 0.3):
        cm.sort()
    kind = o.get('xkind', rng.choice(['zero', 'zero', 'col', 'two', 'wide', 'frac', 'posmin']))
    if kind == 'zero':            # single column at x = 0
        xs = [0] * nc
    elif kind == 'col':           # single column at x > 0
        xs = [rng.choice([4, 44, 64, 2])] * nc
    elif kind == 'two':
        xs = [rng.choice([0, 64]) for _ in range(nc)]
    elif kind == 'posmin':
        xs = [rng.choice([44, 108, 172, 236]) for _ in range(nc)]
    elif kind == 'frac':
        xs = [rng.choice([0, 1, 2, 3, 5, 6, 64, 65]) for _ in range(nc)]
    else:
        xs = [rng.randint(0, 40) * 4 for _ in range(nc)]
    pos = [[x, rng.randint(0, 60) * 2] for x in xs]
    tmpl = [[[rng.randint(-9, 9) if rng.random() < 0.85 else 0 for _ in range(nc)] for _ in range(ns)] for _ in range(nt)]
    pc = [[rng.randrange(nc) for _ in range(pcw)] for _ in range(nt)]
    tf = [[rng.randrange(nt) for _ in range(tfw)] for _ in range(nt)]

    def mat(n):
        return [[rng.choice([0, 0, 1, 2, -1, 0.5, 3, -4]) for _ in range(n)] for _ in range(n)]
    stmode = o.get('stmode', rng.choice(['all', 'all', 'trailing', 'trailing', 'middle', 'random']))
    if stmode == 'trailing' and nt >= 2:          # the last u templates have no spike
        used = list(range(nt - rng.randint(1, nt - 1)))
    elif stmode == 'middle' and nt >= 3:          # a middle template has no spike, the last one has
        drop = rng.randrange(1, nt - 1)
        used = [t for t in range(nt) if t != drop]
    elif stmode == 'random':
        used = sorted(rng.sample(range(nt), rng.randint(1, nt)))
    else:
        used = list(range(nt))
    st = list(used) + [rng.choice(used) for _ in range(rng.randint(0, 2))]
    if stmode in ('middle', 'all') and (nt - 1) not in st:
        st.append(nt - 1)
    rng.shuffle(st)
    if len(st) < 2:
        st.append(st[0])
    p = {
        'st': st,
        'cm': cm, 'cm_dtype': o.get('cm_dtype', rng.choice(['int32', 'int32', 'int64', 'uint32'])),
        'pos': pos, 'pos_dtype': o.get('pos_dtype', rng.choice(['float64', 'float64', 'float32'])),
        'tmpl': tmpl, 'tmpl_dtype': o.get('tmpl_dtype', rng.choice(['float32', 'float32', 'float64'])),
        'pc': pc, 'tf': tf,
        'ind_dtype': o.get('ind_dtype', rng.choice(['uint32', 'uint32', 'int32', 'int64', 'uint64', 'uint16'])),
        'wm': mat(nc) if o.get('wm', True) else None,
        'wmi': mat(nc) if o.get('wmi', False) else None,
        'sim': mat(nt) if o.get('sim', True) else None,
        'ncd': ncd, 'rate': o.get('rate', 30000.0), 'offset': o.get('offset', rng.choice([0, 0, 7])),
        'rate_lit': o.get('rate_lit', 'float'),
    }
    p['tf_dtype'] = o.get('tf_dtype', p['ind_dtype'] if rng.random() < 0.6 else rng.choice(['uint32', 'int32', 'int64']))
    for name, dflt in MAT_DTYPE.items():
        p[name + '_dtype'] = o.get(name + '_dtype', dflt if rng.random() < 0.5 else rng.choice(['float32', 'float64']))
    # full-precision entries: values that are not exact in float32 (kept as they are by a float64 file, rounded once
    # - at materialisation - by a float32 file, see mat_stored)
    fine = o.get('fine', rng.random() < 0.6)
    for name in MAT_DTYPE:
        if fine and p[name] is not None:
            m = p[name]
            for _ in range(rng.randint(1, max(1, len(m)))):
                m[rng.randrange(len(m))][rng.randrange(len(m))] = rng.choice(FINE)
            if len(m) >= 1 and rng.random() < 0.5:
                m[0][0] = rng.choice(FINE[:6])
    lay = o.get('lay')
    if lay is None:
        lay = gen_lay(rng) if rng.random() < 0.35 else {}
    if lay:
        p['lay'] = dict(lay)
    return p


LAY_KEYS = ('cm', 'pos', 'tmpl', 'pc', 'tf', 'wm', 'wmi', 'sim')
LAY_FORMS = ('F', '>', 'F>')


def gen_lay(rng):
    """storage form of the files of one probe: every file in one form (a dataset written by a column-major / big-endian
    tool chain), or an independent form per file"""
    mode = rng.choice(['all', 'all', 'each', 'each', 'each', 'one'])
    if mode == 'all':
        f = rng.choice(LAY_FORMS)
        return {k: f for k in LAY_KEYS}
    if mode == 'one':
        return {rng.choice(LAY_KEYS): rng.choice(LAY_FORMS)}
    lay = {}
    for k in LAY_KEYS:
        f = rng.choice(('', '') + LAY_FORMS)
        if f:
            lay[k] = f
    return lay


def store(path, a, form=''):
    """np.save of the array in the given storage form ('' = C order, native byte order)"""
    import numpy as np
    if '>' in (form or ''):
        a = a.astype(a.dtype.newbyteorder('>'))
    if 'F' in (form or ''):
        a = np.asfortranarray(a)
    np.save(path, a)


# matrix entries that float32 cannot hold exactly (or at all: 1e-50 underflows to 0 in float32)
FINE = [0.1, 1.0 / 3, -2.7, 1 + 2.0 ** -30, 0.30000000000000004, -0.7071067811865476, 123456.789, 1e-9, 1e-50, 16777217.0]


def stored(v, dtype):
    """the value a file of the given float dtype holds for the abstract entry v"""
    if dtype == 'float32':
        import struct
        return struct.unpack('f', struct.pack('f', float(v)))[0]
    return v


def mat_stored(p, name):
    """matrix `name` ('wm' | 'wmi' | 'sim') of the probe as its file holds it (None = no file)"""
    m = p.get(name)
    if m is None:
        return None
    dt = p.get(name + '_dtype', MAT_DTYPE[name])
    return [[stored(v, dt) for v in row] for row in m]


MAT_DTYPE = {'wm': 'float64', 'wmi': 'float64', 'sim': 'float32'}


def probe_dtypes(p):
    """dtype names of the probe's files: (channel_map, channel_positions, templates, pc_feature_ind, template_feature_ind,
    whitening_mat | None, whitening_mat_inv | None, similar_templates | None)"""
    return (p['cm_dtype'], p['pos_dtype'], p['tmpl_dtype'], p['ind_dtype'], p.get('tf_dtype', p['ind_dtype'])) + tuple(
        (p.get(n + '_dtype', MAT_DTYPE[n]) if p.get(n) is not None else None) for n in ('wm', 'wmi', 'sim'))


def _np_dtype(name):
    import numpy as np
    return np.dtype(name)


def materialise(inp, base):
    """Write one directory per probe under base; returns the list of directories."""
    import numpy as np
    subdirs = []
    for k, p in enumerate(inp['probes']):
        d = os.path.join(base, 'p%d' % k)
        os.makedirs(d)
        lay = p.get('lay') or {}
        n, nt = len(p['cm']), len(p['tmpl'])
        cm = np.array(p['cm'], dtype=p['cm_dtype'])
        if inp.get('vec2d'):
            cm = cm.reshape(-1, 1)
        store(os.path.join(d, 'channel_map.npy'), cm, lay.get('cm'))
        pos = (np.array(p['pos'], dtype='float64') / UNIT).astype(p['pos_dtype']).reshape(n, 2)
        store(os.path.join(d, 'channel_positions.npy'), pos, lay.get('pos'))
        store(os.path.join(d, 'templates.npy'), np.array(p['tmpl'], dtype=p['tmpl_dtype']).reshape(nt, -1, n), lay.get('tmpl'))
        store(os.path.join(d, 'pc_feature_ind.npy'), np.array(p['pc'], dtype=p['ind_dtype']).reshape(nt, -1), lay.get('pc'))
        dts = probe_dtypes(p)
        store(os.path.join(d, 'template_feature_ind.npy'), np.array(p['tf'], dtype=dts[4]).reshape(nt, -1), lay.get('tf'))
        if p.get('wm') is not None:
            store(os.path.join(d, 'whitening_mat.npy'), np.array(p['wm'], dtype=dts[5]).reshape(n, n), lay.get('wm'))
        if p.get('wmi') is not None:
            store(os.path.join(d, 'whitening_mat_inv.npy'), np.array(p['wmi'], dtype=dts[6]).reshape(n, n), lay.get('wmi'))
        if p.get('sim') is not None:
            store(os.path.join(d, 'similar_templates.npy'), np.array(p['sim'], dtype=dts[7]).reshape(nt, nt), lay.get('sim'))
        with open(os.path.join(d, 'params.py'), 'w') as f:
            f.write("dat_path = ['raw%d.dat']\nn_channels_dat = %d\ndtype = 'int16'\noffset = %d\n"
                    "sample_rate = %s\nhp_filtered = False\n" % (k, p['ncd'], p['offset'], rate_literal(p)))
        # spike side (read unconditionally by the spike methods of Merger)
        st = np.array(spike_templates(p), dtype='uint32')
        nspk = len(st)
        np.save(os.path.join(d, 'spike_times.npy'), (np.arange(nspk, dtype='uint64') * 3 + k))
        np.save(os.path.join(d, 'spike_templates.npy'), st)
        np.save(os.path.join(d, 'spike_clusters.npy'), st.copy())
        np.save(os.path.join(d, 'amplitudes.npy'), np.ones(nspk, dtype='float64'))
        subdirs.append(d)
    return subdirs


def rate_literal(p):
    """The text of the sampling rate in the probe's params.py: repr of the float (round-trips exactly), or an int
    literal when the probe asks for one and the rate is integer-valued."""
    r = float(p['rate'])
    if p.get('rate_lit') == 'int' and r == int(r):
        return '%d' % int(r)
    return repr(r)


def spike_templates(p):
    nt = len(p['tmpl'])
    return list(p['st']) if p.get('st') is not None else [i % nt for i in range(max(2, nt + 1))]


def spike_times(p, k):
    return [3 * i + k for i in range(len(spike_templates(p)))]


METHODS = [('write_params', 26), ('write_spike_times', 27), ('write_spike_data', 27), ('write_spike_clusters', 27),
           ('write_channel_data', 21), ('write_channel_positions', 21),
           ('write_templates', 23), ('write_template_data', 25), ('write_misc', 24)]


def run_merger(inp, base):
    """Run the real Merger; returns (list of clause codes of the methods that raised, out dir)."""
    from pathlib import Path
    from phylib.io.merge import Merger
    import phylib.io.merge as mm
    subdirs = materialise(inp, base)
    # history: earlier merges in this process over (sub)lists of the same probe directories; what they write and
    # whether they raise is not observed (each is judged as a case of its own elsewhere in the stream) -- only that
    # the merge observed below does not depend on them
    for i, idxs in enumerate(inp.get('pre') or []):
        pm = Merger([Path(subdirs[j]) for j in idxs], Path(os.path.join(base, 'pre%d' % i)))
        saved = mm.load_model
        mm.load_model = lambda *a, **k: None
        try:
            if inp.get('route') == 'merge':
                pm.merge()
            else:
                for name, _ in METHODS:
                    try:
                        getattr(pm, name)()
                    except Exception:
                        pass
        except Exception:
            pass
        finally:
            mm.load_model = saved
    out = os.path.join(base, 'out')
    m = Merger([Path(s) for s in subdirs], Path(out))
    crashed = []
    for _ in range(max(1, int(inp.get('again') or 1))):
        if inp.get('route') == 'merge':
            # Merger.merge() ends with load_model(out/params.py), which is outside this property and writes
            # into the merged directory (whitening_mat_inv.npy, see C04): it is stubbed out for this call.
            saved = mm.load_model
            mm.load_model = lambda *a, **k: None
            try:
                m.merge()              # an exception here is a crash of the whole case
            finally:
                mm.load_model = saved
        else:
            for name, code in METHODS:
                try:
                    getattr(m, name)()
                except Exception:
                    crashed.append(code)
    return sorted(set(crashed)), out


def observe(out):
    """Canonical content of the merged directory: ints as int, floats as exact tokens, arrays as nested lists;
    an array whose number of dimensions is not the expected one is reported as None."""
    import numpy as np
    from . import datasets as D

    def load(name, ndim, kind):
        p = os.path.join(out, name)
        if not os.path.exists(p):
            return None
        a = np.load(p)
        if a.ndim != ndim or a.size == 0:
            return None
        if kind == 'int':
            if a.dtype.kind not in 'iu':
                return None
            return a.tolist()
        flat = [D.tok(float(v)) for v in a.astype(np.float64).ravel()]
        return _nest(flat, a.shape)
    obs = {}
    try:
        from phylib.utils._misc import read_python
        par = read_python(os.path.join(out, 'params.py'))
        if par.get('dat_path') == [] and isinstance(par.get('n_channels_dat'), int):
            obs['par'] = [D.tok(float(par['sample_rate'])), int(par['n_channels_dat']), int(par['offset'])]
        else:
            obs['par'] = None
    except Exception:
        obs['par'] = None
    obs['map'] = load('channel_map.npy', 1, 'int')
    obs['probe'] = load('channel_probe.npy', 1, 'int')
    pos = load('channel_positions.npy', 2, 'tok')
    obs['pos'] = pos if (pos is not None and all(len(r) == 2 for r in pos)) else None
    obs['tmpl'] = load('templates.npy', 3, 'tok')
    obs['pc'] = load('pc_feature_ind.npy', 2, 'int')
    obs['tf'] = load('template_feature_ind.npy', 2, 'int')
    obs['wm'] = load('whitening_mat.npy', 2, 'tok')
    obs['wmi'] = load('whitening_mat_inv.npy', 2, 'tok')
    obs['sim'] = load('similar_templates.npy', 2, 'tok')
    obs['stimes'] = load('spike_times.npy', 1, 'int')
    obs['st'] = load('spike_templates.npy', 1, 'int')

    def dt(name):
        p = os.path.join(out, name)
        return np.load(p, mmap_mode='r').dtype.name if os.path.exists(p) else None
    # dtype names of the merged files (None = not written), in the order of PV.C12.Dtypes.mdt
    obs['dt'] = [dt(n) for n in ('channel_map.npy', 'channel_probe.npy', 'channel_positions.npy', 'templates.npy',
                                 'pc_feature_ind.npy', 'template_feature_ind.npy', 'whitening_mat.npy',
                                 'whitening_mat_inv.npy', 'similar_templates.npy')]
    return obs


def _nest(flat, shape):
    if len(shape) == 1:
        return list(flat)
    step = 1
    for s in shape[1:]:
        step *= s
    return [_nest(flat[i * step:(i + 1) * step], shape[1:]) for i in range(shape[0])]
