"""bin/check <ID> --tier quick|thorough [--replay PATH]

One run = hygiene tripwire, proof obligations re-checked by the kernel, correspondence between
/repo's working tree and the Coq model on generated cases, verdict, evidence.  DESIGN.md §3.1.

Exit codes: 0 = the property held on everything explored (KNOWN-FINDING lines possible);
1 = at least one VIOLATION line; 2 = the machinery itself failed (never a VIOLATION)."""
import argparse
import collections
import importlib
import itertools
import json
import os
import random
import re
import shutil
import sys
import time
import traceback

from . import coqrun, findings, pool

VERIF = coqrun.VERIF
# A run against another tree than /repo (seeded changes, fix branches: PHYLIB_REPO=/tmp/...) must not
# overwrite the committed evidence or mix its replays with those of /repo.
ALT = os.path.realpath(os.environ.get('PHYLIB_REPO') or '/repo') != '/repo'
# VT_RUN_TAG (developer tools only: mutation sweeps, seeded-change evaluation run in parallel) gives a run against
# another tree its own work / replay / evidence directories, so that several runs of one property do not collide.
TAG = re.sub(r'[^A-Za-z0-9_.-]', '_', os.environ.get('VT_RUN_TAG') or '') if ALT else ''
REPLAY_DIR = os.path.join('work', 'alt-replays', TAG) if ALT else 'replays'
EVIDENCE_DIR = os.path.join('work', 'alt-evidence', TAG) if ALT else 'evidence'
# developer switches, honoured only for runs against another tree (never for a registered check on /repo):
SKIP_PROOFS = ALT and bool(os.environ.get('VT_SKIP_PROOFS'))     # do not re-check Props.v (sweeps re-run the same proofs)
FAILFAST = ALT and bool(os.environ.get('VT_FAILFAST'))           # stop evaluating cases after the first failing slice


def _key(case):
    return json.dumps([case.get('kind'), case.get('inp')], sort_keys=True, default=str)


def _evaluate(prop, pid, cases, workdir, tag, timeout_s):
    """Run implementation and Coq comparator on cases. Returns (obs list, {idx: codes})."""
    obs = list(pool.run(prop.__name__, 'run_case', cases, timeout_s=timeout_s))
    encoded = []
    for i, (c, o) in enumerate(zip(cases, obs)):
        try:
            cin, cobs = prop.encode(c, o)
        except Exception as e:  # noqa
            # an observation of a shape the encoder does not know (only a changed implementation produces one):
            # judged as what it is, an outcome that is not the model's, instead of stopping the whole check
            o = ('crash', 'UnencodableObservation', '%s: %s | %s' % (type(e).__name__, str(e)[:80], repr(o)[:200]))
            obs[i] = o
            cin, cobs = prop.encode(c, o)
        encoded.append((i, cin, cobs))
    fails, nsh = coqrun.evaluate(pid, getattr(prop, 'COQ_HEADER', ''), encoded, workdir, tag=tag)
    return obs, fails, nsh


def _is_spec(code):
    return 20 <= code < 100


def _shrink(prop, pid, case, codes, workdir, timeout_s, tagset, rounds=12, width=48):
    """Greedy batch delta-debugging on the abstract input (DESIGN.md §3.1 step 4, §7 rule 3)."""
    if not hasattr(prop, 'shrink'):
        return case
    want = set(c for c in codes if _is_spec(c)) or set(codes)
    cur = case
    for r in range(rounds):
        cands = list(itertools.islice(prop.shrink(cur), width))
        # a candidate may not acquire a known-finding tag the original did not have
        cands = [c for c in cands if set(findings.tags_of(prop, pid, c)) <= tagset]
        if not cands:
            break
        try:
            _, fails, _ = _evaluate(prop, pid, cands, workdir, 'shrink%d' % r, timeout_s)
        except Exception:
            break
        nxt = None
        for i, c in enumerate(cands):
            cs = set(fails.get(i, []))
            if cs & want and 3 not in cs:
                nxt = c
                break
        if nxt is None:
            break
        cur = nxt
    return cur


def _write_replay(pid, tier, seed, n, kind, prop, case, obs, codes, extra=None):
    os.makedirs(os.path.join(VERIF, REPLAY_DIR), exist_ok=True)
    path = os.path.join(REPLAY_DIR, '%s_%s_%d.json' % (pid, seed, n))
    clauses = getattr(prop, 'CLAUSES', {})
    doc = {
        'property': pid, 'tier': tier, 'seed': seed, 'kind': kind,
        'codes': sorted(set(codes)),
        'clauses': {str(c): clauses.get(c, clauses.get(str(c), '')) for c in sorted(set(codes))},
        'case': case, 'observed': obs,
        'python_repro': prop.repro(case) if (case is not None and hasattr(prop, 'repro')) else '',
    }
    if extra:
        doc.update(extra)
    with open(os.path.join(VERIF, path), 'w') as f:
        json.dump(doc, f, indent=1, default=str)
    return path


def main(argv=None):
    ap = argparse.ArgumentParser()
    ap.add_argument('pid')
    ap.add_argument('--tier', default=os.environ.get('VERIF_TIER') or 'quick',
                    choices=['quick', 'thorough'])
    ap.add_argument('--replay')
    ap.add_argument('--keep', action='store_true')
    args = ap.parse_args(argv)
    pid = args.pid.upper()
    tier = args.tier
    try:
        seed = int(os.environ.get('VERIF_SEED') or 0)
    except ValueError:
        seed = 0
    t0 = time.time()
    # one work directory per run (two runs of one property may be going on at the same time: another tree, another
    # session); leftovers of runs that ended badly more than two hours ago are swept here
    wroot = os.path.join(VERIF, 'work')
    os.makedirs(wroot, exist_ok=True)
    for name in os.listdir(wroot):
        if name.startswith(pid + '.') and '.p' in name:
            full = os.path.join(wroot, name)
            try:
                if time.time() - os.path.getmtime(full) > 7200:
                    shutil.rmtree(full, ignore_errors=True)
            except OSError:
                pass
    workdir = os.path.join(wroot, pid + ('.' + TAG if TAG else '') + '.p%d' % os.getpid())
    shutil.rmtree(workdir, ignore_errors=True)
    os.makedirs(workdir, exist_ok=True)
    os.environ['VT_WORK'] = workdir
    try:
        rc = _main(pid, tier, seed, args, workdir, t0)
    except SystemExit:
        raise
    except BaseException:
        traceback.print_exc()
        print('INTERNAL-ERROR property=%s (machinery failure, not a verdict about phylib)' % pid)
        rc = 2
    if rc == 0 and not args.keep:
        shutil.rmtree(workdir, ignore_errors=True)
    else:
        print('work directory kept: %s' % workdir)
    sys.exit(rc)


def _main(pid, tier, seed, args, workdir, t0):
    prop = importlib.import_module('vt.props.' + pid.lower())
    timeout_s = getattr(prop, 'TIMEOUT', {}).get(tier, 10 if tier == 'quick' else 60)

    # 1. hygiene ------------------------------------------------------------------------------
    hy = coqrun.hygiene(pid)
    if hy:
        print('HYGIENE tripwire:\n  ' + '\n  '.join(hy))
        return 2

    # 2. proof obligations ---------------------------------------------------------------------
    ok, log = coqrun.build(pid)
    if not ok:
        proofs = {'compiled': False, 'obligations': 0, 'discharged': 0, 'theorems': [], 'unprinted': [], 'log': log}
    elif SKIP_PROOFS:
        proofs = {'compiled': True, 'obligations': 1, 'discharged': 1, 'theorems': [], 'unprinted': [], 'log': '',
                  'skipped': True}
    else:
        proofs = coqrun.check_props(pid, os.path.basename(workdir))
    if not ok:
        # distinguish "my Coq development does not build" from a verdict: the development does not
        # depend on /repo, so a build failure can only be my own edit.
        print(log)
        print('Coq development does not build')
        return 2
    proofs_ok = proofs['compiled'] and proofs['obligations'] > 0 and \
        proofs['discharged'] == proofs['obligations'] and not proofs['unprinted']
    print('[%s] proofs: %d/%d theorems of %s/Props.v re-checked, all assumptions %s (%.0fs)' % (
        pid, proofs['discharged'], proofs['obligations'], pid,
        'closed/stdlib' if proofs_ok else 'NOT OK', time.time() - t0))

    chk = None
    if tier == 'thorough' and not args.replay and proofs_ok:
        chk = coqrun.coqchk(pid)
        print('[%s] coqchk -o PV.%s.Props: %s, axioms: %s (%.0fs)' % (
            pid, pid, 'ok' if chk['ok'] else 'NOT OK', chk['axioms'], chk['wall_s']))
        if not chk['ok']:
            print(chk['log'])
            print('coqchk rejects the compiled development (machinery failure)')
            return 2

    # 3. correspondence -------------------------------------------------------------------------
    rng = random.Random(seed)
    if args.replay:
        doc = json.load(open(args.replay if os.path.isabs(args.replay)
                             else os.path.join(VERIF, args.replay)))
        cases = [doc['case']] if doc.get('case') is not None else []
    else:
        cases = prop.generate(tier, rng)
    # de-duplicate by abstract input, keep order
    seen, uniq = set(), []
    for c in cases:
        k = _key(c)
        if k not in seen:
            seen.add(k)
            uniq.append(c)
    cases = uniq
    known = findings.load(pid)
    tags = [findings.tags_of(prop, pid, c) for c in cases]
    t1 = time.time()
    if FAILFAST and len(cases) > 600:
        obs, fails, nshards, done = [], {}, 0, 0
        step = max(400, len(cases) // 12)
        while done < len(cases):
            o, f, n = _evaluate(prop, pid, cases[done:done + step], workdir, 'cases%d' % done, timeout_s)
            obs += o
            fails.update({k + done: v for k, v in f.items()})
            nshards += n
            done += len(o)
            if f:
                break
        cases, tags = cases[:done], tags[:done]
    else:
        obs, fails, nshards = _evaluate(prop, pid, cases, workdir, 'cases', timeout_s)
    print('[%s] correspondence: %d cases, %d shards, %d failing (%.0fs impl+coq)' % (
        pid, len(cases), nshards, len(fails), time.time() - t1))

    # 4. verdict ----------------------------------------------------------------------------------
    regime = [i for i, cs in fails.items() if 3 in cs]
    if regime:
        i = regime[0]
        print('case outside the model\'s stated regime (harness bug): %s' % json.dumps(cases[i], default=str)[:600])
        return 2
    violations = []       # (case, obs, codes)
    known_seen = collections.OrderedDict()
    mismatch_only = []
    for i in sorted(fails):
        codes = fails[i]
        kf = findings.attribute(known, tags[i], codes)
        if kf is not None:
            known_seen.setdefault(kf['key'], kf)
            continue
        if any(_is_spec(c) for c in codes):
            violations.append((cases[i], obs[i], codes, set(tags[i])))
        else:
            mismatch_only.append((cases[i], obs[i], codes, set(tags[i])))
    for kf in known_seen.values():
        print('KNOWN-FINDING: property=%s %s' % (pid, kf['what']))

    n_viol = 0
    out_lines = []
    if args.replay:
        if violations or mismatch_only or not proofs_ok:
            print('VIOLATION property=%s replay=%s%s' % (
                pid, args.replay, '' if violations else ' no-failing-input-found'))
            n_viol = 1
    else:
        if not violations and (mismatch_only or not proofs_ok) and hasattr(prop, 'generate'):
            # the property is no longer shown: look harder for a concrete failing input
            extra = []
            try:
                extra = prop.generate('search', random.Random(seed + 7919))
            except Exception:
                extra = []
            extra += [c for m in mismatch_only[:20] for c in
                      (itertools.islice(prop.shrink(m[0]), 30) if hasattr(prop, 'shrink') else [])]
            extra = [c for c in extra if _key(c) not in seen][:20000]
            if extra:
                eobs, efails, _ = _evaluate(prop, pid, extra, workdir, 'search', timeout_s)
                for i in sorted(efails):
                    etags = findings.tags_of(prop, pid, extra[i])
                    if 3 in efails[i] or findings.attribute(known, etags, efails[i]) is not None:
                        continue
                    if any(_is_spec(c) for c in efails[i]):
                        violations.append((extra[i], eobs[i], efails[i], set(etags)))
        if violations:
            size = getattr(prop, 'size', lambda c: len(json.dumps(c, default=str)))
            # one replay per distinct set of violated clauses, smallest input first
            groups = collections.OrderedDict()
            for v in sorted(violations, key=lambda v: size(v[0])):
                groups.setdefault(tuple(sorted(set(c for c in v[2] if _is_spec(c)))), v)
            for n, (g, (case, o, codes, tagset)) in enumerate(list(groups.items())[:5]):
                small = _shrink(prop, pid, case, codes, workdir, timeout_s, tagset)
                sobs, sf, _ = _evaluate(prop, pid, [small], workdir, 'final%d' % n, timeout_s)
                scodes = sf.get(0, [])
                if not any(_is_spec(c) for c in scodes):
                    small, sobs, scodes = case, [o], codes
                path = _write_replay(pid, tier, seed, n, 'failing-input', prop, small, sobs[0], scodes,
                                     {'shrunk_from': case if small is not case else None})
                out_lines.append('VIOLATION property=%s replay=%s' % (pid, path))
        elif mismatch_only or not proofs_ok:
            if mismatch_only:
                case, o, codes, _ = mismatch_only[0]
                what = 'correspondence %s.Corr (model output differs from the implementation on a determined observable; the observed output still satisfies the boolean specification)' % pid
            else:
                case, o, codes = None, None, [0]
                what = 'theorems of %s/Props.v: %s' % (pid, json.dumps(proofs['theorems']))
            path = _write_replay(pid, tier, seed, 0, 'no-failing-input-found', prop, case, o, codes,
                                 {'no_longer_checks': what, 'coq_log': proofs.get('log', '')})
            out_lines.append('VIOLATION property=%s replay=%s no-failing-input-found' % (pid, path))
        for l in out_lines:
            print(l)
        n_viol = len(out_lines)

    # 5. evidence ----------------------------------------------------------------------------------
    if not args.replay:
        dist = collections.Counter()
        nontriv = set()
        for c, o in zip(cases, obs):
            for k in prop.dist(c, o):
                dist[k] += 1
            if prop.nontrivial(c, o):
                nontriv.add(_key(c))
        samples = []
        step = max(1, len(cases) // 5)
        for i in list(range(0, len(cases), step))[:6]:
            samples.append({'case': cases[i], 'observed': _clip(obs[i])})
        ev = {
            'property_id': pid, 'tier': tier, 'seed': seed, 'level': 'proof',
            'coverage': {
                'obligations': proofs['obligations'], 'discharged': proofs['discharged'],
                'checker_cmd': 'make -C coq (coqc 8.16.1, full .vo build) ; coqc theories/%s/Props.v '
                               '(re-checked in this run, Print Assumptions captured) ; coqc on %d generated '
                               'case shards evaluating PV.%s.Corr.run with vm_compute' % (pid, nshards, pid),
                'trusted_base': list(getattr(prop, 'TRUSTED', [])) + COMMON_TRUSTED,
                'theorems': proofs['theorems'],
                'coqchk': ({'cmd': 'coqchk -silent -o -Q theories PV PV.%s.Props' % pid, 'axioms': chk['axioms'],
                            'summary': chk['summary']} if chk else 'run in the thorough tier only'),
                'evaluations': len(cases),
                'distinct_nontrivial': len(nontriv),
                'rule': prop.RULE,
                'exhaustive': bool(getattr(prop, 'EXHAUSTIVE', {}).get(tier, False)),
                'distribution': dict(sorted(dist.items())),
                'samples': samples,
                'known_findings_seen': [k for k in known_seen],
                'correspondence_failures': len(fails),
            },
            'assumptions': list(getattr(prop, 'ASSUMES', [])),
            'wall_s': round(time.time() - t0, 2),
            'violations': n_viol,
        }
        os.makedirs(os.path.join(VERIF, EVIDENCE_DIR), exist_ok=True)
        with open(os.path.join(VERIF, EVIDENCE_DIR, pid + '.json'), 'w') as f:
            json.dump(ev, f, indent=1, default=str)
    print('[%s] %s tier done in %.0fs: %s' % (pid, tier, time.time() - t0,
                                               'OK' if not n_viol else '%d violation line(s)' % n_viol))
    return 1 if n_viol else 0


def _clip(o, n=1500):
    s = json.dumps(o, default=str)
    return o if len(s) <= n else s[:n] + '...'


COMMON_TRUSTED = [
    'Coq 8.16.1 kernel and its bytecode VM (vm_compute); native_compute not used',
    'no translator, no extraction: hand-written Gallina model tied to /repo by this correspondence run',
    'Python harness: generators, materialisation of abstract inputs, canonicalisation, Coq literal '
    'printer (harness/vt/coqenc.py), parser of the (cid, code) answer',
    'NumPy-2 compatibility shim harness/vt/npshim.py (re-exports two numpy.lib._format_impl functions)',
    'NumPy/SciPy/CPython standard library behaviour (modelled, not verified)',
]

if __name__ == '__main__':
    main()
