"""Runs the implementation under test in worker processes, one abstract case at a time, with a
per-case time-out.  A hang or an exception is an observable ('crash', kind, message), never a
harness failure."""
import multiprocessing as mp
import os
import signal
import traceback

_FN = None
_COV = None


class CaseTimeout(BaseException):
    pass


def _alarm(signum, frame):
    raise CaseTimeout()


def _init(modname, fname):
    from . import npshim
    npshim.setup_process()
    import importlib
    global _FN, _COV
    if os.environ.get('VT_COVERAGE'):
        # developer tool (tools/anchor_coverage.py): line coverage of phylib under the generated cases
        os.environ.setdefault('COVERAGE_CORE', 'sysmon')   # sys.monitoring: not lost when a library resets sys.settrace
        import coverage
        repo = os.environ.get('PHYLIB_REPO') or '/repo'
        _COV = coverage.Coverage(data_file=os.path.join(os.environ['VT_COVERAGE'], 'cov'), data_suffix=True,
                                 include=[os.path.join(repo, 'phylib', '*')])
        _COV.start()
    _FN = getattr(importlib.import_module(modname), fname)
    signal.signal(signal.SIGALRM, _alarm)


def _run_chunk(args):
    cases, tmo = args
    out = []
    for case in cases:
        signal.alarm(tmo)
        try:
            try:
                obs = _FN(case)
            finally:
                signal.alarm(0)
        except CaseTimeout:
            obs = ('crash', 'Timeout', '')
        except MemoryError:
            obs = ('crash', 'MemoryError', '')
        except BaseException as e:  # noqa
            tb = traceback.extract_tb(e.__traceback__)
            where = ''
            if tb:
                fr = tb[-1]
                where = '%s:%d' % (os.path.basename(fr.filename), fr.lineno)
            obs = ('crash', type(e).__name__, ((str(e) or '')[:200] + ' @ ' + where))
        out.append(obs)
    if _COV is not None:
        _COV.save()
    return out


def run(modname, fname, cases, timeout_s=10, workers=None, chunk=None):
    """Return the list of observations, in case order."""
    if not cases:
        return []
    workers = workers or int(os.environ.get('VT_WORKERS') or 0) or min(16, os.cpu_count() or 4)
    if chunk is None:
        chunk = max(1, min(200, len(cases) // (workers * 4) or 1))
    chunks = [(cases[i:i + chunk], timeout_s) for i in range(0, len(cases), chunk)]
    if len(cases) <= 3 or workers == 1:
        _init(modname, fname)
        res = [_run_chunk(c) for c in chunks]
    else:
        ctx = mp.get_context('fork')
        with ctx.Pool(workers, initializer=_init, initargs=(modname, fname)) as p:
            res = p.map(_run_chunk, chunks, chunksize=1)
    return [o for r in res for o in r]
