"""known_findings.json: committed, never written at run time (DESIGN.md §7)."""
import json
import os

VERIF = os.path.dirname(os.path.dirname(os.path.dirname(os.path.abspath(__file__))))


def load(pid):
    path = os.path.join(VERIF, 'known_findings.json')
    if not os.path.exists(path):
        return []
    doc = json.load(open(path))
    return [e for e in doc.get('findings', []) if e.get('property') == pid and e.get('status') == 'open']


def tags_of(prop, pid, case):
    """Names of the open-finding matchers the abstract input satisfies (computed before running)."""
    out = []
    ms = getattr(prop, 'MATCHERS', {})
    for e in load(pid):
        fn = ms.get(e.get('matcher'))
        if fn is not None:
            try:
                if fn(case):
                    out.append(e['matcher'])
            except Exception:
                pass
    return out


def attribute(known, tags, codes):
    """A failing case belongs to an open finding only if it carries the finding's tag and every
    failing code is one of the finding's codes."""
    for e in known:
        if e.get('matcher') in tags and set(codes) <= set(e.get('codes', [])):
            return e
    return None
