"""C10 helpers: small datasets with raw data, metadata payloads, foreign TSV/CSV texts and the harness-side
reading of a text file as csv.reader sees it (header + rows of classified cells).  Trusted base of the
correspondence (DESIGN.md §6.4); nothing here is imported by phylib."""
import csv
import io

from . import datasets as D

FIELDS = ['group', 'quality', 'note']
# stage 6 (seeded change C10-m12): field names NEXT TO the one excluded name -- save_metadata(f, ..) writes cluster_<f>.tsv and
# _load_metadata skips exactly the stem `cluster_info`: names with `info` as a prefix / suffix / in another case, a proper
# prefix of it, the excluded stem itself as a field name, and a name that extends another field's name
NEAR_FIELDS = ['info_score', 'information', 'info2', 'info_', 'inf', 'Info', 'INFO', 'myinfo', 'cluster_info', 'group2', 'groupinfo']
# ... and foreign files whose stem extends / is extended by / differs in one character from `cluster_info` (each with a
# field of its own: the reading keeps the fields of simultaneously visible files disjoint)
NEAR_FOREIGN = {'cluster_info_backup.tsv': ['bk_depth'], 'cluster_information_extra.csv': ['bits'],
                'cluster_info.old.tsv': ['oldv', 'oldw'], 'cluster_inf.csv': ['infv'], 'xcluster_info.tsv': ['xv'],
                'cluster_info2.csv': ['i2v'], 'cluster_info.tsv.csv': ['tv'], 'info.tsv': ['iv'], 'Cluster_info.csv': ['cv'],
                'cluster_infos.tsv': ['sv']}
# stage 6 (seeded change C10-m13): dtypes spike_clusters.npy may have on disk (the loader casts whatever is there to int32;
# spike_templates.npy must be one of uint16 / uint32 / int32 / int64 and is byte-copied when there is no cluster file) and
# cluster ids at and beyond the limits of the narrow ones
TEMPLATE_DTYPES = ['uint16', 'uint32', 'int32', 'int64']
CLUSTER_FILE_DTYPES = ['uint8', 'int8', 'int16', 'uint16', '>u2', '>i4', 'uint32', 'int64', 'uint64']
NARROW = {'uint8': (0, 255), 'int8': (-128, 127), 'int16': (-32768, 32767), 'uint16': (0, 65535), '>u2': (0, 65535),
          '>i2': (-32768, 32767)}
EDGE_IDS = [127, 128, 255, 256, 300, 32767, 32768, 65535, 65536, 65537, 70000, 131071]
WORDS = ['good', 'mua', 'bad', 'x y', 'a,b', 'q"z', 'Good ', 'unsorted', 'eE', 'True', 'd.5', 'e5', 'a_1']


def make_dataset(rng, **o):
    """One abstract dataset (+ its semantic form) small enough for hundreds of reloads per second."""
    names = o.get('names', rng.choice(['ks', 'ks', 'alf']))
    raw = o.get('raw', True)
    sem = D.gen_semantic(
        rng, n_spikes=o.get('n_spikes', rng.randint(3, 7)), n_templates=o.get('n_templates', rng.randint(2, 3)),
        n_channels=o.get('n_channels', rng.randint(2, 4)), n_samples_wf=o.get('n_samples_wf', rng.randint(2, 4)),
        features=False, template_features=False, raw=raw, curated=o.get('curated', rng.random() < 0.4),
        rate=o.get('rate', rng.choice([100.0, 1024.0, 128.0])), amplitudes=rng.random() < 0.5,
        shanks=False, probes=False, whitening=o.get('whitening', rng.choice(['none', 'diag', 'perm2'])),
        similar=False, all_templates_used=True,
        raw_dtype=o.get('raw_dtype', rng.choice(['int16', 'int16', 'float32', 'int32'])))
    if names == 'alf':
        sem['rate'] = rng.choice([128.0, 1024.0])
    layout = o.get('layout')
    if layout == 'unused':
        # a template without spikes (legal: templates.npy keeps its row): with max_n_spikes_per_template = 1 and all
        # the spikes on ONE template the subset store holds exactly one spike
        keep = rng.randrange(sem['n_templates'])
        sem['spike_templates'] = [keep] * sem['n_spikes']
    elif layout is not None and layout[0] == 'parts':
        # 22 (or layout[2]) raw files of 4 rows = as many chunks > n_chunks_kept = 20: the selector keeps every
        # ceil(n/20)-th chunk (0, 2, ... for 22; 0, 3, ... for 41..60);
        # layout[1] of the spikes lie in kept chunks, the others in skipped ones; every template is used
        nk, nspk, nt = layout[1], sem['n_spikes'], sem['n_templates']
        nparts = layout[2] if len(layout) > 2 else 22
        step = max(1, -(-nparts // 20))
        kept = [c for c in range(nparts) if c % step == 0]
        skipped = [c for c in range(nparts) if c % step]

        def pick(cands, telling, n):
            # the first chunk is one a neighbouring step (step + 1) would treat differently, when there is one
            telling = [c for c in cands if telling(c)]
            first = [rng.choice(telling)] if (n and telling) else []
            return first + rng.sample([c for c in cands if c not in first], n - len(first))
        chunks = sorted(pick(kept, lambda c: c % (step + 1) != 0, nk) +
                        (pick(skipped, lambda c: c % (step + 1) == 0, nspk - nk) if skipped else
                         rng.sample(kept, nspk - nk)))
        rows = 4 if nparts < 30 else 2
        sem['spike_samples'] = sorted(rows * c + rng.randrange(rows) for c in chunks)
        st = [k % nt for k in range(nspk)]
        rng.shuffle(st)
        sem['spike_templates'] = st
        sem['raw']['sizes'] = [rows] * nparts
    ds = D.render(sem, rng, names=names, label=o.get('label', rng.choice(['', 'probe00'])),
                  write_clusters=o.get('write_clusters', rng.random() < 0.5),
                  id_dtype=o.get('id_dtype', rng.choice(['uint32', 'int32', 'int64'])),
                  time_dtype=rng.choice(['uint64', 'int64']), alf_samples=True,
                  **({'clu_dtype': o['clu_dtype']} if o.get('clu_dtype') else {}))
    ds['sem'] = {k: sem[k] for k in ('n_channels', 'n_channels_dat', 'n_templates', 'n_samples_wf', 'n_spikes',
                                     'channel_map', 'rate', 'spike_samples', 'spike_templates', 'spike_clusters')}
    if o.get('n_closest'):
        # params.py line `n_closest_channels = k` (TemplateModel(**params) puts it on the instance; the class default
        # is 12): the subset store is then max(max_n_channels or k, k) columns wide -- one column for k = 1
        ds['n_closest'] = int(o['n_closest'])
    return ds


def traces_of(ds):
    """raw[:, channel_map] as lists of ints (None without raw data) -- the values TemplateModel.traces shows."""
    raw = ds.get('raw')
    if not raw:
        return None
    rows, r0 = [], 0
    for n in raw['sizes']:
        a = D.raw_array(n, raw['n_channels_dat'], raw['dtype'], r0)
        rows.extend(a.tolist())
        r0 += n
    cm = ds['sem']['channel_map']
    out = []
    for row in rows:
        vals = [row[c] for c in cm]
        for v in vals:
            if float(v) != int(v):
                raise ValueError('non-integer raw sample')
        out.append([int(v) for v in vals])
    return out


# ---- payloads ---------------------------------------------------------------------------------------------

def rand_value(rng, strings=WORDS):
    k = rng.random()
    if k < 0.2:
        return None
    if k < 0.45:
        return ['i', rng.choice([0, 1, -3, 7, 12, 100000, 2 ** 40])]
    if k < 0.7:
        return ['f', rng.choice([1.5, 3.0, -0.25, 1e-7, 1e22, 0.1, 2.0 / 3, float('inf'), float('nan'), 123456.789012345]).hex()]
    return ['s', rng.choice(strings)]


def rand_mapping(rng, n_ids=6, strings=WORDS):
    ids = rng.sample(range(0, n_ids + 3), rng.randint(0, n_ids))
    rng.shuffle(ids)
    return [[c, rand_value(rng, strings)] for c in ids]


def rand_clusters(rng, ns, kind=None):
    kind = kind or rng.choice(['small', 'small', 'merge', 'big', 'const'])
    if kind == 'small':
        return [rng.randint(0, 4) for _ in range(ns)]
    if kind == 'merge':
        return [rng.choice([0, 5]) for _ in range(ns)]
    if kind == 'big':
        return [rng.choice([0, 1, 300, 70000]) for _ in range(ns)]
    if kind == 'edge':      # ids around the limits of int8 / uint8 / int16 / uint16 (stage 6)
        pick = rng.sample(EDGE_IDS, rng.randint(1, 3)) + [rng.randint(0, 4)]
        return [rng.choice(pick) for _ in range(ns)]
    return [rng.randint(0, 6)] * ns


# ---- foreign files -------------------------------------------------------------------------------------------

def table_text(delim, header, rows):
    buf = io.StringIO(newline='')
    w = csv.writer(buf, delimiter=delim, lineterminator='\n')
    w.writerow(header)
    w.writerows(rows)
    return buf.getvalue()


def rand_table(rng, fields, n_ids=6, ragged=False, with_cid=True):
    """Text of a TSV/CSV table over the given field names (cells are texts)."""
    delim = rng.choice(['\t', ','])
    header = (['cluster_id'] if with_cid else ['id']) + list(fields)
    if rng.random() < 0.3 and with_cid:
        rng.shuffle(header)
    if delim == '\t' and len(header) < 2:
        header.append('extra')
    rows = []
    for c in rng.sample(range(0, n_ids + 3), rng.randint(0, n_ids)):
        row = []
        for h in header:
            if h in ('cluster_id', 'id'):
                row.append(str(c) if rng.random() < 0.9 else '')
            else:
                row.append(rng.choice(['', '1', '2.5', '-7', 'good', 'mua', 'noise', 'a b', '1e3', 'abc', '0.10']))
        if ragged:
            k = rng.random()
            if k < 0.3:
                row = row[:rng.randint(0, len(row))]
            elif k < 0.5:
                row = row + ['zz', '9']
        rows.append(row)
    if rng.random() < 0.2 and rows and with_cid:
        rows.append(list(rng.choice(rows)))        # a repeated cluster id: the later row wins
        if rows[-1]:
            j = rng.randrange(len(rows[-1]))
            if j < len(header) and header[j] != 'cluster_id':
                rows[-1][j] = 'later'
    return table_text(delim, header, rows)


MALFORMED_KINDS = ['empty', 'header_only', 'ragged', 'binary', 'no_cid', 'dir', 'blank_line', 'garbage', 'symlink']


def malformed(rng, kind, fields):
    """A foreign-file spec of the given malformed kind."""
    if kind == 'empty':
        return {'kind': 'text', 'text': ''}
    if kind == 'header_only':
        return {'kind': 'text', 'text': table_text(rng.choice(['\t', ',']), ['cluster_id'] + list(fields), [])}
    if kind == 'ragged':
        return {'kind': 'text', 'text': rand_table(rng, fields, ragged=True)}
    if kind == 'binary':
        return {'kind': 'binary', 'hex': bytes([0xff, 0xfe, 0x00, 0x81, 0x9f, 0xc3, 0x28, 0x0a, 0xf8, 0x88]).hex()}
    if kind == 'no_cid':
        return {'kind': 'text', 'text': rand_table(rng, fields, with_cid=False)}
    if kind == 'dir':
        return {'kind': 'dir'}
    if kind == 'symlink':       # a dangling symbolic link: glob lists it, read_tsv finds that it does not exist
        return {'kind': 'symlink'}
    if kind == 'blank_line':
        return {'kind': 'text', 'text': '\n' + rand_table(rng, fields)}
    if kind == 'garbage':
        words = ['hello world', 'foo', 'cluster_id', '12', 'a,b', '3.5', ';;', 'x=1']
        lines = [' '.join(rng.sample(words, rng.randint(0, 3))) for _ in range(rng.randint(1, 4))]
        return {'kind': 'text', 'text': '\n'.join(lines) + rng.choice(['', '\n'])}
    raise ValueError(kind)


def classify_text(s):
    """How a text cell reads: ('i', int) | ('f', exact float token) | ('s', text)."""
    try:
        return ['i', int(s)]
    except ValueError:
        pass
    try:
        return ['f', float(s).hex()]
    except ValueError:
        return ['s', s]


def parse_file(spec):
    """The table csv.reader yields for a foreign-file spec, with the delimiter taken from the first line:
    ('table', header, rows of classified cells) or ('raise',)."""
    if spec['kind'] in ('binary', 'dir'):
        return ('raise',)
    if spec['kind'] == 'symlink':           # read_tsv: `if not path.exists(): return []` -- a table without rows
        return ('table', [], [])
    text = spec['text']
    first = text.split('\n', 1)[0]
    delim = '\t' if '\t' in first else ','
    rows = list(csv.reader(io.StringIO(text, newline=None), delimiter=delim))
    if not rows:
        return ('raise',)
    return ('table', rows[0], [[classify_text(c) for c in r] for r in rows[1:]])


def write_foreign(dirpath, name, spec):
    import os
    import shutil
    p = os.path.join(dirpath, name)
    if os.path.islink(p):
        os.remove(p)
    if os.path.isdir(p):
        shutil.rmtree(p)
    if spec['kind'] == 'symlink':
        if os.path.exists(p):
            os.remove(p)
        os.symlink(os.path.join(dirpath, 'no_such_target'), p)
    elif spec['kind'] == 'dir':
        if os.path.exists(p):
            os.remove(p)
        os.makedirs(p)
    elif spec['kind'] == 'binary':
        with open(p, 'wb') as f:
            f.write(bytes.fromhex(spec['hex']))
    else:
        with open(p, 'w', newline='') as f:
            f.write(spec['text'])


# ---- a subset store left behind in a state np.load rejects -------------------------------------------------------

def write_broken_store(dirpath, kind, nsw):
    """The three _phy_spikes_subset files as an interrupted extraction / a damaged copy leaves them: spike ids and
    channel table are sound, the waveform file is 'truncated' (header of a (2, nsw, 12) float64 array followed by
    half of its payload: np.load(mmap_mode='r') raises ValueError) or 'garbage' (no npy header at all)."""
    import io
    import os
    import numpy as np
    np.save(os.path.join(dirpath, '_phy_spikes_subset.spikes.npy'), np.array([0, 1], dtype=np.int64))
    np.save(os.path.join(dirpath, '_phy_spikes_subset.channels.npy'), np.tile(np.arange(12, dtype=np.int32) % 2, (2, 1)))
    buf = io.BytesIO()
    np.save(buf, np.zeros((2, nsw, 12), dtype=np.float64))
    data = buf.getvalue()
    payload = 2 * nsw * 12 * 8
    with open(os.path.join(dirpath, '_phy_spikes_subset.waveforms.npy'), 'wb') as f:
        f.write(data[:len(data) - payload // 2] if kind == 'truncated' else b'this is not an npy file\n' * 3)
