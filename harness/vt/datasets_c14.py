"""C14 helpers: source datasets for the ALF export whose VALUES are checked (exact regime of C09: integer templates,
inverse whitening matrix, amplitudes, positions, features), single-probe directories and merged datasets produced by
running the real Merger on 1..4 probe directories; snapshot of the loaded TemplateModel; reading of the value files of
the output directory.  Built on vt.datasets (render / materialise) and vt.datasets_c09 (semantic generator).
Trusted base of the correspondence.

Abstract input (small JSON):
  {'probes': [sem, ...]   one semantic dataset (datasets_c09.gen + channel map / probe table) per probe directory,
   'merged': bool         False: probes has one entry, converted directly; True: Merger(probes).merge() first,
   'features': None | [[first-PC row], ...]   (merged only) a pc_features.npy added to the merged directory,
   'label': str, 'factor': float, 'render': {...dtype options...}, 'opts': {...recorded generator options...}}
"""
import copy
import os

from . import datasets as D
from . import datasets_c09 as G

VALUE_FILES = ['templates.waveforms', 'templates.waveformsChannels', 'clusters.waveforms', 'clusters.waveformsChannels',
               'spikes.amps', 'templates.amps', 'clusters.amps', 'clusters.channels', 'clusters.peakToTrough',
               'clusters.depths', 'spikes.depths', 'channels.rawInd']


def positions(rng, nc, geometry):
    """distinct channel positions (floats holding small integers) with many L1-distance ties"""
    if geometry == 'column':          # one shank: neighbours above and below are equally far
        ys = rng.sample(range(0, 16), nc)
        return [[0.0, float(y * 20)] for y in ys]
    if geometry == 'square':          # 16 x 16 pitch: diagonal / axis ties
        cells = [(x, y) for x in range(0, 4) for y in range(0, 5)]
        return [[float(x * 16), float(y * 16)] for x, y in rng.sample(cells, nc)]
    if geometry == 'stagger':         # Neuropixels-like staggered columns
        cells = [(x, y) for y in range(0, 10) for x in ((0, 2) if y % 2 == 0 else (1, 3))]
        return [[float(x * 16 + 11), float(y * 20)] for x, y in rng.sample(cells, nc)]
    if geometry == 'long':            # a shank several millimetres long: within-probe distances exceed any finite penalty
        cells = [(x, y) for x in range(0, 2) for y in range(0, 12)]
        return [[float(x * 16), float(y * 400)] for x, y in rng.sample(cells, nc)]
    cells = [(x, y) for x in range(0, 3) for y in range(0, 9)]
    return [[float(x * 16), float(y * 20)] for x, y in rng.sample(cells, nc)]


def merged_like_table(rng, nc, k):
    """probe table + channel map of one directory as the Merger writes them (probe p's raw indices shifted by the
    maximum of the previous probe's shifted map), with arbitrary increasing probe ids and shuffled channel order"""
    k = min(k, nc)
    sizes = [1] * k
    for _ in range(nc - k):
        sizes[rng.randrange(k)] += 1
    ids = sorted(rng.sample(range(0, 5), k))
    probes, cmap, off = [], [], 0
    for p, n in zip(ids, sizes):
        local = rng.sample(range(0, n + rng.choice([0, 0, 1, 2])), n)
        cm = [v + off for v in local]
        probes += [p] * n
        cmap += cm
        off = max(cm)
    order = list(range(nc))
    rng.shuffle(order)
    return [probes[i] for i in order], [cmap[i] for i in order]


def gen_probe_sem(rng, **o):
    """one probe directory (semantic form)"""
    nc = o.get('nc', rng.choice([2, 3, 3, 4, 5, 6]))
    sem = G.gen(rng, nc=nc, **{k: v for k, v in o.items() if k in (
        'nt', 'nsw', 'nspk', 'curated', 'empty', 'wmi', 'div', 'features', 'vanish', 'rate', 'tamp', 'ties',
        'zero_template', 'neg_amp')}, probes=False, shanks=o.get('shanks', False))
    if o.get('st') is not None:
        # explicit assignment vectors (nan_idx pass): nspk = len(st) was passed to the semantic generator, so amplitudes,
        # sample times and feature rows already have the right length
        assert len(o['st']) == sem['n_spikes'] and max(o['st']) < sem['n_templates']
        sem['spike_templates'] = list(o['st'])
        sem['spike_clusters'] = list(o['sc']) if o.get('sc') is not None else None
        sem['opts']['curated'] = o.get('sc') is not None and list(o['sc']) != list(o['st'])
        sem['opts']['empty'] = 'given'
    sem['positions'] = positions(rng, nc, o.get('geometry', rng.choice(['grid', 'grid', 'column', 'square', 'stagger', 'long'])))
    extra = o.get('extra', rng.choice([0, 0, 1, 3]))
    cm = rng.sample(range(nc + extra), nc)
    if o.get('sorted_cm', rng.random() < 0.25):
        cm.sort()
    sem['channel_map'] = o.get('cm', cm)
    sem['n_channels_dat'] = max(sem['channel_map']) + 1 + (0 if 'cm' in o else rng.choice([0, 0, 2]))
    return sem


def gen_single(rng, **o):
    o = dict(o)
    table = o.pop('table', rng.choice(['none', 'none', 'const', 'like2', 'like3', 'random']))
    if 'nc' not in o:
        o['nc'] = rng.choice([2, 3, 4, 5, 6, 8, 12, 13, 14])
    if o['nc'] >= 8:
        o.setdefault('nt', rng.randint(2, 3))
        o.setdefault('nsw', rng.randint(2, 3))
    # stage 5: a channel_shanks.npy with two shanks (get_template keeps only the channels of the peak channel's shank, so
    # the cluster waveforms of merged clusters live on the dominant template's shank)
    o.setdefault('shanks', rng.random() < 0.25)
    sem = gen_probe_sem(rng, **o)
    nc = sem['n_channels']
    cm_dtype = o.get('cm_dtype', rng.choice(['int32', 'int64', 'uint32']))
    if table == 'const':
        sem['probes'] = [rng.choice([0, 1, 3])] * nc
    elif table in ('like2', 'like3'):
        sem['probes'], sem['channel_map'] = merged_like_table(rng, nc, 2 if table == 'like2' else 3)
        sem['n_channels_dat'] = max(sem['channel_map']) + 1
    elif table == 'random':
        # not what a merge writes: the re-based indices may be negative; judged against the model in Z only, so the
        # channel map must be signed (an unsigned subtraction would wrap)
        sem['probes'] = [rng.randrange(3) for _ in range(nc)]
        if cm_dtype == 'uint32':
            cm_dtype = 'int32'
    sem['opts'].update({'table': table, 'nc': nc, 'geometry': o.get('geometry', '?')})
    return {'probes': [sem], 'merged': False, 'features': None, 'label': o.get('label', rng.choice(['', '', 'probe00'])),
            'factor': o.get('factor', rng.choice([1.0, 2.0, 0.5, 2.5])), 'force': o.get('force', rng.random() < 0.3),
            'render': {'id_dtype': o.get('id_dtype', rng.choice(['uint32', 'int32', 'int64', 'uint16'])),
                       'tmpl_dtype': o.get('tmpl_dtype', rng.choice(['float32', 'float32', 'float64'])),
                       'cm_dtype': cm_dtype, 'vec2d': o.get('vec2d', rng.random() < 0.2)},
            'opts': dict(sem['opts'])}


def gen_merged(rng, k=None, ncs=None, **o):
    """k probe directories to be merged by the real Merger"""
    o = dict(o)
    k = k if k is not None else rng.choice([1, 2, 2, 3, 3, 3, 4, 4])
    ncs = ncs if ncs is not None else [rng.choice([2, 3, 3, 4, 5, 6]) for _ in range(k)]
    nsw = o.pop('nsw', rng.randint(2, 4))
    rate = o.pop('rate', float(rng.choice([100, 1000, 25000, 30000])))
    wmi = o.pop('wmi', rng.choice(['file', 'file', 'inv', 'none', 'mixed']))
    cms = o.pop('cms', None)
    curated = o.pop('curated', None)
    mfeat = o.pop('mfeatures', rng.random() < 0.35)
    sems = []
    for j, nc in enumerate(ncs):
        po = dict(o)
        if cms is not None:
            po['cm'] = cms[j]
        w = wmi if wmi != 'mixed' else rng.choice(['file', 'inv', 'none'])
        # templates without spikes at the start / in the middle / at the END of a probe's id range (the Merger's template
        # offsets are the row counts of templates.npy since fix ed7cbd4, so a trailing unused template is fine)
        po.setdefault('empty', rng.choice(['none', 'none', 'start', 'middle', 'end']))
        nt_k = po.pop('nt', rng.randint(2, 3))          # at least as many spikes as templates, so that the highest is used
        sem = gen_probe_sem(rng, nc=nc, nsw=nsw, rate=rate, wmi=w, features='none',
                            curated=(rng.random() < 0.3) if curated is None else curated,
                            nt=nt_k, nspk=max(nt_k, po.pop('nspk', rng.randint(2, 7))), **po)
        nt, nspk = sem['n_templates'], sem['n_spikes']
        # files the Merger reads unconditionally: pc_feature_ind / template_feature_ind (with any feature data)
        sem['features'] = {'data': [[[1.0, 0.0], [0.0, 1.0]]] * nspk, 'ind': [rng.sample(range(nc), 2) for _ in range(nt)],
                           'rows': None, 'npcs': 2, 'ncl': 2}
        sem['template_features'] = {'data': [[1.0, 0.0]] * nspk, 'ind': [rng.sample(range(nt), 2) for _ in range(nt)],
                                    'rows': None, 'ntl': 2}
        sems.append(sem)
    total = sum(s['n_spikes'] for s in sems)
    feats = None
    if mfeat:
        # a pc_features.npy for the merged directory (the Merger does not merge that file): first-PC rows in the
        # regime of C09, one per merged spike
        feats = [G.feature_row(rng, 2, vanish=rng.random() < 0.2) for _ in range(total)]
    return {'probes': sems, 'merged': True, 'features': feats, 'label': o.get('label', rng.choice(['', '', 'probe00'])),
            'factor': o.get('factor', rng.choice([1.0, 2.0, 0.5, 2.5])),
            # stage 5: convert(force=True) (copy_files then overwrites existing targets) and a merged channel_map.npy
            # rewritten as an (n, 1) Matlab column (copy_files' squeeze branch rewrites its target whatever force is)
            'force': o.get('force', rng.random() < 0.4), 'cm_col': o.get('cm_col', rng.random() < 0.2),
            'render': {'id_dtype': o.get('id_dtype', rng.choice(['uint32', 'int32', 'int64'])),
                       'tmpl_dtype': o.get('tmpl_dtype', rng.choice(['float32', 'float32', 'float64'])),
                       'cm_dtype': o.get('cm_dtype', rng.choice(['int32', 'int64', 'uint32'])), 'vec2d': False},
            'opts': {'k': k, 'ncs': list(ncs), 'wmi': wmi, 'mfeatures': bool(mfeat),
                     'curated': [s['opts']['curated'] for s in sems]}}


def gen_merge_case(rng, **o):
    """Stage 5: a curated single directory in which one cluster stems from 2..3 ARBITRARY templates (any ids, not only
    0 + 1; the dominant one anywhere in the group, spike-count ties allowed) and the templates do not share their channel
    neighbourhood: more than n_closest_channels = 12 channels on one shank (13..16 in a column / staggered) or two
    shanks.  At most 10 spikes and template values multiples of lcm(1..10) (datasets_c09.gen, curated): integer means."""
    o = dict(o)
    nt = o.pop('nt', rng.randint(3, 6))
    group = o.pop('group', None) or sorted(rng.sample(range(nt), rng.choice([2, 2, 3])))
    dom = o.pop('dominant', rng.choice(group))
    extra = o.pop('extra_spikes', rng.randint(0, min(4, 10 - nt)))
    st = list(range(nt)) + [dom] * extra
    for _ in range(rng.randint(0, 10 - len(st))):
        st.append(rng.randrange(nt))
    rng.shuffle(st)
    new = o.pop('new_id', rng.choice([nt, nt, nt + 1, group[0]]))
    sc = [new if t in group else t for t in st]
    if rng.random() < o.pop('split', 0.25):          # and a split of the merged cluster / of another one
        k = rng.randrange(len(sc))
        sc[k] = max(sc) + 1
    if 'nc' not in o:
        if o.setdefault('shanks', rng.random() < 0.4):
            o['nc'] = rng.choice([3, 4, 6, 8, 13])
        else:
            o['nc'] = rng.choice([13, 14, 15, 16])
            o.setdefault('geometry', rng.choice(['column', 'column', 'stagger', 'square']))
    inp = gen_single(rng, nt=nt, nspk=len(st), st=st, sc=sc, curated=True, empty='none',
                     nsw=o.pop('nsw', rng.randint(2, 3)), table=o.pop('table', rng.choice(['none', 'none', 'const', 'like2'])), **o)
    inp['opts'] = dict(inp['opts'], curated=True, merge_group=group, merge_dominant=dom)
    return inp


def gen_many(rng, **o):
    """Stage 6: the MAGNITUDE of the ids.  A curated single directory with MORE THAN 256 templates (257..330; the exporter
    and the loader combine template ids and cluster ids, so the products template id x number of clusters pass 2^16) whose
    spike_templates file has any of the legal id dtypes - uint16 (the dtype phylib's own ALF export writes for
    spikes.templates) as often as all the others together.  A few dozen spikes, most of them on templates of the upper
    quarter of the id range; curation = splits into new ids above the highest template, renumbering of whole clusters, and
    merges of two templates (at most 10 spikes in the merged cluster, template values multiples of lcm(1..10): integer
    means).  Everything else tiny (2..3 channels, 2 samples)."""
    o = dict(o)
    nt = o.pop('nt', rng.randint(257, 330))
    nspk = o.pop('nspk', rng.randint(12, 40))
    hi = max(1, (nt * 3) // 4)
    st = o.pop('st', None) or [rng.randrange(hi, nt) if rng.random() < 0.7 else rng.randrange(nt) for _ in range(nspk)]
    nspk = len(st)
    sc = o.pop('sc', None)
    if sc is None:
        sc = list(st)
        for op in [rng.choice(['split', 'split', 'renumber', 'merge']) for _ in range(rng.randint(1, 3))]:
            top = max(max(sc), nt - 1)
            if op == 'split':
                a = rng.choice(sc)
                idx = [k for k in range(nspk) if sc[k] == a]
                for k in idx[:max(1, len(idx) // 2)]:
                    sc[k] = top + 1
            elif op == 'renumber':
                a = rng.choice(sorted(set(sc)))
                new = top + rng.choice([1, 1, 2, 5])
                sc = [new if c == a else c for c in sc]
            else:
                ids = sorted(set(sc))
                if len(ids) >= 2:
                    a, b = rng.sample(ids, 2)
                    if sum(1 for c in sc if c in (a, b)) <= 10:
                        sc = [top + 1 if c in (a, b) else c for c in sc]
        if sc == st:
            sc[0] = max(max(sc), nt - 1) + 1
    inp = gen_single(rng, nt=nt, nspk=nspk, st=st, sc=sc, curated=False, empty='none', nsw=2, shanks=False,
                     nc=o.pop('nc', rng.choice([2, 3])), table=o.pop('table', 'none'),
                     features=o.pop('features', rng.choice(['none', 'none', 'full'])), zero_template=False,
                     id_dtype=o.pop('id_dtype', rng.choice(['uint16', 'uint16', 'uint16', 'int32', 'uint32', 'int64'])), **o)
    sem = inp['probes'][0]
    sem['templates'] = [[[v * G.LCM10 for v in row] for row in tm] for tm in sem['templates']]
    inp['opts'] = dict(inp['opts'], curated=True, many=True)
    return inp


def with_history(rng, inp, hist=None):
    """Stage 6: reuse of one object.  `history` = the conversions made BEFORE the judged one in the same process on the
    same loaded TemplateModel, each into its own fresh output directory: {'label', 'factor', 'force', 'same_creator'}
    (same_creator: on the EphysAlfCreator object that also makes the judged conversion; else on a creator of its own)."""
    inp = dict(inp)
    if hist is None:
        hist = []
        for _ in range(rng.choice([1, 1, 2])):
            hist.append({'label': rng.choice(['', 'raw', 'probe00', inp['label']]),
                         'factor': rng.choice([f for f in (1.0, 2.0, 0.5, 2.5, 4.0) if f != inp['factor']] + [inp['factor']]),
                         'force': rng.random() < 0.3, 'same_creator': rng.random() < 0.75})
    inp['history'] = hist
    return inp


def gen_big(rng, n, **o):
    """A single uncurated directory of n spikes (n above get_depths' batch size of 50 000) that repeats a period of k
    spikes: spike j has the template, the amplitude and the feature row of spike j mod k.  The amplitudes are constant
    per template, so that the per-template means (templates.amps / clusters.amps and the amplitude rescaling of the
    waveforms) do not depend on n: every exported value except the per-spike files is that of the one-period dataset,
    and the per-spike files repeat it.  The abstract input keeps the period only ('big_n' = n); build_model tiles."""
    nt = o.pop('nt', 2)
    k = nt * o.pop('reps', rng.randint(2, 4))          # period <= 8
    st = [j % nt for j in range(k)]
    table, nc, vanish = o.pop('table', 'none'), o.pop('nc', rng.randint(3, 4)), o.pop('vanish', 0.25)
    while True:
        inp = gen_single(rng, table=table, nc=nc, nt=nt, nsw=2, nspk=k, st=st, sc=None,
                         curated=False, empty='none', features='full', vanish=vanish, **o)
        sem = inp['probes'][0]
        # finite depth (a positive first-PC feature) where the batch loop could go wrong: the spikes just before, at and
        # just after every batch boundary below n, the first and the last spike; a NaN depth may sit anywhere else
        fin = [any(loc[0] > 0 for loc in row) for row in sem['features']['data']]
        crit = {(b + d) % k for b in range(50000, int(n) + 1, 50000) for d in (-1, 0, 1)} | {0, (int(n) - 1) % k}
        if all(fin[j] for j in crit):
            break
    per_t = [float(rng.randint(1, 9)) for _ in range(nt)]
    sem['amplitudes'] = [per_t[t] for t in st]
    inp['big_n'] = int(n)
    inp['opts'] = dict(inp['opts'], curated=False, features='full', empty='none')
    return inp


def tile(sem, n):
    """the periodic dataset of n spikes (as datasets_c09's big cases)"""
    k = sem['n_spikes']
    s = copy.deepcopy(sem)
    s['n_spikes'] = n
    s['spike_samples'] = list(range(n))
    for key in ('spike_templates', 'amplitudes'):
        s[key] = [sem[key][j % k] for j in range(n)]
    s['spike_clusters'] = None
    f = s['features']
    f['data'] = [sem['features']['data'][j % k] for j in range(n)]
    f['rows'] = None
    return s


# ---- materialisation / running ---------------------------------------------------------------------------------

def build_model(inp, base):
    """Write the probe directories, merge them if asked, and load the TemplateModel to be exported."""
    import numpy as np
    from pathlib import Path
    from phylib.io.model import TemplateModel, load_model
    dirs, kws = [], []
    for k, sem in enumerate(inp['probes']):
        if inp.get('big_n'):
            sem = tile(sem, inp['big_n'])
        ds = D.render(sem, None, write_clusters=inp['merged'], **inp['render'])
        d = os.path.join(base, 'p%d' % k)
        kws.append(D.materialise(ds, d))
        dirs.append(d)
    if not inp['merged']:
        return TemplateModel(**kws[0])
    from phylib.io.merge import Merger
    out = os.path.join(base, 'merged')
    m = Merger([Path(d) for d in dirs], Path(out)).merge()
    if inp.get('features') is not None or inp.get('cm_col'):
        m.close()
        if inp.get('features') is not None:
            rows = inp['features']
            data = np.array([[r, [1.0] * len(r)] for r in rows], dtype='float32')      # (n_spikes, n_pcs = 2, n_loc)
            np.save(os.path.join(out, 'pc_features.npy'), data)
        if inp.get('cm_col'):
            cm = np.load(os.path.join(out, 'channel_map.npy'))
            np.save(os.path.join(out, 'channel_map.npy'), cm.reshape(-1, 1))
        m = load_model(Path(out) / 'params.py')
    return m


def toks(a):
    import numpy as np
    a = np.asarray(a)
    if a.ndim == 0:
        return D.tok(a.item())
    return [toks(x) for x in a]


def snapshot(m, period=None):
    """the arrays of the loaded model the exporter reads (taken before convert()).  With period = k (periodic datasets
    of more than 50 000 spikes) the per-spike arrays are cut to their first k entries, 'nspikes' is k, 'n' is the real
    number of spikes and 'periodic' says whether the loaded per-spike arrays really are that period repeated, with
    amplitudes constant per template (else the per-period oracle would not apply)."""
    import numpy as np
    sf = m.sparse_features
    n = int(m.n_spikes)
    k = n if period is None else int(period)
    res = {
        'tdata': toks(np.array(m.sparse_templates.data)), 'cdata': toks(np.array(m.sparse_clusters.data)),
        'tcols': m.sparse_templates.cols is not None or m.sparse_clusters.cols is not None,
        'wmi': toks(np.array(m.wmi)), 'st': [int(x) for x in m.spike_templates[:k]], 'sc': [int(x) for x in m.spike_clusters[:k]],
        'amps': None if m.amplitudes is None else toks(np.array(m.amplitudes[:k])),
        'nt': int(m.n_templates), 'ncl': int(m.n_clusters),
        'rate': D.tok(float(m.sample_rate)), 'probes': [int(x) for x in m.channel_probes],
        'pos': toks(np.array(m.channel_positions)), 'cmap': [int(x) for x in m.channel_mapping],
        'nspikes': k, 'nclosest': int(m.n_closest_channels),
        'nan_idx': [int(x) for x in np.asarray(m.nan_idx).ravel()],
        'shanks': [int(x) for x in np.asarray(m.channel_shanks).ravel()],
        'feat': None if sf is None else {'data': toks(np.array(sf.data[:k])),
                                         'cols': None if sf.cols is None else [[int(x) for x in r] for r in np.array(sf.cols)]},
    }
    if period is not None:
        st, sc, am = np.asarray(m.spike_templates), np.asarray(m.spike_clusters), np.asarray(m.amplitudes).ravel()
        res['n'] = n
        res['periodic'] = bool(
            1 <= k <= n and sf is not None and sf.data.shape[0] == n and
            all(np.array_equal(sf.data[j:j + k], sf.data[:min(k, n - j)]) for j in range(0, n, k)) and
            np.array_equal(st, np.resize(st[:k], n)) and np.array_equal(sc, np.resize(sc[:k], n)) and
            np.array_equal(am, np.resize(am[:k], n)) and
            all(len(set(am[:k][st[:k] == t].tolist())) <= 1 for t in range(int(m.n_templates))) and
            np.array_equal(sc, st) and set(st[:k].tolist()) == set(range(int(m.n_templates))))
    return res


def read_values(out, label):
    """the value files of the output directory, by un-labelled name; None when a file is missing or has an
    unexpected number of dimensions / dtype kind"""
    import numpy as np
    suffix = ('.' + label) if label else ''
    want = {'templates.waveforms': (3, 'f'), 'templates.waveformsChannels': (2, 'i'), 'clusters.waveforms': (3, 'f'),
            'clusters.waveformsChannels': (2, 'i'), 'spikes.amps': (1, 'f'), 'templates.amps': (1, 'f'),
            'clusters.amps': (1, 'f'), 'clusters.channels': (1, 'i'), 'clusters.peakToTrough': (1, 'f'),
            'clusters.depths': (1, 'f'), 'spikes.depths': (1, 'f'), 'channels.rawInd': (1, 'i')}
    res = {}
    for name, (ndim, kind) in want.items():
        p = os.path.join(out, name + suffix + '.npy')
        if not os.path.exists(p):
            res[name] = None
            continue
        a = np.load(p)
        if a.ndim != ndim or (kind == 'i' and a.dtype.kind not in 'iu') or (kind == 'f' and a.dtype.kind != 'f'):
            res[name] = None
            continue
        res[name] = a.tolist() if kind == 'i' else toks(a.astype(np.float64))
    return res


def drop_probe(inp, k):
    if not inp['merged'] or len(inp['probes']) <= 1:
        return None
    j = copy.deepcopy(inp)
    del j['probes'][k]
    j['features'] = None
    return j
