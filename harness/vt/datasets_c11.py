"""C11: abstract multi-probe merge input -> KiloSort-style probe directories (trusted base of the C11 correspondence).

Abstract input (small JSON):
  {'rate': 100.0,
   'probes': [ {'times': [ints], 'amps': [numbers exact in float32], 'tmpl': [ints >= 0], 'clu': [ints >= 0],
                'tdt': 'uint64', 'adt': 'float64', 'idt': 'uint32', 'cdt': 'uint32',   # dtypes of the four per-spike files
                'vec2d': bool,                                                          # (n,1) instead of (n,) vectors
                'extra_t': 0..,                                                         # templates.npy rows beyond max(tmpl)+1
                                                                                        # (trailing templates without spikes)
                'nt': int (optional),                                                   # explicit number of rows of templates.npy
                                                                                        # (may be < max(tmpl)+1: guard violated)
                'meta': {'cluster_KSLabel.tsv': {'field': 'KSLabel', 'rows': [[id, 'text'], ...]}, ...}}, ... ],
   # how the CALLER names and passes the directories (all optional; the merged dataset must not depend on any of it: probe k of
   # the merge is the k-th directory of the caller's list, whatever its name):
   'names': ['imec1', 'imec0'],        # path of probe k's directory relative to the scratch root (default 'probe<k>'; may be
                                       # nested 'b/ks', 'a/ks'; in ANY order relative to the lexicographic order of the names)
   'pass': 'str' | 'path' | 'rel' | 'slash' | 'tuple',   # absolute str (default) / pathlib.Path / path relative to the cwd /
                                       # str with a trailing separator / a tuple of str instead of a list
   'out': 'merged',                    # output directory relative to the root (default 'merged'; may be nested, may sort
                                       # before / between / after the probe names)
   'out_exists': bool,                 # the (empty) output directory exists before the merge
   'info': bool,                       # an explicit probe_info=[{'label': 'L<k>', 'serial': 100 + k}, ...] is passed
   'chk_labels': bool,                 # observation option: the labels of probes.description.tsv are judged too
   # the HISTORY of the Merger object / of the process (stage 6; all optional; the merged dataset must not depend on it):
   'history': [[probe, ...], ...],     # earlier contents of the SAME probe directories (each stage: one probe per directory,
                                       # same format as 'probes'): the directories are written with stage 0, merge() is called,
                                       # they are re-written with stage 1, merge() is called again ... and finally re-written
                                       # with 'probes' and merged: that last merge is the one observed (a pipeline that keeps
                                       # its Merger around and merges again after a re-curation of the probes)
   'hist_merger': 'reused' | 'fresh',  # every merge() on ONE Merger object (default) / a new Merger object per merge, in the
                                       # same process, same arguments
   'hist_out': 'keep' | 'clear'}       # the output directory is left as the earlier merge wrote it (default: the later merge
                                       # overwrites its files) / emptied by the caller between the merges

Only the spike side (C11) varies.  The channel/template side (C12's functions, which Merger.merge() runs
unconditionally) is filled with fixed, deliberately harmless content: 2 channels per probe, int32 channel map and index
tables (so that `uint32 += int32` is never reached), probes of positive width, >= 2 templates of 2 samples (so that
`.squeeze()` drops no axis there), no whitening / similarity files.  Template i of probe k is non-zero on channel i % 2 only,
with the values +-(i + 1 + 100 k): every template of every probe is a different waveform, so that the row of the merged
templates.npy a merged spike points at identifies (probe, template) (clause 29 of C11/Corr.v)."""
import copy
import hashlib
import os
import shutil

SPIKE_FILES = ('spike_times.npy', 'amplitudes.npy', 'spike_templates.npy', 'spike_clusters.npy')
META_FILES = ('cluster_Amplitude.tsv', 'cluster_ContamPct.tsv', 'cluster_KSLabel.tsv')
NC = 2      # channels per probe
NSW = 2     # samples per template waveform


def n_templates(p):
    if p.get('nt') is not None:
        return int(p['nt'])
    return max(2, (max(p['tmpl']) if p['tmpl'] else 0) + 1 + int(p.get('extra_t', 0)))


def templates_of(p, k):
    """Content of probe k's templates.npy as nested lists [template][sample][channel] of floats."""
    out = []
    for i in range(n_templates(p)):
        v = float(i + 1 + 100 * k)
        out.append([[v if c == i % NC else 0.0 for c in range(NC)], [-v if c == i % NC else 0.0 for c in range(NC)]])
    return out


def meta_text(m, delim='\t'):
    lines = ['cluster_id%s%s' % (delim, m['field'])]
    for cid, val in m['rows']:
        lines.append('%d%s%s' % (cid, delim, val))
    return '\n'.join(lines) + '\n'


def write_probe(p, dirpath, rate, k=0):
    import numpy as np
    os.makedirs(dirpath)

    def vec(data, dt):
        a = np.array(data, dtype=dt)
        return a.reshape(-1, 1) if p.get('vec2d') else a
    np.save(os.path.join(dirpath, 'spike_times.npy'), vec(p['times'], p.get('tdt', 'uint64')))
    np.save(os.path.join(dirpath, 'amplitudes.npy'), vec(p['amps'], p.get('adt', 'float64')))
    np.save(os.path.join(dirpath, 'spike_templates.npy'), vec(p['tmpl'], p.get('idt', 'uint32')))
    np.save(os.path.join(dirpath, 'spike_clusters.npy'), vec(p['clu'], p.get('cdt', 'uint32')))
    nt = n_templates(p)
    np.save(os.path.join(dirpath, 'channel_map.npy'), np.arange(NC, dtype=np.int32))
    np.save(os.path.join(dirpath, 'channel_positions.npy'), np.array([[0., 0.], [16., 20.]]))
    t = np.array(templates_of(p, k), dtype=np.float32).reshape(nt, NSW, NC)
    np.save(os.path.join(dirpath, 'templates.npy'), t)
    ind = np.tile(np.arange(NC, dtype=np.int32), (nt, 1))
    np.save(os.path.join(dirpath, 'pc_feature_ind.npy'), ind)
    np.save(os.path.join(dirpath, 'template_feature_ind.npy'), ind)
    for name, m in sorted(p.get('meta', {}).items()):
        with open(os.path.join(dirpath, name), 'w', newline='') as f:
            f.write(meta_text(m, ',' if m.get('comma') else '\t'))
    with open(os.path.join(dirpath, 'params.py'), 'w') as f:
        f.write('dat_path = []\nn_channels_dat = %d\ndtype = \'int16\'\noffset = 0\nsample_rate = %r\nhp_filtered = False\n'
                % (NC, float(rate)))


def probe_names(inp):
    names = inp.get('names')
    if names is None:
        return ['probe%d' % k for k in range(len(inp['probes']))]
    assert len(names) == len(inp['probes']) and len(set(names)) == len(names)
    return list(names)


def materialise(inp, root):
    """Writes root/<names[k]> (default root/probe0 .. root/probe{k-1}); returns (list of probe dirs IN THE CALLER'S ORDER,
    output dir path (created, empty, only if inp['out_exists']))."""
    dirs = []
    for k, (p, nm) in enumerate(zip(inp['probes'], probe_names(inp))):
        d = os.path.join(root, *nm.split('/'))
        write_probe(p, d, inp.get('rate', 100.0), k)
        dirs.append(d)
    out = os.path.join(root, *inp.get('out', 'merged').split('/'))
    if inp.get('out_exists'):
        os.makedirs(out)
    return dirs, out


def prepare(inp, root, Merger):
    """Everything up to (excluding) the observed merge: writes the directories, builds the Merger in the form the caller
    passes its arguments, plays inp['history'] (earlier merges of earlier contents of the same directories, by the same
    Merger object or by a fresh one per merge) and leaves inp['probes'] on disk.  Returns (merger, probe dirs, out dir)."""
    stages = [st for st in inp.get('history', [])] + [inp['probes']]
    names = probe_names(inp)
    dirs, out = materialise(dict(inp, probes=stages[0]), root)
    a_dirs, a_out = as_passed(inp, dirs, out)
    pinfo = probe_info(inp)

    def new():
        if pinfo is None:
            return Merger(a_dirs, a_out)
        return Merger(a_dirs, a_out, probe_info=copy.deepcopy(pinfo))
    mg = new()
    for st in stages[1:]:
        m = mg.merge()
        del m
        assert len(st) == len(names)
        for k, (p, d) in enumerate(zip(st, dirs)):
            shutil.rmtree(d)
            write_probe(p, d, inp.get('rate', 100.0), k)
        if inp.get('hist_out') == 'clear':
            for fn in os.listdir(out):
                q = os.path.join(out, fn)
                shutil.rmtree(q) if os.path.isdir(q) and not os.path.islink(q) else os.remove(q)
        if inp.get('hist_merger') == 'fresh':
            mg = new()
    return mg, dirs, out


def probe_info(inp):
    """The explicit probe_info passed to Merger (None = the default: label = directory name)."""
    if not inp.get('info'):
        return None
    return [{'label': 'L%d' % k, 'serial': 100 + k} for k in range(len(inp['probes']))]


def expected_labels(inp):
    """Label of probe k in probes.description.tsv: the k-th entry of probe_info, by default the name of the k-th directory."""
    pi = probe_info(inp)
    if pi is not None:
        return [d['label'] for d in pi]
    return [nm.split('/')[-1] for nm in probe_names(inp)]


def as_passed(inp, dirs, out):
    """(subdirs, out_dir) arguments in the form the caller passes them (inp['pass'])."""
    from pathlib import Path
    how = inp.get('pass', 'str')
    if how == 'path':
        return [Path(d) for d in dirs], Path(out)
    if how == 'rel':
        return [os.path.relpath(d) for d in dirs], os.path.relpath(out)
    if how == 'slash':
        return [d + os.sep for d in dirs], out + os.sep
    if how == 'tuple':
        return tuple(dirs), out
    return list(dirs), out


def read_probe_labels(out):
    """The 'label' column of out/probes.description.tsv, row by row (None if the file or the column is missing)."""
    import csv
    p = os.path.join(out, 'probes.description.tsv')
    if not os.path.exists(p):
        return None
    with open(p, newline='') as f:
        rows = list(csv.reader(f, delimiter='\t'))
    if not rows or 'label' not in rows[0]:
        return None
    j = rows[0].index('label')
    return [r[j] for r in rows[1:] if r]


def tree_hash(dirs):
    """{relative path: sha256} over every file under the probe directories (byte identity of the inputs)."""
    out = {}
    for k, d in enumerate(dirs):
        for base, _, files in sorted(os.walk(d)):
            for fn in sorted(files):
                p = os.path.join(base, fn)
                with open(p, 'rb') as f:
                    out['%d:%s/%s' % (k, os.path.basename(d), os.path.relpath(p, d))] = hashlib.sha256(f.read()).hexdigest()
    return out


def read_tsv_rows(path):
    """Raw rows of a written TSV: (header field, [[int id, text]])."""
    with open(path, newline='') as f:
        lines = f.read().split('\r\n')
    if lines and lines[-1] == '':
        lines.pop()
    hdr = lines[0].split('\t')
    rows = []
    for ln in lines[1:]:
        a, b = ln.split('\t')
        rows.append([int(a), b])
    return hdr, rows
