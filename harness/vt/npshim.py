"""NumPy-2 compatibility shim (trusted base, DESIGN.md section 2).

phylib/io/traces.py imports two private helpers from numpy.lib.format that NumPy >= 2 moved to
numpy.lib._format_impl.  They are NumPy's own functions; re-exporting them under their old names
lets phylib's sources be imported unmodified from the repository under test."""
import os
import sys
import warnings


def install():
    import numpy.lib.format as f
    try:
        from numpy.lib import _format_impl as i
    except Exception:  # older NumPy: nothing to do
        return
    for name in ('_check_version', '_write_array_header'):
        if not hasattr(f, name) and hasattr(i, name):
            setattr(f, name, getattr(i, name))


def repo_path():
    return os.environ.get('PHYLIB_REPO', '/repo')


def setup_process():
    """Called once per harness process before phylib is imported."""
    rp = repo_path()
    if rp not in sys.path:
        sys.path.insert(0, rp)
    warnings.filterwarnings('ignore')
    os.environ.setdefault('TQDM_DISABLE', '1')
    install()
    import logging
    logging.disable(logging.CRITICAL)
    import phylib
    got = os.path.realpath(os.path.dirname(os.path.dirname(phylib.__file__)))
    if got != os.path.realpath(rp):
        raise RuntimeError('phylib imported from %s, expected %s' % (got, rp))
