"""C04-specific dataset helpers (harness/vt/datasets.py is shared and left unchanged):
* route_assigns: the keyword arguments / the params.py assignments of each construction route, as abstract values
  (the same list is written to params.py by the runner and encoded for the Coq model of read_python /
  get_template_params / TemplateModel.__init__);
* add_reorder: a spike_times_reordered.npy file;
* BREAKERS: one-condition-broken variants of a well-formed dataset (the malformed stream)."""
import copy

DIR = '/D'          # placeholder of the dataset directory inside abstract path values


def raw_names(ds):
    raw = ds.get('raw')
    if not raw:
        return []
    return ['raw%d%s' % (j, raw.get('ext', '.dat')) for j in range(len(raw['sizes']))]


def route_assigns(ds, route):
    """[(name, (tag, value))] with tags str | strs | int | float | bool; paths start with DIR."""
    p = ds['params']
    names = raw_names(ds)
    rate = float(p['sample_rate'])
    ncd, dtype, offset = p['n_channels_dat'], str(p.get('dtype', 'int16')), int(p.get('offset', 0))
    absn = [DIR + '/' + n for n in names]
    if route == 'kwargs':
        out = [('dir_path', ('str', DIR)), ('sample_rate', ('float', rate)), ('n_channels_dat', ('int', ncd)),
               ('dtype', ('str', dtype)), ('offset', ('int', offset))]
        if names:
            out.append(('dat_path', ('strs', absn)))
        return out
    if route == 'params':
        return [('dat_path', ('strs', names)), ('n_channels_dat', ('int', ncd)), ('dtype', ('str', dtype)),
                ('offset', ('int', offset)), ('sample_rate', ('float', rate)), ('hp_filtered', ('bool', False))]
    if route == 'params_alt':
        return [('DAT_PATH', ('str', names[0]) if len(names) == 1 else ('strs', absn)),
                ('N_CHANNELS_DAT', ('int', ncd)), ('Dtype', ('str', dtype)), ('offset', ('int', offset)),
                ('SAMPLE_RATE', ('float', rate)), ('hp_filtered', ('bool', True))]
    if route == 'params_dup':
        out = [('DAT_PATH', ('str', 'nope.dat')), ('Sample_Rate', ('float', 1.0)), ('DTYPE', ('str', 'float64')),
               ('dir_path', ('str', DIR)),
               ('dat_path', ('strs', [absn[0]] + names[1:]) if names else ('strs', [])),
               ('n_channels_dat', ('int', ncd)), ('dtype', ('str', dtype)),
               ('sample_rate', ('int', int(rate)) if rate == int(rate) else ('float', rate))]
        if offset:
            out.append(('offset', ('int', offset)))
        return out
    raise ValueError(route)


def py_literal(v, real_dir):
    """Python source of an abstract value, the placeholder directory replaced by the real one."""
    tag, x = v

    def path(s):
        return real_dir + s[len(DIR):] if (s == DIR or s.startswith(DIR + '/')) else s
    if tag == 'str':
        return repr(path(x))
    if tag == 'strs':
        return repr([path(s) for s in x])
    if tag == 'int':
        return repr(int(x))
    if tag == 'float':
        return repr(float(x))
    if tag == 'bool':
        return repr(bool(x))
    raise ValueError(tag)


def add_reorder(ds, rng, ns, vec2d):
    """spike_times_reordered.npy: alternative spike times in samples (any order), integer or float64."""
    dt = rng.choice(['int64', 'uint64', 'int32', 'float64'])
    data = [rng.randint(0, 60) for _ in range(ns)]
    if dt == 'float64':
        data = [float(x) + rng.choice([0.0, 0.5]) for x in data]
        if rng.random() < 0.3:
            data[rng.randrange(ns)] = rng.choice(['nan', 'inf'])
    ds['files']['spike_times_reordered.npy'] = {'dtype': dt, 'shape': [ns, 1] if vec2d else [ns], 'data': data}


# ---- malformed stream ------------------------------------------------------------------------------------

def _find(files, *prefixes):
    # a stem matches the file of that name only ('spike_templates' -> spike_templates.npy, 'spikes.templates' ->
    # spikes.templates[.label].npy), not an extra attribute file whose name merely begins with it (spike_templates_orig.npy)
    for n in sorted(files):
        if any(n == p or n.startswith(p + '.') for p in prefixes):
            return n
    return None


def _drop(prefixes):
    def f(ds, rng):
        n = _find(ds['files'], *prefixes)
        if n is None:
            return False
        del ds['files'][n]
        return True
    return f


def _longer(prefixes, extra_rows=1):
    """one more row than the other files expect"""
    def f(ds, rng):
        n = _find(ds['files'], *prefixes)
        if n is None:
            return False
        sp = ds['files'][n]
        per = 1
        for d in sp['shape'][1:]:
            per *= d
        sp['data'] = list(sp['data']) + list(sp['data'][:per]) * extra_rows
        sp['shape'] = [sp['shape'][0] + extra_rows] + list(sp['shape'][1:])
        return True
    return f


def _dtype(prefixes, dt):
    def f(ds, rng):
        n = _find(ds['files'], *prefixes)
        if n is None:
            return False
        sp = ds['files'][n]
        sp['dtype'] = dt
        sp['data'] = [int(x) if not isinstance(x, str) else 0 for x in sp['data']]
        return True
    return f


def _both_clusters(ds, rng):
    n = _find(ds['files'], 'spike_templates', 'spikes.templates')
    sp = copy.deepcopy(ds['files'][n])
    ds['files'].setdefault('spike_clusters.npy', sp)
    ds['files'].setdefault('spikes.clusters.npy', copy.deepcopy(sp))
    return True


def _cmap_at_ncd(ds, rng):
    n = _find(ds['files'], 'channel_map', 'channels.rawInd')
    sp = ds['files'][n]
    sp['data'][rng.randrange(len(sp['data']))] = ds['params']['n_channels_dat']
    ds['raw'] = None          # without raw data nothing else would notice
    return True


def _pos_3cols(ds, rng):
    n = _find(ds['files'], 'channel_positions', 'channels.localCoordinates')
    sp = ds['files'][n]
    nc = sp['shape'][0]
    sp['shape'] = [nc, 3]
    sp['data'] = [float(i) for i in range(3 * nc)]
    return True


def _amps_2d(ds, rng):
    n = _find(ds['files'], 'amplitudes', 'spikes.amps')
    if n is None:
        return False
    sp = ds['files'][n]
    ns = sp['shape'][0]
    sp['shape'] = [ns, 2]
    sp['data'] = [float(i % 7) for i in range(2 * ns)]
    return True


def _square_plus(name):
    def f(ds, rng):
        if name not in ds['files']:
            return False
        k = ds['files'][name]['shape'][0] + 1
        ds['files'][name] = {'dtype': ds['files'][name]['dtype'], 'shape': [k, k],
                             'data': [1.0 if i // k == i % k else 0.0 for i in range(k * k)]}
        return True
    return f


def _times_2d(ds, rng):
    n = _find(ds['files'], 'spike_times.npy', 'spikes.times')
    sp = ds['files'][n]
    ns = sp['shape'][0]
    sp['shape'] = [ns, 2]
    sp['data'] = [x for v in sp['data'] for x in (v, v)]
    return True


# name -> (breaker, error exit the model is expected to take: documentation only, the Coq model decides)
BREAKERS = {
    'no_channel_map': (_drop(('channel_map', 'channels.rawInd')), 'missing'),
    'no_positions': (_drop(('channel_positions', 'channels.localCoordinates')), 'missing'),
    'no_spike_templates': (_drop(('spike_templates', 'spikes.templates')), 'missing'),
    'no_times': (_drop(('spike_times.npy', 'spikes.times')), 'missing'),
    'amps_longer': (_longer(('amplitudes', 'spikes.amps')), 'assert'),
    'amps_2d': (_amps_2d, 'assert'),
    'templates_longer': (_longer(('spike_templates', 'spikes.templates')), 'assert'),
    'templates_uint8': (_dtype(('spike_templates', 'spikes.templates'), 'uint8'), 'assert'),
    'clusters_longer': (_longer(('spike_clusters', 'spikes.clusters')), 'assert'),
    'both_clusters': (_both_clusters, 'conflict'),
    'cmap_at_ncd': (_cmap_at_ncd, 'assert'),
    'cmap_int16': (_dtype(('channel_map', 'channels.rawInd'), 'int16'), 'assert'),
    'pos_3cols': (_pos_3cols, 'assert'),
    'pos_longer': (_longer(('channel_positions', 'channels.localCoordinates')), 'assert'),
    'shanks_longer': (_longer(('channel_shanks', 'channels.shanks')), 'assert'),
    'probes_longer': (_longer(('channel_probe', 'channels.probes')), 'assert'),
    'templates_int': (_dtype(('templates.npy', 'templates.waveforms'), 'int32'), 'assert'),
    'wm_bigger': (_square_plus('whitening_mat.npy'), 'assert'),
    'wmi_bigger': (_square_plus('whitening_mat_inv.npy'), 'assert'),
    'similar_bigger': (_square_plus('similar_templates.npy'), 'assert'),
    'reorder_longer': (_longer(('spike_times_reordered',)), 'assert'),
    'times_2d': (_times_2d, 'assert'),
}


def break_dataset(ds, name, rng):
    """A copy of ds with condition `name` broken, or None when the dataset has no such file."""
    c = copy.deepcopy(ds)
    if not BREAKERS[name][0](c, rng):
        return None
    c['opts'] = dict(c.get('opts', {}), broken=name, route='kwargs')
    return c
