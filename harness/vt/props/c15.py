"""C15 -- correlograms count exactly the spike pairs in each lag bin (DESIGN.md §8 C15).

Abstract inputs are spike *samples* (integers), labels, the caller's cluster-id list (or None), and the
exact rationals sample_rate / bin_size / window_size (dyadic, so that phylib's float arithmetic is exact).
The implementation receives  times = samples / rate  (checked here to be exact floats whose product with
the rate is exactly the sample again)."""
import itertools
import os
from fractions import Fraction as F

from .. import coqenc as q

ID = 'C15'
RULE = ('exhaustive small scope: every non-decreasing spike train up to the tier\'s length on a small sample '
        'grid (identical times included) x every labelling over 3 clusters (4 on short trains in thorough); thorough: '
        'x every binsize in {1,2,3} x half-window in {0..3} for trains up to 3 spikes (both symmetrize settings), a hash-chosen '
        '2/3 of that grid for trains of 4 spikes, '
        'parameters cycling for longer trains; quick: trains up to 3 spikes with a hash-chosen half of the 12 '
        '(binsize, half-window) settings per train x labelling, trains of 4 spikes with one setting each; caller '
        'cluster-id orders (one containing ids without spikes, and the cluster_ids=None default), window sizes that '
        'are and are not a multiple of 2*bin; firing_rate over all labellings x id orders x dyadic '
        'bin/duration; then a seeded random stream of long trains (many equal times, up to 300 (quick) / 2000 '
        '(thorough) spikes, dyadic and non-dyadic sample rates with exact time*rate, spike times handed over as float64 / '
        'float32 arrays or Python lists, symmetrize given or left to its default); trains of n coincident spikes of one '
        'cluster (n up to 300 / 3000; 65537 = the failing input of the repaired int32 defect only with VT_C15_BIG=1) judged '
        'against the closed form of C15_coincident; cluster_ids handed over as a Python list, a tuple or an int64 / int32 / '
        'uint16 ndarray, and (corpus + one random case in four) a history of 1-2 earlier correlograms / firing_rate calls '
        'in the same process on the SAME cluster_ids and labels objects, which the caller reorders / refills in place between '
        'the calls (the observed call is judged on its own arguments). Non-trivial = at least '
        'one pair of spikes falls inside the window (some count is non-zero) / at least two spikes for '
        'firing_rate; distinct = distinct abstract input.')
EXHAUSTIVE = {'quick': True, 'thorough': True}
CLAUSES = {
    1: 'observed output differs from the Coq model PV.C15.Model',
    21: 'C15_pairs / C15_order (entry (i,j,k) = number of spike pairs a<b with a in the i-th, b in the j-th '
        'cluster of the caller\'s list and floor((t_b-t_a)/binsize) = k <= half-window)',
    22: 'C15_pairs / C15_sym shape: (nc, nc, W+1) one-sided, (nc, nc, 2W+1) symmetrised',
    23: 'C15_sym: C[i,j,k] = C[j,i,-k]',
    24: 'C15_sym: centre bin = max of the two one-sided zero-lag counts',
    26: 'C15_rate: firing_rate = n_i * n_j * bin_size / duration (zero for empty clusters)',
}
TRUSTED = ['NumPy: astype(int64) of exact products, //, boolean-mask indexing, ravel_multi_index, bincount, '
           'in-place += through the ravel() view, maximum/transpose/dstack, int64*float64 (modelled, not verified)',
           'float arithmetic only inside the exact regime (Spec.params_regime = hypothesis of C15_params: dyadic '
           'rate/bin/window and every time s/rate a float64, re-checked by Corr.v on the abstract input, code 3; the '
           'float32-ness of float32 spike times is checked by the runner), where IEEE-754 operations are assumed to return a '
           'nearest float64 (the hypothesis `Nearest` of C15_params / C15_rate_params)']
ASSUMES = ['spike times non-decreasing and on the sample grid (time*rate exact), one label per spike',
           'cluster_ids (when given) distinct, non-negative and containing every label; labels non-negative',
           'binsize = floor(rate*bin) >= 1; 2^-12 <= bin_size, window_size <= 2^12 (np.clip is the identity)',
           'at most 2^32 spikes (C15_int64_exact: no count of the int64 array can wrap); firing_rate: bin > 0, '
           'duration >= 0 (0/None mean 1), exact float products']
TIMEOUT = {'quick': 20, 'thorough': 60}
# VT_C15_BIG=1 adds the failing input of the repaired int32 defect to either tier: 65537 coincident spikes of one
# cluster (true zero-lag count 2147516416 > 2^31 - 1; the unrepaired code returned -2147450880), one-sided and
# symmetrised.  Each call takes 30-40 s on an idle machine (65536 shifts over 65537 spikes) and several minutes on a
# loaded one, so the two cases are NOT part of the default tiers (a per-case time-out would be a false alarm); with
# the switch the per-case limit is 30 minutes.  Judged by Corr.v against the closed form of C15_coincident.
BIG = bool(os.environ.get('VT_C15_BIG'))
if BIG:
    TIMEOUT = {'quick': 1800, 'thorough': 1800}
# the float constants of np.clip(x, 1e-5, 1e5) modelled in PV.C15.ParamsModel (clip_lo_f, clip_hi); C15_clip_constant
# proves that the first is a float nearest to 10^-5
assert (1e-5).as_integer_ratio() == (5902958103587057, 2 ** 69) and (1e5).as_integer_ratio() == (100000, 1)
COQ_HEADER = 'From Coq Require Import QArith.\n'


# ---- parameters ------------------------------------------------------------------------------------

def _fr(x):
    x = F(x)
    return [x.numerator, x.denominator]


def _pow2(d):
    return d & (d - 1) == 0


def _params_ok(rate, bin_, win):
    """mirror of Corr.ccg_regime for the three rationals (so that no generated case is outside it)"""
    rate, bin_, win = F(rate), F(bin_), F(win)
    if not (rate > 0 and _pow2(rate.denominator) and rate.numerator < 2 ** 20 and rate.denominator <= 2 ** 12):
        return False
    for x in (bin_, win):
        if not (_pow2(x.denominator) and x.numerator < 2 ** 13 and x.denominator <= 2 ** 12
                and F(1, 4096) <= x <= 4096):
            return False
    return (rate * bin_).__floor__() >= 1


def _mk(t, lab, ids, rate, bin_, win, sym, ldt='int64', tdt='float64', symdef=False):
    """tdt = how the spike times are handed to phylib: a float64 array, a float32 array (every time must be a
    float32; correlograms() converts to float64 BEFORE multiplying by the rate), or a Python list of floats"""
    assert _params_ok(rate, bin_, win), (rate, bin_, win)
    c = {'kind': 'ccg', 'inp': {'t': list(t), 'lab': list(lab), 'ids': None if ids is None else list(ids),
                                'rate': _fr(rate), 'bin': _fr(bin_), 'win': _fr(win), 'sym': bool(sym),
                                'ldt': ldt, 'tdt': tdt}}
    if symdef and sym:
        c['inp']['symdef'] = True      # call without the symmetrize argument (its default is True)
    return c


# ---- the caller's objects and their history (stage 6) ----------------------------------------------------
# 'idt'  = the form in which cluster_ids is handed over: a Python list (default), a tuple, or an ndarray of the
#          given dtype.
# 'hist' = earlier calls made by the same caller IN THE SAME PROCESS ON THE SAME cluster_ids / labels OBJECTS
#          before the observed call: a list of steps {'fn': 'ccg' | 'rate', 'ids': contents of the cluster_ids
#          object at that call (same length; None = as in the observed call), 'lab': contents of the labels
#          object at that call (same length; None = as in the observed call)}.  Between two calls the caller
#          overwrites its own objects in place (obj[:] = ...: what ids.sort(), np.random.shuffle(ids),
#          labels[labels == a] = b do).  The property speaks about the arguments of a call at the time of the
#          call: the observed result must be the one of a first call with fresh objects (the Coq model never
#          sees the history).
_IDT = ('list', 'tuple', 'int64', 'int32', 'uint16')


def _hist(case, idt='list', hist=()):
    i = case['inp']
    assert idt in _IDT
    n, m = len(i['lab']), None if i['ids'] is None else len(i['ids'])
    for h in hist:
        assert h['fn'] in ('ccg', 'rate')
        assert h.get('lab') is None or len(h['lab']) == n
        assert h.get('ids') is None or (m is not None and len(h['ids']) == m)
    if idt != 'list':
        i['idt'] = idt
    if hist:
        i['hist'] = [{'fn': h['fn'], 'ids': None if h.get('ids') is None else list(h['ids']),
                      'lab': None if h.get('lab') is None else list(h['lab'])} for h in hist]
    return case


def _random_hist(rng, case):
    """an ids form and (one time in four) a history of 1-2 earlier calls for a generated ccg / rate case; every
    earlier call is itself legal (distinct non-negative ids containing that call's labels)"""
    i = case['inp']
    idt = rng.choice(['list', 'list', 'int64', 'int64', 'int32', 'uint16', 'tuple'])
    hist = []
    if rng.random() < .25:
        for _ in range(rng.choice([1, 1, 2])):
            h = {'fn': rng.choice(['ccg', 'rate']), 'ids': None, 'lab': None}
            r = rng.random()
            if r < .55 and i['ids'] is not None and idt != 'tuple':
                # the same ids in another order (reordered in place afterwards)
                p = list(i['ids'])
                rng.shuffle(p)
                h['ids'] = p
            elif r < .85:
                # other ids altogether: an injective renaming of the values, labels renamed with them
                vals = sorted(set(i['lab']) | set(i['ids'] or []))
                new = dict(zip(vals, rng.sample(range(0, 16), len(vals)))) if len(vals) <= 16 else {}
                if new:
                    if i['ids'] is not None and idt != 'tuple':
                        h['ids'] = [new[x] for x in i['ids']]
                        h['lab'] = [new[x] for x in i['lab']]
                    elif i['ids'] is None:
                        h['lab'] = [new[x] for x in i['lab']]
            hist.append(h)
    return _hist(case, idt, hist)


def _mkr(lab, ids, bin_, dur, ldt='int64'):
    return {'kind': 'rate', 'inp': {'lab': list(lab), 'ids': None if ids is None else list(ids),
                                    'bin': _fr(bin_), 'dur': None if dur is None else _fr(dur), 'ldt': ldt}}


def _mkc(n, s, c, rate, bin_, win, sym):
    """n spikes at sample s, all of cluster c, cluster_ids=[c] (Corr: InCoinc, closed form of C15_coincident)"""
    assert _params_ok(rate, bin_, win) and 0 <= n and 0 <= c < 2 ** 20
    inp = {'n': n, 's': s, 'c': c, 'rate': _fr(rate), 'bin': _fr(bin_), 'win': _fr(win), 'sym': bool(sym),
           't': [s], 'lab': [c] * min(n, 1), 'ids': [c]}      # t/lab/ids: for _times_ok, dist and size only
    assert _times_ok(inp)
    return {'kind': 'coinc', 'inp': inp}


def _trains(kmax, gmax):
    for k in range(0, kmax + 1):
        for t in itertools.combinations_with_replacement(range(gmax + 1), k):
            yield list(t)


# cluster ids used for label value v (deliberately not 0..c-1, not sorted by value)
_IDMAP = [4, 1, 7, 2]


def _id_orders(nlab, tier_all):
    """caller's cluster-id lists for labels drawn from _IDMAP[:nlab]"""
    base = _IDMAP[:nlab]
    if tier_all:
        out = [list(p) for p in itertools.permutations(base)]
        out += [list(p) for p in itertools.permutations(base + [9])][:: max(1, nlab)]
        return out
    return [list(base), [9] + list(reversed(base)) + [0]]


def generate(tier, rng):
    cases = []
    # ---- corpus: one case per boundary operator of the anchored code --------------------------------
    for sym in (False, True):
        # a lag exactly W*binsize, (W+1)*binsize-1 (last sample of the last bin) and (W+1)*binsize
        for lag in (6, 8, 9, 5, 0):
            cases.append(_mk([0, lag], [4, 1], [4, 1], 1, 3, 12, sym))           # binsize 3, W 2
            cases.append(_mk([2, 2 + lag, 2 + lag], [1, 4, 1], [1, 4], 1, 3, 12, sym))
        cases.append(_mk([], [], [4, 1], 1, 1, 2, sym))
        cases.append(_mk([], [], [], 1, 1, 2, sym))
        cases.append(_mk([3], [4], [1, 4], 1, 1, 2, sym))
        cases.append(_mk([0, 0, 0, 0], [4, 1, 4, 1], [1, 4], 1, 1, 1, sym))      # identical times, W = 0
        cases.append(_mk([0, 0, 1, 1, 2], [4, 1, 1, 4, 4], [7, 4, 9, 1], 1, 1, 4, sym))  # ids without spikes
        cases.append(_mk([0, 1, 1, 3, 7], [5, 2, 5, 5, 2], None, 1, 2, 4, sym))  # default cluster_ids
        cases.append(_mk([0, 1, 1, 3, 7], [5, 2, 5, 5, 2], [2, 9, 5], 1, 2, 4, sym))
        cases.append(_mk([0, 3, 6, 9], [1, 1, 1, 1], [1], 3, F(1, 2), 3, sym))    # rate 3, bin .5 -> binsize 1
        cases.append(_mk([0, 3, 6, 9], [1, 1, 1, 1], [1], F(3, 2), 1, 7, sym))    # rate 1.5 -> binsize 1, W 3
        cases.append(_mk([-5, -5, -2, 0, 1], [1, 4, 4, 1, 4], [4, 1], 2, 1, 5, sym))  # negative times
        cases.append(_mk([0, 1, 2, 3, 4, 5], [4] * 6, [4], 1, 1, 3, sym))         # window (2W+1)*bin: W = 1
        cases.append(_mk([0, 1024, 2048, 2049], [4, 1, 4, 1], [1, 4], 1024, F(1, 2), 4, sym))
        # float32 spike times whose product with the rate needs more than 24 bits (exact in float64 only):
        # times 16777213, 16777215 s at rate 3 -> samples 50331639, 50331645 (lag 6 = bin 2 of binsize 3)
        cases.append(_mk([3 * 16777213, 3 * 16777215], [4, 1], [1, 4], 3, 1, 4, sym, tdt='float32'))
        cases.append(_mk([1875 * 16777000, 1875 * 16777001, 1875 * 16777003], [4, 4, 1], None, 30000,
                         F(1, 16), F(1, 4), sym, tdt='float32'))
        cases.append(_mk([0, 2, 2, 5], [4, 1, 4, 1], [1, 4], 1, 2, 4, sym, tdt='list'))
        cases.append(_mk([0, 0, 1, 3], [4, 1, 4, 1], [1, 4], 1, 1, 2, sym, symdef=True))   # symmetrize left to its default
    # coincident spikes of one cluster against the closed form (n <= 64: Corr also evaluates the model on them)
    for sym in (False, True):
        for n, s_, c, rate, b, w in ((0, 0, 0, 1, 1, 1), (1, 3, 7, 1, 1, 2), (2, 0, 0, 1, 1, 1), (5, -4, 3, 2, 1, 5),
                                     (64, 6, 11, 3, F(1, 2), 3), (65, 0, 0, 1, 2, 8), (300, 1000, 2, 1, 3, 7)):
            cases.append(_mkc(n, s_, c, rate, b, w, sym))
        if tier == 'thorough':
            cases.append(_mkc(3000, 0, 5, 1, 1, 1, sym))
        if BIG and tier != 'search':
            cases.append(_mkc(65537, 0, 0, 1, 1, 1, sym))
    # one cluster_ids object used for two calls and reordered / refilled in place in between (seeded change C15-m12
    # kept the relabelling table of the previous call for an identical lookup object), as ndarray, list and tuple
    for sym in (False, True):
        for idt in ('int64', 'list', 'int32'):
            cases.append(_hist(_mk([0, 1, 1, 2, 4, 5, 7, 7, 8, 10], [3, 5, 3, 3, 9, 5, 3, 9, 3, 3], [9, 3, 5], 1, 1, 7, sym),
                               idt, [{'fn': 'ccg', 'ids': [3, 5, 9]}]))
        cases.append(_hist(_mk([0, 0, 1, 3], [4, 1, 4, 1], [1, 7, 4], 1, 1, 2, sym), 'int64',
                           [{'fn': 'rate', 'ids': [4, 1, 7]}, {'fn': 'ccg', 'ids': [7, 4, 1]}]))
        cases.append(_hist(_mk([0, 0, 1, 3], [4, 1, 4, 1], [1, 4], 1, 1, 2, sym), 'int64',
                           [{'fn': 'ccg', 'ids': [0, 2], 'lab': [0, 2, 0, 2]}]))
        cases.append(_hist(_mk([0, 2, 2, 5], [4, 1, 4, 1], [1, 4], 1, 2, 4, sym), 'tuple', [{'fn': 'ccg'}]))
        cases.append(_hist(_mk([0, 1, 1, 3, 7], [5, 2, 5, 5, 2], None, 1, 2, 4, sym), 'list',
                           [{'fn': 'ccg', 'lab': [2, 5, 2, 2, 5]}]))
    for idt in ('int64', 'list'):
        cases.append(_hist(_mkr([3, 5, 3, 3, 9, 5, 3, 9, 3, 3], [9, 3, 5], 1, 8), idt, [{'fn': 'rate', 'ids': [3, 5, 9]}]))
        cases.append(_hist(_mkr([4, 1, 4, 4], [1, 9, 4], F(1, 4), 2), idt, [{'fn': 'ccg', 'ids': [4, 1, 9]}]))
    for ids in ([4, 1, 9], [9, 4, 1], [4, 9, 1], [1, 4], None):
        cases.append(_mkr([4, 1, 4, 4], ids, F(1, 4), 2))
    cases.append(_mkr([], [4, 1], 1, 1))
    cases.append(_mkr([4, 4], [4], 1, None))
    cases.append(_mkr([4, 4], [4], F(1, 2), 0))

    if tier == 'search':
        for _ in range(6000):
            cases.append(_random_ccg(rng, 12, small=True))
        for _ in range(1500):
            cases.append(_random_rate(rng, 12))
        return cases

    quick = tier == 'quick'
    # ---- exhaustive small scope -----------------------------------------------------------------------
    # (a) full grid: trains x labellings x binsize x W; quick: the four (id order, symmetrize) settings
    #     are hash-chosen on half of the grid; thorough: the full grid, both symmetrize settings for trains
    #     up to 3 spikes; 4 spikes: 8 of the 12 settings, one hash-chosen symmetrize setting each
    kfull, gfull = (3, 5) if quick else (4, 5)
    orders3 = _id_orders(3, False)
    n = 0
    for t in _trains(kfull, gfull):
        for lab in itertools.product(range(3), repeat=len(t)):
            labels = [_IDMAP[v] for v in lab]
            n += 1
            for bi, bs in enumerate((1, 2, 3)):
                for W in (0, 1, 2, 3):
                    c = (n + bi + W) % 4
                    # window alternates between 2W*bin (exact) and (2W+1)*bin (int() truncates)
                    win = max(bs, (2 * W + ((n + bi) % 2)) * bs)
                    if quick:
                        # quick: half of the (binsize, W) grid per train x labelling, alternating
                        # (a fixed multiplicative hash decides which half, which id order, which symmetrize)
                        h = ((n * 12 + bi * 4 + W) * 2654435761 % 2 ** 32) >> 13
                        if h & 1:
                            cases.append(_mk(t, labels, orders3[(h >> 1) & 1], 1, bs, win, (h >> 2) & 1))
                    elif len(t) <= 3:
                        cases.append(_mk(t, labels, orders3[c % 2], 1, bs, win, False))
                        cases.append(_mk(t, labels, orders3[c % 2], 1, bs, win, True))
                    else:
                        h = ((n * 12 + bi * 4 + W) * 2654435761 % 2 ** 32) >> 13
                        if (h >> 3) % 3:             # 8 of the 12 settings per train x labelling
                            cases.append(_mk(t, labels, orders3[(h >> 1) & 1], 1, bs, win, (h >> 2) & 1))
    # (b) longer trains / more clusters: every train x labelling once, parameters cycling through the grid
    scopes = [(4, 4, 5, 3)] if quick else [(5, 5, 5, 3), (6, 6, 4, 2), (1, 4, 5, 4)]
    for kmin, kmax, gmax, nl in scopes:
        orders = _id_orders(nl, not quick)
        for t in _trains(kmax, gmax):
            if len(t) < kmin:
                continue
            for lab in itertools.product(range(nl), repeat=len(t)):
                if nl == 4 and 3 not in lab:
                    continue                     # covered by the three-cluster scopes
                labels = [_IDMAP[v] for v in lab]
                n += 1
                bs = (1, 2, 3)[n % 3]
                W = (0, 1, 2, 3)[(n // 3) % 4]
                ids = orders[(n // 12) % len(orders)]
                if (n // 7) % 11 == 0:
                    ids = None
                win = max(bs, (2 * W + (n % 2)) * bs)
                cases.append(_mk(t, labels, ids, 1, bs, win, bool((n // 5) % 2)))
    # firing_rate: all labellings of length <= 4 (5) x id orders x bin/duration
    for k in range(0, 5 if quick else 6):
        for lab in itertools.product(range(3), repeat=k):
            labels = [_IDMAP[v] for v in lab]
            for ids in _id_orders(3, not quick) + [None]:
                for b, d in ((F(1, 4), 2), (1, None), (F(3, 8), F(1, 2))) if quick else \
                        ((F(1, 4), 2), (1, None), (F(3, 8), F(1, 2)), (2, 0), (F(5, 1024), 8)):
                    cases.append(_mkr(labels, ids, b, d))
    # ---- seeded random stream ---------------------------------------------------------------------------
    nsmall, nmid, nbig = (1500, 60, 6) if quick else (12000, 400, 40)
    for _ in range(nsmall):
        cases.append(_random_ccg(rng, 14, small=True))
    for _ in range(nmid):
        cases.append(_random_ccg(rng, 300 if quick else 400))
    for _ in range(nbig):
        cases.append(_random_ccg(rng, 300 if quick else 2000, big=True))
    for _ in range(200 if quick else 2000):
        cases.append(_random_rate(rng, 60))
    return cases


_RATES = [F(1), F(1), F(2), F(1, 2), F(4), F(1, 4), F(16), F(1024), F(3), F(10), F(1000), F(30000), F(3, 2)]


def _random_ccg(rng, nmax, small=False, big=False):
    for _ in range(1000):
        rate = rng.choice(_RATES)
        p = rate.numerator if not _pow2(rate.numerator) else 1      # samples must be multiples of p
        p_odd = rate.numerator
        while p_odd % 2 == 0:
            p_odd //= 2
        step = p_odd if p_odd > 1 else 1
        # bin size: target binsize in samples, possibly with a fractional part that int() drops
        target = rng.choice([1, 1, 2, 3, 5, 8]) * (step if rng.random() < .7 else 1)
        bin_ = (F(target) + rng.choice([0, 0, F(1, 2), F(1, 4)])) / rate
        if bin_.denominator & (bin_.denominator - 1):
            # non-dyadic: take a dyadic bin size near it instead
            bin_ = F(max(1, round(bin_ * 64)), 64)
        W = rng.choice([0, 1, 1, 2, 3, 5, 10] if not big else [1, 2, 3, 5])
        win = (2 * W + rng.choice([0, F(1, 2), 1, F(3, 2)])) * bin_
        if win <= 0:
            win = bin_
        if not _params_ok(rate, bin_, win):
            continue
        bs = (rate * bin_).__floor__()
        n = rng.randint(0, nmax) if not big else rng.randint(nmax // 2, nmax)
        if small and rng.random() < .5:
            n = rng.randint(0, 6)
        # grid chosen so that many spikes share a sample and many lags sit near the window edge
        span = max(1, int(rng.choice([.5, 1, 2, 4, 8]) * (W + 1) * max(1, bs // step)))
        if big:
            span = max(span, n // rng.choice([4, 8, 16]))
        t0 = rng.choice([0, 0, 0, -span // 2, 1000])
        tdt = rng.choice(['float64', 'float64', 'float64', 'list'])
        if rng.random() < .1 and span < 2 ** 20:
            # float32 times just below 2^24 time units: time = (t0 + r) * 2^k is a float32, time * rate is exact in
            # float64 but (for rates with an odd factor) not in float32
            tdt = 'float32'
            t0 = 2 ** 24 - 1 - span - rng.randint(0, 3)
        t = sorted(step * (t0 + rng.randint(0, span)) for _ in range(n))
        nc = rng.randint(1, 4)
        pool = rng.sample(range(0, 12), nc + 2)
        labs = pool[:nc]
        labels = [rng.choice(labs) for _ in range(n)]
        r = rng.random()
        if r < .15:
            ids = None
        else:
            ids = list(labs) + (pool[nc:nc + rng.randint(0, 2)] if r < .7 else [])
            rng.shuffle(ids)
        sym = rng.random() < .5
        ldt = rng.choice(['int64', 'int64', 'int32', 'uint32', 'list'])
        return _random_hist(rng, _mk(t, labels, ids, rate, bin_, win, sym, ldt, tdt, symdef=rng.random() < .25))
    raise RuntimeError('no admissible random parameters')


def _random_rate(rng, nmax):
    n = rng.randint(0, nmax)
    nc = rng.randint(1, 4)
    pool = rng.sample(range(0, 12), nc + 2)
    labs = pool[:nc]
    labels = [rng.choice(labs) for _ in range(n)]
    r = rng.random()
    if r < .15:
        ids = None
    else:
        ids = list(labs) + (pool[nc:nc + rng.randint(0, 2)] if r < .7 else [])
        rng.shuffle(ids)
    b = F(rng.randint(1, 40), 2 ** rng.randint(0, 10))
    d = rng.choice([None, F(0), F(2 ** rng.randint(0, 6)), F(1, 2 ** rng.randint(0, 6)),
                    F(2 ** rng.randint(0, 12))])
    return _random_hist(rng, _mkr(labels, ids, b, d, rng.choice(['int64', 'int32', 'list'])))


# ---- implementation side -------------------------------------------------------------------------------

def _labels(lab, ldt):
    import numpy as np
    if ldt == 'list' and lab:
        return list(lab)
    return np.array(lab, dtype=np.int64 if ldt == 'list' else ldt)


def _ids_obj(i):
    """the caller's cluster_ids object in the form the case asks for"""
    import numpy as np
    ids, idt = i['ids'], i.get('idt', 'list')
    if ids is None:
        return None
    if idt == 'list':
        return list(ids)
    if idt == 'tuple':
        return tuple(ids)
    return np.array(ids, dtype=idt)


def _overwrite(obj, vals):
    """the caller refills its own list / ndarray in place (a tuple, None and an empty object stay as they are)"""
    if vals is None or obj is None or isinstance(obj, tuple) or len(obj) != len(vals):
        return
    obj[:] = vals


def _replay_history(i, idsobj, lab, tarr=None, kw=None):
    """the earlier calls of case['inp']['hist'] on the caller's cluster_ids / labels objects, each preceded by the
    in-place refill that gives the objects that call's contents; afterwards the objects get the contents of the
    observed call.  Whatever an earlier call returns or raises is not observed."""
    import numpy as np
    from phylib.stats.ccg import correlograms, firing_rate
    for h in i.get('hist') or ():
        _overwrite(idsobj, h.get('ids') if h.get('ids') is not None else i['ids'])
        _overwrite(lab, h.get('lab') if h.get('lab') is not None else i['lab'])
        try:
            if h['fn'] == 'rate':
                firing_rate(lab, cluster_ids=idsobj, bin_size=1., duration=1.)
            elif tarr is not None:
                correlograms(tarr, lab, cluster_ids=idsobj, **kw)
            else:
                correlograms(np.arange(len(lab), dtype=np.float64), lab, cluster_ids=idsobj, sample_rate=1.,
                             bin_size=1., window_size=2., symmetrize=False)
        except Exception:  # noqa
            pass
    if i.get('hist'):
        _overwrite(idsobj, i['ids'])
        _overwrite(lab, i['lab'])


def _ftok(x):
    x = float(x)
    if x != x or x in (float('inf'), float('-inf')):
        return None
    n, d = x.as_integer_ratio()
    return [n, -(d.bit_length() - 1)]


# Circuit breaker for edits that make the shift loop spin forever: the pool turns each such case into a
# 'Timeout' observation after TIMEOUT seconds, but thousands of them would keep the tier running for hours.
# After two time-outs in a worker process, the remaining cases of that worker get a short, then shorter limit (re-arming the
# pool's SIGALRM timer, same handler, same 'Timeout' observation).  Never engages on a tree without time-outs.
_TIMEOUTS = 0


def run_case(case):
    global _TIMEOUTS
    if _TIMEOUTS >= 2 and case['kind'] != 'coinc':
        import signal
        # 2..9 time-outs in this worker: 0.5 s per case; 10..39: 0.1 s; 40 and more: 0.03 s (x10 for trains > 64 spikes)
        lim = 0.5 if _TIMEOUTS < 10 else 0.1 if _TIMEOUTS < 40 else 0.03
        signal.setitimer(signal.ITIMER_REAL, lim if len(case['inp']['lab']) <= 64 else 10 * lim)
    try:
        return _run_case(case)
    except BaseException as e:
        if type(e).__name__ == 'CaseTimeout':
            _TIMEOUTS += 1
        raise


def _run_case(case):
    import numpy as np
    k, i = case['kind'], case['inp']
    if k == 'ccg':
        from phylib.stats.ccg import correlograms
        rate = F(*i['rate'])
        fr = float(rate)
        times = []
        for s in i['t']:
            x = F(s) / rate
            fx = float(x)
            # regime of the property: the time is a float and time*rate is exact
            if F(fx) != x or F(fx * fr) != s or F(fr) != rate:
                return ('regime', 'time %r * rate %r is not exact' % (x, rate))
            times.append(fx)
        b, w = F(*i['bin']), F(*i['win'])
        if F(float(b)) != b or F(float(w)) != w:
            return ('regime', 'bin/window not floats')
        tdt = i.get('tdt', 'float64')
        if tdt == 'list':
            tarr = list(times)
        elif tdt == 'float32':
            tarr = np.array(times, dtype=np.float32)
            if [float(x) for x in tarr] != times:
                return ('regime', 'times are not float32 values')
        else:
            tarr = np.array(times, dtype=np.float64)
        kw = {} if i.get('symdef') else {'symmetrize': i['sym']}
        lab = _labels(i['lab'], i['ldt'])
        idsobj = _ids_obj(i)
        _replay_history(i, idsobj, lab, tarr, dict(sample_rate=fr, bin_size=float(b), window_size=float(w),
                                                   symmetrize=i['sym']))
        if len(times) % 2 == 1 and not isinstance(tarr, list):
            # the same array objects have already been through a call (the other symmetrize setting): a correlogram
            # is a function of the spike times it is given, so an earlier call on the caller's arrays must not change
            # what a later call on them returns (seeded change C15-m6 scaled a float64 time array in place)
            try:
                correlograms(tarr, lab, cluster_ids=idsobj, sample_rate=fr, bin_size=float(b), window_size=float(w),
                             symmetrize=not i['sym'])
            except Exception:  # noqa
                pass
        out = correlograms(tarr, lab,
                           cluster_ids=idsobj, sample_rate=fr, bin_size=float(b), window_size=float(w), **kw)
        out = np.asarray(out)
        if out.ndim != 3 or out.dtype.kind not in 'iu':
            raise TypeError('correlograms returned ndim=%d dtype=%s' % (out.ndim, out.dtype))
        return ('ccg', [int(x) for x in out.shape], [[[int(v) for v in c] for c in row] for row in out])
    if k == 'coinc':
        from phylib.stats.ccg import correlograms
        rate = F(*i['rate'])
        x = F(i['s']) / rate
        b, w = F(*i['bin']), F(*i['win'])
        if F(float(x)) != x or F(float(x) * float(rate)) != i['s'] or F(float(b)) != b or F(float(w)) != w:
            return ('regime', 'coincident case not exact')
        out = correlograms(np.full(i['n'], float(x), dtype=np.float64), np.full(i['n'], i['c'], dtype=np.int64),
                           cluster_ids=[i['c']], sample_rate=float(rate), bin_size=float(b), window_size=float(w),
                           symmetrize=i['sym'])
        out = np.asarray(out)
        if out.ndim != 3 or out.dtype.kind not in 'iu':
            raise TypeError('correlograms returned ndim=%d dtype=%s' % (out.ndim, out.dtype))
        return ('ccg', [int(x) for x in out.shape], [[[int(v) for v in c] for c in row] for row in out])
    if k == 'rate':
        from phylib.stats.ccg import firing_rate
        b = F(*i['bin'])
        d = None if i['dur'] is None else F(*i['dur'])
        if F(float(b)) != b or (d is not None and F(float(d)) != d):
            return ('regime', 'bin/duration not floats')
        lab = _labels(i['lab'], i['ldt'])
        idsobj = _ids_obj(i)
        _replay_history(i, idsobj, lab)
        out = firing_rate(lab, cluster_ids=idsobj, bin_size=float(b),
                          duration=None if d is None else float(d))
        out = np.asarray(out)
        if out.ndim != 2:
            raise TypeError('firing_rate returned ndim=%d' % out.ndim)
        return ('rate', [int(x) for x in out.shape], [[_ftok(v) for v in row] for row in out])
    raise ValueError(k)


# ---- encoding for Coq -------------------------------------------------------------------------------------

def _qq(p):
    n, d = p
    assert d > 0
    return '(Qmake %s %d)' % (q.z(n), d)


def _ids(ids):
    return 'None' if ids is None else '(Some %s)' % q.zl(ids)


def encode(case, obs):
    k, i = case['kind'], case['inp']
    if obs[0] == 'regime':
        raise RuntimeError('generated case outside the exact regime: %s (%r)' % (obs[1], case))
    crash = obs[0] == 'crash'
    if k == 'ccg':
        cin = q.app('InCCG', q.zl(i['t']), q.zl(i['lab']), _ids(i['ids']), _qq(i['rate']), _qq(i['bin']),
                    _qq(i['win']), q.b(i['sym']))
        cobs = 'ObsCrash' if crash else q.app('ObsCCG', q.zl(obs[1]), q.lst(obs[2], q.zll))
    elif k == 'coinc':
        cin = q.app('InCoinc', q.z(i['n']), q.z(i['s']), q.z(i['c']), _qq(i['rate']), _qq(i['bin']), _qq(i['win']),
                    q.b(i['sym']))
        cobs = 'ObsCrash' if crash else q.app('ObsCCG', q.zl(obs[1]), q.lst(obs[2], q.zll))
    elif k == 'rate':
        cin = q.app('InRate', q.zl(i['lab']), _ids(i['ids']), _qq(i['bin']),
                    'None' if i['dur'] is None else '(Some %s)' % _qq(i['dur']))
        if crash:
            cobs = 'ObsCrash'
        else:
            cobs = q.app('ObsRate', q.zl(obs[1]), q.lst(obs[2], lambda row: q.lst(
                row, lambda v: 'TBad' if v is None else '(TF %s %s)' % (q.z(v[0]), q.z(v[1])))))
    else:
        raise ValueError(k)
    return cin, cobs


def nontrivial(case, obs):
    if obs[0] == 'crash':
        return False
    if case['kind'] in ('ccg', 'coinc'):
        return any(v for row in obs[2] for c in row for v in c)
    return len(case['inp']['lab']) >= 2


def _bucket(n):
    return str(n) if n <= 4 else '5-9' if n <= 9 else '10-99' if n <= 99 else '100-999' if n <= 999 else '1000+'


def dist(case, obs):
    k, i = case['kind'], case['inp']
    out = ['kind=' + k]
    if obs[0] == 'crash':
        out.append('crash=' + obs[1])
        return out
    if k == 'coinc':
        out.append('coinc.n_spikes=' + ('65537' if i['n'] == 65537 else _bucket(i['n'])))
        out.append('coinc.symmetrize=%s' % i['sym'])
        return out
    ids = i['ids']
    labs = set(i['lab'])
    out.append('%s.ids=%s' % (k, 'default' if ids is None else
                              'with-empty' if set(ids) - labs else
                              'sorted' if ids == sorted(ids) else 'permuted'))
    out.append('%s.labels_dtype=%s' % (k, i['ldt']))
    out.append('%s.ids_form=%s' % (k, 'default' if ids is None else i.get('idt', 'list')))
    hist = i.get('hist') or []
    out.append('%s.history=%s' % (k, 'none' if not hist else '+'.join(
        h['fn'] + ('' if h['ids'] is None and h['lab'] is None else
                   ':reordered-ids' if h['lab'] is None and sorted(h['ids']) == sorted(ids or []) else ':other-contents')
        for h in hist)))
    if k == 'ccg':
        out.append('ccg.times=%s' % i.get('tdt', 'float64'))
    if k == 'ccg':
        t = i['t']
        out.append('ccg.n_spikes=' + _bucket(len(t)))
        out.append('ccg.n_clusters=%d' % (len(ids) if ids is not None else len(labs)))
        out.append('ccg.equal_times=%s' % (len(set(t)) < len(t)))
        out.append('ccg.symmetrize=%s' % ('default' if i.get('symdef') else i['sym']))
        rate, b, w = F(*i['rate']), F(*i['bin']), F(*i['win'])
        out.append('ccg.rate=%s' % ('1' if rate == 1 else 'pow2' if _pow2(rate.numerator) else 'non-dyadic'))
        bs = (rate * b).__floor__()
        W = (w / (2 * b)).__floor__()
        out.append('ccg.binsize=' + _bucket(bs))
        out.append('ccg.W=' + _bucket(W))
        out.append('ccg.bin_truncated=%s' % (rate * b != bs))
        out.append('ccg.win_truncated=%s' % (w / (2 * b) != W))
        # a lag sitting exactly on the window edge (last admitted sample) or just outside
        edge = (W + 1) * bs
        lags = set()
        if len(t) <= 40:
            lags = {y - x for a, x in enumerate(t) for y in t[a + 1:]}
        out.append('ccg.lag_on_edge=%s' % ((edge - 1 in lags) or (edge in lags)))
    else:
        out.append('rate.n_spikes=' + _bucket(len(i['lab'])))
        out.append('rate.duration=%s' % ('None' if i['dur'] is None else '0' if i['dur'][0] == 0 else 'given'))
    return out


def size(case):
    i = case['inp']
    if case['kind'] == 'coinc':
        return i['n'] * 10
    return len(i['lab']) * 10 + len(i['ids'] or []) + sum(abs(x) for x in i.get('t', [])) // 10


def _times_ok(i):
    """mirror of the runner's / Corr.params_regime's check on the spike times: every time s/rate is a float64
    (a float32 when the case hands float32 times to phylib) and time*rate is exact"""
    import struct
    rate = F(*i['rate'])
    fr = float(rate)
    for s in i['t']:
        x = F(s) / rate
        try:
            fx = float(x)
        except OverflowError:
            return False
        if F(fx) != x or F(fx * fr) != s or abs(s) >= 2 ** 50:
            return False
        if i.get('tdt') == 'float32' and struct.unpack('f', struct.pack('f', fx))[0] != fx:
            return False
    return True


def shrink(case):
    """candidates of _shrink_raw that stay inside the regime (an out-of-regime candidate would be code 3)"""
    for c in _shrink_raw(case):
        if (c['kind'] != 'ccg' or _times_ok(c['inp'])) and _hist_ok(c['inp']):
            yield c


def _hist_ok(i):
    """every earlier call of the history is legal on its own: contents of the right length, ids distinct and
    non-negative, that call's labels among that call's ids"""
    for h in i.get('hist') or ():
        ids = h['ids'] if h['ids'] is not None else i['ids']
        lab = h['lab'] if h['lab'] is not None else i['lab']
        if len(lab) != len(i['lab']) or (ids is None) != (i['ids'] is None):
            return False
        if ids is not None and (len(ids) != len(i['ids']) or len(set(ids)) != len(ids) or min(ids, default=0) < 0
                                or not set(lab) <= set(ids)):
            return False
        if min(lab, default=0) < 0:
            return False
    return True


def _shrink_raw(case):
    k, i = case['kind'], case['inp']
    if k == 'coinc':
        # fewer spikes (a 65537-spike candidate costs a minute: only two candidates per round)
        for m in sorted({i['n'] // 2, i['n'] - 1}):
            if 0 <= m < i['n']:
                j = dict(i)
                j['n'] = m
                j['lab'] = [i['c']] * min(m, 1)
                yield {'kind': k, 'inp': j}
        return
    n = len(i['lab'])
    hist = i.get('hist') or []
    # a shorter / simpler history, a plainer ids form
    for d in range(len(hist)):
        j = dict(i)
        j['hist'] = hist[:d] + hist[d + 1:]
        if not j['hist']:
            del j['hist']
        yield {'kind': k, 'inp': j}
    for d, h in enumerate(hist):
        if h['fn'] != k:
            j = dict(i)
            j['hist'] = hist[:d] + [dict(h, fn=k)] + hist[d + 1:]
            yield {'kind': k, 'inp': j}
    if i.get('idt', 'list') not in ('list', 'int64'):
        j = dict(i)
        j['idt'] = 'int64'
        yield {'kind': k, 'inp': j}
    if i.get('idt', 'list') != 'list':
        j = dict(i)
        del j['idt']
        yield {'kind': k, 'inp': j}
    # drop a spike (halves first, then single spikes)
    cuts = []
    if n > 4:
        cuts += [list(range(n // 2, n)), list(range(0, n // 2))]
        q4 = n // 4
        cuts += [list(range(a, min(n, a + q4))) for a in range(0, n, max(1, q4))]
    cuts += [[a] for a in range(min(n, 40))]
    for cut in cuts:
        keep = [a for a in range(n) if a not in set(cut)]
        j = dict(i)
        j['lab'] = [i['lab'][a] for a in keep]
        if k == 'ccg':
            j['t'] = [i['t'][a] for a in keep]
        if j['ids'] is not None and not set(j['lab']) <= set(j['ids']):
            continue
        if hist:
            j['hist'] = [dict(h, lab=None if h['lab'] is None else [h['lab'][a] for a in keep]) for h in hist]
        yield {'kind': k, 'inp': j}
    # drop an id without spikes
    if i['ids'] is not None:
        for d, x in enumerate(i['ids']):
            if x not in i['lab']:
                j = dict(i)
                j['ids'] = i['ids'][:d] + i['ids'][d + 1:]
                if hist:
                    # the earlier contents lose the same id (a reordering) or the same position (other contents)
                    j['hist'] = [dict(h, ids=None if h['ids'] is None else
                                      [y for y in h['ids'] if y != x] if sorted(h['ids']) == sorted(i['ids']) else
                                      h['ids'][:d] + h['ids'][d + 1:]) for h in hist]
                yield {'kind': k, 'inp': j}
    if i.get('ldt') != 'int64':
        j = dict(i)
        j['ldt'] = 'int64'
        yield {'kind': k, 'inp': j}
    if k == 'ccg' and i.get('tdt', 'float64') != 'float64':
        j = dict(i)
        j['tdt'] = 'float64'
        yield {'kind': k, 'inp': j}
    if k == 'ccg':
        rate = F(*i['rate'])
        t = i['t']
        # simplify the parameters: rate 1 with the same binsize / half window
        b, w = F(*i['bin']), F(*i['win'])
        bs = (rate * b).__floor__()
        W = (w / (2 * b)).__floor__()
        if rate != 1 or b != bs or w != max(bs, 2 * W * bs):
            if _params_ok(1, bs, max(bs, 2 * W * bs)):
                j = dict(i)
                j['rate'], j['bin'], j['win'] = _fr(1), _fr(bs), _fr(max(bs, 2 * W * bs))
                yield {'kind': k, 'inp': j}
        if rate == 1:
            # translate to 0, then pull spikes together
            if t and t[0] != 0:
                j = dict(i)
                j['t'] = [x - t[0] for x in t]
                yield {'kind': k, 'inp': j}
            for a in range(min(len(t), 30) - 1, 0, -1):
                gap = t[a] - t[a - 1]
                if gap > 0:
                    for g in sorted({gap // 2, gap - 1}):
                        j = dict(i)
                        j['t'] = t[:a] + [x - (gap - g) for x in t[a:]]
                        yield {'kind': k, 'inp': j}
            if W > 0 and _params_ok(1, b, max(b, w - 2 * b)):
                j = dict(i)
                j['win'] = _fr(max(b, w - 2 * b))
                yield {'kind': k, 'inp': j}
            if bs > 1 and b == bs:
                j = dict(i)
                j['bin'], j['win'] = _fr(bs - 1), _fr(max(bs - 1, 2 * W * (bs - 1)))
                yield {'kind': k, 'inp': j}


def repro(case):
    k, i = case['kind'], case['inp']
    pre = ("import sys; sys.path[:0] = ['/verif/harness', '/repo']\n"
           "from vt import npshim; npshim.setup_process()\n"
           "import numpy as np\nfrom fractions import Fraction as F\n")
    if k == 'coinc':
        return pre + (
            "from phylib.stats.ccg import correlograms\n"
            "n, rate = %d, F(%d, %d)\n"
            "c = correlograms(np.full(n, float(F(%d) / rate)), np.full(n, %d, dtype=np.int64), cluster_ids=[%d],\n"
            "                 sample_rate=float(rate), bin_size=%r, window_size=%r, symmetrize=%r)\n"
            "print(c.dtype, c.shape, c)   # the only non-zero entry (zero lag) must be n * (n - 1) // 2 =\n"
            "print(n * (n - 1) // 2)\n" % (i['n'], i['rate'][0], i['rate'][1], i['s'], i['c'], i['c'],
                                            float(F(*i['bin'])), float(F(*i['win'])), i['sym']))
    if i.get('hist') or i.get('idt', 'list') != 'list':
        # the caller's objects and their history: replay the case itself through the runner
        return pre + (
            "from vt.props import c15\n"
            "case = %r\n"
            "# inp['idt']: form of cluster_ids (tuple / ndarray dtype); inp['hist']: EARLIER calls on the SAME cluster_ids and\n"
            "# labels objects (fn = correlograms / firing_rate), each with the contents 'ids' / 'lab' the objects had then\n"
            "# (None = as now); the caller overwrites its objects in place (obj[:] = ...) between the calls.\n"
            "print(c15.run_case(case))   # the observed (last) call: must equal a first call on fresh objects:\n"
            "fresh = {'kind': case['kind'], 'inp': {k: v for k, v in case['inp'].items() if k != 'hist'}}\n"
            "print(c15.run_case(fresh))\n" % ({'kind': k, 'inp': i},))
    if k == 'ccg':
        return pre + (
            "from phylib.stats.ccg import correlograms\n"
            "samples, rate = %r, F(%d, %d)\n"
            "times = np.array([float(F(s) / rate) for s in samples], dtype=np.float64)\n"
            "labels = np.array(%r, dtype=np.int64)\n"
            "print(correlograms(times, labels, cluster_ids=%r, sample_rate=float(rate), bin_size=%r,\n"
            "                   window_size=%r, symmetrize=%r))   # times dtype / default symmetrize: see case['inp']\n"
            "# entry [i, j, k] (one-sided) must be #{a < b : labels[a] == ids[i], labels[b] == ids[j],\n"
            "#   (samples[b] - samples[a]) // int(rate * bin) == k}\n" % (
                i['t'], i['rate'][0], i['rate'][1], i['lab'], i['ids'], float(F(*i['bin'])),
                float(F(*i['win'])), i['sym']))
    return pre + (
        "from phylib.stats.ccg import firing_rate\n"
        "print(firing_rate(np.array(%r, dtype=np.int64), cluster_ids=%r, bin_size=%r, duration=%r))\n" % (
            i['lab'], i['ids'], float(F(*i['bin'])), None if i['dur'] is None else float(F(*i['dur']))))
