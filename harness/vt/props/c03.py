"""C03 -- every route to a spike waveform gives the same zero-padded window (DESIGN.md §8 C03)."""
import itertools
import os
import shutil
import tempfile

from .. import coqenc as q
from .. import datasets_c03 as DS

ID = 'C03'
RULE = ('exhaustive small scope (recording length x window length x all sorted spike vectors of <= 2 '
        '(quick) / <= 3 (thorough) spikes x channel lists; for exports additionally all splits into <= 2 '
        'files x every chunk length) with sample dtype / spike dtype / channel-list kind / backend '
        '(ndarray, Array/Flat/.cbin readers) / unit factor rotated on the implementation side; then seeded '
        'random larger, boundary-biased cases (spikes at 0, last sample, chunk and file bounds +-1); stores over '
        'random small exports queried in shuffled order with repeated ids, -1 anywhere in stored rows and in the '
        'query, sometimes a repeated query channel; TemplateModel.get_waveforms on generated dataset directories '
        '(raw only / store only / both / neither, store written by export_waveforms on the model traces or by '
        'save_spikes_subset_waveforms, 1-3 raw files, unmapped raw channels, int16/float32/float64 recordings, '
        '4 spike_times dtypes, ids missing from the store, negative ids, channel_ids omitted; stores of one spike '
        'and/or one channel column since phylib main 232c53c). Stage 3: _extract_waveform with channel_ids=None (all '
        'channels); export_waveforms with an UNSORTED spike vector (outside the statement: judged by equality with the model only); NpyWriter '
        'used directly with every sequence of <= 3 chunks (row counts incl. 0) against declared first dimensions '
        '0..3, plus random sequences with a chunk of another dtype / other trailing dimensions / one dimension '
        'less (clause 27). Stage 4: one export in 13 omits the unit factor (default 1: raw windows); the array returned by '
        "extract_waveforms / _extract_waveform must have the recording's sample type. "
        'Stage 5: recordings of up to 400 channels with stored channel rows of 1-65 ids in any order (best channel first then '
        'by distance, decreasing, -1 inside, a channel twice) and store spike ids up to 2^17 in any order, queried on the row '
        'sorted / as stored / every channel; multi-file flat recordings of up to 12 files whose names in the order GIVEN are not '
        'in lexicographic order (numbered parts t9/t10/t11, descending names, parts in different directories, arbitrary names '
        'and raw extensions), passed as list or tuple of Path or str, also as the dat_path list of TemplateModel. '
        'Stage 6: in one case in three every sample of the recording that belongs to no requested window (other rows, channels no '
        'spike lists, in particular the last channel that index -1 aliases; unmapped raw columns on the TemplateModel route) holds '
        'NaN / +inf / -inf / the largest finite magnitude (float32, float64) or +-32767/-32768 (int16); in one export / store case in '
        'four something is already at the export path: an earlier export_waveforms of as many spikes from the same recording (other '
        'samples and channel rows, or only another unit factor), a complete .npy of the declared shape with other numbers, one with '
        'more / fewer spikes, of another dtype, a truncated one, bytes that are no .npy, a symbolic link (live, dangling); the store '
        'files of a TemplateModel directory written twice (save_spikes_subset_waveforms called again with another factor); the '
        'export path given as absolute str, pathlib.Path, or str / Path relative to the working directory. '
        'Non-trivial = at least one spike whose window overflows the recording, touches a chunk/file '
        'boundary or uses a -1 channel, or (model route) a store is present; distinct = distinct abstract input.')
EXHAUSTIVE = {'quick': True, 'thorough': True}
CLAUSES = {
    1: 'observed output differs from the Coq model PV.C03.Model',
    21: 'C03_extract / C03_extract_waveforms (direct extraction = zero-padded window per spike, an array of the '
        "recording's own sample type)",
    22: 'C03_export (file loads as float64 array of the declared shape (n_spikes, n, n_channels_loc))',
    23: 'C03_export / C03_iter (loaded values = window x unit factor, every spike once, in spike order)',
    24: 'C03_store / C03_store_masked (look-up in the exported subset store = scaled window on the stored channels, '
        'zeros elsewhere; ids in any order, repeated; -1 anywhere in a stored row)',
    25: 'C03_route_model* (TemplateModel.get_waveforms on a dataset directory: a store holding the queried ids -> the '
        'store look-up, otherwise raw data -> the windows at spike_samples[spike_ids])',
    27: 'C03_npy_writer_iff / C03_export_bytes (NpyWriter directly): element count == declared shape and declared dtype '
        'everywhere -> np.load (plain and mmap) gives the declared shape/dtype and the appended elements in order',
}
TRUSTED = ['np.save/np.load/.npy header and tobytes byte layout, np.memmap',
           'NumPy dtype promotion (tabulated in PV.C03.Model.promote, cross-checked on every export case)',
           'mtscomp compression/decompression, its chunk bounds and batch size (read back from the reader)',
           'multi-file readers return traces[i:j] = slice of the concatenation (property C01; exercised here '
           'through real readers, not re-modelled)']
ASSUMES = ['spike samples are integers in [0, n_samples); the vector is sorted for the chunked routes',
           'window length >= 1; channel entries in {-1} u [0, n_channels), at least one channel requested, '
           'recording has >= 1 channel and >= 1 sample',
           'store look-ups: queried ids belong to the store; claimed on the channels stored for the spike (zeros '
           'elsewhere, which the model also predicts); when a channel other than -1 is queried twice only equality with '
           'the model is judged (only the last occurrence receives data: C03_ex_store_dup)',
           'TemplateModel route: >= 2 spikes, window >= 2, >= 2 channels (the loader squeezes singleton dimensions of '
           'the dataset arrays away), stores of >= 1 spike x >= 1 channel column (phylib main 232c53c: '
           '_load_spike_waveforms no longer squeezes); the store is exported by phylib itself from the '
           "model's traces (export_waveforms, or save_spikes_subset_waveforms whose choice of spikes/channels is read back)",
           'values: integers x factors that are multiples of 1/2, every product exact in float64; one export case in '
           'five has samples at the top of the exact range of its sample type (int16 up to 32767, float32 with 24-bit '
           'mantissas) so that a product taken in the sample type instead of the declared float64 is visible']
TIMEOUT = {'quick': 20, 'thorough': 60}

DTYPES = ['int16', 'float32', 'float64']
SDTYPES = ['int32', 'int64', 'uint32', 'uint64', 'py']
CKINDS = ['list', 'i64', 'i32']
# name -> (python expression, fkind constructor, 2*factor)
FACTORS = {
    'i1': ('1', 'PyInt', 2), 'i2': ('2', 'PyInt', 4), 'f1': ('1.0', 'PyFloat', 2), 'fh': ('0.5', 'PyFloat', 1),
    'f25': ('2.5', 'PyFloat', 5), 'np2': ('np.float64(2.0)', 'NpF64', 4), 'np32h': ('np.float32(0.5)', 'NpF32', 1),
    'npi2': ('np.int64(2)', 'NpI64', 4),
}
FKEYS = list(FACTORS)
# stage 4: sample2unit NOT passed at all (export_waveforms' default, the int 1): the file must hold the raw windows
FACTORS['def'] = (None, 'PyInt', 2)


# ---- generator ------------------------------------------------------------------------------------

def _multisets(nr, kmax):
    for k in range(0, kmax + 1):
        for t in itertools.combinations_with_replacement(range(nr), k):
            yield list(t)


def _splits(nr, kmax):
    """compositions of nr into 1..kmax positive parts"""
    for k in range(1, kmax + 1):
        for cuts in itertools.combinations(range(1, nr), k - 1):
            b = [0] + list(cuts) + [nr]
            yield [b[i + 1] - b[i] for i in range(k)]


CHANS = {1: [[0], [-1], [0, -1]],
         2: [[1], [0, -1], [-1, 1, 0]],
         3: [[2, 0], [1, -1, 0], [0, 0, 2], [-1]],
         4: [[3, 1], [0, -1, 2, -1], [2, 3, 0, 1, -1]]}


def _rot(seq, i):
    return seq[i % len(seq)]


def _cfgs(i, single_file):
    """a small set of implementation-side configurations covering every value of every axis over
    consecutive i: [backend, dtype, spike dtype, channel-list kind]"""
    out = []
    for j in range(3):
        k = 3 * i + j
        out.append(['ndarray', _rot(DTYPES, k), _rot(SDTYPES, k + i // 5), _rot(CKINDS, k // 3 + j)])
    rb = _rot(['flat', 'cbin', 'flat', 'array'] if single_file else ['flat', 'flat', 'cbin'], i)
    if rb == 'cbin' and not single_file:
        rb = 'flat'
    out.append([rb, _rot(DTYPES, i + 1), _rot(SDTYPES, i + 2), _rot(CKINDS, i)])
    return out


def _table(rng, spikes, nc, w):
    rows = []
    for _ in spikes:
        rows.append([rng.choice([-1] + list(range(nc)) * 2) for _ in range(w)])
    return rows


def _export_case(i, rng, sizes, nc, cs, samples, n, backend=None):
    w = 1 + (i % 3)
    if backend is None:
        backend = 'flat' if len(sizes) > 1 else _rot(['flat', 'array'], i)
    case = {'kind': 'export', 'inp': {
        'sizes': sizes, 'nc': nc, 'cs': cs, 'backend': backend, 'dtype': _rot(DTYPES, i),
        'spikes': [[s, r] for s, r in zip(samples, _table(rng, samples, nc, w))], 'n': n, 'w': w,
        'factor': _rot(FKEYS, i + i // 8), 'sdtype': _rot(SDTYPES[:4], i // 3), 'cache': bool(i % 2),
        'threads': 1 + i % 3}}
    if i % 13 == 6:
        case['inp']['factor'] = 'def'            # stage 4: unit factor omitted
    if i % 5 == 0 and sum(sizes) <= 1000:
        amp = _amp(case['inp']['dtype'], sum(sizes), nc)
        if amp > 1:
            case['inp']['amp'] = amp
    return case


def _biased_samples(rng, nr, sizes, cs, n, k):
    pts = {0, nr - 1, n // 2, nr - 1 - n // 2, n // 2 - 1, nr - (n - n // 2), nr - (n - n // 2) - 1}
    acc = 0
    for s in sizes:
        acc += s
        pts |= {acc - 1, acc, acc + 1}
    for m in range(cs, nr, cs):
        pts |= {m - 1, m}
    pts = sorted(p for p in pts if 0 <= p < nr)
    out = []
    for _ in range(k):
        out.append(rng.choice(pts) if rng.random() < 0.7 else rng.randrange(nr))
    return sorted(out)


def _rand_sizes(rng, nr, kmax):
    k = rng.randint(1, min(kmax, nr))
    cuts = sorted(rng.sample(range(1, nr), k - 1)) if k > 1 else []
    b = [0] + cuts + [nr]
    return [b[j + 1] - b[j] for j in range(k)]


def _store_case(i, rng, base):
    inp = dict(base['inp'])
    ns = len(inp['spikes'])
    pool = rng.sample(range(0, 3 * ns + 4), ns)
    if i % 2:
        pool.sort()
    inp['ids'] = pool
    qn = rng.randint(1, ns + 1)
    inp['q_ids'] = [rng.choice(pool) for _ in range(qn)] if i % 3 else rng.sample(pool, min(qn, ns))
    nc = inp['nc']
    real = rng.sample(range(nc), rng.randint(0, nc))
    qch = real + [-1] * rng.choice([0, 0, 1, 2])
    rng.shuffle(qch)
    if not qch:
        qch = [rng.randrange(nc)]
    if i % 7 == 3 and real:                      # a channel queried twice (judged against the model only)
        qch.insert(rng.randrange(len(qch) + 1), rng.choice(real))
    inp['q_ch'] = qch
    inp['qkind'] = _rot(CKINDS, i)
    return {'kind': 'store', 'inp': inp}


TDTYPES = ['uint64', 'int64', 'uint32', 'int32']


def _unsorted_case(i, rng, sizes, nc, cs, samples, n, backend=None):
    """export_waveforms with the spike vector in a non-sorted order (stage 3; outside the statement, model equality only)"""
    c = _export_case(i, rng, sizes, nc, cs, samples, n, backend=backend)
    sp = c['inp']['spikes']
    for _ in range(4):
        rng.shuffle(sp)
        if [s for s, _ in sp] != sorted(s for s, _ in sp):
            break
    else:
        sp.reverse()
    c['inp'].pop('amp', None)
    return {'kind': 'exportu', 'inp': c['inp']}


def _npy_chunk(shape_tail, rows, dtype, v0, drop_axis=False):
    return {'shape': (list(shape_tail) if drop_axis else [rows] + list(shape_tail)), 'dtype': dtype, 'v0': v0}


def _npy_case(shape, dtype, rows, v0=1, mutate=None):
    """NpyWriter(shape, dtype) + one append per entry of rows (row counts; -1 = a chunk of one row given WITHOUT
    its leading axis); mutate = (index, 'dtype'|'tail'|'rank') perturbs one chunk"""
    tail = shape[1:]
    per = 1
    for x in tail:
        per *= x
    chunks, v = [], v0
    for j, r in enumerate(rows):
        c = _npy_chunk(tail, 1 if r < 0 else r, dtype, v, drop_axis=(r < 0))
        if mutate and mutate[0] == j:
            if mutate[1] == 'dtype':
                c['dtype'] = mutate[2]
            elif mutate[1] == 'tail':
                c['shape'] = c['shape'][:-1] + [c['shape'][-1] + 1] if len(c['shape']) > 1 else [c['shape'][0], 1]
            elif mutate[1] == 'rank':
                c['shape'] = [1] + c['shape']
        chunks.append(c)
        n = 1
        for x in c['shape']:
            n *= x
        v += n
    return {'kind': 'npy', 'inp': {'shape': list(shape), 'dtype': dtype, 'chunks': chunks}}


def _compositions0(total, k):
    """k-tuples of non-negative integers summing to total"""
    if k == 0:
        if total == 0:
            yield []
        return
    for first in range(total + 1):
        for rest in _compositions0(total - first, k - 1):
            yield [first] + rest


NPY_TAILS = [[1, 2], [2], [], [2, 1], [0, 2], [3]]


def _npy_cases(quick, rng):
    out, i = [], 0
    for d0 in range(0, 4):
        for total in range(0, 5 if quick else 6):
            for k in range(0, 4):
                for rows in _compositions0(total, k):
                    i += 1
                    out.append(_npy_case([d0] + _rot(NPY_TAILS, i), _rot(DTYPES, i // 2), rows, v0=1 + i % 7))
    for j in range(150 if quick else 3000):
        d0 = rng.randint(0, 5)
        tail = rng.choice(NPY_TAILS)
        total = rng.choice([d0, d0, d0, max(d0 - 1, 0), d0 + 1, d0 + 2, 0])
        rows, left = [], total
        while left > 0:
            r = rng.randint(0, left)
            rows.append(r)
            left -= r
        rows += [0] * rng.choice([0, 0, 1])
        rng.shuffle(rows)
        if rows and j % 4 == 1:
            p = rng.randrange(len(rows))                      # one row given without its leading axis
            if rows[p] >= 1:
                rows[p:p + 1] = [rows[p] - 1, -1] if rows[p] > 1 else [-1]
        dt = _rot(DTYPES, j)
        mutate = None
        if rows and j % 3 == 0:
            what = _rot(['dtype', 'dtype', 'tail', 'rank'], j // 3)
            mutate = (rng.randrange(len(rows)), what, rng.choice([d for d in DTYPES if d != dt]))
        c = _npy_case([d0] + tail, dt, rows, v0=rng.randint(-3, 9), mutate=mutate)
        if mutate and mutate[1] == 'dtype' and j % 2:          # every chunk in the other dtype (defect 7bdfb3a's shape)
            for ch in c['inp']['chunks']:
                ch['dtype'] = mutate[2]
        out.append(c)
    return out


def _model_case(j, rng, nrmax=14):
    """TemplateModel.get_waveforms on a generated dataset directory: raw data and/or a subset store."""
    nr = rng.randint(2, nrmax)
    sizes = _rand_sizes(rng, nr, 3)
    cs = rng.randint(1, nr)
    n = rng.randint(2, 6)
    nc = rng.randint(2, 4)
    wide = j % 5 == 3                          # stage 5: a probe with many channels, stored rows of few large ids
    if wide:
        nc = rng.choice([9, 17, 33, 70])
    samples = _biased_samples(rng, nr, sizes, cs, n, rng.randint(2, 6))
    ns = len(samples)
    mode = _rot(['raw', 'store+raw', 'store', 'store+raw', 'raw', 'save', 'store', 'none'], j)
    extra = _rot([0, 2, 1], j)
    inp = {'sizes': sizes, 'nc': nc, 'cs': cs, 'dtype': _rot(DTYPES, j + j // 8), 'samples': samples, 'n': n,
           'extra': extra, 'cmrot': j % 3, 'offset': _rot([0, 0, 6], j) if len(sizes) == 1 else 0,
           'tdtype': _rot(TDTYPES, j // 2), 'raw': mode in ('raw', 'store+raw', 'save'), 'store': None,
           'qkind': _rot(CKINDS, j // 3)}
    stored = []
    if mode in ('store', 'store+raw'):
        k = rng.randint(1, ns)
        stored = sorted(rng.sample(range(ns), k))
        w = rng.randint(1, 3)
        if wide:
            w = rng.choice([2, 3, 4, 6])
        inp['store'] = {'via': 'export', 'ids': stored,
                        'table': [_wide_row(rng, nc, w) for _ in stored] if wide else _table(rng, stored, nc, w),
                        'factor': _rot(FKEYS, j // 4)}
    elif mode == 'save':
        inp['store'] = {'via': 'save', 'nst': rng.choice([1, 2, 50]), 'mnc': rng.choice([None, 1, 2, 14]),
                        'factor': _rot(['f1', 'fh', 'f25', 'np2'], j // 8)}
        stored = list(range(ns))
    # query: shuffled, repeated ids; sometimes an id the store does not hold, a negative (wrapping) id
    pool = stored if stored and j % 5 else list(range(ns))
    qn = rng.randint(1, 4)
    q_ids = [rng.choice(pool) for _ in range(qn)]
    if j % 11 == 4:
        q_ids.append(rng.choice([-1, -ns]))
    if j % 13 == 6:
        q_ids = []
    inp['q_ids'] = q_ids
    r = j % 6
    if r == 0:
        inp['q_ch'] = None
    else:
        real = rng.sample(range(nc), rng.randint(1, nc))
        qch = real + [-1] * rng.choice([0, 0, 1])
        rng.shuffle(qch)
        if j % 17 == 9:
            qch.append(rng.choice(real))
        if wide and inp['store'] and inp['store']['via'] == 'export' and j % 2:
            # the channels of a stored row, in increasing order / as stored
            row = [c for c in dict.fromkeys(rng.choice(inp['store']['table'])) if c >= 0]
            if row:
                qch = sorted(row) if j % 4 == 1 else row
        inp['q_ch'] = qch
    if len(sizes) > 1 and j % 2:               # stage 5: names of the raw files, given in an order that is not the sorted one
        nm = _names(rng, len(sizes))
        if nm:
            inp['names'] = nm
        if j % 4 == 3:
            inp['pkind'] = 'str'
    return {'kind': 'model', 'inp': inp}


# ---- stage 5: axes drawn after the fourth (indirect) seeding round ------------------------------------

RAW_EXT = ['.bin', '.dat', '.raw']
TWO_NAMES = [['t9.bin', 't10.bin'], ['b.dat', 'a.dat'], None, ['d2/x.raw', 'd1/x.raw'], ['f1.bin', 'f0.bin'],
             ['B.bin', 'a.bin'], ['a/z.bin', 'z.bin']]
PKINDS = ['path', 'str', 'tuple', 'path', 'strtuple']


def _names(rng, k, scheme=None):
    """k relative file names for the parts of a flat recording, in the order the parts are GIVEN to the reader.
    The given order is in general NOT the lexicographic order of the names / paths: numbered parts that cross a
    power of ten (t9, t10, t11), descending names, parts in different directories, shuffled numbers, arbitrary
    distinct names with mixed case / digits / extensions.  None = the default names f0.bin, f1.bin, ..."""
    if scheme is None:
        scheme = rng.randrange(7)
    ext = rng.choice(RAW_EXT)
    if scheme == 0:
        return None
    if scheme == 1:
        start = rng.choice([8, 9, 98, 99, 999]) - rng.randint(0, max(k - 2, 0))
        return ['rec_g0_t%d%s' % (max(start, 0) + j, ext) for j in range(k)]
    if scheme == 2:
        return ['p_%s%s' % (chr(ord('z') - j), ext) for j in range(k)]
    if scheme == 3:
        return ['run%02d/part%s' % (k - j, ext) for j in range(k)]
    if scheme == 4:
        perm = list(range(k))
        rng.shuffle(perm)
        return ['f%02d%s' % (perm[j], ext) for j in range(k)]
    if scheme == 5:          # same file name in directories whose names sort the other way round, one part at top level
        return ['%s/x%s' % (chr(ord('a') + (k - 1 - j)), ext) if j else 'zz%s' % ext for j in range(k)]
    out = []
    while len(out) < k:
        nm = ''.join(rng.choice('abAB019_') for _ in range(rng.randint(1, 3))) + rng.choice(RAW_EXT)
        if nm.lower() not in [o.lower() for o in out]:
            out.append(nm)
    return out


def _lex_sorted(names, k, default='f%d.bin'):
    names = list(names)[:k] if names else [default % j for j in range(k)]
    return names == sorted(names)


def _with_names(case, rng, j, scheme=None):
    """give the parts of a multi-file flat recording drawn names and a drawn kind of path argument"""
    inp = case['inp']
    if len(inp['sizes']) > 1 and inp.get('backend', 'flat') in ('flat',):
        nm = _names(rng, len(inp['sizes']), scheme)
        if nm:
            inp['names'] = nm
        pk = _rot(PKINDS, j)
        if pk != 'path':
            inp['pkind'] = pk
    return case


def _wide_row(rng, nc, w):
    """one stored channel row of a recording with MANY channels (ids large compared with the row length): best channel
    first then its neighbours by distance (how save_spikes_subset_waveforms / KiloSort order them: not increasing), a
    random order, an increasing order, or decreasing; sometimes a -1 inside or at the end"""
    style = rng.randrange(5)
    k = min(w, nc)
    if style == 0:
        best = rng.randrange(nc)
        row = sorted(range(nc), key=lambda c: (abs(c - best), c))[:k]
    elif style == 1:
        row = rng.sample(range(nc), k)
    elif style == 2:
        row = sorted(rng.sample(range(nc), k))
    elif style == 3:
        row = sorted(rng.sample(range(nc), k), reverse=True)
    else:                                   # the two ends of the probe and something in between
        row = ([nc - 1, 0] + rng.sample(range(1, nc - 1), max(k - 2, 0)))[:k] if nc > 2 else rng.sample(range(nc), k)
    row += [-1] * (w - len(row))
    r = rng.random()
    if r < 0.15:
        row[rng.randrange(w)] = -1
    elif r < 0.25:
        row[-1] = -1
    elif r < 0.3 and w > 1:
        row[rng.randrange(w)] = row[rng.randrange(w)]          # a channel stored twice
    return row


WIDE_NC = [9, 12, 17, 33, 64, 65, 96, 130, 384, 385]


def _wide_ids(rng, ns, j):
    """store spike ids: few and LARGE (up to 2^16 and beyond), increasing or not"""
    hi = _rot([3 * ns + 4, 40 * ns + 9, 1000, 70000, 2 ** 17 + 5], j)
    ids = rng.sample(range(0, hi), ns)
    if j % 7 == 2:
        ids[rng.randrange(ns)] = rng.choice([65535, 65536, 2 ** 17 + 4, 32767, 32768])
        ids = list(dict.fromkeys(ids))
        while len(ids) < ns:
            x = rng.randrange(hi)
            if x not in ids:
                ids.append(x)
    o = j % 3
    return sorted(ids) if o == 0 else sorted(ids, reverse=True) if (o == 1 and j % 2) else ids


def _wide_store_case(j, rng, nrmax=8):
    """look-up in a subset store of a many-channel recording (stage 5): stored rows of w << nc channels with large ids
    in any order, store ids few and large in any order, queried on the row itself / the row sorted / every channel /
    a mixture of stored and other channels"""
    nr = rng.randint(1, nrmax)
    sizes = _rand_sizes(rng, nr, 2)
    cs = rng.randint(1, nr)
    n = rng.randint(1, 5)
    nc = _rot(WIDE_NC, j) if j % 4 else rng.randint(5, 400)
    w = rng.choice([1, 2, 3, 4, 4, 6, 8, 12, 32]) if j % 9 else rng.choice([64, 65])
    w = min(w, 65)
    samples = _biased_samples(rng, nr, sizes, cs, n, rng.randint(1, 4))
    base = _export_case(j, rng, sizes, nc, cs, samples, n)
    inp = base['inp']
    inp['w'] = w
    inp['spikes'] = [[s, _wide_row(rng, nc, w)] for s in samples]
    inp.pop('amp', None)
    ns = len(samples)
    inp['ids'] = _wide_ids(rng, ns, j)
    qn = rng.randint(1, ns + 1)
    inp['q_ids'] = [rng.choice(inp['ids']) for _ in range(qn)] if j % 3 else rng.sample(inp['ids'], min(qn, ns))
    row = rng.choice(inp['spikes'])[1]
    real = list(dict.fromkeys(c for c in row if c >= 0))
    m = j % 5
    if m == 0 and real:
        qch = sorted(real)
    elif m == 1:
        qch = list(dict.fromkeys(row)) if real else [rng.randrange(nc)]
    elif m == 2 and nc <= 130:
        qch = list(range(nc))
    else:
        others = rng.sample(range(nc), min(nc, rng.randint(0, 4)))
        qch = list(dict.fromkeys(rng.sample(real, rng.randint(0, len(real))) + others)) + [-1] * rng.choice([0, 0, 1])
        rng.shuffle(qch)
        if not qch:
            qch = [rng.randrange(nc)]
    inp['q_ch'] = qch
    inp['qkind'] = _rot(CKINDS, j)
    return _with_names({'kind': 'store', 'inp': inp}, rng, j)


# ---- stage 6: axes drawn after the fifth seeding round ---------------------------------------------------
# 'poison': every sample of the recording that belongs to NO requested window (rows outside all windows, channels no
# spike lists -- in particular the LAST channel, which index -1 aliases) holds an extreme value: +-inf / NaN / the
# largest finite magnitude for float recordings, +-32767/-32768 for int16.  The statement makes the output
# independent of those samples (zeros for -1 channels and outside the recording), so the model is unchanged.
POISONS = ['nan', 'inf', 'mix', 'ninf', 'big']
# 'pre': what is at the export path BEFORE export_waveforms is called (history of calls in one directory / leftovers):
#  prev   = an earlier export_waveforms to the same path from the same recording: as many spikes, other samples and
#           channel rows, another unit factor       prevf = the same export with another unit factor only
#  same7  = a complete .npy of the declared shape and float64 holding other numbers
#  long / short = a complete float64 .npy with two spikes more / one spike less     i16 = same shape, int16
#  trunc  = a same-shape file cut short (interrupted export)      junk = bytes that are no .npy file
#  link   = a symbolic link to a complete same-shape file elsewhere      dangling = a symbolic link to a file that does not exist
PRES = ['prev', 'same7', 'prevf', 'long', 'trunc', 'prev', 'i16', 'junk', 'short', 'link', 'dangling']
# 'ppath': form of the export path argument: absolute str (default) | pathlib.Path | a str / Path RELATIVE to the
# working directory of the process (which is then the case's scratch directory)
PPATHS = ['path', 'rel', 'relpath']


def _stage6_axes(case, j):
    """rotate the two stage-6 axes over a drawn case (no random draws: the earlier streams are unchanged)"""
    inp = case['inp']
    cb = inp.get('backend') == 'cbin'
    if j % 3 == 1 and not cb:
        inp['poison'] = _rot(POISONS, j // 3)
    if case['kind'] in ('export', 'store', 'exportu') and j % 4 == 2:
        inp['pre'] = _rot(PRES, j // 4)
    if case['kind'] in ('export', 'store', 'exportu') and j % 5 == 3:
        inp['ppath'] = _rot(PPATHS, j // 5)
    return case


CORPUS = [
    # one boundary case per operator of the anchored code / per repaired defect (notes/C03.md)
    # double overflow (recording shorter than the window): top padding must be -t0 rows
    {'kind': 'extract', 'inp': {'sizes': [3], 'nc': 2, 'cs': 3, 'samples': [1], 'n': 8, 'chans': [0],
                                'cfgs': [['ndarray', 'int16', 'int64', 'i64']]}},
    # unsigned spike sample closer than n//2 to the start
    {'kind': 'extract', 'inp': {'sizes': [5], 'nc': 2, 'cs': 5, 'samples': [0, 1], 'n': 4, 'chans': [0],
                                'cfgs': [['ndarray', 'int16', 'uint64', 'i64'], ['ndarray', 'float32', 'uint32', 'i64']]}},
    # -1 channel given in a Python list
    {'kind': 'extract', 'inp': {'sizes': [3], 'nc': 2, 'cs': 3, 'samples': [1], 'n': 2, 'chans': [0, -1],
                                'cfgs': [['ndarray', 'int16', 'int64', 'list']]}},
    # window ends exactly at the end of the recording (t1 == dur: no bottom padding) / one beyond
    {'kind': 'extract', 'inp': {'sizes': [4, 2], 'nc': 2, 'cs': 2, 'samples': [3, 4, 5], 'n': 4, 'chans': [1, 0],
                                'cfgs': [['ndarray', 'float64', 'py', 'i32'], ['flat', 'int16', 'int64', 'i64']]}},
    # t0 == 0 exactly (no top padding) and t0 == -1
    {'kind': 'extract', 'inp': {'sizes': [6], 'nc': 1, 'cs': 4, 'samples': [1, 2], 'n': 5, 'chans': [0, -1],
                                'cfgs': [['array', 'float32', 'int32', 'list'], ['cbin', 'int16', 'uint64', 'i64']]}},
    # export: payload dtype vs declared dtype (int factor on int16, default float on float32)
    {'kind': 'export', 'inp': {'sizes': [3], 'nc': 2, 'cs': 2, 'backend': 'array', 'dtype': 'int16',
                               'spikes': [[0, [0, 1]], [2, [1, -1]]], 'n': 3, 'w': 2, 'factor': 'i1',
                               'sdtype': 'int64', 'cache': False, 'threads': 1}},
    {'kind': 'export', 'inp': {'sizes': [3], 'nc': 2, 'cs': 2, 'backend': 'array', 'dtype': 'float32',
                               'spikes': [[0, [0, 1]], [2, [1, -1]]], 'n': 3, 'w': 2, 'factor': 'f1',
                               'sdtype': 'int64', 'cache': False, 'threads': 1}},
    {'kind': 'export', 'inp': {'sizes': [3], 'nc': 2, 'cs': 2, 'backend': 'array', 'dtype': 'int16',
                               'spikes': [[0, [0, 1]], [2, [1, -1]]], 'n': 3, 'w': 2, 'factor': 'np32h',
                               'sdtype': 'int64', 'cache': False, 'threads': 1}},
    # samples at the top of the sample type's range: int16 x int factor 2 must not wrap, float32 x 2.5 must not
    # round (the product is to be taken in the declared float64)
    {'kind': 'export', 'inp': {'sizes': [3], 'nc': 2, 'cs': 2, 'backend': 'array', 'dtype': 'int16', 'amp': 1024,
                               'spikes': [[0, [0, 1]], [2, [1, -1]]], 'n': 3, 'w': 2, 'factor': 'i2',
                               'sdtype': 'int64', 'cache': False, 'threads': 1}},
    {'kind': 'export', 'inp': {'sizes': [3], 'nc': 2, 'cs': 2, 'backend': 'flat', 'dtype': 'int16', 'amp': 1024,
                               'spikes': [[0, [0, 1]], [2, [1, -1]]], 'n': 3, 'w': 2, 'factor': 'npi2',
                               'sdtype': 'int64', 'cache': False, 'threads': 1}},
    {'kind': 'export', 'inp': {'sizes': [3], 'nc': 2, 'cs': 2, 'backend': 'array', 'dtype': 'float32', 'amp': 762599,
                               'spikes': [[0, [0, 1]], [2, [1, -1]]], 'n': 3, 'w': 2, 'factor': 'f25',
                               'sdtype': 'int64', 'cache': False, 'threads': 1}},
    # stage 4: the unit factor omitted (default 1): the file holds the raw windows as float64
    {'kind': 'export', 'inp': {'sizes': [3], 'nc': 2, 'cs': 2, 'backend': 'flat', 'dtype': 'int16',
                               'spikes': [[0, [0, 1]], [2, [1, -1]]], 'n': 3, 'w': 2, 'factor': 'def',
                               'sdtype': 'int64', 'cache': False, 'threads': 1}},
    # spikes exactly on a chunk bound and on a file bound, one chunk without spikes, unsigned samples
    {'kind': 'export', 'inp': {'sizes': [2, 4], 'nc': 2, 'cs': 2, 'backend': 'flat', 'dtype': 'int16',
                               'spikes': [[1, [0]], [2, [1]], [2, [0]], [5, [-1]]], 'n': 2, 'w': 1, 'factor': 'fh',
                               'sdtype': 'uint64', 'cache': False, 'threads': 1}},
    # compressed backend, several batches, spike on every chunk bound
    {'kind': 'export', 'inp': {'sizes': [7], 'nc': 2, 'cs': 2, 'backend': 'cbin', 'dtype': 'int16',
                               'spikes': [[0, [0, 1]], [2, [0, 1]], [4, [1, 0]], [6, [-1, 0]]], 'n': 3, 'w': 2,
                               'factor': 'f25', 'sdtype': 'uint32', 'cache': True, 'threads': 2}},
    # no spike at all
    {'kind': 'export', 'inp': {'sizes': [3], 'nc': 2, 'cs': 2, 'backend': 'flat', 'dtype': 'float64',
                               'spikes': [], 'n': 3, 'w': 2, 'factor': 'f1', 'sdtype': 'int64', 'cache': False,
                               'threads': 1}},
    # store: shuffled and repeated ids, -1 in the query and in the stored row, a channel not stored
    {'kind': 'store', 'inp': {'sizes': [2, 3], 'nc': 3, 'cs': 2, 'backend': 'flat', 'dtype': 'int16',
                              'spikes': [[0, [2, -1]], [2, [0, 1]], [4, [1, 2]]], 'n': 3, 'w': 2, 'factor': 'f1',
                              'sdtype': 'int64', 'cache': False, 'threads': 1, 'ids': [7, 2, 5],
                              'q_ids': [5, 7, 5, 2], 'q_ch': [1, -1, 2], 'qkind': 'list'}},
    # store row with -1 in a NON-final position, queried on the channel right of it (seeded change C03-m2)
    {'kind': 'store', 'inp': {'sizes': [4], 'nc': 3, 'cs': 4, 'backend': 'flat', 'dtype': 'int16',
                              'spikes': [[1, [-1, 2, 0]], [3, [0, -1, 1]]], 'n': 2, 'w': 3, 'factor': 'f1',
                              'sdtype': 'int64', 'cache': False, 'threads': 1, 'ids': [4, 9],
                              'q_ids': [9, 4, 9], 'q_ch': [0, 1, 2], 'qkind': 'i64'}},
    # a channel queried twice: only its last column receives data (model equality only)
    {'kind': 'store', 'inp': {'sizes': [3], 'nc': 2, 'cs': 2, 'backend': 'flat', 'dtype': 'int16',
                              'spikes': [[0, [-1, 1]], [2, [1, 0]]], 'n': 2, 'w': 2, 'factor': 'f25',
                              'sdtype': 'int64', 'cache': False, 'threads': 1, 'ids': [7, 3],
                              'q_ids': [3], 'q_ch': [1, 1], 'qkind': 'list'}},
    # TemplateModel.get_waveforms: raw only (uint64 spike_times, float32 recording, two files, channel map)
    {'kind': 'model', 'inp': {'sizes': [4, 3], 'nc': 3, 'cs': 3, 'dtype': 'float32', 'samples': [0, 2, 2, 6], 'n': 4,
                              'extra': 2, 'cmrot': 1, 'offset': 0, 'tdtype': 'uint64', 'raw': True, 'store': None,
                              'q_ids': [3, 0, 1, 3], 'q_ch': [2, -1, 0], 'qkind': 'list'}},
    # ... store and raw data: the store answers (scaled, zeros on channels not stored)
    {'kind': 'model', 'inp': {'sizes': [4, 3], 'nc': 3, 'cs': 3, 'dtype': 'int16', 'samples': [0, 2, 2, 6], 'n': 4,
                              'extra': 2, 'cmrot': 1, 'offset': 0, 'tdtype': 'uint64', 'raw': True,
                              'store': {'via': 'export', 'ids': [1, 2, 3], 'table': [[0, -1], [-1, 2], [1, 1]], 'factor': 'fh'},
                              'q_ids': [3, 1, 3], 'q_ch': [2, -1, 0, 1], 'qkind': 'i64'}},
    # ... store without raw data; ... an id the store does not hold: raw route (with raw) / error (without)
    {'kind': 'model', 'inp': {'sizes': [7], 'nc': 3, 'cs': 3, 'dtype': 'int16', 'samples': [0, 2, 2, 6], 'n': 4,
                              'extra': 0, 'cmrot': 0, 'offset': 6, 'tdtype': 'int64', 'raw': False,
                              'store': {'via': 'export', 'ids': [1, 2, 3], 'table': [[0, -1], [-1, 2], [1, 1]], 'factor': 'i2'},
                              'q_ids': [2, 2, 1], 'q_ch': None, 'qkind': 'list'}},
    {'kind': 'model', 'inp': {'sizes': [7], 'nc': 3, 'cs': 3, 'dtype': 'float64', 'samples': [0, 2, 2, 6], 'n': 4,
                              'extra': 1, 'cmrot': 2, 'offset': 0, 'tdtype': 'uint32', 'raw': True,
                              'store': {'via': 'export', 'ids': [1, 2, 3], 'table': [[0, -1], [-1, 2], [1, 1]], 'factor': 'f25'},
                              'q_ids': [3, 0], 'q_ch': [1, 0], 'qkind': 'i32'}},
    {'kind': 'model', 'inp': {'sizes': [7], 'nc': 3, 'cs': 3, 'dtype': 'int16', 'samples': [0, 2, 2, 6], 'n': 4,
                              'extra': 0, 'cmrot': 0, 'offset': 0, 'tdtype': 'uint64', 'raw': False,
                              'store': {'via': 'export', 'ids': [1, 2, 3], 'table': [[0, -1], [-1, 2], [1, 1]], 'factor': 'f1'},
                              'q_ids': [3, 0], 'q_ch': [1, 0], 'qkind': 'list'}},
    # ... neither: None
    {'kind': 'model', 'inp': {'sizes': [7], 'nc': 3, 'cs': 3, 'dtype': 'int16', 'samples': [0, 2, 2, 6], 'n': 4,
                              'extra': 0, 'cmrot': 0, 'offset': 0, 'tdtype': 'uint64', 'raw': False, 'store': None,
                              'q_ids': [3, 0], 'q_ch': [1, 0], 'qkind': 'list'}},
    # ... the store written by save_spikes_subset_waveforms itself (12 channel columns, trailing -1)
    {'kind': 'model', 'inp': {'sizes': [4, 3], 'nc': 3, 'cs': 3, 'dtype': 'float32', 'samples': [0, 2, 2, 6], 'n': 4,
                              'extra': 2, 'cmrot': 1, 'offset': 0, 'tdtype': 'uint64', 'raw': True,
                              'store': {'via': 'save', 'nst': 50, 'mnc': 2, 'factor': 'np2'},
                              'q_ids': [3, 0, 0], 'q_ch': [0, 1], 'qkind': 'i64'}},
    # ---- stage 3 ----
    # a store of exactly one spike / one channel column reloaded through TemplateModel (repaired on main by 232c53c = fix-c10b 7a5fdd8: the
    # loader squeezed the three _phy_spikes_subset arrays, get_waveforms then raised TypeError / IndexError)
    {'kind': 'model', 'inp': {'sizes': [7], 'nc': 3, 'cs': 3, 'dtype': 'int16', 'samples': [0, 2, 2, 6], 'n': 4,
                              'extra': 0, 'cmrot': 0, 'offset': 0, 'tdtype': 'uint64', 'raw': True,
                              'store': {'via': 'export', 'ids': [1], 'table': [[0, 2]], 'factor': 'f25'},
                              'q_ids': [1, 1], 'q_ch': [2, 0, 1], 'qkind': 'list'}},
    {'kind': 'model', 'inp': {'sizes': [7], 'nc': 3, 'cs': 3, 'dtype': 'int16', 'samples': [0, 2, 2, 6], 'n': 4,
                              'extra': 0, 'cmrot': 0, 'offset': 0, 'tdtype': 'uint64', 'raw': True,
                              'store': {'via': 'export', 'ids': [1, 3], 'table': [[0], [2]], 'factor': 'f25'},
                              'q_ids': [3, 1], 'q_ch': [2, 0], 'qkind': 'i64'}},
    {'kind': 'model', 'inp': {'sizes': [7], 'nc': 3, 'cs': 3, 'dtype': 'float32', 'samples': [0, 2, 2, 6], 'n': 4,
                              'extra': 0, 'cmrot': 0, 'offset': 0, 'tdtype': 'int64', 'raw': False,
                              'store': {'via': 'export', 'ids': [3], 'table': [[2]], 'factor': 'i2'},
                              'q_ids': [3], 'q_ch': [2, 0], 'qkind': 'list'}},
    # _extract_waveform(traces, s, None, n): channel_ids=None = every channel; recording longer than wide, padding
    # on both sides (the zero rows must have traces.shape[1] columns)
    {'kind': 'extract', 'inp': {'sizes': [3], 'nc': 2, 'cs': 3, 'samples': [0, 2], 'n': 4, 'chans': [0, 1],
                                'cfgs': [['ndarray', 'int16', 'int64', 'none'], ['flat', 'float32', 'uint64', 'none']]}},
    # an UNSORTED spike vector over two chunks: the file is in chunk order, not in spike order (C03_ex_unsorted)
    {'kind': 'exportu', 'inp': {'sizes': [3], 'nc': 2, 'cs': 2, 'backend': 'flat', 'dtype': 'int16',
                                'spikes': [[2, [1, -1]], [0, [0, 1]]], 'n': 2, 'w': 2, 'factor': 'f1',
                                'sdtype': 'int64', 'cache': False, 'threads': 1}},
    # NpyWriter: empty chunk, a row, empty chunk, a row (exact); one row short; one row too many; int16 payload under
    # a float64 header; other trailing dimensions; no chunk under a declared (0, 1, 2); a row without its leading axis
    {'kind': 'npy', 'inp': {'shape': [2, 1, 2], 'dtype': 'float64', 'chunks': [
        {'shape': [0, 1, 2], 'dtype': 'float64', 'v0': 1}, {'shape': [1, 1, 2], 'dtype': 'float64', 'v0': 5},
        {'shape': [0, 1, 2], 'dtype': 'float64', 'v0': 1}, {'shape': [1, 1, 2], 'dtype': 'float64', 'v0': 7}]}},
    {'kind': 'npy', 'inp': {'shape': [2, 1, 2], 'dtype': 'float64', 'chunks': [{'shape': [1, 1, 2], 'dtype': 'float64', 'v0': 5}]}},
    {'kind': 'npy', 'inp': {'shape': [2, 1, 2], 'dtype': 'float64', 'chunks': [{'shape': [3, 1, 2], 'dtype': 'float64', 'v0': 5}]}},
    {'kind': 'npy', 'inp': {'shape': [2, 1, 2], 'dtype': 'float64', 'chunks': [{'shape': [2, 1, 2], 'dtype': 'int16', 'v0': 5}]}},
    {'kind': 'npy', 'inp': {'shape': [2, 1, 2], 'dtype': 'float64', 'chunks': [{'shape': [2, 2, 1], 'dtype': 'float64', 'v0': 5}]}},
    {'kind': 'npy', 'inp': {'shape': [0, 1, 2], 'dtype': 'float64', 'chunks': []}},
    {'kind': 'npy', 'inp': {'shape': [2, 1, 2], 'dtype': 'float32', 'chunks': [
        {'shape': [1, 2], 'dtype': 'float32', 'v0': 5}, {'shape': [1, 1, 2], 'dtype': 'float32', 'v0': 7}]}},
    # ---- stage 5 (indirect seeded changes C03-m10 / C03-m11) ----
    # a store of a 96-channel recording: rows of 4 channels, best channel first then neighbours (NOT increasing, ids
    # large compared with the row length), store ids few, large (beyond 2^16) and not increasing; queried on a row in
    # increasing order, as stored, and on channels the row does not hold
    {'kind': 'store', 'inp': {'sizes': [4, 3], 'nc': 96, 'cs': 3, 'backend': 'flat', 'dtype': 'int16',
                              'spikes': [[0, [70, 3, 41, 12]], [3, [5, 4, 6, 3]], [6, [95, 94, -1, 0]]], 'n': 3, 'w': 4,
                              'factor': 'f1', 'sdtype': 'int64', 'cache': False, 'threads': 1, 'ids': [70000, 12, 65536],
                              'q_ids': [65536, 70000, 12, 70000], 'q_ch': [3, 12, 41, 70, 94, 0], 'qkind': 'i64'}},
    {'kind': 'store', 'inp': {'sizes': [5], 'nc': 384, 'cs': 5, 'backend': 'flat', 'dtype': 'float32',
                              'spikes': [[1, [200, 199, 201, 198, 383, 0]], [4, [10, 300, 20, 80, -1, 7]]], 'n': 2, 'w': 6,
                              'factor': 'f25', 'sdtype': 'uint64', 'cache': False, 'threads': 1, 'ids': [900, 4],
                              'q_ids': [4, 900], 'q_ch': [10, 300, 20, 80, -1, 7, 200, 383], 'qkind': 'list'}},
    # a flat recording of three files of different lengths whose names, in the order GIVEN, are not in lexicographic
    # order (numbered parts t9, t10, t11); windows inside each file and across both file bounds
    {'kind': 'extract', 'inp': {'sizes': [3, 2, 4], 'nc': 2, 'cs': 4, 'samples': [0, 2, 3, 4, 5, 8], 'n': 3, 'chans': [1, 0],
                                'names': ['rec_g0_t9.bin', 'rec_g0_t10.bin', 'rec_g0_t11.bin'],
                                'cfgs': [['flat', 'int16', 'int64', 'i64'], ['flat', 'float32', 'uint64', 'list']]}},
    # ... two files given in descending name order, as str paths in a tuple; parts in directories that sort the other way
    {'kind': 'export', 'inp': {'sizes': [2, 3], 'nc': 2, 'cs': 2, 'backend': 'flat', 'dtype': 'int16',
                               'spikes': [[0, [0, 1]], [1, [1, 0]], [2, [0, -1]], [4, [1, 1]]], 'n': 2, 'w': 2, 'factor': 'f1',
                               'sdtype': 'int64', 'cache': False, 'threads': 1, 'names': ['b.dat', 'a.dat'],
                               'pkind': 'strtuple'}},
    {'kind': 'export', 'inp': {'sizes': [3, 3], 'nc': 2, 'cs': 4, 'backend': 'flat', 'dtype': 'float64',
                               'spikes': [[0, [0, 1]], [3, [1, 0]], [5, [1, 1]]], 'n': 3, 'w': 2, 'factor': 'fh',
                               'sdtype': 'uint32', 'cache': True, 'threads': 1, 'names': ['run2/part.raw', 'run1/part.raw']}},
    # ... through TemplateModel (dat_path = a list of raw files): raw route, and the store exported from those traces
    {'kind': 'model', 'inp': {'sizes': [4, 3], 'nc': 3, 'cs': 3, 'dtype': 'int16', 'samples': [0, 2, 4, 6], 'n': 4,
                              'extra': 1, 'cmrot': 1, 'offset': 0, 'tdtype': 'uint64', 'raw': True, 'store': None,
                              'q_ids': [3, 0, 2], 'q_ch': [2, 0, 1], 'qkind': 'list',
                              'names': ['rec_t9.dat', 'rec_t10.dat']}},
    {'kind': 'model', 'inp': {'sizes': [2, 2, 3], 'nc': 33, 'cs': 3, 'dtype': 'int16', 'samples': [0, 2, 4, 6], 'n': 4,
                              'extra': 0, 'cmrot': 0, 'offset': 0, 'tdtype': 'int64', 'raw': False,
                              'store': {'via': 'export', 'ids': [0, 2, 3], 'table': [[20, 3, 31], [5, 32, 0], [16, 15, 17]],
                                        'factor': 'f25'},
                              'q_ids': [3, 0, 2, 0], 'q_ch': [0, 3, 5, 15, 16, 17, 20, 31, 32], 'qkind': 'i32',
                              'names': ['c.dat', 'b.dat', 'a.dat'], 'pkind': 'str'}},
    # ---- stage 6 (fifth-round seeded changes C03-m12 / C03-m13) ----
    # float recordings whose samples OUTSIDE the requested windows / channels are NaN, +-inf: a -1 entry must give
    # zeros although index -1 aliases the last channel (here unrequested, hence non-finite)
    {'kind': 'extract', 'inp': {'sizes': [4], 'nc': 2, 'cs': 4, 'samples': [0, 2, 3], 'n': 3, 'chans': [0, -1], 'poison': 'nan',
                                'cfgs': [['ndarray', 'float32', 'int64', 'i64'], ['flat', 'float64', 'uint64', 'list'],
                                         ['array', 'int16', 'int32', 'i32']]}},
    {'kind': 'export', 'inp': {'sizes': [3, 2], 'nc': 3, 'cs': 2, 'backend': 'flat', 'dtype': 'float64', 'poison': 'mix',
                               'spikes': [[0, [0, -1]], [2, [-1, 1]], [4, [1, 0]]], 'n': 3, 'w': 2, 'factor': 'f25',
                               'sdtype': 'int64', 'cache': False, 'threads': 1}},
    {'kind': 'store', 'inp': {'sizes': [4], 'nc': 3, 'cs': 3, 'backend': 'array', 'dtype': 'float32', 'poison': 'inf',
                              'spikes': [[1, [-1, 0]], [3, [1, -1]]], 'n': 2, 'w': 2, 'factor': 'f1',
                              'sdtype': 'uint64', 'cache': False, 'threads': 1, 'ids': [4, 9],
                              'q_ids': [9, 4], 'q_ch': [0, 1, 2], 'qkind': 'i64'}},
    # the export path already holds the result of an earlier export of as many spikes (other samples, other factor);
    # a complete file of the declared shape with other numbers; a truncated one
    {'kind': 'export', 'inp': {'sizes': [5], 'nc': 2, 'cs': 2, 'backend': 'flat', 'dtype': 'int16', 'pre': 'prev',
                               'spikes': [[0, [0, 1]], [1, [1, -1]], [4, [1, 0]]], 'n': 3, 'w': 2, 'factor': 'f25',
                               'sdtype': 'int64', 'cache': False, 'threads': 1}},
    {'kind': 'export', 'inp': {'sizes': [3], 'nc': 2, 'cs': 2, 'backend': 'array', 'dtype': 'float32', 'pre': 'same7',
                               'spikes': [[0, [0, 1]], [2, [1, -1]]], 'n': 3, 'w': 2, 'factor': 'def',
                               'sdtype': 'uint64', 'cache': True, 'threads': 1}},
    {'kind': 'store', 'inp': {'sizes': [2, 3], 'nc': 3, 'cs': 2, 'backend': 'flat', 'dtype': 'int16', 'pre': 'prevf',
                              'spikes': [[0, [2, -1]], [2, [0, 1]], [4, [1, 2]]], 'n': 3, 'w': 2, 'factor': 'f1',
                              'sdtype': 'int64', 'cache': False, 'threads': 1, 'ids': [7, 2, 5],
                              'q_ids': [5, 7, 2], 'q_ch': [1, 0, 2], 'qkind': 'list'}},
    {'kind': 'export', 'inp': {'sizes': [3], 'nc': 2, 'cs': 2, 'backend': 'flat', 'dtype': 'int16', 'pre': 'trunc',
                               'spikes': [[0, [0, 1]], [2, [1, -1]]], 'n': 3, 'w': 2, 'factor': 'fh',
                               'sdtype': 'int64', 'cache': False, 'threads': 1}},
    # the export path given relative to the working directory, where a symbolic link to a complete same-shape file sits
    {'kind': 'export', 'inp': {'sizes': [2, 2], 'nc': 2, 'cs': 3, 'backend': 'flat', 'dtype': 'float32', 'pre': 'link',
                               'ppath': 'relpath', 'spikes': [[1, [0, 1]], [3, [1, -1]]], 'n': 2, 'w': 2, 'factor': 'np2',
                               'sdtype': 'uint32', 'cache': False, 'threads': 1}},
    # TemplateModel raw route, -1 among the queried channels, every unrequested sample of the float raw files NaN/inf
    {'kind': 'model', 'inp': {'sizes': [4, 3], 'nc': 3, 'cs': 3, 'dtype': 'float32', 'samples': [0, 2, 2, 6], 'n': 4,
                              'extra': 1, 'cmrot': 1, 'offset': 0, 'tdtype': 'uint64', 'raw': True, 'store': None,
                              'q_ids': [3, 0, 1], 'q_ch': [1, -1, 0], 'qkind': 'list', 'poison': 'mix'}},
    # TemplateModel: the store files of the dataset directory are written twice (fixed names), the second time with
    # another unit factor: save_spikes_subset_waveforms called again / export over a complete same-shape file
    {'kind': 'model', 'inp': {'sizes': [4, 3], 'nc': 3, 'cs': 3, 'dtype': 'int16', 'samples': [0, 2, 2, 6], 'n': 4,
                              'extra': 2, 'cmrot': 1, 'offset': 0, 'tdtype': 'uint64', 'raw': True,
                              'store': {'via': 'save', 'nst': 50, 'mnc': 2, 'factor': 'f25', 'pre': 'prev'},
                              'q_ids': [3, 0, 0], 'q_ch': [0, 1], 'qkind': 'i64'}},
    {'kind': 'model', 'inp': {'sizes': [7], 'nc': 3, 'cs': 3, 'dtype': 'float32', 'samples': [0, 2, 2, 6], 'n': 4,
                              'extra': 0, 'cmrot': 0, 'offset': 0, 'tdtype': 'int64', 'raw': False,
                              'store': {'via': 'export', 'ids': [1, 2, 3], 'table': [[0, -1], [-1, 2], [1, 1]], 'factor': 'i2',
                                        'pre': 'same7'},
                              'q_ids': [2, 3, 1], 'q_ch': None, 'qkind': 'list'}},
]


def generate(tier, rng):
    cases = _generate(tier, rng)
    # stage 6: the two new axes rotated over every drawn case (the corpus carries its own forced instances)
    nco = len(CORPUS)
    for j, c in enumerate(cases[nco:]):
        if c['kind'] in ('extract', 'export', 'store', 'exportu'):
            c['inp'] = dict(c['inp'])
            _stage6_axes(c, j)
        elif c['kind'] == 'model':
            st = c['inp'].get('store')
            if st and j % 3 == 1:
                c['inp'] = dict(c['inp'], store=dict(st, pre=_rot(['prev', 'same7'], j // 3)))
            if j % 3 == 2 and not (st and st['via'] == 'save'):
                c['inp'] = dict(c['inp'], poison=_rot(POISONS, j // 3))
    return cases


def _generate(tier, rng):
    cases = [dict(c) for c in CORPUS]
    if tier == 'search':
        for i in range(1500):
            cases += _random_cases(i, rng, 30, 7)
        for i in range(600):
            cases.append(_model_case(i, rng, 20))
        for i in range(1200):
            cases.append(_wide_store_case(i, rng, 12))
        for i in range(300):
            nr = rng.randint(2, 30)
            sizes = _rand_sizes(rng, nr, 3)
            cs = rng.randint(1, nr)
            n = rng.randint(1, 7)
            cases.append(_unsorted_case(i, rng, sizes, rng.randint(1, 4), cs,
                                        _biased_samples(rng, nr, sizes, cs, n, rng.randint(2, 6)), n))
        cases += _npy_cases(False, rng)
        return cases
    quick = tier == 'quick'
    i = 0
    # ---- exhaustive small scope: direct extraction
    nrmax, nmax, kmax = (6, 5, 2) if quick else (8, 6, 3)
    for nr in range(1, nrmax + 1):
        splits = list(_splits(nr, 2))
        for n in range(1, nmax + 1):
            for samples in _multisets(nr, kmax):
                nc = 2 if (quick or len(samples) == 3) else _rot([2, 3], i)
                for chans in (CHANS[nc] if len(samples) < 3 else [_rot(CHANS[nc], i)]):
                    sizes = _rot(splits, i)
                    i += 1
                    cases.append({'kind': 'extract', 'inp': {
                        'sizes': sizes, 'nc': nc, 'cs': 1 + i % nr, 'samples': samples, 'n': n, 'chans': chans,
                        'cfgs': _cfgs(i, len(sizes) == 1)}})
                    if len(sizes) == 2 and i % 2 and _rot(TWO_NAMES, i // 2):
                        cases[-1]['inp']['names'] = _rot(TWO_NAMES, i // 2)
    # ---- exhaustive small scope: export through flat / array readers, every split and chunk length
    nrmax, nmax, kmax = (5, 5, 2) if quick else (7, 5, 3)
    for nr in range(1, nrmax + 1):
        for sizes in _splits(nr, 2):
            for cs in range(1, nr + 1):
                for n in range(1, nmax + 1):
                    for samples in _multisets(nr, kmax if nr <= 6 else 2):
                        i += 1
                        c = _export_case(i, rng, sizes, 2, cs, samples, n)
                        if len(sizes) == 2 and i % 2:      # stage 5: file names rotated on the implementation side
                            nm = _rot(TWO_NAMES, i // 2)
                            if nm:
                                c['inp']['names'] = nm
                            if (i // 2) % 3 == 1:
                                c['inp']['pkind'] = _rot(PKINDS[1:], i // 6)
                        cases.append(c)
    # ---- compressed backend: every chunk length, spikes on every position
    nrmax, ns_ = (6, (2, 3)) if quick else (8, (1, 2, 3, 4, 5))
    for nr in range(1, nrmax + 1):
        for cs in range(1, nr + 1):
            for n in ns_:
                for samples in _multisets(nr, 2):
                    i += 1
                    cases.append(_export_case(i, rng, [nr], 2, cs, samples, n, backend='cbin'))
    # ---- stores over small exports
    for j in range(600 if quick else 6000):
        nr = rng.randint(1, 8)
        sizes = _rand_sizes(rng, nr, 2)
        cs = rng.randint(1, nr)
        n = rng.randint(1, 6)
        nc = rng.randint(1, 4)
        samples = _biased_samples(rng, nr, sizes, cs, n, rng.randint(1, 4))
        base = _export_case(i + j, rng, sizes, nc, cs, samples, n)
        cases.append(_store_case(j, rng, base))
    # ---- stage 5: stores of many-channel recordings (rows of few large channel ids in any order, large store ids)
    for j in range(240 if quick else 4000):
        cases.append(_wide_store_case(j, rng))
    # ---- TemplateModel.get_waveforms on dataset directories (raw / store / both / neither)
    for j in range(320 if quick else 4000):
        cases.append(_model_case(j, rng))
    # ---- random larger
    for j in range(500 if quick else 6000):
        cases += _random_cases(j, rng, 40, 9)
    # ---- stage 3: channel_ids=None (all channels) through _extract_waveform directly
    k = 0
    for nr in range(1, 6 if quick else 9):
        for n in range(1, 6):
            for samples in _multisets(nr, 1 if quick else 2):
                for nc in ((2,) if quick else (1, 2, 3)):
                    k += 1
                    rb = _rot(['flat', 'array', 'flat', 'array', 'flat', 'cbin', 'array'], k)
                    cases.append({'kind': 'extract', 'inp': {
                        'sizes': [nr], 'nc': nc, 'cs': 1 + k % nr, 'samples': samples, 'n': n, 'chans': list(range(nc)),
                        'cfgs': [['ndarray', _rot(DTYPES, k), _rot(SDTYPES, k), 'none'],
                                 [rb, _rot(DTYPES, k + 1), _rot(SDTYPES, k + 2), 'none']]}})
    # ---- stage 3: unsorted spike vectors (exhaustive small scope: every ordered pair / triple, then random)
    k = 0
    for nr in range(2, 5 if quick else 7):
        for cs in range(1, nr + 1):
            for samples in itertools.product(range(nr), repeat=2):
                if samples[0] > samples[1]:
                    k += 1
                    c = _export_case(k, rng, [nr], 2, cs, list(samples), 1 + k % 4,
                                     backend=_rot(['flat', 'array', 'flat', 'array', 'cbin'], k))
                    c['inp'].pop('amp', None)
                    cases.append({'kind': 'exportu', 'inp': c['inp']})
    for j in range(60 if quick else 1500):
        nr = rng.randint(2, 16)
        sizes = _rand_sizes(rng, nr, 3)
        cs = rng.randint(1, nr)
        n = rng.randint(1, 6)
        cases.append(_unsorted_case(j, rng, sizes, rng.randint(1, 3), cs,
                                    _biased_samples(rng, nr, sizes, cs, n, rng.randint(2, 5)), n))
    # ---- stage 3: NpyWriter directly
    cases += _npy_cases(quick, rng)
    return cases


def _random_cases(j, rng, nrmax, nmax):
    out = []
    nr = rng.randint(1, nrmax)
    many = j % 10 == 7 and nr >= 4             # stage 5: a recording made of many files (up to 12: f10.bin sorts before f2.bin)
    sizes = _rand_sizes(rng, nr, 12 if many else 3)
    cs = rng.randint(1, nr)
    n = rng.randint(1, nmax)
    nc = rng.randint(1, 4) if j % 6 != 4 else rng.choice(WIDE_NC)
    samples = _biased_samples(rng, nr, sizes, cs, n, rng.randint(0, 6))
    chans = [rng.choice([-1] + list(range(nc)) * 2) for _ in range(rng.randint(1, 5))]
    scheme = None if j % 3 == 1 else 0         # one multi-file case in three: drawn file names / kind of path argument
    out.append(_with_names({'kind': 'extract', 'inp': {'sizes': sizes, 'nc': nc, 'cs': cs, 'samples': samples, 'n': n,
                                                       'chans': chans, 'cfgs': _cfgs(j, len(sizes) == 1)}},
                           rng, j, scheme))
    backend = None
    if len(sizes) == 1 and j % 4 == 0 and nr / cs <= 20:
        backend = 'cbin'
    base = _with_names(_export_case(j, rng, sizes, nc, cs, samples, n, backend=backend), rng, j + 1, scheme)
    out.append(base)
    if samples:
        out.append(_with_names(_store_case(j, rng, _export_case(j + 1, rng, sizes, nc, cs, samples, n, backend=backend)),
                               rng, j + 2, scheme))
    return out


# ---- implementation side -------------------------------------------------------------------------

def _tmp():
    base = os.environ.get('VT_WORK') or tempfile.gettempdir()
    return tempfile.mkdtemp(prefix='c03_', dir=base)


def _data(np, nr, nc, dtype, amp=1):
    return ((10 * np.arange(nr)[:, None] + np.arange(nc)[None, :] + 1) * amp).astype(dtype)


def _amp(dtype, nr, nc):
    """Amplitude that puts the samples at the top of their type's exact range (so that arithmetic done in
    the recording's own sample type instead of the declared float64 overflows / rounds): int16 -> the largest
    power of two keeping the samples <= 32767 (twice a sample does not fit int16); float32 -> an odd multiplier
    giving 24-bit mantissas (x 2.5 is not representable in float32, exact in float64); float64 -> 1."""
    top = 10 * (nr - 1) + nc
    if dtype == 'int16':
        a = 1
        while 2 * a * top <= 32767:
            a *= 2
        return a
    if dtype == 'float32':
        a = (2 ** 24 - 1) // top
        return a if a % 2 else a - 1
    return 1


def _part_paths(d, k, names=None, default='f%d.bin'):
    """absolute paths of the k parts of a flat recording IN THE ORDER THE PARTS ARE GIVEN (stage 5): names = relative
    file names (possibly inside sub-directories, created here) or None = the default numbered names"""
    out = []
    for j in range(k):
        rel = names[j] if names else default % j
        p = os.path.join(d, *rel.split('/'))
        if os.path.dirname(p) != d:
            os.makedirs(os.path.dirname(p), exist_ok=True)
        out.append(p)
    assert len(set(out)) == k
    return out


def _referenced(np, nr, nc, n, pairs):
    """boolean (nr, nc) mask of the samples that belong to a requested window: pairs = [(spike sample, channel list or
    None = every channel)]; rows [s - n//2, s - n//2 + n) inside the recording x the listed channels >= 0"""
    ref = np.zeros((nr, nc), dtype=bool)
    for s, ch in pairs:
        t0 = int(s) - n // 2
        lo, hi = max(t0, 0), min(t0 + n, nr)
        if lo < hi:
            cols = list(range(nc)) if ch is None else sorted(set(int(c) for c in ch if c >= 0))
            if cols:
                ref[lo:hi, cols] = True
    return ref


def _poison(np, arr, kind, ref):
    """stage 6: overwrite every sample outside the requested windows with extreme values of the sample type"""
    if not kind or ref is None:
        return arr
    if arr.dtype.kind == 'f':
        big = float(np.finfo(arr.dtype).max)
        vals = {'nan': [np.nan], 'inf': [np.inf], 'ninf': [-np.inf], 'big': [big, -big],
                'mix': [np.inf, np.nan, -np.inf, big, -big]}[kind]
    else:
        info = np.iinfo(arr.dtype)
        vals = [info.max, info.min] if kind != 'ninf' else [info.min]
    idx = np.argwhere(~ref)
    if len(idx):
        arr[idx[:, 0], idx[:, 1]] = np.array([vals[t % len(vals)] for t in range(len(idx))], dtype=arr.dtype)
    return arr


def _traces(np, d, backend, sizes, nc, cs, dtype, threads=1, amp=1, names=None, pkind='path', poison=None):
    """-> (traces object, closer, chunk info or None); poison = None | (kind, mask of the requested samples)"""
    from phylib.io.traces import get_ephys_reader
    from pathlib import Path
    nr = sum(sizes)
    arr = _data(np, nr, nc, dtype, amp)
    if poison and backend != 'cbin':
        arr = _poison(np, arr, poison[0], poison[1])
    if backend == 'ndarray':
        return arr, None, None
    rate = cs / 600.0
    if backend == 'array':
        assert len(sizes) == 1
        return get_ephys_reader(arr, sample_rate=rate), None, None
    if backend == 'flat':
        paths, acc = [], 0
        for p, s in zip(_part_paths(d, len(sizes), names), sizes):
            arr[acc:acc + s].tofile(p)
            acc += s
            paths.append(p if pkind in ('str', 'strtuple') else Path(p))
        if pkind in ('tuple', 'strtuple'):
            paths = tuple(paths)
        return get_ephys_reader(paths, sample_rate=rate, dtype=np.dtype(dtype), n_channels=nc), None, None
    if backend == 'cbin':
        import mtscomp
        assert len(sizes) == 1
        p = os.path.join(d, 'a.dat')
        arr.tofile(p)
        mtscomp.compress(p, os.path.join(d, 'a.cbin'), os.path.join(d, 'a.ch'), sample_rate=10.,
                         n_channels=nc, dtype=np.dtype(dtype), chunk_duration=cs / 10., n_threads=1,
                         check_after_compress=False, quiet=True)
        rd = mtscomp.Reader(n_threads=threads)
        rd.open(os.path.join(d, 'a.cbin'), os.path.join(d, 'a.ch'))
        er = get_ephys_reader(rd)
        return er, rd.close, [[int(x) for x in rd.chunk_bounds], int(rd.batch_size)]
    raise ValueError(backend)


def _canon(np, arr, mul=1):
    a = np.asarray(arr)
    if a.ndim != 3:
        return ['badrank', list(a.shape)]
    v = a.astype(np.float64) * mul
    if not np.all(np.isfinite(v)) or not np.all(v == np.round(v)) or np.abs(v).max(initial=0) > 1e12:
        return ['garbage', a.dtype.name, list(a.shape)]
    return ['waves', a.dtype.name, [int(x) for x in a.shape], np.round(v).astype(np.int64).tolist()]


def _samples(np, vals, sdtype):
    if sdtype == 'py':
        return [int(v) for v in vals]
    return np.array(vals, dtype=sdtype)


def _chans(np, vals, ckind):
    if ckind == 'list':
        return [int(v) for v in vals]
    return np.array(vals, dtype={'i64': np.int64, 'i32': np.int32}[ckind])


def _factor(np, key):
    return eval(FACTORS[key][0], {'np': np})


def _pre_file(np, path, i, tr, table):
    """stage 6: put something at the export path before the export that is judged (see PRES)"""
    from phylib.io.traces import export_waveforms
    pre = i['pre']
    ns, nr = len(i['spikes']), sum(i['sizes'])
    shape = (ns, i['n'], i['w'])
    if pre in ('prev', 'prevf'):
        if pre == 'prev':          # as many spikes: mirrored samples (sorted), channel rows in reverse order
            vals = sorted(nr - 1 - s for s, _ in i['spikes'])
            tab = table[::-1].copy()
        else:
            vals, tab = [s for s, _ in i['spikes']], table
        export_waveforms(path, tr, _samples(np, vals, i['sdtype']), tab, n_samples_waveforms=i['n'],
                         sample2unit=3.0 if i['factor'] != 'def' else 0.5)
    elif pre == 'same7':
        np.save(path, np.full(shape, 7.0))
    elif pre == 'long':
        np.save(path, np.full((ns + 2,) + shape[1:], 7.0))
    elif pre == 'short':
        np.save(path, np.full((max(ns - 1, 0),) + shape[1:], 7.0))
    elif pre == 'i16':
        np.save(path, np.full(shape, 7, dtype=np.int16))
    elif pre == 'trunc':
        np.save(path, np.full(shape, 7.0))
        sz = os.path.getsize(path)
        with open(path, 'r+b') as f:
            f.truncate(max(sz - 9, 1))
    elif pre == 'junk':
        with open(path, 'wb') as f:
            f.write(b'not an npy file\n' * 3)
    elif pre == 'link':
        target = os.path.join(os.path.dirname(path), 'elsewhere.npy')
        np.save(target, np.full(shape, 7.0))
        os.symlink(target, path)
    elif pre == 'dangling':
        os.symlink(os.path.join(os.path.dirname(path), 'absent.npy'), path)
    else:
        raise ValueError(pre)


def _do_export(np, d, i):
    from phylib.io.traces import export_waveforms
    poison = None
    if i.get('poison'):
        poison = (i['poison'], _referenced(np, sum(i['sizes']), i['nc'], i['n'], [(s, r) for s, r in i['spikes']]))
    tr, close, chunkinfo = _traces(np, d, i['backend'], i['sizes'], i['nc'], i['cs'], i['dtype'], i.get('threads', 1),
                                   amp=i.get('amp', 1), names=i.get('names'), pkind=i.get('pkind') or 'path',
                                   poison=poison)
    try:
        samples = _samples(np, [s for s, _ in i['spikes']], i['sdtype'])
        table = np.array([r for _, r in i['spikes']], dtype=np.int64).reshape(len(i['spikes']), i['w'])
        path = os.path.join(d, 'w.npy')
        kw = {} if i['factor'] == 'def' else {'sample2unit': _factor(np, i['factor'])}
        if i.get('pre'):
            _pre_file(np, path, i, tr, table)
        arg, cwd, pp = path, None, i.get('ppath')
        if pp == 'path':
            from pathlib import Path
            arg = Path(path)
        elif pp in ('rel', 'relpath'):
            from pathlib import Path
            cwd = os.getcwd()
            os.chdir(d)
            arg = 'w.npy' if pp == 'rel' else Path('w.npy')
        try:
            export_waveforms(arg, tr, samples, table, n_samples_waveforms=i['n'], cache=i['cache'], **kw)
        finally:
            if cwd:
                os.chdir(cwd)
    finally:
        if close:
            close()
    return path, chunkinfo


def run_case(case):
    import numpy as np
    k, i = case['kind'], case['inp']
    d = _tmp()
    try:
        if k == 'extract':
            from phylib.io.traces import extract_waveforms
            results = []
            for cfg in i['cfgs']:
                backend, dtype, sdtype, ckind = cfg
                try:
                    sub = os.path.join(d, 'c%d' % len(results))
                    os.mkdir(sub)
                    poison = None
                    if i.get('poison'):
                        chs = None if ckind == 'none' else i['chans']
                        poison = (i['poison'], _referenced(np, sum(i['sizes']), i['nc'], i['n'],
                                                           [(s, chs) for s in i['samples']]))
                    tr, close, _ = _traces(np, sub, backend, i['sizes'], i['nc'], i['cs'], dtype,
                                           names=i.get('names'), pkind=i.get('pkind') or 'path', poison=poison)
                    try:
                        if ckind == 'none':
                            # channel_ids=None (every channel): only _extract_waveform accepts it
                            from phylib.io.traces import _extract_waveform
                            ws = [_extract_waveform(tr, s, None, i['n']) for s in _samples(np, i['samples'], sdtype)]
                            out = np.stack(ws) if ws else np.zeros((0, i['n'], i['nc']), dtype=dtype)
                        else:
                            out = extract_waveforms(tr, _samples(np, i['samples'], sdtype), _chans(np, i['chans'], ckind),
                                                    n_samples_waveforms=i['n'])
                        res = _canon(np, out)
                        if res[0] == 'waves' and res[1] != dtype:
                            # stage 4: the window is made of rows of the recording: same sample type (the model is
                            # polymorphic in the sample type and returns that very type); judged as a failure
                            res = ['wrongdtype', 'got %s for a %s recording' % (res[1], dtype)]
                    finally:
                        if close:
                            close()
                except Exception as e:  # noqa
                    res = ['crash', type(e).__name__, str(e)[:120]]
                results.append(res)
            # fold: distinct outcomes with the configurations that produced them
            folded = []
            for cfg, res in zip(i['cfgs'], results):
                key = res[:1] + res[2:] if res[0] == 'waves' else res[:2]
                for f in folded:
                    if f[0] == key:
                        f[1].append(cfg)
                        break
                else:
                    folded.append([key, [cfg], res])
            return ('multi', [[f[2], f[1]] for f in folded])
        if k == 'npy':
            return _run_npy(np, d, i)
        if k in ('export', 'store', 'exportu'):
            path, chunkinfo = _do_export(np, d, i)
            try:
                w = np.load(path, mmap_mode='r' if k == 'store' else None)
            except Exception as e:  # noqa
                return ('unloadable', type(e).__name__, str(e)[:120], chunkinfo)
            if k in ('export', 'exportu'):
                return ('file', _canon(np, w, 2), chunkinfo)
            from phylib.io.traces import get_spike_waveforms
            from phylib.utils import Bunch
            st = Bunch(spike_ids=np.array(i['ids'], dtype=np.int64),
                       spike_channels=np.array([r for _, r in i['spikes']], dtype=np.int32).reshape(len(i['spikes']), i['w']),
                       waveforms=w)
            q_ids = np.array(i['q_ids'], dtype=np.int64) if i['qkind'] != 'list' else list(i['q_ids'])
            out = get_spike_waveforms(q_ids, _chans(np, i['q_ch'], i['qkind']), spike_waveforms=st,
                                      n_samples_waveforms=i['n'])
            res = _canon(np, out, 2)
            del w, st
            return ('lookup', res, chunkinfo)
        if k == 'model':
            return _run_model(np, d, i)
        raise ValueError(k)
    finally:
        shutil.rmtree(d, ignore_errors=True)


def _npy_values(np, c):
    n = 1
    for x in c['shape']:
        n *= x
    return (c['v0'] + np.arange(n)).reshape(c['shape']).astype(c['dtype'])


def _run_npy(np, d, i):
    from phylib.io.traces import NpyWriter
    path = os.path.join(d, 'x.npy')
    w = NpyWriter(path, tuple(i['shape']), np.dtype(i['dtype']))
    asserted = False
    try:
        for c in i['chunks']:
            w.append(_npy_values(np, c))
    except AssertionError:
        asserted = True
    finally:
        w.close()
    if asserted:
        return ('npy', [['assert']])
    same = all(c['dtype'] == i['dtype'] for c in i['chunks'])
    res = []
    for mm in (None, 'r'):
        try:
            a = np.load(path, mmap_mode=mm)
        except Exception as e:  # noqa  (a modelled outcome: too few bytes)
            res.append(['unloadable', type(e).__name__])
            continue
        flat = []
        if same:          # otherwise the bytes of another dtype are reinterpreted: only shape/dtype are compared
            v = np.asarray(a).astype(np.float64).ravel()
            if not np.all(v == np.round(v)):
                res.append(['garbage', a.dtype.name])
                continue
            flat = [int(x) for x in v]
        res.append(['load', a.dtype.name, [int(x) for x in a.shape], flat])
        del a
    return ('npy', res)


def _run_model(np, d, i):
    from phylib.io.model import TemplateModel
    kw, paths = DS.write_dataset(np, d, i)
    st = i.get('store')
    info = None
    if st:
        m = TemplateModel(dat_path=paths, **kw)          # the store is exported from the model's own traces
        try:
            if st['via'] == 'save':
                if st.get('pre'):      # stage 6: the store files (fixed names) already written once, with another unit factor
                    m.save_spikes_subset_waveforms(max_n_spikes_per_template=st['nst'], max_n_channels=st.get('mnc'),
                                                   sample2unit=3.0)
                m.save_spikes_subset_waveforms(max_n_spikes_per_template=st['nst'], max_n_channels=st.get('mnc'),
                                               sample2unit=_factor(np, st['factor']))
                info = DS.read_store(np, d)
            else:
                DS.write_store(np, d, m, st, _factor(np, st['factor']))
        finally:
            m.close()
    m = TemplateModel(dat_path=(paths if i['raw'] else None), **kw)
    try:
        q_ids = list(i['q_ids']) if i['qkind'] == 'list' else np.array(i['q_ids'], dtype=np.int64)
        q_ch = None if i['q_ch'] is None else _chans(np, i['q_ch'], i['qkind'])
        try:
            out = m.get_waveforms(q_ids, q_ch)
        except Exception as e:  # noqa  (a modelled outcome: e.g. a store that misses an id and no raw data)
            return ('model', ['raised', type(e).__name__, str(e)[:100]], info)
        if out is None:
            return ('model', ['none'], info)
        return ('model', _canon(np, out, 2), info)
    finally:
        m.close()


# ---- encoding for Coq ---------------------------------------------------------------------------

def _waves(nested):
    return q.lst(nested, q.zll)


def _obs_waves(res):
    if res[0] == 'waves':
        return q.app('ObsWaves', q.zl(res[2]), _waves(res[3]))
    return 'ObsCrash'


def _spikes(sp):
    return q.lst(sp, lambda p: '(mkspike %s %s)' % (q.z(p[0]), q.zl(p[1])))


def _chunking(i, chunkinfo):
    if i['backend'] == 'cbin':
        if chunkinfo is None:
            # the reader could not even be built: well-formed stand-in, the crash is judged as a failure
            nr = sum(i['sizes'])
            return q.app('Mts', q.zl([0, nr]), q.z(1))
        return q.app('Mts', q.zl(chunkinfo[0]), q.z(chunkinfo[1]))
    return q.app('Flat', q.zl(i['sizes']), q.z(i['cs']))


DT = {'int16': 'I16', 'float32': 'F32', 'float64': 'F64'}


def _encode_npy(i, obs, crash):
    def arr(c):
        n = 1
        for x in c['shape']:
            n *= x
        return '(mkarr %s %s %s)' % (q.zl(c['shape']), DT[c['dtype']], q.zl([c['v0'] + j for j in range(n)]))
    cin = q.app('InNpy', q.zl(i['shape']), DT[i['dtype']], q.lst(i['chunks'], arr))
    if crash:
        return cin, 'ObsCrash'
    items = []
    for r in obs[1]:
        if r[0] == 'assert':
            items.append('ObsAssert')
        elif r[0] == 'unloadable':
            items.append('ObsUnloadable')
        elif r[0] == 'load' and r[1] in DT:
            items.append(q.app('ObsLoad', DT[r[1]], q.zl(r[2]), q.zl(r[3])))
        else:
            items.append('ObsCrash')
    return cin, (items[0] if len(items) == 1 else q.app('ObsMany', q.lst(items)))


def encode(case, obs):
    k, i = case['kind'], case['inp']
    crash = obs[0] == 'crash'
    if k == 'npy':
        return _encode_npy(i, obs, crash)
    nr = sum(i['sizes'])
    if k == 'extract':
        cin = q.app('InExtract', q.z(nr), q.z(i['nc']), q.zl(i['samples']), q.z(i['n']), q.zl(i['chans']))
        if crash:
            return cin, 'ObsCrash'
        items = [_obs_waves(res) for res, _ in obs[1]]
        return cin, (items[0] if len(items) == 1 else q.app('ObsMany', q.lst(items)))
    if k == 'model':
        return _encode_model(i, obs, crash)
    chunkinfo = None if crash else obs[-1]
    _, fk, f2 = FACTORS[i['factor']]
    f2 = f2 * i.get('amp', 1)     # samples = amp x (10 r + c + 1): the amplitude is folded into the unit factor of the model
    common = [q.z(nr), q.z(i['nc']), _chunking(i, chunkinfo), _spikes(i['spikes']), q.z(i['n']), q.z(i['w']),
              fk, q.z(f2)]
    if k in ('export', 'exportu'):
        cin = q.app('InExport' if k == 'export' else 'InExportAny', *common)
        if crash:
            return cin, 'ObsCrash'
        if obs[0] == 'unloadable':
            return cin, 'ObsUnloadable'
        res = obs[1]
        if res[0] != 'waves':
            return cin, 'ObsUnloadable'
        dt = {'int16': 'I16', 'float32': 'F32', 'float64': 'F64'}.get(res[1])
        if dt is None:
            return cin, 'ObsUnloadable'
        return cin, q.app('ObsFile', dt, q.zl(res[2]), _waves(res[3]))
    if k == 'store':
        cin = q.app('InStore', *(common + [q.zl(i['ids']), q.zl(i['q_ids']), q.zl(i['q_ch'])]))
        if crash:
            return cin, 'ObsCrash'
        if obs[0] == 'unloadable':
            return cin, 'ObsUnloadable'
        return cin, _obs_waves(obs[1])
    raise ValueError(k)


def _model_store(i, obs):
    """(ids, table) of the store on disk: given, or read back after save_spikes_subset_waveforms"""
    st = i.get('store')
    if not st:
        return None
    if st['via'] == 'save':
        info = obs[2] if (obs and obs[0] == 'model') else None
        return info
    return st['ids'], st['table']


def _encode_model(i, obs, crash):
    nr = sum(i['sizes'])
    st = i.get('store')
    ms = 'None'
    if st:
        got = _model_store(i, obs)
        if got is None:
            # the store could not even be written: stand-in that keeps the input in the regime
            ids, table = [0, 1], [[0, 0], [0, 0]]
            crash = True
        else:
            ids, table = got
        _, fk, f2 = FACTORS[st['factor']]
        ms = '(Some (mkms %s %s %s %s %s))' % (q.app('Flat', q.zl(i['sizes']), q.z(i['cs'])), q.zl(ids),
                                              q.lst(table, q.zl), fk, q.z(f2))
    qch = 'None' if i['q_ch'] is None else '(Some %s)' % q.zl(i['q_ch'])
    cin = q.app('InModel', q.z(nr), q.z(i['nc']), q.zl(i['samples']), q.z(i['n']), 'true' if i['raw'] else 'false',
                ms, q.zl(i['q_ids']), qch)
    if crash:
        return cin, 'ObsCrash'
    res = obs[1]
    if res[0] == 'none':
        return cin, 'ObsNone'
    if res[0] == 'raised':
        return cin, 'ObsCrash'
    return cin, _obs_waves(res)


def _touches(i, s, n):
    nr = sum(i['sizes'])
    t0, t1 = s - n // 2, s - n // 2 + n
    if t0 < 0 or t1 > nr:
        return True
    acc = 0
    for sz in i['sizes'][:-1]:
        acc += sz
        if t0 < acc < t1 or s == acc:
            return True
    return i['cs'] < nr and (s % i['cs'] == 0 or (s + 1) % i['cs'] == 0)


def nontrivial(case, obs):
    if obs[0] == 'crash':
        return False
    k, i = case['kind'], case['inp']
    if k == 'npy':
        return len(i['chunks']) > 0
    if k == 'extract':
        return any(_touches(i, s, i['n']) for s in i['samples']) or -1 in i['chans']
    if k == 'model':
        qs = [i['samples'][x] for x in i['q_ids'] if -len(i['samples']) <= x < len(i['samples'])]
        return bool(i['store']) or any(_touches(i, s, i['n']) for s in qs) or (i['q_ch'] is not None and -1 in i['q_ch'])
    return any(_touches(i, s, i['n']) or -1 in r for s, r in i['spikes'])


def _bucket(n):
    return str(n) if n <= 3 else '4-9' if n <= 9 else '10+'


def _npy_total(i):
    t = 0
    for c in i['chunks']:
        n = 1
        for x in c['shape']:
            n *= x
        t += n
    return t


def dist(case, obs):
    k, i = case['kind'], case['inp']
    if k == 'npy':
        want = 1
        for x in i['shape']:
            want *= x
        tot = _npy_total(i)
        out = ['kind=npy', 'npy.rank=%d' % len(i['shape']), 'npy.dtype=' + i['dtype'], 'npy.chunks=%s' % _bucket(len(i['chunks'])),
               'npy.count=%s' % ('exact' if tot == want else 'short' if tot < want else 'long'),
               'npy.empty_chunk=%s' % any(0 in c['shape'] for c in i['chunks']),
               'npy.other_dtype=%s' % any(c['dtype'] != i['dtype'] for c in i['chunks']),
               'npy.row_without_axis=%s' % any(len(c['shape']) != len(i['shape']) for c in i['chunks'])]
        if obs[0] == 'crash':
            out.append('crash=' + obs[1])
        else:
            out += ['npy.outcome=' + r[0] for r in obs[1]]
        return out
    nr = sum(i['sizes'])
    out = ['kind=' + k, 'files=%s' % _bucket(len(i['sizes'])), 'len=%s' % _bucket(nr), 'window=%s' % ('odd' if i['n'] % 2 else 'even'),
           'window_vs_len=%s' % ('longer' if i['n'] > nr else 'fits')]
    if len(i['sizes']) > 1:
        flat = k != 'extract' or any(c[0] == 'flat' for c in i['cfgs'])
        if flat:
            out += ['files.given_in_sorted_name_order=%s' % _lex_sorted(i.get('names'), len(i['sizes']), 'raw%d.dat' if k == 'model' else 'f%d.bin'),
                    'files.paths_as=' + (i.get('pkind') or 'path')]
    out.append('channels=%s' % ('1-4' if i['nc'] <= 4 else '5-64' if i['nc'] <= 64 else '65+'))
    out.append('unrequested_samples=%s' % (i.get('poison') or 'ordinary'))
    if k in ('export', 'store', 'exportu'):
        out.append('file_at_export_path_before=%s' % (i.get('pre') or 'none'))
        out.append('export_path_given_as=%s' % (i.get('ppath') or 'abs-str'))
    if k == 'model' and i.get('store'):
        out.append('file_at_export_path_before=%s' % (i['store'].get('pre') or 'none'))
    if obs[0] == 'crash':
        out.append('crash=' + obs[1])
        return out
    if k == 'model':
        st = i.get('store')
        out += ['model.raw=%s' % i['raw'], 'model.store=%s' % (st['via'] if st else 'no'), 'model.dtype=' + i['dtype'],
                'model.spike_times=' + i['tdtype'], 'model.outcome=' + obs[1][0],
                'model.channels=' + ('all' if i['q_ch'] is None else 'listed'),
                'model.query_repeats=%s' % (len(set(i['q_ids'])) < len(i['q_ids'])),
                'model.query_sorted=%s' % (i['q_ids'] == sorted(i['q_ids'])),
                'model.extra_dat_channels=%d' % i.get('extra', 0)]
        if st:
            got = _model_store(i, obs)
            out.append('model.factor=' + st['factor'])
            if got:
                out.append('model.query_in_store=%s' % all(x in got[0] for x in i['q_ids']))
                out.append('model.store_row_minus1_inner=%s' % any(-1 in r[:-1] and r[-1] != -1 for r in got[1]))
                out.append('model.store_spikes=%s' % ('1' if len(got[0]) == 1 else '2+'))
                out.append('model.store_columns=%s' % ('1' if got[1] and len(got[1][0]) == 1 else '2+'))
        return out
    if k == 'extract':
        out.append('extract.spikes=%s' % _bucket(len(i['samples'])))
        for cfg in i['cfgs']:
            out += ['extract.backend=' + cfg[0], 'extract.dtype=' + cfg[1], 'extract.sdtype=' + cfg[2],
                    'extract.chans=' + cfg[3]]
        if -1 in i['chans']:
            out.append('extract.has_minus1')
        if len(obs[1]) > 1:
            out.append('extract.configs_disagree')
    else:
        out += [k + '.backend=' + i['backend'], k + '.dtype=' + i['dtype'], k + '.factor=' + i['factor'],
                k + '.amplitude=' + ('top-of-range' if i.get('amp', 1) > 1 else 'small'),
                k + '.sdtype=' + i['sdtype'], k + '.spikes=%s' % _bucket(len(i['spikes'])),
                k + '.chunks=%s' % _bucket(-(-nr // i['cs']))]
        if obs[0] == 'unloadable':
            out.append(k + '.unloadable')
        if k == 'store':
            out.append('store.query_repeats=%s' % (len(set(i['q_ids'])) < len(i['q_ids'])))
            out.append('store.query_sorted=%s' % (i['q_ids'] == sorted(i['q_ids'])))
            out.append('store.ids_increasing=%s' % (i['ids'] == sorted(i['ids'])))
            out.append('store.max_id=%s' % ('<=64' if max(i['ids']) <= 64 else '<2^16' if max(i['ids']) < 65536 else '>=2^16'))
            rows = [[c for c in r if c >= 0] for _, r in i['spikes']]
            out.append('store.rows_increasing=%s' % all(r == sorted(r) for r in rows))
            out.append('store.row_ids_large_vs_width=%s' % any(r and max(r) + 1 > 8 * i['w'] for r in rows))
    return out


def size(case):
    i = case['inp']
    if case['kind'] == 'npy':
        return len(i['chunks']) * 10 + _npy_total(i) + sum(i['shape']) + len(i['shape'])
    if case['kind'] == 'model':
        st = i.get('store') or {}
        return (sum(i['sizes']) * 10 + len(i['samples']) * 20 + i['n'] * 5 + len(i['sizes']) * 5 + len(i['q_ids']) * 5 +
                len(i['q_ch'] or []) + len(st.get('ids', [])) * 8 + i.get('extra', 0) * 3 + i.get('offset', 0))
    return (sum(i['sizes']) * 10 + len(i.get('samples', i.get('spikes', []))) * 20 + i['n'] * 5 + len(i['sizes']) * 5 +
            len(i.get('cfgs', [])) * 3 + len(i.get('q_ids', [])) * 5 + len(i.get('q_ch', [])) + i.get('w', 0) * 3)


def _shrink_model(case):
    i = case['inp']

    def mk(**kw):
        j = dict(i)
        j.update(kw)
        for key in ('names', 'pkind'):
            if j.get(key, 0) is None:
                del j[key]
        return {'kind': 'model', 'inp': j}
    st = i.get('store')
    nr = sum(i['sizes'])
    if st and st.get('pre'):
        yield mk(store={key: v for key, v in st.items() if key != 'pre'})
    if i.get('poison'):
        yield {'kind': 'model', 'inp': {key: v for key, v in i.items() if key != 'poison'}}
    for d in range(len(i['q_ids'])):
        if len(i['q_ids']) > 1:
            yield mk(q_ids=i['q_ids'][:d] + i['q_ids'][d + 1:])
    if i['q_ch'] is not None:
        for d in range(len(i['q_ch'])):
            if len(i['q_ch']) > 1:
                yield mk(q_ch=i['q_ch'][:d] + i['q_ch'][d + 1:])
    if st and st['via'] == 'export':
        for d in range(len(st['ids'])):
            if len(st['ids']) > 2 and st['ids'][d] not in i['q_ids']:
                yield mk(store=dict(st, ids=st['ids'][:d] + st['ids'][d + 1:], table=st['table'][:d] + st['table'][d + 1:]))
        if len(st['table'][0]) > 2:
            yield mk(store=dict(st, table=[r[:-1] for r in st['table']]))
    # drop the last spike when nothing refers to it
    ns = len(i['samples'])
    used = set(x % ns for x in i['q_ids'] if -ns <= x < ns) | set(st['ids'] if st and st['via'] == 'export' else [])
    neg = any(x < 0 for x in i['q_ids'])
    if ns > 2 and (ns - 1) not in used and not neg and not (st and st['via'] == 'save'):
        yield mk(samples=i['samples'][:-1])
    if len(i['sizes']) > 1:
        yield mk(sizes=[nr])
    if len(i['sizes']) > 2:
        yield mk(sizes=i['sizes'][:-2] + [i['sizes'][-2] + i['sizes'][-1]])
    if i.get('pkind'):
        yield mk(pkind=None)
    if i.get('names'):
        yield mk(names=None)
    if i.get('extra', 0):
        yield mk(extra=0, cmrot=0)
    if i.get('offset', 0):
        yield mk(offset=0)
    if nr > 1 and max(i['samples']) < nr - 1:
        sizes = list(i['sizes'])
        if sizes[-1] > 1:
            sizes[-1] -= 1
        else:
            sizes = sizes[:-1]
        yield mk(sizes=sizes, cs=min(i['cs'], nr - 1))
    if i['n'] > 2:
        yield mk(n=i['n'] - 1)
    if i['cs'] < nr:
        yield mk(cs=nr)
    if i['cs'] > 1:
        yield mk(cs=i['cs'] - 1)


def shrink(case):
    k, i = case['kind'], case['inp']
    if k == 'model':
        for c in _shrink_model(case):
            yield c
        return
    if k == 'npy':
        ch = i['chunks']
        for d in range(len(ch)):
            yield {'kind': 'npy', 'inp': dict(i, chunks=ch[:d] + ch[d + 1:])}
        for d in range(len(ch)):
            if ch[d]['shape'] and ch[d]['shape'][0] > 0:
                c2 = dict(ch[d], shape=[ch[d]['shape'][0] - 1] + ch[d]['shape'][1:])
                yield {'kind': 'npy', 'inp': dict(i, chunks=ch[:d] + [c2] + ch[d + 1:])}
        if i['shape'][0] > 0:
            yield {'kind': 'npy', 'inp': dict(i, shape=[i['shape'][0] - 1] + i['shape'][1:])}
        return

    def mk(**kw):
        j = dict(i)
        j.update(kw)
        for key in ('names', 'pkind', 'poison', 'pre', 'ppath'):
            if j.get(key, 0) is None:
                del j[key]
        return {'kind': k, 'inp': j}
    nr = sum(i['sizes'])
    if i.get('ppath'):
        yield mk(ppath=None)
    if i.get('pre'):
        yield mk(pre=None)
    if i.get('poison'):
        yield mk(poison=None)
        if i['poison'] != 'nan':
            yield mk(poison='nan')
    # default file names / default kind of path argument; the last two files merged
    if i.get('pkind'):
        yield mk(pkind=None)
    if i.get('names'):
        yield mk(names=None)
    if len(i['sizes']) > 2 and i.get('backend', 'flat') != 'cbin':
        yield mk(sizes=i['sizes'][:-2] + [i['sizes'][-2] + i['sizes'][-1]])
    # fewer configurations
    if k == 'extract' and len(i['cfgs']) > 1:
        for d in range(len(i['cfgs'])):
            yield mk(cfgs=[i['cfgs'][d]])
    # fewer spikes
    key = 'samples' if k == 'extract' else 'spikes'
    sp = i[key]
    if k == 'store':
        for d in range(len(sp)):
            if len(sp) > 1 and i['ids'][d] not in i['q_ids']:
                yield mk(spikes=sp[:d] + sp[d + 1:], ids=i['ids'][:d] + i['ids'][d + 1:])
        for d in range(len(i['q_ids'])):
            if len(i['q_ids']) > 1:
                yield mk(q_ids=i['q_ids'][:d] + i['q_ids'][d + 1:])
        for d in range(len(i['q_ch'])):
            if len(i['q_ch']) > 1:
                yield mk(q_ch=i['q_ch'][:d] + i['q_ch'][d + 1:])
    else:
        for d in range(len(sp)):
            yield mk(**{key: sp[:d] + sp[d + 1:]})
    # fewer files
    if len(i['sizes']) > 1 and i.get('backend', 'flat') != 'cbin':
        yield mk(sizes=[nr])
    # shorter recording (drop the last sample) when no spike needs it
    last = max([s if k == 'extract' else s[0] for s in sp], default=-1)
    if nr > 1 and last < nr - 1:
        sizes = list(i['sizes'])
        if sizes[-1] > 1:
            sizes[-1] -= 1
        else:
            sizes = sizes[:-1]
        yield mk(sizes=sizes, cs=min(i['cs'], nr - 1))
    # earlier spikes / shorter window / fewer channels
    for d in range(len(sp)):
        s = sp[d] if k == 'extract' else sp[d][0]
        prev = (sp[d - 1] if k == 'extract' else sp[d - 1][0]) if d else 0
        if s > prev:
            new = s - 1
            yield mk(**{key: sp[:d] + [new if k == 'extract' else [new, sp[d][1]]] + sp[d + 1:]})
    if i['n'] > 1:
        yield mk(n=i['n'] - 1)
    if k == 'extract' and len(i['chans']) > 1 and not any(c[3] == 'none' for c in i['cfgs']):
        # (channel_ids=None = every channel: chans must stay [0..nc) for those configurations)
        for d in range(len(i['chans'])):
            yield mk(chans=i['chans'][:d] + i['chans'][d + 1:])
    if k != 'extract' and i['w'] > 1:
        yield mk(w=i['w'] - 1, spikes=[[s, r[:-1]] for s, r in sp])
    if i['cs'] < nr:
        yield mk(cs=nr)
    if i['cs'] > 1:
        yield mk(cs=i['cs'] - 1)


def repro(case):
    return ("import sys; sys.path[:0] = ['/verif/harness', '/repo']\n"
            "from vt import npshim; npshim.setup_process()\n"
            "from vt.props import c03\n"
            "# recording = rows 10*r + c + 1; every spike's output must be rows [s - n//2, s - n//2 + n) on its\n"
            "# channels, zeros outside the recording and for channel -1 (exports/look-ups: x 2 x factor)\n"
            "print(c03.run_case(%r))\n" % (case,))
