"""C02 -- lazy reader expressions commute with eager NumPy evaluation; deriving never changes other
readers (DESIGN.md §8 C02).

A case is a derivation history on one recording:  ['d', parent, op]  derives a new reader from reader
`parent` with ONE Python operator / column selection (readers are numbered in order of creation, reader 0
is the one returned by get_ephys_reader);  ['r', reader, item, cols]  evaluates reader[item] or
reader[item, cols].  The oracle for values and dtype is NumPy itself: the same Python expression applied
to the in-memory array the files were written from (the "fully loaded array"), then indexed.  NumPy's
element semantics is tabulated from those eager evaluations and handed to the Coq comparator, which
instantiates the proved model with it."""
import os
import shutil
import struct
import tempfile

from .. import coqenc as q

ID = 'C02'
RULE = ('derivation histories on an n x c recording with entry (r, j) = ((r*c + j) + off) * mul in the sample '
        'dtype: (i) fans -- for every first operator o1 in {none} u (2 unary + 12 binary x 7 scalars + 3 column '
        'selectors + 4 further ARGUMENT FORMS of a column selector -- boolean mask as ndarray / as list of bools, ids as '
        'tuple / as uint8 ndarray -- = 93) one history deriving o1(reader) and then EVERY second operator o2 from it (all programs '
        'of depth <= 2, 8 742 per dtype), each child read with a row index (int / negative int / slice across a '
        'file boundary / list / ndarray) with and without a trailing column selector (slice / id list, and every seventh read one of 8 further forms: masks in '
        'the three containers, ids as tuple / uint8 / int8 ndarray, a range, the ellipsis), parent and root re-read at '
        'the end (2 of the ~12 rotating row indices are EMPTY selections, so about every sixth program is read with one); exhaustive on int16 and float64 in quick, on every dtype in thorough, sampled on the other '
        'dtypes / backends (flat multi-file, in-memory array, .npy, mtscomp .cbin) in quick; depth-3 fans sampled '
        'in thorough; (ii) seeded random programs of depth 1-4 with random row index, column selector, dtype, '
        'backend, layout; (iia) sweeps -- 8 (quick) / 48 (thorough) programs each followed by EVERY row index of the regime on 4 / 5 rows (all integers, all unit-step slices selecting >= 1 row, all non-empty increasing lists, as list or ndarray, and ALL empty slices of the reading in all four sign forms; every seventh read through the one-element tuple reader[(rows,)]); (iii) derivation trees of <= 7 readers (parents, siblings, grandchildren) where every '
        'existing reader is re-read after every derivation, plus hand-written aliasing corner cases; (iv) channel-selector forms: every permutation / index list of <= 3 of 4 '
        'channels as list, EVERY boolean mask over 4 channels in every container (ndarray of bool, list, tuple of bools), '
        'a third of the index lists in the other id containers (tuple, ndarrays of int8 ... uint64, intp), each as a '
        'whole-recording selection followed by arithmetic and as the selector of a read; random programs draw any mask '
        '(any length), id list in any container, range or ellipsis for about every 25th operator. Programs '
        'whose eager NumPy evaluation raises are dropped from the history (counted); reads on which NumPy itself '
        'is not row-count independent (pure-NumPy evaluation on the block != on the whole array, e.g. SIMD vs '
        'scalar pow) are dropped (counted). Non-trivial = at least one read of a derived reader; distinct = '
        'distinct abstract input + configuration.')
EXHAUSTIVE = {'quick': True, 'thorough': True}
CLAUSES = {
    1: 'observed answers differ from the Coq model PV.C02.Model (heap model of _append_op + _apply_ops over '
       'PV.C01.Model.getitem_rows, instantiated with NumPy\'s tabulated element semantics)',
    21: 'C02_commute / C02_commute_cols / C02_tree_commute / C02_commute_empty: values or SHAPE (rows, and the column '
        'count -- all that an empty selection has) of expr(reader)[rows(, cols)] differ from expr(loaded array)[rows][:, cols]',
    22: 'C02_commute / C02_commute_empty: dtype of expr(reader)[rows] differs from the dtype of expr(loaded array) '
        '(blocks of 0 rows included)',
    23: 'C02_is_reader: an operator expression / reader[:, cols] did not return a reader (or a read returned one)',
    24: 'C02_independent / C02_independent_heap: two reads of the same reader with the same index disagree '
        '(deriving changed an existing reader)',
}
TRUSTED = ['NumPy array-with-scalar operators, dtype promotion (NEP 50) and basic/fancy column indexing: ORACLE, '
           'tabulated per case from eager evaluation on whole arrays; the assumption that they are elementwise and '
           'independent of the number of rows is re-checked per read by a pure-NumPy evaluation on the block',
           'np.memmap, np.load(mmap_mode), np.vstack; mtscomp (compression, Reader.__getitem__): runtime',
           'row selection of a reader without deferred operations = NumPy row selection of the concatenation '
           '(property C01; here through PV.C01.Model.getitem_rows in the comparator, abstract in the theorems)']
ASSUMES = ['row indices as in C01 (integers in [-n, n); unit-step slices with bounds in {None} u [-n, n] selecting '
           '>= 1 row; non-empty strictly increasing lists / ndarrays within [0, n); an integer gives a 1 x c block), PLUS the '
           'empty selections the reader without deferred operations answers with a (0, c) block: unit-step slices whose '
           'NumPy-normalised bounds satisfy 0 < e <= s < n with rows s and e - 1 in the same file (PV.C02.Spec.empty_item); '
           'stop = 0 (read as None by phylib), start = n, stop = -n, an empty slice touching a file boundary and empty '
           'index lists are outside: there the BASE reader raises (np.vstack of no block) and so does every derived reader',
           'column selectors are slices, index lists in any container NumPy accepts (list, tuple, range, ndarray of any '
           'integer dtype), 1-D boolean masks (ndarray / list / tuple of bools) or the ellipsis; the model sees the slice / '
           'the id list they denote in NumPy (mask = positions of its set bits) (an integer column, None or a 2-D index '
           'would change the rank)',
           'programs whose eager evaluation raises in NumPy (integer ** negative integer, Python integer out of '
           'range for the dtype, column index out of range) are outside the statement',
           'scalars are Python ints and floats']
TIMEOUT = {'quick': 30, 'thorough': 90}
COQ_HEADER = 'From Coq Require Import Uint63.\n'

DT = {'bool': 0, 'uint8': 1, 'uint16': 2, 'uint32': 3, 'uint64': 4, 'int8': 5, 'int16': 6, 'int32': 7, 'int64': 8,
      'float16': 9, 'float32': 10, 'float64': 11}
DTRANGE = {'uint8': (0, 255), 'uint16': (0, 65535), 'int16': (-32768, 32767), 'int32': (-2 ** 31, 2 ** 31 - 1),
           'int64': (-2 ** 62, 2 ** 62), 'float32': (-2 ** 24, 2 ** 24), 'float64': (-2 ** 53, 2 ** 53)}
DEFCFG = {'backend': 'array', 'dtype': 'int16', 'offset': 0, 'd': 2, 'as': 'list', 'off': -2, 'mul': 1}

UNARY = ['pos', 'neg']
BINARY = ['add', 'radd', 'sub', 'rsub', 'mul', 'rmul', 'truediv', 'rtruediv', 'floordiv', 'rfloordiv', 'pow', 'rpow']
OPCTOR = {'pos': 'NPos', 'neg': 'NNeg', 'add': 'NAdd', 'radd': 'NRadd', 'sub': 'NSub', 'rsub': 'NRsub',
          'mul': 'NMul', 'rmul': 'NRmul', 'truediv': 'NTruediv', 'rtruediv': 'NRtruediv',
          'floordiv': 'NFloordiv', 'rfloordiv': 'NRfloordiv', 'pow': 'NPow', 'rpow': 'NRpow'}
SCALARS = [['i', 2], ['i', -3], ['i', 0], ['i', 1], ['f', (0.5).hex()], ['f', (1.5).hex()], ['f', (-2.0).hex()]]
MORE_SCALARS = [['i', -1], ['i', 3], ['i', 7], ['i', 1000], ['i', 100000], ['f', (0.0).hex()], ['f', (2.0).hex()],
                ['f', (-0.25).hex()], ['f', (3.0).hex()], ['f', (1e3).hex()]]


def _cfg(**kw):
    c = dict(DEFCFG)
    c.update(kw)
    return c


def colsels(c):
    return [['slice', 1, 3, None], ['slice', None, None, -1], ['list', [c - 1, 0] if c >= 2 else [0]]]


# The ARGUMENT FORM of a channel selection (stage 6, seeded change C02-m12).  Besides a slice and a list /
# int64 ndarray of channel ids (the `as` configuration), NumPy accepts for A[:, X]:
#   ['mask', bits, container]   a BOOLEAN MASK over the channels (container: 'array' = ndarray of bool, 'list' /
#                               'tuple' of Python bools); selects the channels whose bit is set, in order
#   ['ids', ids, container]     the channel ids in another container: 'tuple', or an ndarray of the integer dtype
#                               named (int8 ... uint64, intp)
#   ['range', a, b, step]       a Python range object
#   ['ellipsis']                reader[:, ...] = every channel
# The abstract selection (what the Coq model sees) is the index list / the full slice these denote in NumPy.
IDCONTS = ['tuple', 'int8', 'uint8', 'int16', 'uint16', 'int32', 'uint32', 'uint64', 'intp']
IDRANGE = {'int8': (-128, 127), 'uint8': (0, 255), 'int16': (-2 ** 15, 2 ** 15 - 1), 'uint16': (0, 2 ** 16 - 1),
           'int32': (-2 ** 31, 2 ** 31 - 1), 'uint32': (0, 2 ** 32 - 1), 'uint64': (0, 2 ** 64 - 1),
           'intp': (-2 ** 63, 2 ** 63 - 1), 'tuple': (-2 ** 63, 2 ** 63 - 1)}
MASKCONTS = ['array', 'list', 'tuple']


def col_ids(cols):
    """the abstract selection of a non-slice selector: the channel ids it denotes, in order"""
    if cols[0] == 'mask':
        return [j for j, b in enumerate(cols[1]) if b]
    if cols[0] == 'range':
        return list(range(cols[1], cols[2], cols[3]))
    return list(cols[1])


def valid_cols(cols):
    k = cols[0]
    if k == 'slice':
        return len(cols) == 4
    if k == 'list':
        return len(cols) == 2
    if k == 'mask':
        return len(cols) == 3 and cols[2] in MASKCONTS and len(cols[1]) >= 1 and all(b in (0, 1) for b in cols[1])
    if k == 'ids':
        if len(cols) != 3 or cols[2] not in IDCONTS:
            return False
        lo, hi = IDRANGE[cols[2]]
        return all(lo <= x <= hi for x in cols[1])
    if k == 'range':
        return len(cols) == 4 and cols[3] != 0
    return cols == ['ellipsis']


def colforms(c):
    """the fixed representatives of the other argument forms (one-step derivations of every fan)"""
    m = [1 if j in (0, c - 1) else 0 for j in range(c)]
    return [['mask', m, 'array'], ['mask', [1 - b for b in m] if c >= 3 else m, 'list'],
            ['ids', [c - 1, 0] if c >= 2 else [0], 'tuple'], ['ids', [0, c - 1], 'uint8']]


def level_ops(c):
    """the 93 one-step derivations (2 unary + 12 binary x 7 scalars + 3 column selectors + 4 further argument
    forms of a column selector: boolean mask as ndarray / as list, ids as tuple / as uint8 ndarray)"""
    out = [[u] for u in UNARY]
    for b in BINARY:
        for s in SCALARS:
            out.append([b, s])
    for cs in colsels(c) + colforms(c):
        out.append(['cols', cs])
    return out


# ---- validity of abstract inputs ---------------------------------------------------------------------

def _np_slice_len(n, start, stop):
    return len(range(*slice(start, stop, None).indices(n)))


def _chunk(sizes, x):
    """np.searchsorted(bounds, x, 'right') - 1: the file holding row x"""
    b, k = 0, -1
    for j, sz in enumerate([0] + list(sizes)):
        b += sz
        if b <= x:
            k = j
    return k


def empty_item(sizes, it):
    """the EMPTY row selections of the reading (PV.C02.Spec.empty_item): unit-step slices with bounds in
    {None} u [-n, n] whose NumPy-normalised bounds satisfy 0 < e <= s < n with rows s and e - 1 in the same
    file -- exactly the empty selections the reader WITHOUT deferred operations answers with a (0, c) block
    (probed on every backend); stop = 0 is read as None by phylib, start = n / stop = -n / a file boundary in
    between / an empty index list make np.vstack raise in the base reader itself"""
    if it[0] != 'slice' or it[3] not in (None, 1):
        return False
    n = sum(sizes)
    for v in (it[1], it[2]):
        if v is not None and not (-n <= v <= n):
            return False
    s, e, _ = slice(it[1], it[2], None).indices(n)
    return 0 < e <= s < n and _chunk(sizes, s) == _chunk(sizes, e - 1)


def valid_item(n, it, sizes=None):
    if sizes is not None and empty_item(sizes, it):
        return True
    if it[0] == 'int':
        return -n <= it[1] < n
    if it[0] == 'slice':
        a, b, s = it[1], it[2], it[3]
        if s not in (None, 1):
            return False
        for v in (a, b):
            if v is not None and not (-n <= v <= n):
                return False
        return _np_slice_len(n, a, b) >= 1
    l = it[1]
    return len(l) >= 1 and all(0 <= x < n for x in l) and all(x < y for x, y in zip(l, l[1:]))


def valid_case(case):
    i = case['inp']
    cfg = i['cfg']
    sizes, c = i['sizes'], i['c']
    n = sum(sizes)
    if not sizes or min(sizes) < 1 or c < 1:
        return False
    lo, hi = DTRANGE[cfg['dtype']]
    vals = [(k + cfg['off']) * cfg['mul'] for k in (0, n * c - 1)]
    if min(vals) < lo or max(vals) > hi or cfg['mul'] == 0:
        return False
    if cfg['backend'] != 'flat' and len(sizes) != 1:
        return False
    nread = 1
    for cm in i['cmds']:
        sel = cm[2][1] if cm[0] == 'd' and cm[2][0] == 'cols' else cm[3] if cm[0] == 'r' and cm[3] not in (None, TUPLE1) else None
        if sel is not None and not valid_cols(sel):
            return False
        if cm[0] == 'd':
            if not 0 <= cm[1] < nread:
                return False
            nread += 1
        else:
            if not 0 <= cm[1] < nread or not valid_item(n, cm[2], sizes):
                return False
            if cfg['backend'] == 'cbin' and cm[2][0] == 'list':
                return False
    return True


def mk(kind, sizes, c, cmds, **cfg):
    return {'kind': kind, 'inp': {'sizes': list(sizes), 'c': c, 'cmds': cmds, 'cfg': _cfg(**cfg)}}


# ---- generators --------------------------------------------------------------------------------------

def _items(n, sizes):
    """representative row indices for a layout: boundary-biased"""
    b = sizes[0]
    its = [['slice', max(0, b - 1), min(n, b + 2), None], ['int', -1], ['list', sorted({0, min(b, n - 1), n - 1})],
           ['slice', None, None, 1], ['int', min(b, n - 1)], ['slice', -3 if n >= 3 else -n, None, None],
           ['int', 0], ['slice', None, b, None], ['list', [n - 1]], ['slice', b, None, None] if b < n else ['int', -n]]
    # empty selections: [k:k] inside the last file, [a:b] with a > b (negative forms) inside the largest file
    its.insert(2, ['slice', n - 1, n - 1, None])
    big = max(range(len(sizes)), key=lambda j: sizes[j])
    lo = sum(sizes[:big])
    its.insert(6, ['slice', lo + sizes[big] - 1 - n, lo + 1 - n if lo + 1 < n else None, 1])
    return [it for it in its if valid_item(n, it, sizes)]


def fan(prefix, sizes, c, k, **cfg):
    """derive the prefix chain from the root, then every one-step derivation from its end; read each child
    once (rotating row index, every third one with a trailing column selector), re-read parent and root"""
    n = sum(sizes)
    its = _items(n, sizes)
    if cfg.get('backend') == 'cbin':
        its = [it for it in its if it[0] != 'list']
    cs = colsels(c)
    cf = colforms(c) + [['range', c - 1, -1, -2], ['ellipsis'], ['mask', [1] * c, 'tuple'], ['ids', [-1, 0], 'int8']]
    cmds = []
    p = 0
    for o in prefix:
        cmds.append(['d', p, o])
        p += 1
    cmds.append(['r', p, its[k % len(its)], None])
    cmds.append(['r', 0, its[(k + 1) % len(its)], None])
    nxt = p + 1
    for j, o in enumerate(level_ops(c)):
        cmds.append(['d', p, o])
        cols = cs[(j + k) % 3] if (j + k) % 3 == 0 else cf[(j + k) % len(cf)] if (j + k) % 7 == 1 else None
        cmds.append(['r', nxt, its[(j + k) % len(its)], cols])
        nxt += 1
    cmds.append(['r', p, its[k % len(its)], None])
    cmds.append(['r', 0, its[(k + 1) % len(its)], None])
    cmds.append(['r', p, its[(k + 2) % len(its)], cs[k % 3]])
    return mk('fan', sizes, c, cmds, **cfg)


def fans(dtype, k0, backend='array', sizes=(5,), prefixes=None, **cfg):
    out = []
    c = 3
    if prefixes is None:
        prefixes = [[]] + [[o] for o in level_ops(c)]
    for k, pre in enumerate(prefixes):
        out.append(fan(pre, list(sizes), c, k0 + k, backend=backend, dtype=dtype, **cfg))
    return out


def _rand_scalar(rng):
    return rng.choice(SCALARS + SCALARS + MORE_SCALARS)


def _rand_op(rng, c):
    r = rng.random()
    if r < 0.12:
        return [rng.choice(UNARY)]
    if r < 0.3:
        r2 = rng.random()
        if r2 < 0.5:
            return ['cols', rng.choice(colsels(c))]
        if r2 < 0.7:
            a = rng.choice([None, 0, 1, -2, -c])
            b = rng.choice([None, c, c - 1, -1, 2])
            return ['cols', ['slice', a, b, rng.choice([None, 1, -1, 2])]]
        if r2 < 0.87:
            k = rng.randint(1, c + 1)
            return ['cols', ['list', [rng.randint(-c, c - 1) for _ in range(k)]]]
        return ['cols', _rand_colform(rng, c)]
    return [rng.choice(BINARY), _rand_scalar(rng)]


def _rand_colform(rng, c):
    """a channel selection in one of the other argument forms: any mask over c channels (now and then of another
    length: after an earlier selection that is the right one, otherwise NumPy refuses it and the program is dropped),
    in any container; any id list in any container that can hold it; a range; the ellipsis"""
    r = rng.random()
    if r < 0.5:
        n = c if rng.random() < 0.8 else rng.randint(1, c + 1)
        bits = [rng.randint(0, 1) for _ in range(n)]
        if rng.random() < 0.15:
            bits = [rng.choice([0, 1])] * n
        return ['mask', bits, rng.choice(MASKCONTS)]
    if r < 0.85:
        cont = rng.choice(IDCONTS)
        lo = 0 if IDRANGE[cont][0] == 0 else -c
        return ['ids', [rng.randint(lo, c - 1) for _ in range(rng.randint(0 if cont != 'tuple' else 1, c + 1))], cont]
    if r < 0.95:
        a, b = rng.randint(-c, c - 1), rng.randint(-c - 1, c)
        return ['range', a, b, 1 if a <= b else -1] if rng.random() < 0.6 else ['range', a, b, rng.choice([2, -2, 3, -1, 1])]
    return ['ellipsis']


def empty_items(sizes, steps=(None,)):
    """every empty row selection of the reading on this layout"""
    n = sum(sizes)
    bounds = [None] + list(range(-n, n + 1))
    return [['slice', a, b, st] for a in bounds for b in bounds for st in steps if empty_item(sizes, ['slice', a, b, st])]


def _sizes_of(bounds):
    return [y - x for x, y in zip(bounds, bounds[1:])]


def _rand_item(rng, n, bounds, lists=True):
    near = sorted(set(x for b in bounds for x in (b - 1, b, b + 1) if 0 <= x <= n))
    sizes = _sizes_of(bounds)
    for _ in range(100):
        r = rng.random()
        if r < 0.12:
            es = empty_items(sizes, (None, None, 1))
            if es:
                return rng.choice(es)
            continue
        r = rng.random()
        if r < 0.3:
            it = ['int', rng.randint(-n, n - 1)]
        elif r < 0.7 or not lists:
            a = rng.choice([None] + near + [x - n for x in near if x])
            b = rng.choice([None] + near + [x - n for x in near if x])
            it = ['slice', a, b, rng.choice([None, None, 1])]
        else:
            k = rng.randint(1, min(n, 5))
            it = ['list', sorted(rng.sample(range(n), k))]
        if valid_item(n, it) and (it[0] != 'slice' or _np_slice_len(n, it[1], it[2]) <= 8):
            return it
    return ['int', 0]


def _rand_cfg(rng, nparts):
    dtype = rng.choice(['int16', 'int16', 'int32', 'float32', 'float64', 'float64', 'uint8', 'uint16', 'int64'])
    backend = 'flat' if nparts > 1 else rng.choice(['flat', 'array', 'array', 'npy', 'cbin'])
    if backend == 'cbin':
        dtype = rng.choice(['int16', 'int32'])
    off = rng.choice([-2, -2, 0, -7, 1])
    mul = rng.choice([1, 1, 1, 3, 3001, -1])
    if dtype.startswith('uint'):
        off, mul = abs(off), abs(mul)
        if dtype == 'uint8':
            mul = rng.choice([1, 3, 9])
    if dtype == 'int16' and abs(mul) == 3001:
        mul = rng.choice([1, 1201])
    return dict(backend=backend, dtype=dtype, offset=rng.choice([0, 0, 0, 7]) if backend == 'flat' else 0,
                d=rng.choice([1, 2, 3, 40]), off=off, mul=mul, **{'as': rng.choice(['list', 'array'])})


def _rand_layout(rng):
    k = rng.choice([1, 1, 2, 2, 3])
    sizes = [rng.randint(1, 4) for _ in range(k)]
    c = rng.choice([1, 2, 3, 3, 4])
    return sizes, c


def _bounds(sizes):
    b = [0]
    for s in sizes:
        b.append(b[-1] + s)
    return b


def rand_prog(rng):
    sizes, c = _rand_layout(rng)
    cfg = _rand_cfg(rng, len(sizes))
    n = sum(sizes)
    depth = rng.choice([1, 2, 2, 3, 3, 4])
    cmds = []
    for k in range(depth):
        cmds.append(['d', k, _rand_op(rng, c)])
    lists = cfg['backend'] != 'cbin'
    for _ in range(rng.choice([1, 2])):
        cols = None
        r = rng.random()
        if r < 0.35:
            cols = _rand_op(rng, c)
            cols = cols[1] if cols[0] == 'cols' else rng.choice(colsels(c))
        elif r < 0.43:
            cols = TUPLE1
        cmds.append(['r', depth, _rand_item(rng, n, _bounds(sizes), lists), cols])
    if rng.random() < 0.3:
        cmds.append(['r', rng.randrange(depth + 1), ['slice', None, None, None], rng.choice(colsels(c))])
    return mk('prog', sizes, c, cmds, **cfg)


def rand_tree(rng, maxr=7):
    sizes, c = _rand_layout(rng)
    cfg = _rand_cfg(rng, len(sizes))
    n = sum(sizes)
    lists = cfg['backend'] != 'cbin'
    nread = 1
    cmds = []
    # a fixed probe (row index, column selector) per reader, re-read after every derivation
    probes = [(_rand_item(rng, n, _bounds(sizes), lists), None)]
    cmds.append(['r', 0, probes[0][0], None])
    target = rng.randint(2, maxr)
    while nread < target:
        r = rng.random()
        if r < 0.45:
            p = nread - 1                        # grandchildren chains
        elif r < 0.8:
            p = rng.randrange(nread)             # siblings
        else:
            p = 0
        cmds.append(['d', p, _rand_op(rng, c)])
        cols = rng.choice(colsels(c)) if rng.random() < 0.3 else None
        probes.append((_rand_item(rng, n, _bounds(sizes), lists), cols))
        nread += 1
        order = list(range(nread))
        if rng.random() < 0.5:
            order.reverse()
        for k in order:
            cmds.append(['r', k, probes[k][0], probes[k][1]])
    return mk('tree', sizes, c, cmds, **cfg)



def all_items(n, sizes=None):
    """every row index of the regime on n rows (C01's reading + the empty slices of C02's reading)"""
    import itertools
    if sizes is not None:
        return all_items(n) + empty_items(list(sizes)) + empty_items(list(sizes), (1,))[::5]
    out = [['int', i] for i in range(-n, n)]
    bounds = [None] + list(range(-n, n + 1))
    for a in bounds:
        for b in bounds:
            if _np_slice_len(n, a, b) >= 1:
                out.append(['slice', a, b, None])
    out.append(['slice', None, None, 1])
    for k in range(1, n + 1):
        for comb in itertools.combinations(range(n), k):
            out.append(['list', list(comb)])
    return out


SWEEP_PROGS = [
    [['add', ['i', 2]]],
    [['rtruediv', ['i', 7]], ['cols', ['slice', None, None, -1]]],
    [['cols', ['list', [2, 0]]], ['rsub', ['f', (1.5).hex()]]],
    [['mul', ['i', 3]], ['floordiv', ['i', 2]], ['neg']],
    [['pow', ['i', 2]], ['rfloordiv', ['i', -3]]],
    [['truediv', ['f', (0.5).hex()]], ['cols', ['slice', 1, 3, None]], ['rpow', ['i', 2]]],
    [['rmul', ['f', (-2.0).hex()]], ['pos'], ['sub', ['i', 1]]],
    [['radd', ['i', 1]], ['cols', ['list', [1]]], ['cols', ['list', [0, 0]]]],
]


def sweeps(rng, n, count):
    """a few programs followed by EVERY row index of the regime (every fourth one with a column selector)"""
    out = []
    ops = level_ops(3)
    cfgs = [((n,), 'array', 'int16'), ((1, n - 1), 'flat', 'float64'), ((n - 2, 1, 1), 'flat', 'int16'), ((n,), 'npy', 'float32'),
            ((2, n - 2), 'flat', 'int32'), ((n,), 'cbin', 'int16'), ((n,), 'array', 'uint8'), ((n,), 'array', 'float64')]
    progs = list(SWEEP_PROGS)
    while len(progs) < count:
        progs.append([rng.choice(ops) for _ in range(rng.choice([1, 2, 3]))])
    for k, prog in enumerate(progs[:count]):
        sizes, be, dt = cfgs[k % len(cfgs)]
        cmds = [['d', j, o] for j, o in enumerate(prog)]
        its = all_items(n, sizes)
        if be == 'cbin':
            its = [it for it in its if it[0] != 'list']
        cs = colsels(3)
        for j, it in enumerate(its):
            cmds.append(['r', len(prog), it, cs[(j // 4) % 3] if j % 4 == 0 else TUPLE1 if j % 7 == 3 else None])
        out.append(mk('sweep', list(sizes), 3, cmds, backend=be, dtype=dt, off=0 if dt.startswith('u') else -2,
                      **{'as': 'array' if k % 2 else 'list'}))
    return out


TUPLE1 = ['tuple1']     # in the `cols` slot of a read: index with the one-element tuple (rows,)
S = lambda *a: ['slice'] + list(a)  # noqa
ADD2, MUL3, NEG, RSUB1 = ['add', ['i', 2]], ['mul', ['i', 3]], ['neg'], ['rsub', ['i', 1]]
HALF = ['truediv', ['f', (0.5).hex()]]
REV, C20 = ['cols', S(None, None, -1)], ['cols', ['list', [2, 0]]]
R13 = S(1, 3, None)
MASK = lambda bits, cont='array': ['mask', list(bits), cont]  # noqa
CORPUS = [
    # channel selection by a BOOLEAN MASK (seeded change C02-m12: the selector coerced to int64 ids, mask [1,0,1,0] ->
    # channels [1,0,1,0]): as ndarray / list / tuple of bools, whole-recording then arithmetic, arithmetic then mask,
    # as the selector of a read, all-False and all-True masks, a mask after an earlier selection (length = its width)
    mk('prog', [5], 4, [['d', 0, ['cols', MASK([1, 0, 1, 0])]], ['r', 1, R13, None], ['d', 1, ['mul', ['i', 2]]], ['r', 2, ['int', -1], None],
                        ['d', 0, ['add', ['i', 1]]], ['d', 3, ['cols', MASK([0, 1, 1, 1], 'list')]], ['d', 4, ['truediv', ['f', (2.0).hex()]]],
                        ['r', 5, S(1, 4, None), None], ['r', 0, R13, MASK([0, 0, 0, 1], 'tuple')], ['r', 3, ['list', [0, 4]], MASK([1, 1, 0, 0])],
                        ['d', 1, ['cols', MASK([0, 1], 'list')]], ['r', 6, R13, None], ['r', 0, R13, MASK([0, 0, 0, 0])],
                        ['r', 0, S(None, None, None), MASK([1, 1, 1, 1], 'list')], ['r', 0, R13, None]]),
    mk('prog', [2, 3], 3, [['d', 0, ['neg']], ['r', 1, S(1, 4, None), MASK([0, 1, 1])], ['d', 1, ['cols', MASK([1, 0, 1], 'tuple')]],
                           ['r', 2, ['list', [1, 2]], None], ['r', 2, S(3, 3, None), None], ['r', 1, R13, None]], backend='flat', **{'as': 'array'}),
    # channel ids in the other containers NumPy accepts: tuple, ndarrays of every integer dtype, range, ellipsis
    mk('prog', [5], 4, [['d', 0, ['cols', ['ids', [3, 0], 'tuple']]], ['d', 0, ['cols', ['ids', [2, 2, 1], 'uint8']]], ['d', 0, ['cols', ['ids', [-1, 0], 'int8']]],
                        ['d', 0, ['cols', ['ids', [1, 3], 'uint64']]], ['d', 0, ['cols', ['range', 3, 0, -2]]], ['d', 0, ['cols', ['ellipsis']]],
                        ['d', 0, ['cols', ['ids', [], 'int32']]],
                        ['r', 1, R13, None], ['r', 2, R13, None], ['r', 3, R13, None], ['r', 4, R13, None], ['r', 5, R13, None], ['r', 6, R13, None],
                        ['r', 7, R13, None], ['r', 0, R13, ['ids', [0, 3], 'uint16']], ['r', 0, ['int', 2], ['range', 0, 4, 3]], ['r', 0, R13, ['ellipsis']]]),
    # parent re-read after deriving a child: a shared ops list would give the parent the child's op
    mk('tree', [2, 3], 3, [['r', 0, R13, None], ['d', 0, ADD2], ['r', 0, R13, None], ['r', 1, R13, None]], backend='flat'),
    # siblings: the second child must not see the first child's op, nor the other way round
    mk('tree', [5], 3, [['d', 0, ADD2], ['d', 0, MUL3], ['r', 1, R13, None], ['r', 2, R13, None], ['r', 0, R13, None]]),
    # grandchildren: child re-read after deriving from it; grandchild = both ops in order
    mk('tree', [5], 3, [['d', 0, ADD2], ['r', 1, ['int', -1], None], ['d', 1, MUL3], ['r', 1, ['int', -1], None],
                        ['r', 2, ['int', -1], None], ['d', 1, NEG], ['r', 3, ['int', -1], None], ['r', 2, ['int', -1], None],
                        ['r', 0, ['int', -1], None]]),
    # reader[rows, cols] derives a temporary clone: the reader itself must not keep the 'cols' op
    mk('tree', [2, 3], 3, [['r', 0, R13, ['list', [2, 0]]], ['r', 0, R13, None], ['d', 0, ADD2],
                           ['r', 1, R13, S(None, None, -1)], ['r', 1, R13, None], ['r', 0, R13, None]], backend='flat'),
    # reader[:, cols] returns a reader; evaluated as a read it is a reader too; cols then arithmetic vs arithmetic then cols
    mk('tree', [5], 3, [['d', 0, C20], ['d', 1, RSUB1], ['d', 0, RSUB1], ['d', 3, C20], ['r', 2, R13, None], ['r', 4, R13, None],
                        ['r', 0, S(None, None, None), ['list', [2, 0]]], ['r', 1, ['list', [0, 4]], None], ['r', 0, R13, None]]),
    # slice(None, None, 1) with cols is a READ, not a derivation
    mk('tree', [1, 3, 2], 3, [['d', 0, HALF], ['r', 1, S(None, None, 1), ['list', [2, 0]]], ['r', 1, S(None, None, None), REV[1]]],
       backend='flat'),
    # order of two non-commuting ops; reflected operators; scalar 0 (falsy argument); pos
    mk('prog', [5], 3, [['d', 0, ADD2], ['d', 1, MUL3], ['r', 2, R13, None], ['d', 0, MUL3], ['d', 3, ADD2], ['r', 4, R13, None]]),
    mk('prog', [5], 3, [['d', 0, ['rsub', ['i', 0]]], ['d', 0, ['sub', ['i', 0]]], ['d', 0, ['add', ['f', (0.0).hex()]]],
                        ['d', 0, ['rpow', ['i', 0]]], ['d', 0, ['pos']], ['d', 0, ['mul', ['i', 0]]],
                        ['r', 1, R13, None], ['r', 2, R13, None], ['r', 3, R13, None], ['r', 5, R13, None], ['r', 6, R13, None]]),
    mk('prog', [5], 3, [['d', 0, ['rtruediv', ['i', 7]]], ['d', 0, ['rfloordiv', ['i', 7]]], ['d', 0, ['truediv', ['i', 2]]],
                        ['d', 0, ['floordiv', ['i', 2]]], ['d', 0, ['rpow', ['i', 2]]], ['d', 0, ['pow', ['i', 2]]],
                        ['r', 1, R13, None], ['r', 2, R13, None], ['r', 3, R13, None], ['r', 4, R13, None],
                        ['r', 5, S(2, None, None), None], ['r', 6, R13, None]]),
    # integer overflow wraps elementwise; programs NumPy refuses are dropped (int ** negative int, scalar out of range)
    mk('prog', [4], 2, [['d', 0, ['mul', ['i', 3001]]], ['d', 0, ['pow', ['i', -3]]], ['d', 0, ['add', ['i', 100000]]],
                        ['d', 1, ['floordiv', ['i', 0]]], ['r', 1, ['int', 3], None], ['r', 4, ['int', 3], None]], mul=5),
    # dtype-changing chain on every backend
    mk('prog', [6], 3, [['d', 0, HALF], ['d', 1, ['floordiv', ['i', 2]]], ['d', 2, REV], ['r', 3, S(1, 5, None), ['list', [1]]]],
       backend='cbin', d=2),
    mk('prog', [4], 2, [['d', 0, HALF], ['d', 1, NEG], ['r', 2, ['list', [1, 3]], None]], backend='npy', dtype='float32', **{'as': 'array'}),
    mk('prog', [2, 3], 2, [['d', 0, ['rsub', ['f', (1.5).hex()]]], ['r', 1, S(1, 4, None), S(None, None, -1)]], backend='flat',
       dtype='uint8', off=0, offset=7),
    # EMPTY row selections (seeded change C02-m3: `if out.shape[0] == 0: return out` before _apply_ops): the
    # deferred operations must be applied to a (0, c) block too -- promoted dtype, selected columns
    mk('prog', [6], 4, [['d', 0, ['truediv', ['i', 2]]], ['r', 1, S(5, 5, None), None], ['d', 0, ['cols', ['list', [0, 2]]]],
                        ['r', 2, S(5, 5, None), None], ['r', 2, S(4, 2, None), None], ['r', 0, S(3, 3, None), None],
                        ['d', 0, ['rpow', ['f', (2.0).hex()]]], ['r', 3, S(-1, -3, 1), None], ['r', 0, S(3, 3, None), ['list', [3, 0]]],
                        ['d', 2, ['mul', ['f', (0.5).hex()]]], ['r', 4, S(1, 1, None), S(None, None, -1)], ['r', 4, S(1, 1, None), None]]),
    mk('prog', [2, 3, 1], 3, [['d', 0, HALF], ['d', 1, C20], ['r', 2, S(1, 1, None), None], ['r', 2, S(4, 3, None), None],
                              ['r', 2, S(-2, -3, None), ['list', [1]]], ['r', 1, S(3, 3, 1), None], ['r', 0, S(4, 4, None), None]],
       backend='flat', offset=7),
    mk('prog', [6], 3, [['d', 0, ['floordiv', ['f', (1.5).hex()]]], ['d', 1, REV], ['r', 2, S(3, 3, None), None], ['r', 2, S(5, 2, None), ['list', [1]]]],
       backend='cbin', d=2),
    mk('prog', [4], 2, [['d', 0, ['rtruediv', ['i', 7]]], ['d', 1, ['cols', S(1, None, None)]], ['r', 2, S(2, 1, None), None]],
       backend='npy', dtype='float32', off=1),
    # the one-element tuple index reader[(rows,)] on derived readers (int, slice, list, empty slice, whole slice)
    mk('prog', [2, 3], 3, [['d', 0, HALF], ['d', 1, C20], ['r', 2, ['int', -1], TUPLE1], ['r', 2, R13, TUPLE1], ['r', 2, ['list', [0, 4]], TUPLE1],
                           ['r', 2, S(4, 4, None), TUPLE1], ['r', 2, S(None, None, None), TUPLE1], ['r', 0, R13, TUPLE1]], backend='flat'),
    # two column selections in a row; empty column selection
    mk('prog', [5], 4, [['d', 0, ['cols', S(1, None, None)]], ['d', 1, C20], ['d', 2, ADD2], ['r', 3, R13, None],
                        ['d', 0, ['cols', S(3, 1, None)]], ['d', 5, ADD2], ['r', 6, R13, None]]),
]


def colsel_cases():
    """every permutation of 4 channels and every index list of <= 3 channels with repeats, as a whole-recording
    channel selection followed by arithmetic and as the channel selector of a read (a selector that is not a sorted
    run must not be treated as one: seeded change C01-m4 sits on the code path C02 shares)"""
    import itertools
    c = 4
    sels = [list(p) for p in itertools.permutations(range(c))]
    for k in (1, 2, 3):
        sels += [list(t) for t in itertools.product(range(c), repeat=k)]
    out = []
    for j, sel in enumerate(sels):
        cs = ['list', sel]
        cmds = [['d', 0, ['cols', cs]], ['d', 1, ADD2], ['r', 2, R13, None], ['r', 0, R13, cs], ['r', 1, ['int', -1], None]]
        out.append(mk('prog', [5] if j % 2 else [2, 3], c, cmds, backend='array' if j % 2 else 'flat'))
    # EVERY boolean mask over the 4 channels, in every container (ndarray of bool, list, tuple of Python bools), and the
    # index lists above in the other id containers (tuple, ndarrays of the integer dtypes), rotating
    j = 0
    for bits in itertools.product((0, 1), repeat=c):
        for cont in MASKCONTS:
            cs = ['mask', list(bits), cont]
            cmds = [['d', 0, ['cols', cs]], ['d', 1, ADD2], ['r', 2, R13, None], ['d', 0, MUL3], ['r', 3, R13, cs], ['r', 1, ['int', -1], None],
                    ['r', 0, R13, None]]
            out.append(mk('prog', [5] if j % 2 else [2, 3], c, cmds, backend='array' if j % 2 else 'flat'))
            j += 1
    for j, sel in enumerate(sels[::3]):
        cs = ['ids', sel, IDCONTS[j % len(IDCONTS)]]
        cmds = [['d', 0, ['cols', cs]], ['d', 1, ADD2], ['r', 2, R13, None], ['r', 0, R13, cs], ['r', 1, ['int', -1], None]]
        out.append(mk('prog', [5] if j % 2 else [2, 3], c, cmds, backend='array' if j % 2 else 'flat'))
    return out


def generate(tier, rng):
    cases = list(CORPUS)
    cases += colsel_cases()
    if tier == 'search':
        cases += [rand_tree(rng) for _ in range(1500)] + [rand_prog(rng) for _ in range(1500)]
        return [c for c in cases if valid_case(c)]
    quick = tier == 'quick'
    # (i) all programs of depth <= 2
    cases += fans('int16', 0, backend='array', sizes=(5,))
    cases += fans('float64', 3, backend='flat', sizes=(2, 3))
    ops = level_ops(3)
    others = [('int32', 'npy', (5,)), ('float32', 'flat', (1, 4)), ('uint8', 'array', (5,)), ('int16', 'cbin', (5,)),
              ('int64', 'flat', (3, 1, 1)), ('uint16', 'npy', (5,)), ('float32', 'array', (5,)), ('int32', 'cbin', (5,))]
    if quick:
        for j, (dt, be, sizes) in enumerate(others):
            pre = [[]] + [[rng.choice(ops)] for _ in range(2)]
            cases += fans(dt, j, backend=be, sizes=sizes, prefixes=pre, off=0 if dt.startswith('u') else -2)
    else:
        for j, (dt, be, sizes) in enumerate(others):
            pre = None if be != 'cbin' else [[]] + [[rng.choice(ops)] for _ in range(12)]
            cases += fans(dt, j, backend=be, sizes=sizes, prefixes=pre, off=0 if dt.startswith('u') else -2)
        cases += fans('int16', 1, backend='flat', sizes=(1, 3, 1), mul=1201)
        # depth 3: random two-step prefixes, every third step
        for j in range(500):
            dt, be, sizes = rng.choice([('int16', 'array', (5,)), ('float64', 'array', (5,)), ('float32', 'flat', (2, 3)),
                                        ('int32', 'flat', (4, 1))])
            cases += fans(dt, j, backend=be, sizes=sizes, prefixes=[[rng.choice(ops), rng.choice(ops)]])
    cases += sweeps(rng, 4, 8) if quick else sweeps(rng, 5, 48)
    # (ii) random programs, (iii) random trees
    cases += [rand_prog(rng) for _ in range(500 if quick else 6000)]
    cases += [rand_tree(rng) for _ in range(250 if quick else 3000)]
    out = [c for c in cases if valid_case(c)]
    assert len(out) >= len(cases) * 0.9
    return out


# ---- implementation side ------------------------------------------------------------------------

def _tmp():
    base = os.environ.get('VT_WORK') or tempfile.gettempdir()
    return tempfile.mkdtemp(prefix='c02_', dir=base)


def _dtcode(dt):
    import numpy as np
    try:
        return DT.get(str(np.dtype(dt)), 99)
    except Exception:
        return 99


def matrix(n, c, cfg):
    import numpy as np
    k = np.arange(n * c, dtype=np.int64).reshape(n, c)
    return ((k + cfg['off']) * cfg['mul']).astype(cfg['dtype'])


def make_reader(d, sizes, c, cfg, A):
    import numpy as np
    from pathlib import Path
    from phylib.io.traces import get_ephys_reader
    be = cfg['backend']
    if be == 'flat':
        paths, o = [], 0
        for j, s in enumerate(sizes):
            p = Path(d) / ('f%d.bin' % j)
            with open(p, 'wb') as f:
                f.write(bytes((37 * k + 11) % 251 for k in range(cfg['offset'])))
                f.write(A[o:o + s].tobytes())
            o += s
            paths.append(p)
        arg = paths if len(paths) > 1 else paths[0]
        return get_ephys_reader(arg, sample_rate=3.0, dtype=A.dtype, n_channels=c, offset=cfg['offset']), (lambda: None)
    if be == 'array':
        return get_ephys_reader(A.copy(), sample_rate=3.0), (lambda: None)
    if be == 'npy':
        p = Path(d) / 'a.npy'
        np.save(p, A)
        return get_ephys_reader(p, sample_rate=3.0), (lambda: None)
    if be == 'cbin':
        import mtscomp
        p = Path(d) / 'a.bin'
        A.tofile(p)
        mtscomp.compress(p, Path(d) / 'a.cbin', Path(d) / 'a.ch', sample_rate=10., n_channels=c, dtype=A.dtype,
                         chunk_duration=cfg['d'] / 10., n_threads=1, check_after_compress=False, quiet=True)
        r = get_ephys_reader(Path(d) / 'a.cbin')
        return r, r.reader.close
    raise ValueError(be)


def py_scalar(s):
    return int(s[1]) if s[0] == 'i' else float.fromhex(s[1])


def py_item(it, form):
    import numpy as np
    if it[0] == 'int':
        return it[1]
    if it[0] == 'slice':
        return slice(it[1], it[2], it[3])
    return np.array(it[1], dtype=np.int64) if form == 'array' else list(it[1])


def py_cols(cols, form):
    """the Python object of a column selector.  form 'list' / 'array': what the READER is indexed with (a 'list'
    selector as list / int64 ndarray; the other kinds in their own container).  form 'np': what the loaded ARRAY is
    indexed with, the oracle -- the canonical NumPy form of the same selection (slice, list of ids, ndarray of bool),
    so that the expected value does not depend on the container at all."""
    import numpy as np
    k = cols[0]
    if k == 'slice':
        return slice(cols[1], cols[2], cols[3])
    if k == 'list':
        return np.array(cols[1], dtype=np.int64) if form == 'array' else list(cols[1])
    if k == 'mask':
        bits = [bool(b) for b in cols[1]]
        if form == 'np' or cols[2] == 'array':
            return np.array(bits, dtype=bool)
        return bits if cols[2] == 'list' else tuple(bits)
    if k == 'ids':
        if form == 'np':
            return [int(x) for x in cols[1]] if cols[1] else np.zeros(0, dtype=np.int64)
        return tuple(cols[1]) if cols[2] == 'tuple' else np.array(cols[1], dtype=cols[2])
    if k == 'range':
        r = range(cols[1], cols[2], cols[3])
        return r if form != 'np' else (list(r) if len(r) else np.zeros(0, dtype=np.int64))
    if k == 'ellipsis':
        return Ellipsis if form != 'np' else slice(None, None, None)
    raise ValueError(k)


def apply_py(x, o, form):
    """the Python expression, applied alike to a reader and to an ndarray"""
    n = o[0]
    if n == 'pos':
        return +x
    if n == 'neg':
        return -x
    if n == 'cols':
        return x[:, py_cols(o[1], form)]
    s = py_scalar(o[1])
    if n == 'add':
        return x + s
    if n == 'radd':
        return s + x
    if n == 'sub':
        return x - s
    if n == 'rsub':
        return s - x
    if n == 'mul':
        return x * s
    if n == 'rmul':
        return s * x
    if n == 'truediv':
        return x / s
    if n == 'rtruediv':
        return s / x
    if n == 'floordiv':
        return x // s
    if n == 'rfloordiv':
        return s // x
    if n == 'pow':
        return x ** s
    if n == 'rpow':
        return s ** x
    raise ValueError(n)


def _bits(a):
    import numpy as np
    a = np.ascontiguousarray(a)
    return a.view(np.dtype('u%d' % a.dtype.itemsize)).tolist()


def _flat(rows):
    return [v for r in rows for v in r]


def _block(out):
    import numpy as np
    if not isinstance(out, np.ndarray) or out.ndim != 2 or out.dtype.kind not in 'biuf' or _dtcode(out.dtype) == 99:
        return ['err', 'type=%s ndim=%s' % (type(out).__name__, getattr(out, 'ndim', None))]
    return ['rows', _dtcode(out.dtype), int(out.shape[1]), _bits(out)]       # dtype, shape[1], rows (possibly none)


def _same(a, b):
    return a[0] == b[0] == 'rows' and a[1:] == b[1:]


def run_case(case):
    """returns ('outs', effective cmds, [d0, S0 bits], table, outs, exps, stats) or ('skip', why)"""
    import numpy as np
    import warnings
    from phylib.io.traces import BaseEphysReader
    warnings.simplefilter('ignore')
    i = case['inp']
    cfg = i['cfg']
    sizes, c = i['sizes'], i['c']
    form = cfg['as']
    A = matrix(sum(sizes), c, cfg)
    d = _tmp()
    close = lambda: None  # noqa
    readers = []
    try:
        with np.errstate(all='ignore'):
            r0, close = make_reader(d, sizes, c, cfg, A)
            readers = [r0]               # by effective id; None = the derivation failed in phylib
            eager = [A]                  # NumPy: the expression applied to the loaded array
            path = [[]]                  # the operators from the root
            eff = {0: 0}                 # original reader id -> effective id (absent: dropped)
            norig = 1
            cmds, outs, exps = [], [], []
            table = {}
            stats = {'dropped_raise': 0, 'dropped_npdiff': 0, 'dropped_dep': 0}
            for cm in i['cmds']:
                if cm[0] == 'd':
                    oid = norig
                    norig += 1
                    if cm[1] not in eff:
                        stats['dropped_dep'] += 1
                        continue
                    p = eff[cm[1]]
                    o = cm[2]
                    try:
                        X = apply_py(eager[p], o, 'np')
                        if not isinstance(X, np.ndarray) or X.ndim != 2 or _dtcode(X.dtype) == 99:
                            raise TypeError('eager result is not a 2-D numeric array')
                    except Exception:
                        stats['dropped_raise'] += 1
                        continue
                    if o[0] != 'cols':
                        key = (o[0], tuple(o[1]) if len(o) > 1 else None, _dtcode(eager[p].dtype))
                        ent = table.setdefault(key, [_dtcode(X.dtype), {}])
                        if ent[0] != _dtcode(X.dtype):
                            return ('skip', 'numpy-not-functional')
                        for a, b in zip(_flat(_bits(eager[p])), _flat(_bits(X))):
                            if ent[1].setdefault(a, b) != b:
                                return ('skip', 'numpy-not-functional')
                    eff[oid] = len(eager)
                    eager.append(X)
                    path.append(path[p] + [o])
                    cmds.append(['d', p, o])
                    exps.append(None)
                    # phylib: the same Python expression on the reader
                    try:
                        child = apply_py(readers[p], o, form) if readers[p] is not None else None
                    except Exception:
                        child = None
                    if isinstance(child, BaseEphysReader):
                        readers.append(child)
                        outs.append(['derived'])
                    else:
                        readers.append(None)
                        outs.append(['err', 'no reader'])
                else:
                    if cm[1] not in eff:
                        stats['dropped_dep'] += 1
                        continue
                    r = eff[cm[1]]
                    it, cols = cm[2], cm[3]
                    t1 = cols == TUPLE1          # reader[(rows,)]: the one-element tuple branch of __getitem__
                    if t1:
                        cols = None
                    whole = cols is not None and it == ['slice', None, None, None]
                    exp = None
                    if not whole:
                        try:
                            E = np.atleast_2d(eager[r][(py_item(it, 'list'),) if t1 else py_item(it, 'list')])
                            if cols is not None:
                                E = E[:, py_cols(cols, 'np')]
                            exp = _block(E)
                            # NumPy alone, on the block the reader loads: is NumPy row-count independent here?
                            B = np.ascontiguousarray(np.atleast_2d(A[py_item(it, 'list')]))
                            for o in path[r]:
                                B = apply_py(B, o, 'np')
                            if cols is not None:
                                B = B[:, py_cols(cols, 'np')]
                            ok = _same(exp, _block(B))
                        except Exception:
                            stats['dropped_raise'] += 1
                            continue
                        if exp[0] != 'rows':
                            stats['dropped_raise'] += 1
                            continue
                        if not ok:
                            stats['dropped_npdiff'] += 1
                            continue
                    cmds.append(['r', r, it, TUPLE1 if t1 else cols])
                    exps.append(exp)
                    try:
                        rd = readers[r]
                        if rd is None:
                            raise RuntimeError('reader was not created')
                        if t1:
                            res = rd[(py_item(it, form),)]
                        else:
                            res = rd[py_item(it, form)] if cols is None else rd[py_item(it, form), py_cols(cols, form)]
                        if isinstance(res, BaseEphysReader):
                            outs.append(['reader'])
                        else:
                            outs.append(_block(res))
                    except Exception as e:  # noqa
                        outs.append(['err', type(e).__name__])
            tab = [[list(k[:2]), k[2], v[0], sorted(v[1].items())] for k, v in table.items()]
            return ('outs', cmds, [_dtcode(A.dtype), _bits(A)], tab, outs, exps, stats)
    finally:
        try:
            close()
        except Exception:
            pass
        del readers
        shutil.rmtree(d, ignore_errors=True)


# ---- encoding for Coq ---------------------------------------------------------------------------

def _item(it):
    if it[0] == 'int':
        return q.app('IInt', q.z(it[1]))
    if it[0] == 'slice':
        return q.app('ISlice', q.opt(it[1]), q.opt(it[2]), q.opt(it[3]))
    return q.app('IList', q.zl(it[1]))


def _colsel(cols):
    """the ABSTRACT selection: a slice, or the list of channel ids the selector denotes in NumPy (a boolean mask =
    the positions of its set bits, in order; a tuple / integer ndarray / range = its elements; ... = the full slice)"""
    if cols[0] == 'slice':
        return q.app('CSlice', q.opt(cols[1]), q.opt(cols[2]), q.opt(cols[3]))
    if cols[0] == 'ellipsis':
        return q.app('CSlice', q.opt(None), q.opt(None), q.opt(None))
    return q.app('CList', q.zl(col_ids(cols)))


def _scalar(s):
    if s[0] == 'i':
        return q.app('SInt', q.z(s[1]))
    m, den = float.fromhex(s[1]).as_integer_ratio()      # finite, exact: m / 2^k
    e = -(den.bit_length() - 1)
    while m and m % 2 == 0:
        m //= 2
        e += 1
    if m == 0:
        e = 0
    return q.app('SFlt', q.z(m), q.z(e))


def _code(name, arg):
    return '(mkcode %s %s)' % (OPCTOR[name], 'None' if arg is None else '(Some %s)' % _scalar(list(arg)))


def _op(o):
    if o[0] == 'cols':
        return q.app('OCols', _colsel(o[1]))
    return q.app('OMap', _code(o[0], o[1] if len(o) > 1 else None))


def _cmd(cm):
    if cm[0] == 'd':
        return q.app('CDerive', q.nat(cm[1]), _op(cm[2]))
    # reader[(rows,)] is `item = item[0]` and then exactly reader[rows]
    return q.app('CRead', q.nat(cm[1]), _item(cm[2]),
                 'None' if cm[3] is None or cm[3] == TUPLE1 else '(Some %s)' % _colsel(cm[3]))


class _Intern(object):
    """injective renaming of the bit patterns of one case to 0, 1, 2, ... (primitive-integer literals)"""

    def __init__(self):
        self.ids = {}

    def v(self, bits):
        return '%d' % self.ids.setdefault(int(bits), len(self.ids))

    def mat(self, rows):
        return '[' + '; '.join('[' + '; '.join(self.v(x) for x in r) + ']' for r in rows) + ']%uint63'


def _out(o, it):
    if o[0] == 'derived':
        return 'RDerived'
    if o[0] == 'reader':
        return 'RReader'
    if o[0] == 'rows':
        return '(RRows %s %s %s)' % (q.z(o[1]), q.z(o[2]), it.mat(o[3]))
    return 'RErr'


def encode(case, obs):
    if obs[0] == 'skip':
        return 'InSkip', 'ObsSkip'
    it = _Intern()
    if obs[0] == 'crash':
        # the recording could not even be set up / the harness itself failed: state a minimal well-formed
        # history so that the crash is judged as a failure of the property on this input
        i = case['inp']
        A = matrix(sum(i['sizes']), i['c'], i['cfg'])
        cin = q.app('InTree', q.zl(i['sizes']), q.z(_dtcode(A.dtype)), it.mat(_bits(A)), '[]', '[]', '[]')
        return cin, 'ObsCrash'
    _, cmds, s0, tab, outs, exps, stats = obs
    i = case['inp']
    tabtxt = q.lst(tab, lambda e: '(mkre %s %s %s %s)' % (
        _code(e[0][0], e[0][1]), q.z(e[1]), q.z(e[2]),
        '[' + '; '.join('%s; %s' % (it.v(p[0]), it.v(p[1])) for p in e[3]) + ']%uint63'))
    cin = q.app('InTree', q.zl(i['sizes']), q.z(s0[0]), it.mat(s0[1]), tabtxt, q.lst(cmds, _cmd),
                q.lst(exps, lambda e: 'None' if e is None else '(Some %s)' % _out(e, it)))
    return cin, q.app('ObsOuts', q.lst(outs, lambda o: _out(o, it)))


def nontrivial(case, obs):
    if obs[0] != 'outs':
        return False
    return any(cm[0] == 'r' and cm[1] > 0 for cm in obs[1])


def _bucket(n):
    return str(n) if n <= 3 else '4-9' if n <= 9 else '10-99' if n <= 99 else '100+'


def _colform(cols, cfg):
    k = cols[0]
    if k == 'list':
        return 'ids.' + ('int64' if cfg['as'] == 'array' else 'list')
    if k in ('mask', 'ids'):
        return '%s.%s' % (k, cols[2])
    return k


def dist(case, obs):
    i = case['inp']
    cfg = i['cfg']
    out = ['kind=' + case['kind'], 'backend=' + cfg['backend'], 'dtype=' + cfg['dtype'],
           'parts=%d' % len(i['sizes']), 'channels=%d' % i['c']]
    if obs[0] != 'outs':
        out.append('outcome=%s:%s' % (obs[0], obs[1]))
        return out
    _, cmds, s0, tab, outs, exps, stats = obs
    nd = sum(1 for cm in cmds if cm[0] == 'd')
    nr = len(cmds) - nd
    out.append('readers=%s' % _bucket(nd + 1))
    out += ['n.programs_read'] * sum(1 for cm in cmds if cm[0] == 'r' and cm[1] > 0)
    out += ['n.reads'] * nr
    out += ['n.derivations'] * nd
    for k, v in stats.items():
        out += ['n.' + k] * v
    depth = {0: 0}
    k = 1
    for cm in cmds:
        if cm[0] == 'd':
            depth[k] = depth[cm[1]] + 1
            out.append('op=' + cm[2][0])
            if cm[2][0] == 'cols':
                out.append('derive.cols=' + _colform(cm[2][1], cfg))
            if len(cm[2]) > 1 and cm[2][0] != 'cols':
                out.append('scalar=' + ('int' if cm[2][1][0] == 'i' else 'float'))
            k += 1
        else:
            out.append('read.depth=%d' % min(depth[cm[1]], 4))
            out.append('read.item=' + (cm[2][0] if cm[2][0] != 'list' else cfg['as']))
            out.append('read.cols=' + ('none' if cm[3] is None else _colform(cm[3], cfg)))
            if empty_item(i['sizes'], cm[2]):
                out.append('read.empty_rows')
                out.append('read.empty_rows.depth=%d' % min(depth[cm[1]], 4))
    for o, e in zip(outs, exps):
        if o[0] == 'rows' and e is not None and o[1] != s0[0]:
            out.append('read.dtype_changed')
            if not o[3]:
                out.append('read.empty_rows.dtype_changed')
        if o[0] == 'rows' and e is not None and not o[3] and o[2] != i['c']:
            out.append('read.empty_rows.cols_changed')
        if o[0] == 'reader':
            out.append('read.returns_reader')
    return out


def size(case):
    i = case['inp']
    s = 20 * len(i['cmds']) + 3 * sum(i['sizes']) + 5 * len(i['sizes']) + i['c']
    s += sum(2 for k, v in i['cfg'].items() if DEFCFG.get(k) != v)
    s += sum(len(str(cm)) for cm in i['cmds']) // 8
    return s


def _drop(cmds, idxs):
    """remove the commands at the given positions, and everything that depends on a removed derivation"""
    idxs = set(idxs)
    new_id = {0: 0}
    nxt_old, nxt_new = 1, 1
    out = []
    for k, cm in enumerate(cmds):
        if cm[0] == 'd':
            oid = nxt_old
            nxt_old += 1
            if k in idxs or cm[1] not in new_id:
                continue
            new_id[oid] = nxt_new
            nxt_new += 1
            out.append(['d', new_id[cm[1]], cm[2]])
        else:
            if k in idxs or cm[1] not in new_id:
                continue
            out.append(['r', new_id[cm[1]], cm[2], cm[3]])
    return out


def shrink(case):
    i = case['inp']
    cmds = i['cmds']

    def mkc(**kw):
        j = dict(i)
        j.update(kw)
        return {'kind': case['kind'], 'inp': j}
    cands = []
    n = len(cmds)
    # chunks of commands: halves, quarters, ...
    w = n // 2
    while w >= 1 and len(cands) < 30:
        for a in range(0, n, w):
            cands.append(mkc(cmds=_drop(cmds, range(a, min(n, a + w)))))
        w //= 2
    # single commands, last first
    for k in range(n - 1, -1, -1):
        cands.append(mkc(cmds=_drop(cmds, [k])))
    # simpler configuration / layout
    cfg = i['cfg']
    for key in ('backend', 'as', 'offset', 'mul', 'off', 'dtype', 'd'):
        if cfg.get(key) != DEFCFG[key]:
            cands.append(mkc(cfg=dict(cfg, **{key: DEFCFG[key]}), sizes=[sum(i['sizes'])] if key == 'backend' else i['sizes']))
    if len(i['sizes']) > 1:
        cands.append(mkc(sizes=[sum(i['sizes'])]))
    # simpler index expressions
    for k, cm in enumerate(cmds):
        if cm[0] == 'r':
            if cm[3] is not None and cm[2] != ['slice', None, None, None]:
                cands.append(mkc(cmds=cmds[:k] + [['r', cm[1], cm[2], None]] + cmds[k + 1:]))
            if cm[2][0] != 'int' and not (cm[3] is not None and cm[2] == ['slice', None, None, None]):
                cands.append(mkc(cmds=cmds[:k] + [['r', cm[1], ['int', 0], cm[3]]] + cmds[k + 1:]))
    # a selector in another argument form -> the plain list of the same ids (kept only if the failure stays)
    for k, cm in enumerate(cmds):
        if cm[0] == 'd' and cm[2][0] == 'cols' and cm[2][1][0] in ('mask', 'ids', 'range'):
            cands.append(mkc(cmds=cmds[:k] + [['d', cm[1], ['cols', ['list', col_ids(cm[2][1])]]]] + cmds[k + 1:]))
        if cm[0] == 'r' and cm[3] not in (None, TUPLE1) and cm[3][0] in ('mask', 'ids', 'range'):
            cands.append(mkc(cmds=cmds[:k] + [['r', cm[1], cm[2], ['list', col_ids(cm[3])]]] + cmds[k + 1:]))
    seen = set()
    sz = size(case)
    for c in cands:
        key = repr(c)
        if key in seen or not c['inp']['cmds']:
            continue
        seen.add(key)
        try:
            ok = valid_case(c)
        except Exception:
            ok = False
        if ok and size(c) < sz:
            yield c


def _cols_text(cols):
    k = cols[0]
    if k == 'mask' and cols[2] == 'array':
        return 'np.array(%r)' % ([bool(b) for b in cols[1]],)
    if k == 'ids' and cols[2] != 'tuple':
        return 'np.array(%r, dtype=np.%s)' % (list(cols[1]), cols[2])
    return repr(py_cols(cols, 'list'))


def expr_text(cmds, r):
    """Python source of the expression reader r denotes"""
    par, k = {}, 1
    for cm in cmds:
        if cm[0] == 'd':
            par[k] = (cm[1], cm[2])
            k += 1
    def go(x):  # noqa
        if x == 0:
            return 'R'
        p, o = par[x]
        e = go(p)
        if o[0] == 'pos':
            return '(+%s)' % e
        if o[0] == 'neg':
            return '(-%s)' % e
        if o[0] == 'cols':
            return '%s[:, %s]' % (e, _cols_text(o[1]))
        s = repr(py_scalar(o[1]))
        sym = {'add': '+', 'sub': '-', 'mul': '*', 'truediv': '/', 'floordiv': '//', 'pow': '**'}
        if o[0].startswith('r') and o[0][1:] in sym:
            return '(%s %s %s)' % (s, sym[o[0][1:]], e)
        return '(%s %s %s)' % (e, sym[o[0]], s)
    return go(r)


def repro(case):
    lines = []
    cmds = case['inp']['cmds']
    k = 1
    for cm in cmds:
        if cm[0] == 'd':
            lines.append('# reader %d = %s' % (k, expr_text(cmds, k)))
            k += 1
        else:
            lines.append('# read reader %d = %s  [%r%s]' % (cm[1], expr_text(cmds, cm[1]), py_item(cm[2], 'list'),
                                                           '' if cm[3] is None else ',' if cm[3] == TUPLE1
                                                           else ', ' + _cols_text(cm[3])))
    return ("import sys, os; sys.path[:0] = ['/verif/harness', os.environ.get('PHYLIB_REPO', '/repo')]\n"
            "from vt import npshim; npshim.setup_process()\n"
            "from vt.props import c02\n"
            "case = %r\n"
            "# R = get_ephys_reader(<recording with entry (r, j) = ((r*c + j) + off) * mul>); the history, in order:\n"
            "%s\n"
            "obs = c02.run_case(case)\n"
            "for cm, got, want in zip(obs[1], obs[4], obs[5]):\n"
            "    print(cm, 'phylib:', got, 'numpy:', want, '' if want is None or got == want else '   <-- differs')\n"
            % (case, '\n'.join(lines)))


MATCHERS = {}
