"""C01 -- reader indexing = NumPy indexing of the concatenated recording (DESIGN.md §8 C01)."""
import itertools
import os
import tempfile

from .. import coqenc as q

ID = 'C01'
RULE = ('test recording = n x c matrix with entry (r, j) = r*c + j in the sample dtype, split into files/parts; '
        'exhaustive small scope (N = 4 quick / 6 thorough; for n = N+1 the same with the column selectors taken in rotation): every composition of n <= N into parts x every integer in [-n, n) x every '
        'unit-step slice with bounds in {None} u [-n, n] selecting >= 1 row x every non-empty increasing index '
        'list (as list and as ndarray) x 5 column selectors (none, 1:3, ::-1, index list, permutation) on 1-4 '
        'channels, integers also as np.int64, on flat files (all layouts) and in-memory arrays (single part); the same abstract cases '
        'sampled on .npy, flat files with header offsets / trailing bytes / other dtypes, and real mtscomp '
        '.cbin files; reader attributes for every layout; then seeded random larger cases (n <= 2000, <= 6 '
        'files, boundary-biased, column selectors also arbitrary slices with steps +-1/+-2 and index lists with negative / repeated entries). '
        'Stage 3: layouts with files of 0 rows (header / trailing bytes only) for every composition of n <= 3 (quick) / 4 x every item; the one-element '
        'tuple form reader[(item,)]; .npy / .cbin given as a list of one path; _get_subitems called directly (item, (item,), (item, cols)) for every '
        'composition of n <= 4 / 5 x every item, judged relationally (its sub-items read part by part give the NumPy rows); and, OUTSIDE the '
        'statement (judged against the model with exception classes only, code 1): every composition of n <= 3 / 4 x every integer in [-2n-1, 2n+1] x '
        'every slice with bounds in {None} u [-n-2, n+2] (steps None, and 0 / 1 / 2 / -1 in rotation) x every index list of <= 2 entries over [-1, n] '
        '(unordered, repeated, empty), column selectors NumPy rejects, empty recordings, several .cbin paths (first file only), constructor arguments '
        '(n_channels 0, empty file, offset beyond the file, sample_rate 0). Round 2: for c <= 4 channels EVERY permutation of the channels '
        'and EVERY index list of <= 3 channels (repeats, any order; 164 selectors) as list and as ndarray, some also counted from the end, the row '
        'index / layout taken in rotation over every item of n <= 4; the random stream also on 5-8 channels with permutations of all channels / '
        'of a run of channels and index lists with repeats. Round 3: flat files whose samples are stored in the NON-native byte order '
        '(int16 / uint16 / int32 / int64 / float32 / float64; dtype keyword as np.dtype instance and as string) and in the native order in '
        'every spelling of the keyword (instance, \'<i2\', \'int16\', np.int16), through get_ephys_reader and through FlatEphysReader '
        'directly, layout / item / selector / offset in rotation, also in the sampled configurations and the random stream; reader attributes '
        'with the last file exactly 1, 2, 3 chunks of round(600 s * rate) samples long and one sample more / less (rates 0.01 / 0.005 / '
        '0.02 Hz) after 0-2 other files, on flat / array / .npy. Stage 6 (environment and storage form, in rotation over every generated read / '
        'attribute case): file paths given relative to the working directory (1 in 4) and as str (1 in 5); the process changes its working '
        'directory between the construction of the reader and the reads (into a directory holding files of the same names and sizes with other '
        'values, or an empty one), with and without a read of the first file before the move, with relative and with absolute paths; .npy files '
        'and in-memory arrays in Fortran order, in-memory non-contiguous views, .npy header formats 1.0 / 2.0 / 3.0. Non-trivial = the recording has >= 2 parts or a column selector is present; '
        'distinct = distinct abstract input + configuration.')
EXHAUSTIVE = {'quick': True, 'thorough': True}
CLAUSES = {
    1: 'observed output differs from the Coq model PV.C01.Model (getitem / part_bounds / memmap_rows)',
    21: 'C01_slice / C01_int / C01_list / C01_cols: reader[item(, cols)] is not what NumPy returns on the '
        'concatenated recording (rows first, then columns; an integer gives a 1 x c block)',
    22: 'dtype of the returned block differs from the sample dtype (in the native byte order, as np.vstack / np.concatenate '
        'of the files answer)',
    23: 'C01_bounds / C01_memmap_rows: shape / n_samples / n_channels are not those of the concatenated array',
    24: 'reader.dtype differs from the sample dtype (byte order included)',
    25: 'duration differs from n_samples / sample_rate',
    26: 'C01_duration: duration is not within one binary64 rounding of the rational n_samples / sample_rate',
}
TRUSTED = ['np.memmap, np.load(mmap_mode), np.vstack, NumPy basic/fancy indexing of ONE array (the model\'s '
           'per-part read and the reference are the same NumPy-semantics primitive)',
           'mtscomp (compression, Reader.__getitem__): runtime, only exercised',
           'Coq primitive floats (one binary64 division) in the duration comparator only']
ASSUMES = ['integers in [-n, n); slices with step None/1 and bounds in {None} u [-n, n] selecting >= 1 row; '
           'lists/arrays non-empty, strictly increasing, within [0, n); rows then columns; reader[:, cols] '
           '(exactly slice(None)) returns a reader (C02); multi-file layouts only for flat binaries; no index '
           'lists on .cbin',
           'inputs of kind any / ctor are outside the statement: only agreement with the model (exception class '
           'included) is checked there, never a property clause']
TIMEOUT = {'quick': 20, 'thorough': 60}
COQ_HEADER = 'From Coq Require Import Floats.\n'

DT = {'uint8': 0, 'int16': 1, 'int32': 2, 'int64': 3, 'float32': 4, 'float64': 5, 'uint16': 6}
DTMAX = {'uint8': 255, 'int16': 32767, 'int32': 2 ** 31 - 1, 'int64': 2 ** 62, 'float32': 2 ** 24, 'float64': 2 ** 53,
         'uint16': 65535}
ITEMSIZE = {'uint8': 1, 'int16': 2, 'int32': 4, 'int64': 8, 'float32': 4, 'float64': 8, 'uint16': 2}
# dtype tag = DT code of the sample type (+ BO_SWAPPED when its byte order is not the machine's).  A block the reader
# returns went through np.vstack, which -- like np.concatenate of the files itself -- answers in the NATIVE byte order:
# its expected tag is the plain DT code; reader.dtype is the sample dtype as stored, byte order included.
BO_SWAPPED = 16
DEFCFG = {'backend': 'flat', 'dtype': 'int16', 'offset': 0, 'junk': 0, 'as': 'list', 'rate': 3.0, 'd': 2,
          'ext': '.bin'}
# optional keys (absent = False / none): 'used' (reader already queried), 'tuple1' (reader[(item,)]), 'aslist' (.npy / .cbin
# given as [path]), 'extra' (.cbin: lengths of further files passed after the first; phylib reads the first only);
# flat files only: 'bo' = 'swap' (the samples are stored in the NON-native byte order, '>i2' on a little-endian host),
# 'dtform' (how the dtype keyword is given: absent = np.dtype instance, 'str' = dtype.str e.g. '>i2' / '<i2', 'name' =
# 'int16' as params.py has it, 'type' = the scalar type np.int16; the last two cannot express a byte order),
# 'direct' (FlatEphysReader(paths, ...) instead of get_ephys_reader(paths, ...)),
# 'defoff' (stage 4: the `offset` keyword is NOT passed -- header offset 0 through the constructor's default; needs offset == 0);
# any backend: 'idt' (stage 4: integer dtype of an ndarray / NumPy-scalar ROW index when 'as' == 'array': absent = int64;
# 'uint64', 'uint32', 'uint16', 'uint8', 'int32', 'int16', 'int8' -- every integer dtype indexes a NumPy array alike)
# stage 6 (fifth seeding round): the ENVIRONMENT and the STORAGE FORM of the files.  File backends (flat / npy / cbin):
# 'rel' (the paths are given RELATIVE to the working directory of the moment the reader is built), 'pstr' (paths given as str
# instead of pathlib.Path; through get_ephys_reader only), 'chdir' (the process changes its working directory between the
# construction of the reader and every read / attribute access: 'decoy' = into a directory that holds files of the SAME names
# and sizes with other sample values, 'empty' = into a directory without such files; the recording is the files that were
# given, wherever the process stands afterwards), 'touch' (with 'chdir': reader[0] -- the first file only -- is read before
# the change of directory).  .npy / in-memory array: 'mem' = 'F' (the (n, c) array is Fortran-ordered: np.save writes
# fortran_order True, as for the transpose of a channel-major array), in-memory array only: 'mem' = 'strided' (a
# non-contiguous view: every second row, inner columns, of a larger array).  .npy: 'npyver' = 2 / 3 (header format 2.0 / 3.0).
IDTMAX = {'uint64': 2 ** 63, 'uint32': 2 ** 32 - 1, 'uint16': 65535, 'uint8': 255, 'int32': 2 ** 31 - 1, 'int16': 32767, 'int8': 127}
EXN = {'IndexError': 1, 'ValueError': 2, 'AssertionError': 3, 'ZeroDivisionError': 4, 'NotImplementedError': 5, 'TypeError': 6}


def _cfg(**kw):
    c = dict(DEFCFG)
    c.update(kw)
    return c


# ---- abstract inputs --------------------------------------------------------------------------------

def compositions(n):
    if n == 0:
        yield []
        return
    for first in range(1, n + 1):
        for rest in compositions(n - first):
            yield [first] + rest


def _np_slice_len(n, start, stop):
    return len(range(*slice(start, stop, None).indices(n)))


def items_for(n):
    out = []
    for i in range(-n, n):
        out.append(['int', i])
    bounds = [None] + list(range(-n, n + 1))
    for a in bounds:
        for b in bounds:
            if _np_slice_len(n, a, b) >= 1:
                out.append(['slice', a, b, None])
    for k in range(1, n + 1):
        for comb in itertools.combinations(range(n), k):
            out.append(['list', list(comb)])
    return out


def cols_for(c):
    """none, 1:3, ::-1, an index list, a permutation -- on c channels."""
    sel = [None, ['slice', 1, 3, None], ['slice', None, None, -1]]
    sel.append(['list', [c - 1, 0] if c >= 2 else [0]])
    perm = list(range(1, c)) + [0]
    if c >= 4:
        perm = [3, 1, 0, 2]
    sel.append(['list', perm])
    return sel


def valid_item(n, it):
    if it[0] == 'int':
        return -n <= it[1] < n
    if it[0] == 'slice':
        a, b, s = it[1], it[2], it[3]
        if s not in (None, 1):
            return False
        for v in (a, b):
            if v is not None and not (-n <= v <= n):
                return False
        return _np_slice_len(n, a, b) >= 1
    l = it[1]
    return len(l) >= 1 and all(0 <= x < n for x in l) and all(x < y for x, y in zip(l, l[1:]))


def valid_cols(c, cols):
    if cols is None:
        return True
    if cols[0] == 'slice':
        return cols[3] != 0
    return all(-c <= x < c for x in cols[1])


def _layout_ok(sizes, c, cfg, allow_empty=False):
    """files of the recording can be materialised: sizes >= 0 (a file of 0 rows needs a header or trailing bytes: an
    empty file cannot be memory-mapped), >= 1 row in all unless allow_empty (in-memory array only)"""
    if not sizes or min(sizes) < 0 or c < 1:
        return False
    n = sum(sizes)
    if n == 0 and not (allow_empty and cfg['backend'] == 'array'):
        return False
    if n * c - 1 > DTMAX[cfg['dtype']]:
        return False
    if not 0 <= cfg['junk'] < c * ITEMSIZE[cfg['dtype']]:
        return False
    if cfg['backend'] != 'flat' and len(sizes) != 1:
        return False
    if cfg['backend'] == 'flat' and min(sizes) == 0 and cfg['offset'] + cfg['junk'] == 0:
        return False
    if cfg.get('extra') and cfg['backend'] != 'cbin':
        return False
    if cfg.get('aslist') and cfg['backend'] not in ('npy', 'cbin'):
        return False
    if (cfg.get('bo') or cfg.get('dtform') or cfg.get('direct')) and cfg['backend'] != 'flat':
        return False
    if cfg.get('bo') not in (None, 'swap') or cfg.get('dtform') not in (None, 'str', 'name', 'type'):
        return False
    if cfg.get('bo') and (ITEMSIZE[cfg['dtype']] == 1 or cfg.get('dtform') in ('name', 'type')):
        return False
    if cfg.get('defoff') and (cfg['backend'] != 'flat' or cfg['offset'] != 0):
        return False
    if (cfg.get('rel') or cfg.get('pstr') or cfg.get('chdir')) and cfg['backend'] == 'array':
        return False
    if cfg.get('chdir') not in (None, 'decoy', 'empty') or (cfg.get('touch') and not cfg.get('chdir')):
        return False
    if cfg.get('mem') not in (None, 'F', 'strided') or (cfg.get('mem') and cfg['backend'] not in ('npy', 'array')):
        return False
    if cfg.get('mem') == 'strided' and cfg['backend'] != 'array':
        return False
    if cfg.get('npyver') not in (None, 2, 3) or (cfg.get('npyver') and cfg['backend'] != 'npy'):
        return False
    return True


def _idt_ok(cfg, it):
    """the row index can be given as an ndarray / NumPy scalar of integer dtype cfg['idt']"""
    idt = cfg.get('idt')
    if not idt:
        return True
    if idt not in IDTMAX or cfg['as'] != 'array' or it[0] not in ('int', 'list'):
        return False
    vals = [it[1]] if it[0] == 'int' else list(it[1])
    lo = 0 if idt.startswith('u') else -IDTMAX[idt] - 1
    return bool(vals) and all(lo <= v <= IDTMAX[idt] for v in vals)


def valid_case(case):
    i = case['inp']
    k = case['kind']
    if k == 'sub':
        sizes = i['sizes']
        return bool(sizes) and min(sizes) >= 0 and sum(sizes) >= 1 and valid_item(sum(sizes), i['item']) and \
            i['form'] in ('plain', 'tuple1', 'tuple2')
    if k == 'ctor':
        if i.get('memmap') and not (len(i['fbytes']) == 1 and i['fbytes'][0] >= 0 and i['offset'] == 0 and i['rate'] == 3.0):
            return False
        return min(i['fbytes'] + [0]) >= -1 and i['offset'] >= 0 and i['dtype'] in ITEMSIZE
    if k == 'dispatch':
        return (i['what'] == 'tuple' and 0 <= i['k'] <= 4) or (i['what'] == 'npy' and 1 <= i['k'] <= 3)
    cfg = i['cfg']
    sizes, c = i['sizes'], i['c']
    n = sum(sizes)
    if k == 'any':
        if not _layout_ok(sizes, c, cfg, allow_empty=True):
            return False
        it, cols = i['item'], i['cols']
        if cfg['backend'] == 'cbin' and it[0] == 'list':
            return False
        # a column selector NumPy rejects only together with a row index of the statement's regime (a block of 0 rows
        # has no column count in the model)
        if not valid_cols(c, cols) and not valid_item(n, it):
            return False
        return not cfg.get('idt')
    if not _layout_ok(sizes, c, cfg) or cfg.get('extra'):
        return False
    if k == 'attrs':
        return True
    if not valid_item(n, i['item']) or not valid_cols(c, i['cols']):
        return False
    if cfg['backend'] == 'cbin' and i['item'][0] == 'list':
        return False
    if cfg.get('tuple1') and i['cols'] is not None:
        return False
    return _idt_ok(cfg, i['item'])


def _norm(case):
    # trailing bytes must stay below one row, otherwise they ARE a row
    i = case['inp']
    cfg = i['cfg']
    cfg['junk'] = max(0, min(cfg['junk'], i['c'] * ITEMSIZE[cfg['dtype']] - 1))
    return case


def _get(sizes, c, item, cols, **cfg):
    return _norm({'kind': 'get', 'inp': {'sizes': list(sizes), 'c': c, 'item': item, 'cols': cols,
                                         'cfg': _cfg(**cfg)}})


def _any(sizes, c, item, cols, **cfg):
    """an input OUTSIDE the statement (or not known to be inside): compared with the model only"""
    return _norm({'kind': 'any', 'inp': {'sizes': list(sizes), 'c': c, 'item': item, 'cols': cols,
                                         'cfg': _cfg(**cfg)}})


def _sub(sizes, item, form='plain', **kw):
    """_get_subitems(bounds, item) called directly; form tuple1 = (item,), tuple2 = (item, cols)"""
    return {'kind': 'sub', 'inp': {'sizes': list(sizes), 'item': item, 'form': form, 'as': kw.get('as', 'list')}}


def _ctor(fbytes, c, offset=0, dtype='int16', rate=3.0, direct=False, memmap=False):
    """a flat reader on files of the given byte lengths (-1 = the file does not exist), through get_ephys_reader(list of
    paths) or, direct=True, FlatEphysReader(list of paths); memmap=True (stage 4): `_memmap_flat(path, dtype=, n_channels=)`
    called directly on the one file WITHOUT the offset keyword (its default 0) -- on one existing file it answers / raises
    like FlatEphysReader([path], offset=0) and is encoded as that"""
    inp = {'fbytes': list(fbytes), 'c': c, 'offset': offset, 'dtype': dtype, 'rate': rate, 'direct': direct}
    if memmap:
        inp['memmap'] = True
    return {'kind': 'ctor', 'inp': inp}


def _dispatch(what, k):
    """what = 'tuple': reader[t] with a tuple of k index expressions; 'npy': get_ephys_reader on a list of k .npy paths"""
    return {'kind': 'dispatch', 'inp': {'what': what, 'k': k}}


def _attrs(sizes, c, **cfg):
    return _norm({'kind': 'attrs', 'inp': {'sizes': list(sizes), 'c': c, 'cfg': _cfg(**cfg)}})


CORPUS = [
    # fixed f9ab542: ndarray row index + column selector raised ValueError (item[0] == slice(None))
    _get([1, 3, 2], 3, ['list', [0, 3, 5]], ['list', [2, 0]], **{'as': 'array'}),
    _get([2], 2, ['list', [0, 1]], ['slice', None, None, -1], backend='array', **{'as': 'array'}),
    # one boundary case per operator of _get_subitems
    _get([1, 3, 2], 3, ['slice', 1, 4, None], None),          # stops exactly on a file boundary
    _get([1, 3, 2], 3, ['slice', 4, None, None], None),       # starts exactly on a file boundary
    _get([1, 3, 2], 3, ['slice', 0, 6, None], None),          # start 0 ('or' default), stop = n
    _get([1, 3, 2], 3, ['slice', -6, -1, None], None),        # start = -n wraps to 0
    _get([1, 3, 2], 3, ['slice', -1, None, None], None),      # last row only
    _get([1, 3, 2], 3, ['slice', 3, 4, None], None),          # one row, last of the middle part
    _get([1, 3, 2], 3, ['slice', None, None, 1], ['list', [2, 0]]),   # step 1 is not slice(None): rows
    _get([1, 3, 2], 3, ['slice', None, None, None], ['list', [2, 0]]),  # exactly slice(None): a reader
    _get([1, 3, 2], 3, ['int', 0], None), _get([1, 3, 2], 3, ['int', 1], None),
    _get([1, 3, 2], 3, ['int', 3], None), _get([1, 3, 2], 3, ['int', 4], None),
    _get([1, 3, 2], 3, ['int', -1], None), _get([1, 3, 2], 3, ['int', -6], ['slice', 1, 3, None]),
    _get([1, 3, 2], 3, ['list', [0]], None), _get([1, 3, 2], 3, ['list', [0, 1, 3, 4, 5]], None),
    _get([1, 3, 2], 3, ['list', [3, 4]], None), _get([1, 3, 2], 3, ['list', [5]], ['list', [1, 2, 0]]),
    _get([1, 1, 1, 1], 1, ['slice', 1, 3, None], ['slice', 1, 3, None]),
    _get([4], 2, ['slice', 1, -1, None], None, backend='npy'),
    _get([6], 3, ['slice', 1, 5, None], ['list', [2, 0]], backend='cbin', d=2),
    _get([6], 3, ['int', -1], None, backend='cbin', d=4),
    _get([2, 3], 2, ['slice', 1, 4, None], None, dtype='float32', offset=7, junk=3),
    _get([2, 3], 2, ['list', [1, 2]], None, dtype='uint8', offset=1),
    _attrs([1, 3, 2], 3), _attrs([5], 2, backend='array'), _attrs([5], 2, backend='npy'),
    _attrs([6], 3, backend='cbin', d=4), _attrs([2, 3], 2, dtype='float64', offset=64, junk=5, rate=2.5),
    _attrs([7], 4, dtype='int32', rate=30000.0),
    # ---- stage 3 ----
    # a file of 0 rows (header / trailing bytes only) at the start, in the middle, at the end, twice
    _get([0, 2, 3], 2, ['slice', 1, 4, None], None, offset=7), _get([2, 0, 3], 2, ['int', 2], None, offset=1),
    _get([2, 3, 0], 2, ['list', [1, 2, 4]], ['list', [1, 0]], junk=1), _get([2, 0, 0, 3], 2, ['slice', -4, -1, None], None, offset=64),
    _attrs([2, 0, 3], 2, offset=7), _attrs([0, 4], 3, junk=2, dtype='float32'),
    # reader[(item,)] (line 218), .npy / .cbin given as a list of one path
    _get([1, 3, 2], 3, ['slice', 1, 5, None], None, tuple1=True), _get([1, 3, 2], 3, ['int', -2], None, tuple1=True),
    _get([1, 3, 2], 3, ['list', [0, 3, 5]], None, tuple1=True, **{'as': 'array'}),
    _get([4], 2, ['slice', 1, -1, None], ['list', [1, 0]], backend='npy', aslist=True),
    _get([6], 3, ['int', 4], None, backend='cbin', d=2, aslist=True), _attrs([5], 2, backend='npy', aslist=True),
    _attrs([6], 3, backend='cbin', d=4, aslist=True),
    # _get_subitems called directly, also with the tuple forms (line 91)
    _sub([1, 3, 2], ['slice', 1, 5, None]), _sub([1, 3, 2], ['slice', 1, 5, None], 'tuple2'),
    _sub([1, 3, 2], ['list', [0, 3, 5]], 'tuple2', **{'as': 'array'}), _sub([1, 3, 2], ['int', -2], 'tuple1'),
    _sub([2, 0, 1], ['slice', 1, None, None]),
    # OUTSIDE the statement (model only).  Integers: >= n IndexError (lines 86 / 98), < -n wraps modulo n
    _any([1, 3, 2], 3, ['int', 6], None), _any([1, 3, 2], 3, ['int', 100], None, **{'as': 'array'}),
    _any([1, 3, 2], 3, ['int', -7], None), _any([1, 3, 2], 3, ['int', -13], None), _any([6], 2, ['int', 6], None, backend='cbin'),
    # lists: entry >= n IndexError, negative entry ValueError (unpacking), repeated AssertionError, unordered = grouped by file
    _any([1, 3, 2], 3, ['list', [6]], None), _any([1, 3, 2], 3, ['list', [0, 6]], None, **{'as': 'array'}),
    _any([1, 3, 2], 3, ['list', [-1]], None), _any([1, 3, 2], 3, ['list', [0, -1]], None),
    _any([1, 3, 2], 3, ['list', [1, 1]], None), _any([1, 3, 2], 3, ['list', [1, 2, 2]], None),
    _any([1, 3, 2], 3, ['list', [2, 1]], None), _any([1, 3, 2], 3, ['list', [4, 1]], None), _any([1, 3, 2], 3, ['list', [1, 4, 2]], None),
    _any([1, 3, 2], 3, ['list', []], None), _any([1, 3, 2], 3, ['list', []], None, **{'as': 'array'}), _any([6], 2, ['list', []], None, backend='npy'),
    # slices: stop = 0 read as None; empty inside one file = 0 rows; empty at / across a file boundary, start = n,
    # stop = -n: np.vstack([]) ValueError; bounds beyond [-n, n] wrap modulo n; steps
    _any([1, 3, 2], 3, ['slice', 1, 0, None], None), _any([1, 3, 2], 3, ['slice', 0, 0, None], None),
    _any([1, 3, 2], 3, ['slice', 2, 2, None], None), _any([1, 3, 2], 3, ['slice', 3, 2, None], ['list', [2, 0]]),
    _any([1, 3, 2], 3, ['slice', 1, 1, None], None), _any([1, 3, 2], 3, ['slice', 4, 4, None], None),
    _any([1, 3, 2], 3, ['slice', 4, 1, None], None), _any([1, 3, 2], 3, ['slice', 6, None, None], None),
    _any([1, 3, 2], 3, ['slice', 6, 6, None], None), _any([1, 3, 2], 3, ['slice', None, -6, None], None),
    _any([1, 3, 2], 3, ['slice', 7, None, None], None), _any([1, 3, 2], 3, ['slice', None, 7, None], None),
    _any([1, 3, 2], 3, ['slice', -7, None, None], None), _any([1, 3, 2], 3, ['slice', None, -7, None], None),
    _any([1, 3, 2], 3, ['slice', -100, 3, None], None), _any([1, 3, 2], 3, ['slice', 0, 100, None], None),
    _any([1, 3, 2], 3, ['slice', None, None, 2], None), _any([1, 3, 2], 3, ['slice', None, None, -1], None),
    _any([1, 3, 2], 3, ['slice', 1, 4, 2], None), _any([1, 3, 2], 3, ['slice', None, None, 0], None),
    _any([6], 3, ['slice', 2, 2, None], None, backend='cbin', d=2), _any([6], 3, ['slice', 6, None, None], None, backend='array'),
    # column selectors NumPy rejects
    _any([1, 3, 2], 3, ['int', 0], ['list', [5]]), _any([1, 3, 2], 3, ['int', 0], ['list', [-4]]),
    _any([1, 3, 2], 3, ['slice', 1, 5, None], ['slice', None, None, 0]), _any([1, 3, 2], 3, ['int', 0], ['slice', 7, None, None]),
    # an empty recording
    _any([0], 2, ['int', 0], None, backend='array'), _any([0], 2, ['int', -1], None, backend='array'),
    _any([0], 2, ['slice', None, None, None], None, backend='array'), _any([0], 2, ['slice', -1, None, None], None, backend='array'),
    _any([0], 2, ['list', [0]], None, backend='array'), _any([0], 2, ['list', []], None, backend='array'),
    # several .cbin paths: phylib reads the first file only (lines 342-348)
    _any([6], 3, ['slice', 1, 5, None], None, backend='cbin', d=2, extra=[4]),
    _any([6], 3, ['int', 6], None, backend='cbin', d=2, extra=[4, 3]), _any([6], 3, ['int', -1], None, backend='cbin', d=4, extra=[2]),
    # constructor: n_channels <= 0 (assert), empty file, offset beyond the file, sample_rate 0, a file shorter than one row
    _ctor([12], 0), _ctor([12], -1), _ctor([0], 2), _ctor([12, 0], 2), _ctor([12], 2, offset=12), _ctor([12], 2, offset=14),
    _ctor([12], 2, rate=0.0), _ctor([12], 2, rate=-1.0), _ctor([12], 2, rate=1e-4), _ctor([12, 5], 3), _ctor([5], 3),
    _ctor([12, 13], 2, offset=1, dtype='float32'),
    # stage 4: _memmap_flat called directly without the offset keyword (default 0): rows, trailing bytes, empty file, n_channels 0
    _ctor([12], 2, memmap=True), _ctor([13], 3, memmap=True, dtype='float32'), _ctor([1], 1, memmap=True, dtype='uint8'),
    _ctor([0], 2, memmap=True), _ctor([12], 0, memmap=True), _ctor([3], 2, memmap=True),
    # a file that does not exist: first of the list (get_ephys_reader returns None, line 498), later in the list (TypeError),
    # FlatEphysReader called directly (assert all(p.exists()))
    _ctor([-1, 12], 2), _ctor([12, -1], 2), _ctor([-1], 2), _ctor([], 2), _ctor([12, -1], 2, direct=True), _ctor([-1], 2, direct=True),
    _ctor([12, 12], 2, direct=True),
    # ---- round-2 seed C01-m4: index lists over a gap-free span that start at its minimum and end at its maximum but are
    # not the ascending run (a "consecutive channels -> basic slice" shortcut returns them in ascending order)
    _get([1, 3, 2], 4, ['slice', 1, 5, None], ['list', [0, 2, 1, 3]]),
    _get([1, 3, 2], 4, ['list', [0, 3, 5]], ['list', [0, 2, 1, 3]], **{'as': 'array'}),
    _get([1, 3, 2], 5, ['int', 4], ['list', [1, 3, 2, 4]]), _get([5], 5, ['slice', None, -1, None], ['list', [1, 3, 2, 4]], backend='array'),
    _get([1, 3, 2], 3, ['slice', 2, None, None], ['list', [0, 0, 2]]), _get([2, 2], 3, ['int', -1], ['list', [0, 2, 2]], **{'as': 'array'}),
    _get([4], 4, ['slice', 1, 3, None], ['list', [1, 1, 3]], backend='npy'),
    _get([6], 6, ['slice', 1, 5, None], ['list', [0, 3, 1, 4, 2, 5]], backend='cbin', d=2),
    _get([2, 3], 8, ['list', [1, 2]], ['list', [2, 5, 3, 6, 4, 7]], dtype='float32', offset=7),
    # reader[t] for tuples of 0, 3, 4 index expressions: NotImplementedError (line 229); 1 and 2 are answered
    _dispatch('tuple', 0), _dispatch('tuple', 1), _dispatch('tuple', 2), _dispatch('tuple', 3), _dispatch('tuple', 4),
    # a list of two / three .npy paths: ValueError (line 420)
    _dispatch('npy', 1), _dispatch('npy', 2), _dispatch('npy', 3),
    # ---- round-3 seed C01-m7: flat files whose samples are stored in the NON-native byte order ('>i2', '>u2', '>i4', '>f4' on a
    # little-endian host), the dtype given as an np.dtype instance / as its string, through get_ephys_reader / FlatEphysReader
    # (a dispatch that "normalises" the keyword with np.dtype(x).type memmaps the native type: every value byte-swapped)
    _get([1, 3, 2], 3, ['slice', 1, 5, None], None, bo='swap'), _get([1, 3, 2], 3, ['int', 4], ['list', [2, 0]], bo='swap', dtform='str'),
    _get([2, 3], 2, ['list', [1, 2]], None, dtype='float32', offset=7, bo='swap', direct=True),
    _get([4], 2, ['slice', None, None, None], ['list', [1, 0]], dtype='uint16', bo='swap', dtform='str', direct=True),
    _get([2, 2], 2, ['slice', -3, None, None], ['slice', None, None, -1], dtype='int32', offset=1, junk=3, bo='swap', dtform='str'),
    _get([3], 1, ['int', -1], None, dtype='float64', bo='swap'), _get([1, 2], 2, ['list', [0, 2]], None, dtype='int64', bo='swap', **{'as': 'array'}),
    _attrs([1, 3, 2], 3, bo='swap'), _attrs([2, 3], 2, dtype='int32', bo='swap', dtform='str'),
    _attrs([5], 2, dtype='uint16', bo='swap', direct=True), _attrs([2, 3], 2, dtype='float32', offset=7, bo='swap', dtform='str', direct=True),
    # the native byte order in every spelling of the keyword
    _get([1, 3, 2], 3, ['slice', 1, 5, None], None, dtform='type'), _get([1, 3, 2], 3, ['slice', 1, 5, None], None, dtform='name'),
    _get([1, 3, 2], 3, ['slice', 1, 5, None], None, dtform='str'), _get([1, 3, 2], 3, ['int', 3], None, dtype='uint16', direct=True),
    _attrs([1, 3, 2], 3, dtform='type'), _attrs([1, 3, 2], 3, dtform='name', direct=True), _attrs([1, 3, 2], 3, dtype='float32', dtform='str'),
    # ---- round-3 seed C01-m8: the last (or only) file holds a whole number of chunks of round(600 s * sample_rate) samples
    # (rate 0.01 Hz: 6 samples; 0.005 Hz: 3): the end of the recording must still be the last chunk bound
    _attrs([6], 2, rate=0.01), _attrs([12], 2, rate=0.01), _attrs([18], 1, rate=0.01), _attrs([5], 2, rate=0.01), _attrs([7], 2, rate=0.01),
    _attrs([3, 6], 2, rate=0.01), _attrs([6, 6], 2, rate=0.01), _attrs([6, 5], 2, rate=0.01), _attrs([2, 6, 12], 2, rate=0.01),
    _attrs([6], 2, backend='array', rate=0.01), _attrs([12], 2, backend='npy', rate=0.01), _attrs([3], 2, backend='array', rate=0.005),
    _attrs([6], 2, backend='npy', rate=0.005, aslist=True),
    # ---- round-5 seed C01-m13: a .npy file / an in-memory array holding the (n, c) recording in FORTRAN order (np.save of the
    # transpose of a channel-major array writes fortran_order True; a reader that maps the data area itself as C-ordered returns
    # the right shape and scrambled values), header formats 2.0 / 3.0, a non-contiguous in-memory view
    _get([4], 3, ['slice', 1, 4, None], None, backend='npy', mem='F'), _get([5], 2, ['int', 3], ['list', [1, 0]], backend='npy', mem='F', aslist=True),
    _get([4], 3, ['list', [0, 2, 3]], ['slice', None, None, -1], backend='npy', mem='F', dtype='float32', npyver=2, **{'as': 'array'}),
    _get([3], 4, ['slice', None, None, None], None, backend='npy', mem='F', npyver=3, pstr=True),
    _get([4], 3, ['slice', 1, 4, None], None, backend='npy', npyver=2), _get([4], 3, ['int', -1], None, backend='npy', npyver=3),
    _get([4], 3, ['slice', 1, 4, None], ['list', [2, 0]], backend='array', mem='F'), _get([4], 3, ['list', [1, 3]], None, backend='array', mem='strided'),
    _attrs([4], 3, backend='npy', mem='F'), _attrs([4], 3, backend='array', mem='F'), _attrs([4], 3, backend='array', mem='strided'),
    _attrs([4], 3, backend='npy', mem='F', npyver=2, dtype='float64'),
    # ---- round-5 seed C01-m12: paths given RELATIVE to the working directory, and the process changes directory between the
    # construction of the reader and the reads (into a directory with files of the same names and sizes / without them); the first
    # file read before the move or not.  A reader that opens its files lazily from the stored relative paths reads the other files.
    _get([1, 3, 2], 3, ['slice', 1, 5, None], None, rel=True), _get([1, 3, 2], 3, ['slice', 1, 5, None], None, rel=True, chdir='decoy'),
    _get([1, 3, 2], 3, ['int', 4], ['list', [2, 0]], rel=True, chdir='decoy', touch=True),
    _get([1, 3, 2], 3, ['list', [0, 3, 5]], None, rel=True, chdir='empty', **{'as': 'array'}),
    _get([2, 3], 2, ['slice', None, None, None], ['list', [1, 0]], rel=True, chdir='decoy', dtype='float32', offset=7, direct=True),
    _get([4], 2, ['slice', 1, -1, None], None, rel=True, chdir='decoy', pstr=True, offset=1),
    _get([1, 3, 2], 3, ['slice', 1, 5, None], None, chdir='decoy'), _get([1, 3, 2], 3, ['int', -1], None, chdir='empty', pstr=True),
    _get([4], 2, ['slice', 1, -1, None], None, backend='npy', rel=True, chdir='decoy'),
    _get([4], 2, ['int', 2], None, backend='npy', rel=True, chdir='empty', mem='F', pstr=True),
    _get([6], 3, ['slice', 1, 5, None], ['list', [2, 0]], backend='cbin', d=2, rel=True, chdir='decoy'),
    _get([6], 3, ['int', -1], None, backend='cbin', d=4, rel=True, chdir='empty', aslist=True),
    _attrs([1, 3, 2], 3, rel=True, chdir='decoy'), _attrs([2, 3], 2, rel=True, chdir='empty', offset=7, dtype='int32'),
    _attrs([5], 2, backend='npy', rel=True, chdir='decoy'), _attrs([6], 3, backend='cbin', d=4, rel=True, chdir='decoy'),
    _attrs([1, 3, 2], 3, pstr=True),
]


def _exhaustive(nfull, nrot):
    """n <= nfull: every composition x every item x all 5 column selectors; nfull < n <= nrot: every composition x
    every item, the 5 selectors (and the channel counts 1-4) taken in rotation"""
    cases = []
    k = 0
    for n in range(1, nrot + 1):
        its = items_for(n)
        for sizes in compositions(n):
            for it in its:
                forms = ('list', 'array') if it[0] in ('list', 'int') else ('list',)
                for form in forms:
                    k += 1
                    for si in (range(5) if n <= nfull else [k % 5]):
                        c = 1 + (k + si) % 4
                        cols = cols_for(c)[si]
                        if cols is None and k % 5 == 1:
                            cases.append(_get(sizes, c, it, cols, tuple1=True, **{'as': form}))     # reader[(item,)]
                        else:
                            cases.append(_get(sizes, c, it, cols, **{'as': form}))
                        if len(sizes) == 1:
                            cases.append(_get(sizes, c, it, cols, backend='array', **{'as': form}))
    return cases


def col_lists_for(c):
    """every index-list column selector of the small scope on c channels: every permutation of the c channels, and
    every list of <= 3 channels, repeats and any order allowed (c + c^2 + c^3 lists)"""
    out = [list(p) for p in itertools.permutations(range(c))]
    for k in (1, 2, 3):
        for l in itertools.product(range(c), repeat=k):
            if list(l) not in out:
                out.append(list(l))
    return out


def _col_selector_cases(cmax=4):
    """round-2 seed C01-m4 (`arr[:, cols]` answered through a basic slice whenever cols[-1] - cols[0] == len(cols) - 1:
    [0, 2, 1, 3] and [0, 0, 2] come back in ascending order): for c <= cmax EVERY permutation of the channels and EVERY
    index list of <= 3 channels (repeats, any order), as list and as ndarray; the row index (every item of n = 1..4) and
    the layout (every composition) are taken in rotation, one per selector"""
    rows = [(sizes, it) for n in (3, 4, 2, 1) for sizes in compositions(n) for it in items_for(n)]
    cases = []
    k = 0
    for c in range(1, cmax + 1):
        for l in col_lists_for(c):
            for form in ('list', 'array'):
                k += 1
                sizes, it = rows[(7 * k) % len(rows)]
                cases.append(_get(sizes, c, it, ['list', l], **{'as': form}))
                if k % 4 == 0:
                    cases.append(_get([sum(sizes)], c, it, ['list', l], backend='array', **{'as': form}))
                if k % 6 == 0:
                    # the same channels counted from the end (NumPy: -c..-1), first entry only / all entries
                    neg = [l[0] - c] + l[1:] if k % 12 else [x - c for x in l]
                    cases.append(_get(sizes, c, it, ['list', neg], **{'as': form}))
    return cases


def _rand_dtype_arg(rng, cfg):
    """round 3: a flat configuration in three is read with the samples in the non-native byte order and / or another spelling
    of the dtype keyword and / or through FlatEphysReader directly"""
    if cfg['backend'] != 'flat' or rng.random() < 0.65:
        return
    if ITEMSIZE[cfg['dtype']] > 1 and rng.random() < 0.6:
        cfg['bo'] = 'swap'
        if rng.random() < 0.5:
            cfg['dtform'] = 'str'
    else:
        cfg['dtform'] = rng.choice(['str', 'name', 'type'])
    if rng.random() < 0.4:
        cfg['direct'] = True


def _config_sample(base, rng, count):
    """the same abstract cases on the other backends / dtypes / offsets"""
    out = []
    pool = [c for c in base if c['inp']['cfg']['backend'] == 'flat']
    for _ in range(count):
        c = rng.choice(pool)
        i = c['inp']
        kind = rng.choice(['npy', 'flatcfg', 'flatcfg', 'cbin'])
        if kind == 'flatcfg':
            cfg = _cfg(dtype=rng.choice(['int16', 'int32', 'float32', 'float64', 'uint8', 'int64']),
                       offset=rng.choice([0, 1, 7, 64]), junk=rng.choice([0, 0, 1, 3]),
                       ext=rng.choice(['.bin', '.dat', '.raw']), rate=rng.choice([1.0, 2.5, 30000.0, 7.0]))
            cfg['as'] = i['cfg']['as']
            if rng.random() < 0.15:
                cfg['dtype'] = 'uint16'
            _rand_dtype_arg(rng, cfg)
            nc = _norm({'kind': 'get', 'inp': dict(i, cfg=cfg)})
        else:
            n = sum(i['sizes'])
            # re-use item/cols on the single-part layout of the same length
            cfg = _cfg(backend=kind, dtype=rng.choice(['int16', 'int32', 'float32', 'float64'] if kind == 'npy'
                                                      else ['int16', 'int32']),
                       d=rng.choice([1, 2, 3, 5, 40]))
            cfg['as'] = i['cfg']['as']
            if rng.random() < 0.3:
                cfg['aslist'] = True
            nc = {'kind': 'get', 'inp': dict(i, sizes=[n], cfg=cfg)}
        if valid_case(nc):
            out.append(nc)
    return out


def _rand_item(rng, n, bounds):
    near = sorted(set(x for b in bounds for x in (b - 1, b, b + 1) if 0 <= x <= n))
    r = rng.random()

    def pt():
        v = rng.choice(near) if rng.random() < 0.6 else rng.randint(0, n)
        if rng.random() < 0.3 and v != 0:
            v = v - n
        return v
    if r < 0.25:
        v = min(pt(), n - 1) if rng.random() < 0.5 else rng.randint(-n, n - 1)
        v = max(-n, min(n - 1, v))
        return ['int', v]
    if r < 0.65:
        for _ in range(50):
            a = None if rng.random() < 0.15 else pt()
            b = None if rng.random() < 0.15 else pt()
            if rng.random() < 0.5 and a is not None:
                # a short slice near a boundary
                a0 = a if a >= 0 else a + n
                b = min(n, a0 + rng.randint(1, 4))
            if _np_slice_len(n, a, b) >= 1 and _np_slice_len(n, a, b) <= 400:
                return ['slice', a, b, rng.choice([None, None, 1])]
        return ['slice', None, min(n, 3), None]
    k = rng.randint(1, min(n, 40))
    if rng.random() < 0.5:
        pool = [x for x in near if x < n]
        l = sorted(set(rng.sample(pool, min(len(pool), k)) + rng.sample(range(n), min(n, max(1, k // 3)))))
    else:
        l = sorted(rng.sample(range(n), k))
    return ['list', l]


def _rand_cols(rng, c):
    """the five selectors of the exhaustive scope, or any other slice / index list NumPy accepts on c channels"""
    r = rng.random()
    if r < 0.35:
        return rng.choice(cols_for(c))
    if r < 0.55:
        b = [None] + list(range(-c - 1, c + 2))
        return ['slice', rng.choice(b), rng.choice(b), rng.choice([None, 1, -1, 2, -2])]
    if r < 0.7:
        return ['list', [rng.randint(-c, c - 1) for _ in range(rng.randint(1, c + 1))]]
    # round 2 (C01-m4): permutations of all channels / of a run of channels (any order inside; half of them keep the run's
    # first and last channel in place), and index lists with repeated channels
    if r < 0.85:
        a = rng.randint(0, c - 1) if rng.random() < 0.5 else 0
        b = rng.randint(a, c - 1) if a or rng.random() < 0.5 else c - 1
        run = list(range(a, b + 1))
        if len(run) > 3 and rng.random() < 0.5:
            mid = run[1:-1]
            rng.shuffle(mid)
            run = run[:1] + mid + run[-1:]
        else:
            rng.shuffle(run)
        return ['list', run]
    l = sorted(rng.randint(0, c - 1) for _ in range(rng.randint(2, c + 2)))
    if rng.random() < 0.5:
        rng.shuffle(l)
    return ['list', l]


def _random(rng, count, nmax):
    out = []
    while len(out) < count:
        k = rng.randint(1, 6)
        big = rng.random() < 0.2
        sizes = [rng.randint(1, (nmax // k) if big else 40) for _ in range(k)]
        if rng.random() < 0.3:
            sizes[rng.randrange(k)] = 1
        n = sum(sizes)
        c = rng.randint(1, 4) if rng.random() < 0.65 else rng.randint(5, 8)
        bounds = [0]
        for s in sizes:
            bounds.append(bounds[-1] + s)
        it = _rand_item(rng, n, bounds)
        cols = _rand_cols(rng, c)
        dtype = rng.choice(['int16', 'int32', 'float32', 'float64'])
        backend = 'flat'
        if k == 1:
            backend = rng.choice(['flat', 'array', 'npy', 'cbin'])
        cfg = dict(backend=backend, dtype=dtype, offset=rng.choice([0, 0, 1, 7, 64]), junk=rng.choice([0, 0, 2]),
                   d=rng.choice([1, 3, 16, 100]), rate=rng.choice([3.0, 1.0, 2.5, 30000.0]))
        cfg['as'] = rng.choice(['list', 'array'])
        if backend == 'cbin':
            cfg['dtype'] = rng.choice(['int16', 'int32'])
            if n / cfg['d'] > 200:
                cfg['d'] = 100
        _rand_dtype_arg(rng, cfg)
        case = _get(sizes, c, it, cols, **cfg)
        if valid_case(case):
            out.append(case)
            if rng.random() < 0.1:
                out.append({'kind': 'attrs', 'inp': {'sizes': sizes, 'c': c, 'cfg': dict(case['inp']['cfg'])}})
    return out


def _attr_cases(nmax, rng):
    out = []
    for n in range(1, nmax + 1):
        for sizes in compositions(n):
            c = 1 + (n + len(sizes)) % 4
            out.append(_attrs(sizes, c, dtype=['int16', 'int32', 'float32', 'float64', 'uint8'][(n + len(sizes)) % 5],
                              offset=[0, 1, 7, 64][len(sizes) % 4], junk=[0, 1][n % 2] if c * 1 > 1 else 0,
                              rate=[3.0, 1.0, 2.5, 30000.0, 7.0][n % 5]))
            if len(sizes) == 1:
                out.append(_attrs(sizes, c, backend='array', dtype='float32', rate=7.0))
                out.append(_attrs(sizes, c, backend='npy', dtype='int32', rate=2.5))
                if n >= 2:
                    out.append(_attrs(sizes, c, backend='cbin', dtype='int16', d=1 + n % 3))
    return [c for c in out if valid_case(c)]


def _byteorder_cases(quick):
    """round-3 seed C01-m7: every multi-byte sample type in the non-native byte order (dtype keyword as np.dtype instance and
    as string) and in the native one in every spelling (instance, '<i2', 'int16', np.int16), through get_ephys_reader and through
    FlatEphysReader directly; the layout / row index (every composition x every item of n <= 4), the column selector, the
    header offset and the trailing bytes are taken in rotation; reader attributes for each configuration"""
    rows = [(sizes, it) for n in (3, 4, 2, 1) for sizes in compositions(n) for it in items_for(n)]
    cases = []
    k = 0
    per = 6 if quick else 40
    for dtype in ('int16', 'uint16', 'int32', 'float32', 'int64', 'float64'):
        for bo, dtform in (('swap', None), ('swap', 'str'), (None, 'str'), (None, 'name'), (None, 'type'), (None, None)):
            for direct in (False, True):
                cfg = dict(dtype=dtype)
                if bo:
                    cfg['bo'] = bo
                if dtform:
                    cfg['dtform'] = dtform
                if direct:
                    cfg['direct'] = True
                for _ in range(per if bo else max(2, per // 3)):
                    k += 1
                    sizes, it = rows[(11 * k) % len(rows)]
                    c = 1 + k % 4
                    cols = cols_for(c)[k % 5] if k % 3 else None
                    case = _get(sizes, c, it, cols, offset=[0, 1, 7, 64][k % 4], junk=[0, 0, 1, 3][(k // 4) % 4],
                                ext=['.bin', '.dat', '.raw'][k % 3], **dict(cfg, **{'as': ('list', 'array')[k % 2]}))
                    if valid_case(case):
                        cases.append(case)
                k += 1
                sizes, _ = rows[(11 * k) % len(rows)]
                cases.append(_attrs(sizes, 1 + k % 3, offset=[0, 7][k % 2], rate=[3.0, 2.5, 30000.0][k % 3], **cfg))
    return [c for c in cases if valid_case(c)]


def _chunk_multiple_cases():
    """round-3 seed C01-m8: reader attributes when the LAST file holds exactly 1, 2, 3 chunks of cs = round(600 s * rate)
    samples, and one sample more / less (rates 0.01, 0.005, 0.02 Hz: cs = 6, 3, 12), after 0, 1, 2 other files whose lengths
    are below / at / above a whole chunk; flat (several files), in-memory array and .npy (one part)"""
    out = []
    k = 0
    for rate in (0.01, 0.005, 0.02):
        cs = int(round(600.0 * rate))
        for m in (1, 2, 3):
            for last in (m * cs - 1, m * cs, m * cs + 1):
                for head in ([], [1], [cs], [cs + 1], [2 * cs], [2, cs], [cs, cs - 1]):
                    k += 1
                    c = 1 + k % 3
                    out.append(_attrs(head + [last], c, rate=rate, dtype=['int16', 'int32', 'float32'][k % 3],
                                      offset=[0, 1, 7][k % 3] if head or k % 2 else 0))
                    if head and k % 3 == 0:
                        out.append(_attrs(head + [last], c, rate=rate, direct=True))
                out.append(_attrs([last], 1 + m % 2, backend='array', rate=rate))
                out.append(_attrs([last], 1 + m % 2, backend='npy', rate=rate, dtype='int32'))
    return [c for c in out if valid_case(c)]


def _with_zeros(sizes):
    """the layouts obtained by adding files of 0 rows to a composition: one at each position, and two somewhere"""
    out = []
    for pos in range(len(sizes) + 1):
        out.append(sizes[:pos] + [0] + sizes[pos:])
    out.append([0] + sizes + [0])
    out.append(sizes[:1] + [0, 0] + sizes[1:])
    return out


def _zero_part_cases(nmax):
    """inside the statement: recordings some of whose files hold 0 rows (a header and / or trailing bytes only)"""
    cases = []
    k = 0
    for n in range(1, nmax + 1):
        its = items_for(n)
        for comp in compositions(n):
            for sizes in _with_zeros(comp):
                for it in its:
                    k += 1
                    c = 1 + k % 3
                    cols = cols_for(c)[k % 5] if k % 2 else None
                    cfg = [dict(offset=1), dict(offset=7, dtype='float32'), dict(junk=1, dtype='int32', offset=0),
                           dict(offset=64, junk=1)][k % 4]
                    cfg['as'] = 'array' if k % 3 == 0 else 'list'
                    case = _get(sizes, c, it, cols, **cfg)
                    if valid_case(case):
                        cases.append(case)
                if len(sizes) <= 4:
                    k += 1
                    case = _attrs(sizes, 1 + k % 3, offset=[1, 7][k % 2], dtype=['int16', 'float64'][k % 2])
                    if valid_case(case):
                        cases.append(case)
    return cases


def _sub_cases(nmax):
    """_get_subitems(bounds, item) called directly, with the three forms of item"""
    cases = []
    k = 0
    for n in range(1, nmax + 1):
        its = items_for(n)
        layouts = list(compositions(n))
        layouts += [z for comp in layouts[:3] for z in _with_zeros(comp)[:2]]
        for sizes in layouts:
            for it in its:
                k += 1
                cases.append(_sub(sizes, it, ('plain', 'tuple2', 'tuple1')[k % 3], **{'as': ('list', 'array')[k % 2]}))
    return cases


def _any_items(n):
    out = [['int', i] for i in range(-2 * n - 1, 2 * n + 2)]
    bounds = [None] + list(range(-n - 2, n + 3))
    k = 0
    for a in bounds:
        for b in bounds:
            k += 1
            out.append(['slice', a, b, None])
            if k % 5 == 0:
                out.append(['slice', a, b, [1, 0, 2, -1][(k // 5) % 4]])
    vals = list(range(-1, n + 1))
    out.append(['list', []])
    for x in vals:
        out.append(['list', [x]])
        for y in vals:
            out.append(['list', [x, y]])
    for x in vals:
        out.append(['list', [x, x + 1, x]])
        out.append(['list', [n - 1, x, 0]])
    return out


def _any_cases(nmax):
    """OUTSIDE the statement (and, mixed in, inside): every integer / slice / short index list around the valid range"""
    cases = []
    k = 0
    for n in range(1, nmax + 1):
        its = _any_items(n)
        for comp in compositions(n):
            layouts = [comp] + (_with_zeros(comp)[1:2] if n <= 2 else [])
            for sizes in layouts:
                for it in its:
                    k += 1
                    c = 1 + k % 3
                    cols = None
                    if k % 4 == 0:
                        cols = cols_for(c)[1 + k % 4]
                    elif k % 7 == 0 and valid_item(n, it):
                        cols = [['list', [c]], ['list', [-c - 1]], ['slice', None, None, 0]][k % 3]   # NumPy rejects
                    cfg = {'as': 'array' if k % 2 else 'list'}
                    if 0 in sizes:
                        cfg['offset'] = 1
                    if len(sizes) == 1 and k % 3 == 0:
                        cfg['backend'] = 'array'
                    case = _any(sizes, c, it, cols, **cfg)
                    if valid_case(case):
                        cases.append(case)
    return cases


def generate(tier, rng):
    cases = [c for c in CORPUS]
    if tier == 'search':
        return _stage6_axes(_stage4_axes(cases + _random(rng, 4000, 600)))
    quick = tier == 'quick'
    base = _exhaustive(4, 5) if quick else _exhaustive(6, 7)
    cases += base
    cases += _attr_cases(6 if quick else 9, rng)
    cases += _config_sample(base, rng, 900 if quick else 10000)
    cases += _col_selector_cases(4)
    cases += _byteorder_cases(quick)
    cases += _chunk_multiple_cases()
    cases += _random(rng, 400 if quick else 4000, 2000)
    cases += _zero_part_cases(3 if quick else 4)
    cases += _sub_cases(4 if quick else 5)
    cases += _any_cases(3 if quick else 4)
    for c in cases:
        assert valid_case(c), c
    # one 'get' case in three is asked of a reader object that has already answered other queries (a read with
    # a channel selector, a derived column view, a plain read): earlier reads must not change later answers
    # (seeded change C01-m1: the clone made for `reader[item, cols]` shared its op list with the reader)
    out = []
    for k, c in enumerate(cases):
        if c['kind'] == 'get' and k % 3 == 1 and not c['inp']['cfg'].get('used'):
            c = {'kind': c['kind'], 'inp': dict(c['inp'], cfg=dict(c['inp']['cfg'], used=True))}
        out.append(c)
    return _stage6_axes(_stage4_axes(out))


IDT_ROT = ('uint64', 'int32', 'uint8', 'uint64', 'uint32', 'int16', 'uint16', 'int8')


def _stage4_axes(cases):
    """stage 4 (full mutation sweep): two axes no case had.  (1) every second flat recording without header is opened WITHOUT
    the `offset` keyword (FlatEphysReader's default `offset=0` was never used: a changed default survived).  (2) two in five
    of the ndarray / NumPy-scalar row indices are given in another integer dtype than int64 (`np.asarray(item, dtype=np.int64)`
    in the list branch of _get_subitems: without it a uint64 index array minus an int64 bound is a float64 array)"""
    out = []
    for k, c in enumerate(cases):
        if c['kind'] in ('get', 'attrs'):
            cfg = c['inp']['cfg']
            new = {}
            if cfg['backend'] == 'flat' and cfg['offset'] == 0 and k % 2 == 0 and 'defoff' not in cfg:
                new['defoff'] = True
            if c['kind'] == 'get' and cfg['as'] == 'array' and c['inp']['item'][0] != 'slice' and k % 5 in (0, 3) and 'idt' not in cfg:
                for j in range(len(IDT_ROT)):
                    idt = IDT_ROT[(k // 5 + j) % len(IDT_ROT)]
                    if _idt_ok(dict(cfg, idt=idt), c['inp']['item']):
                        new['idt'] = idt
                        break
            if new:
                c = {'kind': c['kind'], 'inp': dict(c['inp'], cfg=dict(cfg, **new))}
                assert valid_case(c), c
        out.append(c)
    return out


def _stage6_axes(cases):
    """stage 6 (fifth seeding round): the environment and the storage form, drawn in rotation over EVERY generated read / attribute
    case (so over every layout, item, selector, dtype, offset they carry).  File backends: one case in four gives its paths
    relative to the working directory, and of those three in four change the working directory between the construction and the
    reads (decoy directory with same-named files of the same sizes / empty directory), every second of them after reader[0]
    has been read; one in twelve changes directory with absolute paths; one in five gives the paths as str.  Every second .npy
    file and every third in-memory array is Fortran-ordered (another third of the arrays is a non-contiguous view); .npy header
    formats 1.0 / 2.0 / 3.0 in rotation."""
    out = []
    for k, c in enumerate(cases):
        if c['kind'] in ('get', 'attrs'):
            cfg = c['inp']['cfg']
            new = {}
            be = cfg['backend']
            explicit = any(key in cfg for key in ('rel', 'chdir', 'pstr', 'mem', 'npyver'))
            if not explicit and be in ('flat', 'npy', 'cbin'):
                if k % 4 == 1:
                    new['rel'] = True
                    ch = ('decoy', 'empty', 'decoy', None)[(k // 4) % 4]
                    if ch:
                        new['chdir'] = ch
                        if c['kind'] == 'get' and (k // 16) % 2:
                            new['touch'] = True
                elif k % 12 == 3:
                    new['chdir'] = ('decoy', 'empty')[(k // 12) % 2]
                if k % 5 == 2 and not cfg.get('direct'):
                    new['pstr'] = True
            if not explicit and be == 'npy':
                if k % 2 == 0:
                    new['mem'] = 'F'
                if k % 3:
                    new['npyver'] = 1 + k % 3
            if not explicit and be == 'array' and k % 3:
                new['mem'] = ('F', 'strided')[k % 3 - 1]
            if new:
                c = {'kind': c['kind'], 'inp': dict(c['inp'], cfg=dict(cfg, **new))}
                assert valid_case(c), c
        out.append(c)
    return out


# ---- implementation side ------------------------------------------------------------------------

_PROC = {}


def _tmp():
    """one scratch directory per worker process (directory creation/removal dominates the run time on a busy
    machine), a fresh file-name prefix per case; the case's files are unlinked when it is done"""
    pid = os.getpid()
    if _PROC.get('pid') != pid:
        base = os.environ.get('VT_WORK') or tempfile.gettempdir()
        _PROC.update(pid=pid, dir=os.path.abspath(tempfile.mkdtemp(prefix='c01_', dir=base)), k=0)
    _PROC['k'] += 1
    return os.path.join(_PROC['dir'], 'k%d_' % _PROC['k'])


def _cleanup(prefix):
    d, pre = os.path.split(prefix)
    for name in os.listdir(d):
        if name.startswith(pre):
            try:
                os.unlink(os.path.join(d, name))
            except OSError:
                pass


def _dtcode(dt):
    import numpy as np
    try:
        d = np.dtype(dt)
        return DT[d.name] + (0 if d.isnative else BO_SWAPPED)
    except Exception:
        return 99


def matrix(n, c, dtype):
    import numpy as np
    return np.arange(n * c, dtype=np.int64).reshape(n, c).astype(dtype)


def _mem(A, cfg):
    """the (n, c) array in the memory order of cfg['mem'] (same values, shape and dtype)"""
    import numpy as np
    mem = cfg.get('mem')
    if mem == 'F':
        # what np.save / get_ephys_reader receive for the transpose of a channel-major (c, n) array
        B = np.ascontiguousarray(A.T).T
        assert B.flags.f_contiguous and B.shape == A.shape
        return B
    if mem == 'strided':
        big = np.zeros((2 * A.shape[0] + 1, A.shape[1] + 3), dtype=A.dtype)
        B = big[1::2, 2:2 + A.shape[1]]
        B[...] = A
        assert B.shape == A.shape
        return B
    return A


def _write_files(d, sizes, c, cfg, A):
    """write the files of the recording whose concatenation is A under the name prefix d; returns the main paths (str)"""
    import numpy as np
    be = cfg['backend']
    if be == 'flat':
        paths, o = [], 0
        for j, s in enumerate(sizes):
            # names in DEcreasing lexicographic order: the recording is the files in the order GIVEN, so a reader
            # that sorts / globs its paths must be seen to differ
            p = d + 'f%02d%s' % (len(sizes) - 1 - j, cfg.get('ext', '.bin'))
            with open(p, 'wb') as f:
                f.write(bytes((37 * k + 11) % 251 for k in range(cfg['offset'])))
                f.write(A[o:o + s].tobytes())
                f.write(b'\x5a' * cfg['junk'])
            o += s
            paths.append(p)
        return paths
    if be == 'npy':
        p = d + 'a.npy'
        B = _mem(A, cfg)
        if cfg.get('npyver'):
            import numpy.lib.format as fmt
            with open(p, 'wb') as f:
                fmt.write_array(f, B, version=(cfg['npyver'], 0))
        else:
            np.save(p, B)
        return [p]
    if be == 'cbin':
        import mtscomp
        from pathlib import Path
        p = Path(d + 'a.bin')
        A.tofile(p)
        # chunk_duration d/10 s at 10 Hz = chunks of d samples
        mtscomp.compress(p, Path(d + 'a.cbin'), Path(d + 'a.ch'), sample_rate=10., n_channels=c, dtype=A.dtype,
                         chunk_duration=cfg['d'] / 10., n_threads=1, check_after_compress=False, quiet=True)
        return [d + 'a.cbin']
    raise ValueError(be)


def _decoy(d, sizes, c, cfg):
    """stage 6: a directory d + 'cd' that holds files of the same names and sizes as the recording's, with every sample
    value one higher (cfg['chdir'] == 'decoy'), or no file at all ('empty'); returns the directory"""
    import numpy as np
    other = d + 'cd'
    os.mkdir(other)
    if cfg['chdir'] == 'decoy':
        dtype = np.dtype(cfg['dtype'])
        if cfg.get('bo'):
            dtype = dtype.newbyteorder('S')
        A1 = (np.arange(sum(sizes) * c, dtype=np.int64).reshape(sum(sizes), c) + 1).astype(dtype)
        _write_files(os.path.join(other, os.path.basename(d)), sizes, c, cfg, A1)
    return other


def make_reader(d, sizes, c, cfg):
    """Materialise the abstract recording; returns (reader, closer, info).  With cfg['rel'] the caller has made the
    directory of d the working directory: the paths are then given relative to it."""
    import numpy as np
    from pathlib import Path
    from phylib.io.traces import get_ephys_reader, FlatEphysReader
    n = sum(sizes)
    dtype = np.dtype(cfg['dtype'])
    if cfg.get('bo'):
        dtype = dtype.newbyteorder('S')       # the files hold the samples in the non-native byte order
        assert not dtype.isnative
    A = matrix(n, c, dtype)
    be = cfg['backend']
    rate = cfg['rate']
    info = {}

    def P(p):
        if cfg.get('rel'):
            assert os.path.samefile(os.getcwd(), os.path.dirname(p))
            p = os.path.basename(p)
        return p if cfg.get('pstr') else Path(p)
    if be == 'array':
        return get_ephys_reader(_mem(A, cfg), sample_rate=rate), (lambda: None), info
    files = _write_files(d, sizes, c, cfg, A)
    if be == 'flat':
        paths = [P(p) for p in files]
        info['fsizes'] = [os.path.getsize(p) for p in files]
        arg = paths if (len(paths) > 1 or cfg['offset'] % 2 == 0) else paths[0]
        darg = {None: dtype, 'str': dtype.str, 'name': dtype.name, 'type': dtype.type}[cfg.get('dtform')]
        assert np.dtype(darg) == dtype
        make = FlatEphysReader if cfg.get('direct') else get_ephys_reader
        kw = {} if cfg.get('defoff') else {'offset': cfg['offset']}
        r = make(arg, sample_rate=rate, dtype=darg, n_channels=c, **kw)
        return r, (lambda: None), info
    if be == 'npy':
        p = P(files[0])
        return get_ephys_reader([p] if cfg.get('aslist') else p, sample_rate=rate), (lambda: None), info
    if be == 'cbin':
        import mtscomp
        arg = P(files[0])
        if cfg.get('aslist') or cfg.get('extra'):
            arg = [arg]
        for j, m in enumerate(cfg.get('extra') or []):
            # further compressed files, holding other values: phylib reads the first file only
            pj = Path(d + 'x%d.bin' % j)
            (matrix(m, c, dtype) + 1000).astype(dtype).tofile(pj)
            mtscomp.compress(pj, Path(d + 'x%d.cbin' % j), Path(d + 'x%d.ch' % j), sample_rate=10., n_channels=c,
                             dtype=dtype, chunk_duration=cfg['d'] / 10., n_threads=1, check_after_compress=False,
                             quiet=True)
            arg.append(P(d + 'x%d.cbin' % j))
        r = get_ephys_reader(arg)
        return r, r.reader.close, info
    raise ValueError(be)


def py_item(it, form, idt=None):
    import numpy as np
    idt = np.dtype(idt or 'int64')
    if it[0] == 'int':
        return idt.type(it[1]) if form == 'array' else it[1]       # isinstance(item, (int, np.generic))
    if it[0] == 'slice':
        return slice(it[1], it[2], it[3])
    return np.array(it[1], dtype=idt) if form == 'array' else list(it[1])


def py_cols(cols, form):
    import numpy as np
    if cols[0] == 'slice':
        return slice(cols[1], cols[2], cols[3])
    return np.array(cols[1], dtype=np.int64) if form == 'array' else list(cols[1])


def _block(out):
    import numpy as np
    if not isinstance(out, np.ndarray) or out.ndim != 2:
        return ('other', 'type=%s ndim=%s' % (type(out).__name__, getattr(out, 'ndim', None)))
    rows = out.tolist()
    for r in rows:
        for v in r:
            if v != int(v):
                return ('other', 'non-integral value')
    return ('rows', _dtcode(out.dtype), [[int(v) for v in r] for r in rows])


def _sub_obs(out):
    """canonical form of what _get_subitems returned: [(part, sub-item)]"""
    import numpy as np
    res = []
    for chunk, sub in out:
        if isinstance(sub, slice):
            res.append([int(chunk), ['slice'] + [None if v is None else int(v) for v in (sub.start, sub.stop, sub.step)]])
        elif isinstance(sub, (list, np.ndarray)):
            res.append([int(chunk), ['list', [int(v) for v in sub]]])
        else:
            res.append([int(chunk), ['int', int(sub)]])
    return ('subs', res)


def run_case(case):
    from phylib.io.traces import BaseEphysReader
    i = case['inp']
    if case['kind'] == 'sub':
        from phylib.io.traces import _get_subitems
        bounds = [0]
        for x in i['sizes']:
            bounds.append(bounds[-1] + x)
        it = py_item(i['item'], i['as'])
        arg = {'plain': it, 'tuple1': (it,), 'tuple2': (it, [0])}[i['form']]
        return _sub_obs(_get_subitems(bounds, arg))
    if case['kind'] == 'ctor':
        import numpy as np
        from pathlib import Path
        from phylib.io.traces import get_ephys_reader, FlatEphysReader
        d = _tmp()
        try:
            paths = []
            for j, nb in enumerate(i['fbytes']):
                p = Path(d + 'f%02d.bin' % j)
                if nb >= 0:
                    p.write_bytes(b'\x01' * nb)
                paths.append(p)
            if i.get('memmap'):
                from phylib.io.traces import _memmap_flat
                m = _memmap_flat(paths[0], dtype=np.dtype(i['dtype']), n_channels=i['c'], mode='r')
                nrows = int(m.shape[0])
                del m
                return ('bounds', [0, nrows])
            make = FlatEphysReader if i.get('direct') else get_ephys_reader
            r = make(paths, sample_rate=i['rate'], dtype=np.dtype(i['dtype']), n_channels=i['c'], offset=i['offset'])
            if r is None:
                return ('none',)
            pb = [int(x) for x in r.part_bounds]
            del r
            return ('bounds', pb)
        finally:
            _cleanup(d)
    if case['kind'] == 'dispatch':
        import numpy as np
        from pathlib import Path
        from phylib.io.traces import get_ephys_reader
        if i['what'] == 'tuple':
            r = get_ephys_reader(matrix(4, 3, 'int16'), sample_rate=3.0)
            out = r[tuple([slice(1, 3), [0, 1], 0, 0][:i['k']])]
            assert isinstance(out, np.ndarray) and out.shape == (2, 3 if i['k'] == 1 else 2), out
            return ('none',)
        d = _tmp()
        try:
            np.save(d + 'a.npy', matrix(4, 3, 'int16'))
            r = get_ephys_reader([Path(d + 'a.npy')] * i['k'], sample_rate=3.0)
            assert tuple(r.shape) == (4, 3)
            del r
            return ('none',)
        finally:
            _cleanup(d)
    cfg = i['cfg']
    d = _tmp()
    r = None
    close = lambda: None  # noqa
    cwd0 = os.getcwd()
    try:
        if cfg.get('rel'):
            os.chdir(os.path.dirname(d))          # the relative paths are given from the directory of the files
        r, close, info = make_reader(d, i['sizes'], i['c'], cfg)
        if cfg.get('chdir'):
            # stage 6: the process moves to another directory between the construction and the reads below
            if cfg.get('touch') and case['kind'] != 'attrs':
                r[0]
            os.chdir(_decoy(d, i['sizes'], i['c'], cfg))
        if case['kind'] == 'attrs':
            shape = tuple(r.shape)
            rate = 10.0 if cfg['backend'] == 'cbin' else float(cfg['rate'])
            return ('attrs', int(shape[0]), int(shape[1]), int(r.n_samples), int(r.n_channels), _dtcode(r.dtype),
                    float(r.duration).hex(), [int(x) for x in r.part_bounds], info.get('fsizes'), rate.hex(),
                    int(round(600.0 * rate)), len(shape))
        it = py_item(i['item'], cfg['as'], cfg.get('idt'))
        if cfg.get('used'):
            nch = int(r.n_channels)
            r[0, [nch - 1]]
            r[:, [0]]
            r[-1:, ::-1]
            r[0]
        if i['cols'] is None:
            out = r[(it,)] if cfg.get('tuple1') else r[it]
        else:
            out = r[it, py_cols(i['cols'], cfg['as'])]
        if isinstance(out, BaseEphysReader):
            if case['kind'] == 'any':
                # outside the statement only "a reader came back" is compared (a column selector NumPy rejects fails later,
                # when that reader is read)
                return ('derived', _dtcode(out.dtype), [])
            b = _block(out[:])
            if b[0] != 'rows':
                return b
            return ('derived', b[1], b[2])
        return _block(out)
    finally:
        try:
            close()
        except Exception:
            pass
        del r
        os.chdir(cwd0)
        if cfg.get('chdir'):
            import shutil
            shutil.rmtree(d + 'cd', ignore_errors=True)
        _cleanup(d)


def expected(case):
    """NumPy on the concatenated array (used by replay scripts only; the check's oracle is the Coq term)."""
    import numpy as np
    i = case['inp']
    A = matrix(sum(i['sizes']), i['c'], i['cfg']['dtype'])
    out = np.atleast_2d(A[py_item(i['item'], i['cfg']['as'], i['cfg'].get('idt'))])
    if i['cols'] is not None:
        out = out[:, py_cols(i['cols'], i['cfg']['as'])]
    return out.tolist()


# ---- encoding for Coq ---------------------------------------------------------------------------

def _item(it):
    if it[0] == 'int':
        return q.app('IInt', q.z(it[1]))
    if it[0] == 'slice':
        return q.app('ISlice', q.opt(it[1]), q.opt(it[2]), q.opt(it[3]))
    return q.app('IList', q.zl(it[1]))


def _cols(cols):
    if cols is None:
        return 'None'
    if cols[0] == 'slice':
        return '(Some %s)' % q.app('CSlice', q.opt(cols[1]), q.opt(cols[2]), q.opt(cols[3]))
    return '(Some %s)' % q.app('CList', q.zl(cols[1]))


def _flt(h):
    assert h.startswith('0x') and 'p' in h, h
    return '%s%%float' % h


def _tok(x):
    """the exact value m * 2^e of a finite float (m odd or 0)"""
    import math
    x = float(x)
    assert math.isfinite(x), x
    if x == 0:
        return '(TNum 0 0)'
    m, e = math.frexp(x)
    m = int(m * 2 ** 53)
    e -= 53
    while m % 2 == 0:
        m //= 2
        e += 1
    return q.app('TNum', q.z(m), q.z(e))


def _raise(obs):
    return q.app('ObsRaise', q.z(EXN.get(obs[1], 0)))


def _subitem(s):
    return q.app('mksub', q.z(s[0]), _item(s[1]))


def encode(case, obs):
    i = case['inp']
    if case['kind'] == 'sub':
        cin = q.app('InSub', q.zl(i['sizes']), _item(i['item']))
        if obs[0] == 'subs':
            return cin, q.app('ObsSubs', q.lst(obs[1], _subitem))
        return cin, 'ObsCrash'
    if case['kind'] == 'ctor':
        cin = q.app('InCtor', q.b(i.get('direct') or i.get('memmap')), q.zl(i['fbytes']), q.z(i['offset']), q.z(ITEMSIZE[i['dtype']]),
                    q.z(i['c']), q.z(int(round(600.0 * i['rate']))))
        if obs[0] == 'bounds':
            return cin, q.app('ObsBounds', q.zl(obs[1]))
        return cin, ('ObsNone' if obs[0] == 'none' else _raise(obs) if obs[0] == 'crash' else 'ObsOther')
    if case['kind'] == 'dispatch':
        cin = q.app('InDispatch', q.app('TupleArity' if i['what'] == 'tuple' else 'NpyPaths', q.z(i['k'])))
        return cin, ('ObsNone' if obs[0] == 'none' else _raise(obs) if obs[0] == 'crash' else 'ObsOther')
    cfg = i['cfg']
    dt = DT[cfg['dtype']]
    if case['kind'] in ('get', 'any'):
        cin = q.app('InGet' if case['kind'] == 'get' else 'InAny', q.zl(i['sizes']), q.z(i['c']), q.z(dt),
                    _item(i['item']), _cols(i['cols']))
        if obs[0] == 'rows':
            cobs = q.app('ObsRows', q.z(obs[1]), q.zll(obs[2]))
        elif obs[0] == 'derived':
            cobs = q.app('ObsDerived', q.z(obs[1]), q.zll(obs[2]))
        elif obs[0] == 'crash':
            cobs = _raise(obs) if case['kind'] == 'any' else 'ObsCrash'
        else:
            cobs = 'ObsOther'
        return cin, cobs
    # attrs: reader.dtype is the sample dtype as stored, byte order included
    if cfg.get('bo'):
        dt += BO_SWAPPED
    if obs[0] != 'attrs':
        rate = 10.0 if cfg['backend'] == 'cbin' else float(cfg['rate'])
        cin = q.app('InAttrs', q.zl(i['sizes']), q.z(i['c']), q.z(dt), q.z(int(round(600.0 * rate))), _flt(rate.hex()),
                    _tok(rate))
        return cin, 'ObsCrash'
    _, s0, s1, ns, nc, dto, dur, pb, fsizes, rate, cs, nshape = obs
    ratet = _tok(float.fromhex(rate))
    if fsizes is not None:
        cin = q.app('InFlatAttrs', q.zl(fsizes), q.z(cfg['offset']), q.z(ITEMSIZE[cfg['dtype']]), q.z(i['c']),
                    q.z(dt), q.z(cs), _flt(rate), ratet)
    else:
        cin = q.app('InAttrs', q.zl(i['sizes']), q.z(i['c']), q.z(dt), q.z(cs), _flt(rate), ratet)
    if nshape != 2 or not dur.startswith('0x'):
        return cin, 'ObsOther'
    cobs = q.app('ObsAttrs', q.z(s0), q.z(s1), q.z(ns), q.z(nc), q.z(dto), _flt(dur), _tok(float.fromhex(dur)), q.zl(pb))
    return cin, cobs


def nontrivial(case, obs):
    k = case['kind']
    i = case['inp']
    if obs[0] == 'other' or (obs[0] == 'crash' and k not in ('any', 'ctor', 'dispatch')):
        return False
    if k in ('ctor', 'dispatch'):
        return True
    return len(i['sizes']) >= 2 or i.get('cols') is not None


def _bucket(n):
    return str(n) if n <= 3 else '4-9' if n <= 9 else '10-99' if n <= 99 else '100+'


def dist(case, obs):
    i = case['inp']
    k = case['kind']
    if k == 'sub':
        return ['kind=sub', 'sub.form=' + i['form'], 'sub.item=' + i['item'][0], 'parts=%s' % _bucket(len(i['sizes'])),
                'zero_row_file=%s' % (0 in i['sizes'])]
    if k in ('ctor', 'dispatch'):
        return ['kind=' + k, k + '.outcome=' + (obs[1] if obs[0] == 'crash' else obs[0])] + \
            (['ctor.via=_memmap_flat'] if i.get('memmap') else [])
    cfg = i['cfg']
    out = ['kind=' + case['kind'], 'backend=' + cfg['backend'], 'dtype=' + cfg['dtype'],
           'parts=%s' % _bucket(len(i['sizes'])), 'n=%s' % _bucket(sum(i['sizes'])), 'channels=%d' % i['c'],
           'zero_row_file=%s' % (0 in i['sizes'])]
    if cfg['backend'] == 'flat':
        out.append('flat.offset=%d' % cfg['offset'])
        out.append('flat.trailing_bytes=%s' % (cfg['junk'] > 0))
        out.append('flat.byteorder=%s' % ('non-native' if cfg.get('bo') else 'native'))
        out.append('flat.dtype_arg=%s' % {None: 'np.dtype', 'str': 'str-code', 'name': 'str-name', 'type': 'scalar-type'}[cfg.get('dtform')])
        out.append('flat.via=%s' % ('FlatEphysReader' if cfg.get('direct') else 'get_ephys_reader'))
        out.append('flat.offset_keyword=%s' % ('default' if cfg.get('defoff') else 'given'))
    if cfg['backend'] != 'array':
        out.append('paths.form=%s-%s' % ('relative' if cfg.get('rel') else 'absolute', 'str' if cfg.get('pstr') else 'Path'))
        out.append('cwd_between_construction_and_read=%s' % ({'decoy': 'other-dir-with-same-named-files', 'empty': 'other-dir-empty'}.get(cfg.get('chdir'), 'unchanged') +
                                                             ('-after-reading-first-file' if cfg.get('touch') else '')))
    if cfg['backend'] in ('npy', 'array'):
        out.append('memory_order=%s' % {None: 'C', 'F': 'Fortran', 'strided': 'non-contiguous-view'}[cfg.get('mem')])
    if cfg['backend'] == 'npy':
        out.append('npy.header_version=%d.0' % (cfg.get('npyver') or 1))
    if k == 'attrs':
        rate = 10.0 if cfg['backend'] == 'cbin' else float(cfg['rate'])
        cs, last = int(round(600.0 * rate)), i['sizes'][-1]
        out.append('attrs.last_file_vs_chunk=%s' % ('below' if last < cs else 'whole-chunks' if last % cs == 0 else 'above'))
    if cfg.get('aslist') or cfg.get('extra'):
        out.append('paths=list-of-%d' % (1 + len(cfg.get('extra') or [])))
    if obs[0] == 'crash':
        out.append(('any.raises=' if k == 'any' else 'crash=') + obs[1])
    if k == 'any':
        out.append('any.item=' + i['item'][0])
        if obs[0] == 'rows':
            out.append('any.rows=%s' % _bucket(len(obs[2])))
    if k == 'get':
        it = i['item']
        out.append('reader=' + ('already-used' if cfg.get('used') else 'fresh'))
        out.append('item=' + ({'list': 'list', 'array': 'ndarray'}[cfg['as']] if it[0] == 'list' else
                              'np.int64' if it[0] == 'int' and cfg['as'] == 'array' else it[0]) +
                   ('-in-1-tuple' if cfg.get('tuple1') else ''))
        if cfg['as'] == 'array' and it[0] != 'slice':
            out.append('item.index_dtype=%s' % (cfg.get('idt') or 'int64'))
        cols = i['cols']
        out.append('cols=' + ('none' if cols is None else
                              ('slice-negative-step' if (cols[3] or 1) < 0 else 'slice') if cols[0] == 'slice'
                              else ('ndarray' if cfg['as'] == 'array' else 'list')))
        if it[0] == 'slice':
            bounds, s = {0}, 0
            for x in i['sizes']:
                s += x
                bounds.add(s)
            a, b, _ = slice(it[1], it[2], None).indices(s)
            out.append('slice.start_on_file_boundary=%s' % (a in bounds))
            out.append('slice.stop_on_file_boundary=%s' % (b in bounds))
            out.append('slice.negative_bound=%s' % any(v is not None and v < 0 for v in it[1:3]))
        if obs[0] == 'rows':
            out.append('rows=%s' % _bucket(len(obs[2])))
        if obs[0] == 'derived':
            out.append('result=reader')
    return out


def size(case):
    i = case['inp']
    if case['kind'] == 'ctor':
        return sum(i['fbytes']) + 2 * len(i['fbytes'])
    if case['kind'] == 'dispatch':
        return i['k']
    s = 10 * sum(i['sizes']) + 5 * len(i['sizes']) + i.get('c', 0)
    s += sum(1 for k, v in i.get('cfg', {}).items() if DEFCFG.get(k) != v)
    if case['kind'] in ('get', 'any', 'sub'):
        s += len(str(i['item'])) + len(str(i.get('cols')))
    return s


def shrink(case):
    k = case['kind']
    i = case['inp']
    if k in ('any', 'ctor', 'dispatch'):
        return          # judged against the model only: never the subject of a failing-input search
    if k == 'sub':
        # the same reductions as for a read, on (sizes, item)
        g = {'kind': 'get', 'inp': {'sizes': i['sizes'], 'c': 1, 'item': i['item'], 'cols': None, 'cfg': _cfg(**{'as': i['as']})}}
        for c in shrink(g):
            j = c['inp']
            if j['cfg'] == g['inp']['cfg'] and j['cols'] is None and j['c'] == 1:
                yield {'kind': 'sub', 'inp': {'sizes': j['sizes'], 'item': j['item'], 'form': i['form'], 'as': i['as']}}
        if i['form'] != 'plain':
            yield {'kind': 'sub', 'inp': dict(i, form='plain')}
        return

    def mk(**kw):
        j = dict(i)
        j.update(kw)
        return {'kind': k, 'inp': j}
    cands = []
    cfg = i['cfg']
    # simpler configuration
    for key in ('backend', 'dtype', 'offset', 'junk', 'as', 'rate', 'ext', 'd'):
        if cfg.get(key) != DEFCFG[key]:
            c2 = dict(cfg)
            c2[key] = DEFCFG[key]
            cands.append(mk(cfg=c2))
    for key in ('used', 'tuple1', 'aslist', 'bo', 'dtform', 'direct', 'defoff', 'idt', 'touch', 'pstr', 'npyver', 'mem', 'chdir', 'rel'):
        if cfg.get(key):
            c2 = dict(cfg)
            del c2[key]
            cands.append(mk(cfg=c2))
    if cfg['backend'] in ('npy', 'cbin') and not (cfg.get('rel') or cfg.get('chdir') or cfg.get('pstr') or cfg.get('npyver')):
        cands.append(mk(cfg=dict(cfg, backend='array')))
    if cfg.get('chdir') == 'decoy':
        cands.append(mk(cfg=dict(cfg, chdir='empty')))
    sizes = i['sizes']
    n = sum(sizes)
    if k == 'get':
        it, cols = i['item'], i['cols']
        if cols is not None:
            cands.append(mk(cols=None))
            if cols[0] == 'list' and len(cols[1]) > 1:
                for d in range(len(cols[1])):
                    cands.append(mk(cols=['list', cols[1][:d] + cols[1][d + 1:]]))
        if it[0] == 'list' and len(it[1]) > 1:
            for d in range(len(it[1])):
                cands.append(mk(item=['list', it[1][:d] + it[1][d + 1:]]))
        if it[0] == 'slice':
            a, b, _ = slice(it[1], it[2], None).indices(n)
            cands.append(mk(item=['slice', a, b, None]))
            if b - a > 1:
                cands.append(mk(item=['slice', a + 1, b, None]))
                cands.append(mk(item=['slice', a, b - 1, None]))
            if it[1] is not None:
                cands.append(mk(item=['slice', None, it[2], it[3]]))
            if it[2] is not None:
                cands.append(mk(item=['slice', it[1], None, it[3]]))
        if it[0] == 'int' and it[1] < 0:
            cands.append(mk(item=['int', it[1] + n]))

        def shift_item(it, pos, delta):
            """adapt the item when `delta` rows are removed at global row `pos` (rows >= pos move down)"""
            if it[0] == 'int':
                v = it[1] if it[1] >= 0 else it[1] + n
                return ['int', v - delta if v >= pos + delta else v]
            if it[0] == 'slice':
                a, b, _ = slice(it[1], it[2], None).indices(n)
                f = lambda v: v - delta if v >= pos + delta else min(v, pos)  # noqa
                return ['slice', f(a), f(b), None]
            return ['list', sorted(set(v - delta if v >= pos + delta else v for v in it[1] if not pos <= v < pos + delta))]
        o = 0
        for d, s in enumerate(sizes):
            if len(sizes) > 1:
                cands.append(mk(sizes=sizes[:d] + sizes[d + 1:], item=shift_item(it, o, s)))
                if d + 1 < len(sizes):
                    cands.append(mk(sizes=sizes[:d] + [s + sizes[d + 1]] + sizes[d + 2:]))
            if s > 1:
                cands.append(mk(sizes=sizes[:d] + [s - 1] + sizes[d + 1:], item=shift_item(it, o + s - 1, 1)))
                cands.append(mk(sizes=sizes[:d] + [s - 1] + sizes[d + 1:], item=shift_item(it, o, 1)))
                if s > 3:
                    h = s // 2
                    cands.append(mk(sizes=sizes[:d] + [s - h] + sizes[d + 1:], item=shift_item(it, o + s - h, h)))
            o += s
        if i['c'] > 1:
            cands.append(mk(c=i['c'] - 1))
    else:
        for d, s in enumerate(sizes):
            if len(sizes) > 1:
                cands.append(mk(sizes=sizes[:d] + sizes[d + 1:]))
            if s > 1:
                cands.append(mk(sizes=sizes[:d] + [s - 1] + sizes[d + 1:]))
        if i['c'] > 1:
            cands.append(mk(c=i['c'] - 1))
    seen = set()
    for c in cands:
        key = repr(c)
        if key in seen or c == case:
            continue
        seen.add(key)
        try:
            ok = valid_case(c)
        except Exception:
            ok = False
        if ok and size(c) < size(case):
            yield c


def repro(case):
    return ("import sys, os; sys.path[:0] = ['/verif/harness', os.environ.get('PHYLIB_REPO', '/repo')]\n"
            "from vt import npshim; npshim.setup_process()\n"
            "from vt.props import c01\n"
            "case = %r\n"
            "# builds the n x c recording with entry (r, j) = r*c + j in the configured backend/files,\n"
            "# then evaluates reader[item] / reader[item, cols] (or the reader attributes)\n"
            "print('phylib :', c01.run_case(case))\n"
            "print('numpy  :', c01.expected(case) if case['kind'] == 'get' else 'shape (sum(sizes), c)')\n" % (case,))


MATCHERS = {}
