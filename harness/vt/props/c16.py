"""C16 -- chunkings tile the sample axis exactly once (DESIGN.md §8 C16)."""
import itertools
import os
import shutil
import tempfile

from .. import coqenc as q

ID = 'C16'
RULE = ('exhaustive small scope over (length, chunk size, overlap<chunk size) -- the yielded tuples and, separately, '
        'the blocks data_chunk returns for them with and without overlap on 1-D and 2-D data --, (length, n_excerpts, '
        'excerpt_size), data_chunk on all 2-tuples of bounds in -9..9, random 4-tuples, wrong lengths and non-tuples, '
        'multi-file size lists x chunk lengths (direct helper and real FlatEphysReader / '
        'ArrayEphysReader instances), real Flat / Array / Npy / Random readers over SAMPLE RATES (c/600 Hz for every '
        'chunk length c up to a bound, fractional rates (c+f)/600, exact ties m/16 Hz, calibrated probe rates like '
        '29999.954 Hz with recordings of 2-3 chunks of ~1.8e7 samples, given as float / int / numpy.float64; the chunk '
        'length is computed by the model as the nearest integer to 600 * rate), real mtscomp .cbin readers over chunk durations x batch sizes x cache '
        'on/off; flat readers with the rare options (header offset= in bytes around the row size, 1-4 channels, six dtypes / byte '
        'orders, an incomplete last row, paths given as list / tuple / strings / single Path / single str / direct constructor, '
        '.bin / .dat) and HISTORIES of calls on one reader object (every sequence of <= 2 (3 thorough) of: full pass, pass with '
        'cache=False, pass over a column-sliced clone made now / made first, two live iterators advanced in turn, an abandoned '
        'iterator; every pass of the history observed in some case; also through the sample-rate route and on compressed '
        'readers); then seeded random larger cases. Non-trivial = more than one chunk/interval/excerpt is '
        'produced; distinct = distinct abstract input.')
EXHAUSTIVE = {'quick': True, 'thorough': True}
CLAUSES = {
    1: 'observed output differs from the Coq model PV.C16.Model',
    21: 'C16_chunk_bounds (kept parts tile the data / inside chunk / chunk <= chunk_size)',
    22: 'C16_reader_bounds (0 .. n strictly increasing, gaps <= chunk length, file boundaries present)',
    23: 'C16_iter_base / C16_iter_mtscomp (non-empty intervals tile the recording in order)',
    24: 'C01_bounds/C16: n_samples = sum of file sizes',
    25: 'C16_excerpts (in-bounds, disjoint, increasing, <= k, each <= size)',
    26: 'C16_get_excerpts',
    27: 'C16_data_chunk (blocks returned by data_chunk on the yielded tuples: kept blocks concatenate to the data / '
        'each a contiguous sub-block of its chunk block / chunk block <= chunk_size)',
    28: 'C16_data_chunk_tuple / C16_data_chunk_pair (data_chunk on non-negative bounds = the chunk rows / kept rows)',
}
TRUSTED = ['mtscomp (compression, its chunk_bounds, thread pool and cache: runtime, not modelled)',
           'np.memmap / file sizes for FlatEphysReader',
           'IEEE double product 600.0 * sample_rate: modelled by the exact product inside the regime rate_exact_b of C16/Rate.v '
           '(product < 2^30 and a half-integer or > 2^-20 away from every half-integer), where rounding the product cannot '
           'change round() of it']
ASSUMES = ['overlap < chunk_size, chunk_size >= 1 (C16_termination_needs_ov_lt_cs shows the guard is needed)',
           'file sizes >= 0 with at least one file; n_excerpts >= 2 for excerpts(); excerpt_size >= 1 for get_excerpts',
           'sample rate a Python float / int / numpy.float64 with round(600 * rate) >= 1 (C16_reader_rate_zero: below that '
           'the constructor stops at assert chunk_size > 0); float32 rates are not drawn']
TIMEOUT = {'quick': 10, 'thorough': 30}


def _cb_cases(nmax, csmax):
    for n in range(0, nmax + 1):
        for cs in range(1, csmax + 1):
            for ov in range(0, cs):
                yield {'kind': 'chunk_bounds', 'inp': {'n': n, 'cs': cs, 'ov': ov}}


def _rand_dc(rng):
    """data_chunk on a random tuple: mostly 4 elements (both routes), bounds around and beyond the data."""
    n = rng.choice((0, 1, 5, 8, 12))
    ln = rng.choice((4, 4, 4, 4, 4, 4, 2, 0, 1, 3, 5))
    t = [rng.randint(-n - 3, n + 4) if rng.random() < 0.4 else rng.randint(0, n + 2) for _ in range(ln)]
    wo = rng.random() < 0.5
    return {'kind': 'data_chunk', 'inp': {'n': n, 't': t, 'tuple': rng.random() < 0.95, 'wo': wo,
                                          'ndim': rng.choice((1, 2)), 'dflt': (not wo) and rng.random() < 0.5}}


def _size_lists(kmax, smax, lo=1):
    for k in range(1, kmax + 1):
        for sizes in itertools.product(range(lo, smax + 1), repeat=k):
            yield list(sizes)


def _rate_parts(rate):
    """rate (float or int) as the exact dyadic num / 2**k."""
    num, den = float(rate).as_integer_ratio()
    return num, den.bit_length() - 1


def _rate_cs(rate):
    """Mirror of Rate.v: (inside the regime rate_exact_b and chunk length >= 1, chunk length)."""
    num, k = _rate_parts(rate)
    d, p = 1 << k, 600 * num
    q, r = divmod(p, d)
    cs = q if 2 * r < d else q + 1 if 2 * r > d else q if q % 2 == 0 else q + 1
    ok = num > 0 and p < (1 << 30) * d and (2 * r == d or d <= (1 << 20) * abs(2 * r - d))
    return ok and cs >= 1, cs


def _rr(sizes, rate, backend, rtype='float'):
    """reader built with an explicit sample rate; the rate travels as float.hex() (exact)."""
    if rtype == 'int' and float(rate) != int(rate):
        rtype = 'float'
    if backend != 'flat' and len(sizes) > 1:
        sizes = [sum(sizes)]        # one array; only flat readers take several files
    return {'kind': 'reader_rate', 'inp': {'sizes': list(sizes), 'rate': float(rate).hex(), 'rtype': rtype, 'backend': backend}}


_RR_BACKENDS = ('flat', 'array', 'random', 'npy')
_RR_TYPES = ('float', 'np64', 'float', 'int')
# calibrated / nominal acquisition rates (Hz); 600 s of them are ~1e6..3e7 samples
_RR_PROBE = (29999.954, 30000.1, 30000.0, 29999.5, 30000.27, 2500.0, 2499.9716, 2500.0381, 24999.99, 25000.0, 20000.3,
             1000.0, 999.997, 100.0, 32000.5, 44100.0, 48000.0, 25000.0 / 3, 10000.0 / 7, 1250.0, 1249.99984)


def _rate_cases(tier, rng):
    """The sample-rate axis of the reader clause: chunk length = int(round(600.0 * sample_rate))."""
    quick = tier == 'quick'
    out = []
    # forced instances first: a product that comes out one ulp above an integer, a calibrated rate, ties
    out.append(_rr([50], 21 / 600.0, 'flat'))
    out.append(_rr([40000000], 29999.954, 'random'))
    out.append(_rr([20, 22, 45], 21 / 600.0, 'flat'))
    out.append(_rr([300], 3 / 16.0, 'array'))       # 112.5 samples -> 112 (ties to even)
    out.append(_rr([100], 1 / 16.0, 'array'))       # 37.5 -> 38
    # every chunk length c: rate c/600 (the float product is c, c + 1ulp or c - 1ulp)
    for c in range(1, (130 if quick else 420) + 1):
        be = _RR_BACKENDS[c % 4]
        sizes = [2 * c + 3] if be != 'flat' else ([c + 1, c + 2] if c % 8 else [c - 1, 1, 2 * c + 1])
        out.append(_rr(sizes, c / 600.0, be, _RR_TYPES[(c // 4) % 4]))
    # fractional products: (c + f) / 600
    fr = (0.1, 0.25, 0.4, 0.45, 0.49, 0.51, 0.55, 0.6, 0.75, 0.9, 0.999, 0.001)
    for c in range(1, (9 if quick else 40) + 1):
        for j, f in enumerate(fr):
            be = _RR_BACKENDS[(c + j) % 4]
            sizes = [3 * c + 4] if be != 'flat' else [c + 2, 2 * c + 3]
            out.append(_rr(sizes, (c + f) / 600.0, be, _RR_TYPES[j % 3]))
    # exact ties: rate m/16 Hz -> 37.5 m samples
    for m in range(1, (16 if quick else 64), 2):
        cs = _rate_cs(m / 16.0)[1]
        out.append(_rr([2 * cs + 5] if m % 4 == 1 else [cs, cs + 1, 3], m / 16.0, _RR_BACKENDS[(m // 2) % 3]))
    # acquisition rates: recordings of 2-3 chunks (no data is allocated: sparse files, broadcast views)
    for j, rate in enumerate(_RR_PROBE):
        cs = _rate_cs(rate)[1]
        for be in (('random', 'array') if quick else ('random', 'array', 'flat')):
            n = 2 * cs + rng.randint(1, cs - 1)
            sizes = [n] if be != 'flat' else [cs + 7, n - cs - 7]
            out.append(_rr(sizes, rate, be, 'int' if (j + len(be)) % 2 else 'float'))
    # random: log-uniform rates, chunk lengths 1..~3000 and acquisition range
    for _ in range(60 if quick else 1200):
        if rng.random() < 0.8:
            rate = 10 ** rng.uniform(-2.7, 0.7)
        else:
            rate = rng.choice((1000.0, 2500.0, 20000.0, 25000.0, 30000.0)) * (1 + rng.uniform(-2e-5, 2e-5))
        cs = _rate_cs(rate)[1]
        be = rng.choice(_RR_BACKENDS[:3]) if cs < 5000 else rng.choice(('array', 'random'))
        if be == 'flat':
            sizes = [rng.randint(1, 3 * cs) for _ in range(rng.randint(1, 4))]   # np.memmap refuses an empty file
        else:
            sizes = [rng.randint(0, 4 * cs + 2)]
        out.append(_rr(sizes, rate, be, rng.choice(('float', 'np64'))))
    return [c for c in out if _rate_cs(float.fromhex(c['inp']['rate']))[0]]


def _isz(dt):
    return {'int16': 2, 'uint8': 1, 'float32': 4, 'int64': 8, '>i2': 2, 'float64': 8}[dt]


def _n_passes(hist):
    return max(1, sum(2 if o == 'inter' else 0 if o == 'partial' else 1 for o in hist))


def _stage6_corpus():
    """forced instances (run first): a header skipped with offset=, a second pass over one reader, a clone of an
    iterated reader, two live iterators, a compressed reader iterated twice."""
    R = lambda **kw: {'kind': 'reader', 'inp': kw}
    return [
        R(sizes=[3, 1, 2], cs=2, backend='flat', offset=8, nch=2, dtype='int16'),
        R(sizes=[7], cs=3, backend='array', hist=['iter', 'iter'], report=1),
        R(sizes=[3, 4], cs=2, backend='flat', hist=['iter', 'clone'], report=1),
        R(sizes=[7], cs=3, backend='npy', hist=['inter'], report=0),
        R(sizes=[5], cs=2, backend='flat', offset=3, nch=3, dtype='uint8', pform='str', ext='.dat', hist=['partial', 'iter_nc']),
        {'kind': 'reader_rate', 'inp': {'sizes': [20, 22, 45], 'rate': (21 / 600.0).hex(), 'rtype': 'float', 'backend': 'flat',
                                        'offset': 20, 'nch': 1, 'dtype': 'float32', 'pform': 'tuple'}},
        {'kind': 'reader_rate', 'inp': {'sizes': [40000000], 'rate': (29999.954).hex(), 'rtype': 'float', 'backend': 'random',
                                        'hist': ['iter', 'clone', 'iter'], 'report': 2}},
        {'kind': 'mtscomp', 'inp': {'n': 7, 'd': 2, 'threads': 2, 'cache': True, 'hist': ['iter', 'iter'], 'report': 1}},
        {'kind': 'mtscomp', 'inp': {'n': 12, 'd': 5, 'threads': 1, 'cache': False, 'hist': ['iter_nc', 'clone'], 'report': 1}},
    ]


def _stage6_cases(tier, rng):
    """Stage 6 axes of the reader clauses: (a) rare options of flat readers -- header offset in bytes around the row
    size, channel count, dtype / byte order, incomplete last row, form of the paths argument, extension; (b) histories
    of calls on one reader object, each pass judged: repeated passes, cache on/off, clones, live iterators, abandoned
    iterators."""
    quick = tier == 'quick'
    out = []
    R = lambda **kw: out.append({'kind': 'reader', 'inp': kw})
    # (a) every offset 0 .. 2 rows + 1 for small rows
    for nch in (1, 2, 3):
        for dt in (('int16', 'uint8', 'float32') if quick else _DTYPES):
            row = nch * _isz(dt)
            for off in range(0, 2 * row + 2):
                sizes = [[4], [2, 3], [1, 2, 2]][(off + nch) % 3]
                R(sizes=sizes, cs=1 + (off + nch) % 3, backend='flat', offset=off, nch=nch, dtype=dt,
                  pform=_PFORMS[off % (6 if len(sizes) == 1 else 4)], ext=('.bin', '.dat')[off % 2])
    # (b) every history of one or two operations, every pass of it observed
    k = 0
    for ln in (1, 2) if quick else (1, 2, 3):
        for hist in itertools.product(_HIST_OPS, repeat=ln):
            if ln == 3 and rng.random() < 0.5:
                continue
            for rep in range(_n_passes(hist)):
                k += 1
                be = ('flat', 'array', 'npy')[k % 3]
                R(sizes=[[3, 4], [7], [5]][k % 3] if be == 'flat' else [[7], [5], [2]][(k // 3) % 3], cs=1 + k % 3,
                  backend=be, hist=list(hist), report=rep)
    # random: options and histories together
    for _ in range(150 if quick else 2500):
        be = rng.choice(('flat', 'flat', 'array', 'npy'))
        sizes = [rng.randint(1, 9) for _ in range(rng.randint(1, 3))] if be == 'flat' else [rng.randint(0, 12)]
        inp = {'sizes': sizes, 'cs': rng.randint(1, 8), 'backend': be}
        if be == 'flat':
            inp.update(_rand_flat_opts(rng, len(sizes)))
        if rng.random() < 0.7:
            inp['hist'] = _rand_hist(rng)
            inp['report'] = rng.randrange(_n_passes(inp['hist']))
        out.append({'kind': 'reader', 'inp': inp})
    # the same through the sample-rate route
    for _ in range(40 if quick else 600):
        rate = 10 ** rng.uniform(-2.7, 0.3)
        cs = _rate_cs(rate)[1]
        be = rng.choice(('flat', 'flat', 'array', 'random'))
        sizes = [rng.randint(1, 3 * cs) for _ in range(rng.randint(1, 3))] if be == 'flat' else [rng.randint(0, 4 * cs + 2)]
        c = _rr(sizes, rate, be, rng.choice(('float', 'np64')))
        if be == 'flat':
            c['inp'].update(_rand_flat_opts(rng, len(sizes)))
        if rng.random() < 0.7:
            c['inp']['hist'] = _rand_hist(rng)
            c['inp']['report'] = rng.randrange(_n_passes(c['inp']['hist']))
        if _rate_cs(rate)[0]:
            out.append(c)
    # compressed readers: histories without live / abandoned iterators (the thread pool is mtscomp's, trusted)
    for _ in range(30 if quick else 300):
        n, d = rng.choice((1, 2, 7, 12, 30)), rng.choice((1, 2, 3, 5, 7))
        if n / d > 20:
            continue
        h = _rand_hist(rng, mtscomp=True)
        out.append({'kind': 'mtscomp', 'inp': {'n': n, 'd': d, 'threads': rng.choice((1, 2, 3)), 'cache': rng.random() < 0.5,
                                               'hist': h, 'report': rng.randrange(_n_passes(h))}})
    return out


def generate(tier, rng):
    cases = []
    # stage 5 corpus (runs first): readers built from a sample rate
    if tier != 'search':
        cases += _stage6_corpus()          # stage 6 corpus (runs first)
        cases += _rate_cases(tier, rng)[:5]
    # corpus: boundary cases written down when the model was transcribed
    for n, cs, ov in [(5, 4, 3), (6, 4, 3), (0, 1, 0), (1, 1, 0), (10, 10, 9), (11, 10, 9), (9, 10, 0),
                      (20, 10, 0), (21, 10, 1), (7, 3, 2)]:
        cases.append({'kind': 'chunk_bounds', 'inp': {'n': n, 'cs': cs, 'ov': ov}})
    for sizes, cs in [([3, 1, 2], 2), ([4, 4], 4), ([4, 4], 2), ([1], 1), ([5], 7), ([0, 3], 2), ([3, 0, 2], 2)]:
        cases.append({'kind': 'reader_bounds', 'inp': {'sizes': sizes, 'cs': cs}})
    cases.append({'kind': 'reader', 'inp': {'sizes': [3, 1, 2], 'cs': 2, 'backend': 'flat'}})
    cases.append({'kind': 'reader', 'inp': {'sizes': [7], 'cs': 3, 'backend': 'array'}})
    cases.append({'kind': 'reader', 'inp': {'sizes': [7], 'cs': 3, 'backend': 'npy'}})
    # data_chunk: the 4-element route (with and without overlap), its exits, and the chunking seen through it
    for n, t, wo in [(7, [3, 7, 4, 7], True), (7, [3, 7, 4, 7], False), (7, [0, 4, 0, 4], False), (2, [1, 2, 3, 2], False),
                     (5, [0, 9, 2, 8], True), (5, [-3, -1, 1, 2], True), (5, [-3, -1, -9, 9], False), (5, [2, 4], True)]:
        cases.append({'kind': 'data_chunk', 'inp': {'n': n, 't': t, 'tuple': True, 'wo': wo, 'ndim': 2, 'dflt': False}})
    for t in ([], [1], [0, 1, 2], [0, 1, 2, 3, 4], [0, 1, 2, 3, 4, 5]):
        for wo in (False, True):
            cases.append({'kind': 'data_chunk', 'inp': {'n': 4, 't': t, 'tuple': True, 'wo': wo, 'ndim': 1, 'dflt': False}})
    for t in ([0, 2], [0, 3, 1, 2], [0, 1, 2]):
        cases.append({'kind': 'data_chunk', 'inp': {'n': 4, 't': t, 'tuple': False, 'wo': False, 'ndim': 1, 'dflt': True}})
    for n, cs, ov in [(7, 4, 1), (11, 4, 3), (2, 4, 3), (30, 10, 3), (0, 3, 1), (9, 10, 0)]:
        cases.append({'kind': 'chunked_data', 'inp': {'n': n, 'cs': cs, 'ov': ov, 'ndim': 2}})
    if tier == 'search':
        for _ in range(600):
            cs = rng.randint(1, 30)
            cases.append({'kind': 'chunked_data', 'inp': {'n': rng.randint(0, 150), 'cs': cs, 'ov': rng.randint(0, cs - 1),
                                                           'ndim': rng.choice((1, 2))}})
            cases.append(_rand_dc(rng))
        for _ in range(3000):
            cs = rng.randint(1, 40)
            cases.append({'kind': 'chunk_bounds', 'inp': {'n': rng.randint(0, 300), 'cs': cs, 'ov': rng.randint(0, cs - 1)}})
        cases += _rate_cases('thorough', rng)
        cases += _stage6_cases('thorough', rng)
        for _ in range(1500):
            cases.append({'kind': 'reader_bounds', 'inp': {'sizes': [rng.randint(0, 40) for _ in range(rng.randint(1, 5))], 'cs': rng.randint(1, 30)}})
            cases.append({'kind': 'excerpts', 'inp': {'n': rng.randint(0, 200), 'k': rng.randint(2, 9), 'size': rng.randint(0, 30)}})
            cases.append({'kind': 'get_excerpts', 'inp': {'n': rng.randint(0, 200), 'k': rng.randint(0, 9), 'size': rng.randint(1, 30)}})
        return cases
    quick = tier == 'quick'
    nmax, csmax = (24, 10) if quick else (60, 24)
    cases += list(_cb_cases(nmax, csmax))
    # the same chunkings seen through data_chunk (blocks of rows), 1-D and 2-D data alternating
    for c in _cb_cases(*((14, 7) if quick else (26, 11))):
        i = c['inp']
        cases.append({'kind': 'chunked_data', 'inp': {'n': i['n'], 'cs': i['cs'], 'ov': i['ov'],
                                                       'ndim': 1 + (i['n'] + i['cs'] + i['ov']) % 2}})
    # data_chunk directly: every 2-tuple of bounds in -9..9 (negative = from the end, beyond the data = clipped)
    for n in ((0, 4, 7) if quick else (0, 1, 4, 7, 9)):
        for a in range(-9, 10):
            for b in range(-9, 10):
                cases.append({'kind': 'data_chunk', 'inp': {'n': n, 't': [a, b], 'tuple': True, 'wo': (a + b) % 2 == 0,
                                                             'ndim': 1 + (a % 2), 'dflt': b % 3 == 0}})
    for _ in range(400 if quick else 2000):
        cases.append(_rand_dc(rng))
    # excerpts
    en, ek, es = (24, 6, 8) if quick else (48, 9, 12)
    for n in range(0, en + 1):
        for k in range(0, ek + 1):
            for size in range(0, es + 1):
                if k >= 2:
                    cases.append({'kind': 'excerpts', 'inp': {'n': n, 'k': k, 'size': size}})
                if size >= 1:
                    cases.append({'kind': 'get_excerpts', 'inp': {'n': n, 'k': k, 'size': size}})
    # reader bounds: the helper directly, all size lists
    kmax, smax, cmax = (3, 6, 8) if quick else (4, 6, 9)
    for sizes in _size_lists(kmax, smax):
        for cs in range(1, cmax + 1):
            cases.append({'kind': 'reader_bounds', 'inp': {'sizes': sizes, 'cs': cs}})
    for sizes in _size_lists(3, 3, lo=0):
        if 0 in sizes:
            for cs in (1, 2, 3):
                cases.append({'kind': 'reader_bounds', 'inp': {'sizes': sizes, 'cs': cs}})
    # real readers
    for sizes in _size_lists(2 if quick else 3, 6 if quick else 5):
        for cs in range(1, cmax + 1):
            cases.append({'kind': 'reader', 'inp': {'sizes': sizes, 'cs': cs, 'backend': 'flat'}})
            if len(sizes) == 1:
                cases.append({'kind': 'reader', 'inp': {'sizes': sizes, 'cs': cs, 'backend': 'array'}})
                cases.append({'kind': 'reader', 'inp': {'sizes': sizes, 'cs': cs, 'backend': 'npy'}})
    if quick:
        for _ in range(150):
            sizes = [rng.randint(1, 6) for _ in range(3)]
            cases.append({'kind': 'reader', 'inp': {'sizes': sizes, 'cs': rng.randint(1, 8), 'backend': 'flat'}})
    # real readers over sample rates (stage 5)
    cases += _rate_cases(tier, rng)[5:]
    # stage 6: reader options and call histories
    cases += _stage6_cases(tier, rng)
    # compressed readers: n samples at rate 10 Hz, chunk duration d/10 s -> chunks of d samples
    ns = (1, 2, 7, 12, 30) if quick else (1, 2, 3, 7, 12, 13, 30, 31, 50)
    ds = (1, 2, 3, 5, 7, 40) if quick else (1, 2, 3, 4, 5, 7, 11, 40)
    for n in ns:
        for d in ds:
            if n / d > 40:
                continue
            for th in (1, 2, 3, 8):
                for cache in (False, True):
                    cases.append({'kind': 'mtscomp', 'inp': {'n': n, 'd': d, 'threads': th, 'cache': cache}})
    # random larger
    nrand = 300 if quick else 3000
    for _ in range(nrand // 5):
        cs = rng.randint(1, 40)
        cases.append({'kind': 'chunked_data', 'inp': {'n': rng.randint(0, 300), 'cs': cs, 'ov': rng.randint(0, cs - 1),
                                                       'ndim': rng.choice((1, 2))}})
    for _ in range(nrand):
        cs = rng.randint(1, 60)
        cases.append({'kind': 'chunk_bounds', 'inp': {'n': rng.randint(0, 2000), 'cs': cs, 'ov': rng.randint(0, cs - 1)}})
        cases.append({'kind': 'reader_bounds', 'inp': {'sizes': [rng.randint(0, 300) for _ in range(rng.randint(1, 6))], 'cs': rng.randint(1, 100)}})
        cases.append({'kind': 'excerpts', 'inp': {'n': rng.randint(0, 1000), 'k': rng.randint(2, 12), 'size': rng.randint(0, 120)}})
        cases.append({'kind': 'get_excerpts', 'inp': {'n': rng.randint(0, 600), 'k': rng.randint(0, 12), 'size': rng.randint(1, 80)}})
    return cases


# ---- implementation side -------------------------------------------------------------------------

def _tmp():
    base = os.environ.get('VT_WORK') or tempfile.gettempdir()
    return tempfile.mkdtemp(prefix='c16_', dir=base)


def _rows(np, n, ndim):
    """data whose row r is recognisable: r (1-D) or [3r, 3r+1, 3r+2] (2-D, exercises data[i:j, ...])."""
    return np.arange(n) if ndim == 1 else np.arange(3 * n).reshape(n, 3)


def _ids(np, out, ndim):
    out = np.asarray(out)
    if ndim == 1:
        if out.ndim != 1:
            raise RuntimeError('data_chunk changed the number of dimensions')
        return [int(x) for x in out]
    if out.ndim != 2 or out.shape[1] != 3 or not (out[:, 0] % 3 == 0).all() or \
            not (out[:, 1] == out[:, 0] + 1).all() or not (out[:, 2] == out[:, 0] + 2).all():
        raise RuntimeError('data_chunk did not return whole rows')
    return [int(x) // 3 for x in out[:, 0]]


# ---- stage 6: reader options and call histories ------------------------------------------------------
# history ops on ONE reader object: every recorded pass must be the model's interval list
_HIST_OPS = ('iter', 'iter_nc', 'clone', 'clone_nc', 'inter', 'partial', 'clone_first')
_DTYPES = ('int16', 'uint8', 'float32', 'int64', '>i2', 'float64')
_PFORMS = ('list', 'tuple', 'strs', 'direct', 'single', 'str')


def _rand_hist(rng, mtscomp=False):
    ops = ('iter', 'iter_nc', 'clone', 'clone_nc') if mtscomp else _HIST_OPS
    h = [rng.choice(ops) for _ in range(rng.randint(1, 4))]
    if all(o == 'partial' for o in h):
        h.append('iter')
    return h


def _rand_flat_opts(rng, nfiles):
    """rare-but-legal options of a flat reader: header offset (bytes), channel count, dtype, form of the paths argument."""
    dt = rng.choice(_DTYPES)
    nch = rng.randint(1, 4)
    isz = {'int16': 2, 'uint8': 1, 'float32': 4, 'int64': 8, '>i2': 2, 'float64': 8}[dt]
    row = nch * isz
    offset = rng.choice((0, 1, row - 1, row, row + 1, 2 * row, 5 * row, rng.randint(0, 40 * row), 512))
    pf = rng.choice(_PFORMS if nfiles == 1 else _PFORMS[:4])
    return {'offset': offset, 'nch': nch, 'dtype': dt, 'pform': pf, 'ext': rng.choice(('.bin', '.dat')),
            'tail': rng.choice((0, 0, 0, rng.randint(0, row - 1)))}


def _flat_reader(np, tr, d, i, rate):
    """files of offset + s * nch * itemsize bytes (sparse; the header is written out), opened as the case says."""
    from pathlib import Path
    dt = np.dtype(i.get('dtype', 'int16'))
    nch, off = i.get('nch', 2), i.get('offset', 0)
    paths = []
    for j, s in enumerate(i['sizes']):
        p = os.path.join(d, 'f%d%s' % (j, i.get('ext', '.bin')))
        with open(p, 'wb') as f:
            f.write(b'\xff' * off)
            f.truncate(off + s * nch * dt.itemsize + i.get('tail', 0))   # tail < one row: an incomplete last row (warning only)
        paths.append(Path(p))
    kw = dict(sample_rate=rate, dtype=dt, n_channels=nch)
    if 'offset' in i:
        kw['offset'] = off
    pf = i.get('pform', 'list')
    if pf == 'direct':
        return tr.FlatEphysReader(paths, **kw)
    arg = {'list': paths, 'tuple': tuple(paths), 'strs': [str(p) for p in paths],
           'single': paths[0], 'str': str(paths[0])}[pf]
    return tr.get_ephys_reader(arg, **kw)


def _drain(it, cap):
    out = []
    for a, b in it:
        out.append([int(a), int(b)])
        if len(out) > cap:
            raise RuntimeError('iter_chunks yields without end')
    return out


def _history(r, i, **kw):
    """Run the history of calls inp['hist'] (default: one pass) on the reader object r; return the reader whose
    pass number inp['report'] (default: the last) is observed, and that pass. Passes: 'iter' a full iter_chunks(),
    'iter_nc' with cache=False, 'clone'/'clone_nc' a full pass over a column-sliced clone r[:, [0]] made at that
    moment, 'clone_first' a clone made before anything else and iterated at that moment, 'inter' two iterators of r
    alive at once and advanced in turn (two passes), 'partial' an iterator advanced once and abandoned (no pass)."""
    hist = i.get('hist') or ['iter']
    cap = 5 * (len(r.chunk_bounds) + 5)
    passes = []
    early = r[:, [0]] if 'clone_first' in hist else None
    for op in hist:
        if op == 'iter':
            passes.append((r, _drain(r.iter_chunks(**kw), cap)))
        elif op == 'iter_nc':
            passes.append((r, _drain(r.iter_chunks(cache=False), cap)))
        elif op in ('clone', 'clone_nc'):
            c = r[:, [0]]
            passes.append((c, _drain(c.iter_chunks(cache=False) if op == 'clone_nc' else c.iter_chunks(**kw), cap)))
        elif op == 'clone_first':
            passes.append((early, _drain(early.iter_chunks(**kw), cap)))
        elif op == 'partial':
            it = r.iter_chunks(**kw)
            next(it, None)
            del it
        elif op == 'inter':
            both = [(r.iter_chunks(**kw), []), (r.iter_chunks(**kw), [])]
            live = list(both)
            while live:
                for pair in list(live):
                    try:
                        a, b = next(pair[0])
                        pair[1].append([int(a), int(b)])
                    except StopIteration:
                        live.remove(pair)
                    if len(pair[1]) > cap:
                        raise RuntimeError('iter_chunks yields without end')
            passes += [(r, l) for _, l in both]
        else:
            raise ValueError(op)
    if not passes:
        passes.append((r, _drain(r.iter_chunks(**kw), cap)))
    rep = i.get('report')
    return passes[-1] if rep is None else passes[rep % len(passes)]


def run_case(case):
    import numpy as np
    k, i = case['kind'], case['inp']
    if k == 'chunk_bounds':
        from phylib.io.array import chunk_bounds
        out = []
        # overlap=0 is the default of the signature: leave it out on odd lengths so that the default is exercised
        gen = chunk_bounds(i['n'], i['cs']) if (i['ov'] == 0 and i['n'] % 2) else chunk_bounds(i['n'], i['cs'], overlap=i['ov'])
        for t in gen:
            out.append([int(x) for x in t])
            if len(out) > 5 * (i['n'] + 5):
                raise RuntimeError('chunk_bounds yields without end')
        return ('chunks', out)
    if k == 'data_chunk':
        from phylib.io.array import data_chunk
        data = _rows(np, i['n'], i['ndim'])
        t = tuple(i['t']) if i['tuple'] else list(i['t'])
        try:
            out = data_chunk(data, t) if (i['dflt'] and not i['wo']) else data_chunk(data, t, with_overlap=i['wo'])
        except AssertionError:
            return ('dc', 'assert')
        except ValueError as e:
            if str(e).startswith("'chunk' should have 2 or 4 elements, not %d" % len(t)):
                return ('dc', 'value')
            raise
        return ('dc', 'ok', _ids(np, out, i['ndim']))
    if k == 'chunked_data':
        from phylib.io.array import chunk_bounds, data_chunk
        data = _rows(np, i['n'], i['ndim'])
        parts = []
        for t in chunk_bounds(i['n'], i['cs'], overlap=i['ov']):
            w = data_chunk(data, t, with_overlap=True)
            kept = data_chunk(data, t) if len(parts) % 2 else data_chunk(data, t, with_overlap=False)
            parts.append([_ids(np, w, i['ndim']), _ids(np, kept, i['ndim'])])
            if len(parts) > 5 * (i['n'] + 5):
                raise RuntimeError('chunk_bounds yields without end')
        return ('parts', parts)
    if k == 'reader_bounds':
        from phylib.io.traces import _get_chunk_bounds
        return ('bounds', [int(x) for x in _get_chunk_bounds(list(i['sizes']), i['cs'])])
    if k == 'excerpts':
        from phylib.io.array import excerpts
        return ('ivs', [[int(a), int(b)] for a, b in excerpts(i['n'], n_excerpts=i['k'], excerpt_size=i['size'])])
    if k == 'get_excerpts':
        from phylib.io.array import get_excerpts
        data = np.arange(i['n'])
        out = get_excerpts(data, n_excerpts=i['k'], excerpt_size=i['size'])
        return ('data', [int(x) for x in out])
    if k == 'reader':
        from phylib.io.traces import get_ephys_reader
        d = _tmp()
        try:
            rate = i['cs'] / 600.0
            sizes = i['sizes']
            if i['backend'] == 'flat':
                from phylib.io import traces as tr
                r = _flat_reader(np, tr, d, i, rate)
            elif i['backend'] == 'array':
                r = get_ephys_reader(np.zeros((sizes[0], 2), dtype=np.int16), sample_rate=rate)
            else:
                p = os.path.join(d, 'a.npy')
                np.save(p, np.zeros((sizes[0], 2), dtype=np.int16))
                r = get_ephys_reader(p, sample_rate=rate)
            o, ivs = _history(r, i)
            b = [int(x) for x in o.chunk_bounds]
            ns = int(o.n_samples)
            del r, o
            return ('reader', b, ivs, ns)
        finally:
            shutil.rmtree(d, ignore_errors=True)
    if k == 'reader_rate':
        from pathlib import Path
        from phylib.io import traces as tr
        rate = float.fromhex(i['rate'])
        rate = int(rate) if i['rtype'] == 'int' else np.float64(rate) if i['rtype'] == 'np64' else rate
        sizes = i['sizes']
        d = _tmp()
        try:
            if i['backend'] == 'flat':
                r = _flat_reader(np, tr, d, i, rate)
            elif i['backend'] == 'array':
                # a view of one row: the reader only looks at the shape
                r = tr.get_ephys_reader(np.broadcast_to(np.zeros((1, 2), dtype=np.int16), (sizes[0], 2)), sample_rate=rate)
            elif i['backend'] == 'npy':
                p = os.path.join(d, 'a.npy')
                np.save(p, np.zeros((sizes[0], 2), dtype=np.int16))
                r = tr.get_ephys_reader(p, sample_rate=rate)
            else:
                r = tr.RandomEphysReader(sizes[0], 2, sample_rate=rate)
            o, ivs = _history(r, i)
            b = [int(x) for x in o.chunk_bounds]
            ns = int(o.n_samples)
            del r, o
            return ('reader', b, ivs, ns)
        finally:
            shutil.rmtree(d, ignore_errors=True)
    if k == 'mtscomp':
        import mtscomp
        from phylib.io.traces import get_ephys_reader
        d = _tmp()
        try:
            n = i['n']
            arr = (np.arange(n * 2) % 11).astype(np.int16).reshape(n, 2)
            p = os.path.join(d, 'a.dat')
            arr.tofile(p)
            mtscomp.compress(p, os.path.join(d, 'a.cbin'), os.path.join(d, 'a.ch'), sample_rate=10.,
                             n_channels=2, dtype=np.int16, chunk_duration=i['d'] / 10., n_threads=1,
                             check_after_compress=False, quiet=True)
            rd = mtscomp.Reader(n_threads=i['threads'])
            rd.open(os.path.join(d, 'a.cbin'), os.path.join(d, 'a.ch'))
            er = get_ephys_reader(rd)
            cb = [int(x) for x in rd.chunk_bounds]
            bs = int(rd.batch_size)
            o, ivs = _history(er, i, cache=i['cache'])
            ns = int(o.n_samples)
            rd.close()
            return ('mtscomp', ns, cb, bs, ivs)
        finally:
            shutil.rmtree(d, ignore_errors=True)
    raise ValueError(k)


# ---- encoding for Coq ---------------------------------------------------------------------------

def _ivs(l):
    return q.lst(l, lambda p: '(mkiv %s %s)' % (q.z(p[0]), q.z(p[1])))


def encode(case, obs):
    k, i = case['kind'], case['inp']
    crash = obs[0] == 'crash'
    if k == 'chunk_bounds':
        cin = q.app('InChunkBounds', q.z(i['n']), q.z(i['cs']), q.z(i['ov']))
        cobs = 'ObsCrash' if crash else q.app('ObsChunks', q.lst(obs[1], lambda c: '(mk %s %s %s %s)' % tuple(q.z(x) for x in c)))
    elif k == 'reader_bounds':
        cin = q.app('InReaderBounds', q.zl(i['sizes']), q.z(i['cs']))
        cobs = 'ObsCrash' if crash else q.app('ObsBounds', q.zl(obs[1]))
    elif k == 'reader':
        cin = q.app('InReader', q.zl(i['sizes']), q.z(i['cs']))
        cobs = 'ObsCrash' if crash else q.app('ObsReader', q.zl(obs[1]), _ivs(obs[2]), q.z(obs[3]))
    elif k == 'reader_rate':
        num, kk = _rate_parts(float.fromhex(i['rate']))
        cin = q.app('InReaderRate', q.zl(i['sizes']), q.z(num), q.z(kk))
        cobs = 'ObsCrash' if crash else q.app('ObsReader', q.zl(obs[1]), _ivs(obs[2]), q.z(obs[3]))
    elif k == 'mtscomp':
        if crash:
            # without the reader's own chunk bounds the input cannot be stated; use a well-formed
            # stand-in so that the crash is judged as a failure of the property, not as a regime error
            cin = q.app('InMtscomp', q.z(max(1, i['n'])), q.zl([0, max(1, i['n'])]), q.z(i['threads']))
            cobs = 'ObsCrash'
        else:
            cin = q.app('InMtscomp', q.z(obs[1]), q.zl(obs[2]), q.z(obs[3]))
            cobs = q.app('ObsIvs', _ivs(obs[4]))
    elif k == 'excerpts':
        cin = q.app('InExcerpts', q.z(i['n']), q.z(i['k']), q.z(i['size']))
        cobs = 'ObsCrash' if crash else q.app('ObsIvs', _ivs(obs[1]))
    elif k == 'get_excerpts':
        cin = q.app('InGetExcerpts', q.z(i['n']), q.z(i['k']), q.z(i['size']))
        cobs = 'ObsCrash' if crash else q.app('ObsData', q.zl(obs[1]))
    elif k == 'data_chunk':
        cin = q.app('InDataChunk', q.z(i['n']), q.b(i['tuple']), q.zl(i['t']), q.b(i['wo']))
        if crash:
            cobs = 'ObsCrash'
        elif obs[1] == 'ok':
            cobs = q.app('ObsDc', q.app('DcOk', q.zl(obs[2])))
        else:
            cobs = q.app('ObsDc', 'DcValueError' if obs[1] == 'value' else 'DcAssertError')
    elif k == 'chunked_data':
        cin = q.app('InChunkedData', q.z(i['n']), q.z(i['cs']), q.z(i['ov']))
        cobs = 'ObsCrash' if crash else q.app('ObsParts', q.lst(obs[1], lambda p: '(mkpart %s %s)' % (q.zl(p[0]), q.zl(p[1]))))
    else:
        raise ValueError(k)
    return cin, cobs


def nontrivial(case, obs):
    if obs[0] == 'crash':
        return False
    k = case['kind']
    if k in ('reader', 'reader_rate'):
        return len(obs[2]) > 1
    if k == 'mtscomp':
        return len(obs[4]) > 1
    if k == 'data_chunk':
        return obs[1] == 'ok' and len(obs[2]) > 0 and len(case['inp']['t']) == 4
    return len(obs[1]) > 1


def dist(case, obs):
    k, i = case['kind'], case['inp']
    out = ['kind=' + k]
    if obs[0] == 'crash':
        out.append('crash=' + obs[1])
        return out
    if k == 'chunk_bounds':
        out.append('cb.chunks=%s' % _bucket(len(obs[1])))
        out.append('cb.ov_odd=%s' % (i['ov'] % 2 == 1))
        out.append('cb.n_vs_cs=%s' % ('lt' if i['n'] < i['cs'] else 'eq' if i['n'] == i['cs'] else 'gt'))
    elif k in ('reader_bounds', 'reader'):
        out.append('%s.files=%d' % (k, len(i['sizes'])))
        if k == 'reader':
            out.append('reader.backend=' + i['backend'])
            out += _s6_dist(i)
    elif k == 'reader_rate':
        rate = float.fromhex(i['rate'])
        num, kk = _rate_parts(rate)
        rem = (600 * num) % (1 << kk)
        out.append('rr.files=%d' % len(i['sizes']))
        out.append('rr.backend=' + i['backend'])
        out.append('rr.rtype=' + i['rtype'])
        out.append('rr.product=%s' % ('integer' if rem == 0 else 'tie' if 2 * rem == (1 << kk) else
                                      'below-half' if 2 * rem < (1 << kk) else 'above-half'))
        from fractions import Fraction
        fp = Fraction(600.0 * rate) - Fraction(600 * num, 1 << kk)
        out.append('rr.float_product=%s' % ('exact' if fp == 0 else 'rounded-up' if fp > 0 else 'rounded-down'))
        out += _s6_dist(i)
        out.append('rr.chunk_len=%s' % ('1' if _rate_cs(rate)[1] == 1 else '<=200' if _rate_cs(rate)[1] <= 200 else
                                        '<=1e5' if _rate_cs(rate)[1] <= 100000 else '>1e5'))
    elif k == 'mtscomp':
        out.append('mtscomp.chunks=%s' % _bucket(len(obs[2]) - 1))
        out.append('mtscomp.batch=%d' % obs[3])
        out.append('mtscomp.cache=%s' % i['cache'])
        out += _s6_dist(i)
    elif k == 'excerpts':
        out.append('excerpts.count=%s' % _bucket(len(obs[1])))
    elif k == 'get_excerpts':
        out.append('get_excerpts.whole=%s' % (i['n'] < i['k'] * i['size']))
    elif k == 'data_chunk':
        out.append('dc.len=%d' % len(i['t']))
        out.append('dc.result=%s' % obs[1])
        out.append('dc.with_overlap=%s' % i['wo'])
        out.append('dc.tuple=%s' % i['tuple'])
        out.append('dc.negative=%s' % any(x < 0 for x in i['t']))
    elif k == 'chunked_data':
        out.append('cd.chunks=%s' % _bucket(len(obs[1])))
        out.append('cd.ndim=%d' % i['ndim'])
        out.append('cd.ov_odd=%s' % (i['ov'] % 2 == 1))
    return out


def _s6_dist(i):
    out = []
    if 'offset' in i:
        row = i.get('nch', 2) * _isz(i.get('dtype', 'int16'))
        off = i['offset']
        out.append('flat.offset=%s' % ('0' if off == 0 else '<row' if off < row else 'rows' if off % row == 0 else '>row'))
        out.append('flat.dtype=' + i.get('dtype', 'int16'))
        out.append('flat.pform=' + i.get('pform', 'list'))
        out.append('flat.tail=%s' % (i.get('tail', 0) > 0))
    if 'hist' in i:
        out.append('hist.len=%d' % len(i['hist']))
        out += ['hist.op=' + o for o in sorted(set(i['hist']))]
        out.append('hist.report=%s' % ('last' if i.get('report') is None else _bucket(i['report'])))
    return out


def _bucket(n):
    return str(n) if n <= 3 else '4-9' if n <= 9 else '10+'


def shrink(case):
    k, i = case['kind'], dict(case['inp'])
    if k == 'reader_rate':
        rate = float.fromhex(i['rate'])
        for j in ({'backend': 'random', 'sizes': [sum(i['sizes'])]}, {'rtype': 'float'},
                  {'rate': (rate / 2).hex()}, {'rate': (_rate_cs(rate)[1] / 600.0).hex()}):
            j = dict(i, **j)
            if j != i and _rate_cs(float.fromhex(j['rate']))[0] and not (j['rtype'] == 'int' and float.fromhex(j['rate']) % 1):
                yield {'kind': k, 'inp': j}
    for key, v in i.items():
        if isinstance(v, bool) or key in ('nch', 'tail', 'report'):
            continue
        if isinstance(v, int):
            for nv in sorted({v // 2, v - 1}):
                if 0 <= nv < v:
                    j = dict(i)
                    j[key] = nv
                    if k in ('chunk_bounds', 'chunked_data') and not (j['ov'] < j['cs'] and j['cs'] >= 1):
                        continue
                    if key == 'cs' and nv < 1 or key == 'd' and nv < 1 or key == 'threads' and nv < 1 or key == 'ndim' and nv < 1:
                        continue
                    if k == 'excerpts' and j['k'] < 2 or k == 'get_excerpts' and j['size'] < 1:
                        continue
                    if k == 'mtscomp' and j['n'] < 1:
                        continue
                    yield {'kind': k, 'inp': j}
        elif isinstance(v, list):
            if len(v) > 1:
                for d in range(len(v)):
                    j = dict(i)
                    j[key] = v[:d] + v[d + 1:]
                    if key == 'hist' and 'report' in j:
                        j['report'] = min(i['report'], _n_passes(j[key]) - 1) if i['report'] is not None else None
                    yield {'kind': k, 'inp': j}
            for d in range(len(v)):
                if isinstance(v[d], int) and v[d] > 0:
                    j = dict(i)
                    j[key] = v[:d] + [v[d] - 1] + v[d + 1:]
                    if k in ('reader', 'reader_rate') and key == 'sizes' and j.get('backend') == 'flat' and v[d] == 1:
                        continue        # np.memmap refuses an empty file
                    yield {'kind': k, 'inp': j}


def repro(case):
    k, i = case['kind'], case['inp']
    pre = ("import sys; sys.path[:0] = ['/verif/harness', '/repo']\n"
           "from vt import npshim; npshim.setup_process()\n")
    if k == 'chunk_bounds':
        return pre + ("from phylib.io.array import chunk_bounds\n"
                      "print(list(chunk_bounds(%(n)d, %(cs)d, overlap=%(ov)d)))  # kept parts must tile range(%(n)d)\n" % i)
    if k == 'reader_bounds':
        return pre + "from phylib.io.traces import _get_chunk_bounds\nprint(_get_chunk_bounds(%r, %d))\n" % (i['sizes'], i['cs'])
    if k == 'excerpts':
        return pre + "from phylib.io.array import excerpts\nprint(list(excerpts(%(n)d, n_excerpts=%(k)d, excerpt_size=%(size)d)))\n" % i
    if k == 'get_excerpts':
        return pre + "import numpy as np\nfrom phylib.io.array import get_excerpts\nprint(get_excerpts(np.arange(%(n)d), n_excerpts=%(k)d, excerpt_size=%(size)d))\n" % i
    if k == 'data_chunk':
        return pre + ("import numpy as np\nfrom phylib.io.array import data_chunk\n"
                      "print(data_chunk(np.arange(%d), %s, with_overlap=%r))\n"
                      % (i['n'], 'tuple(%r)' % (i['t'],) if i['tuple'] else repr(i['t']), i['wo']))
    if k == 'chunked_data':
        return pre + ("import numpy as np\nfrom phylib.io.array import chunk_bounds, data_chunk\n"
                      "data = np.arange(%(n)d)\nfor t in chunk_bounds(%(n)d, %(cs)d, overlap=%(ov)d):\n"
                      "    print(t, data_chunk(data, t, with_overlap=True), data_chunk(data, t))"
                      "  # kept blocks must concatenate to data\n" % i)
    return pre + "from vt.props import c16\nprint(c16.run_case(%r))\n" % (case,)
