"""C20 -- no download is reported successful with a file failing its published checksum
(DESIGN.md §8 C20).

The real phylib.io.datasets.download_file is run against an in-process HTTP server on 127.0.0.1
that serves a *script*: the i-th GET of the data URL gets the i-th scripted response (404 when the
script is exhausted), the k-th GET of the checksum URL gets the k-th scripted checksum response
(then a constant one).  The server logs every request, so the number and order of requests is an
observable.  The Coq model PV.C20.Model.download is evaluated on the same abstract world.

Abstract world (JSON):
  data   list over 'G' (good body) | 'C1' 'C2' (two corrupt bodies) | 'P' (the body used for a corrupt
         prior file) | 'E' (HTTP error status cfg.err)
  sums   list over 'ok' (md5 of G) | 'bad' (md5 of bytes nobody serves) | 'c1' 'c2' 'p' (md5 of that
         body) | 'none' (unavailable, served as cfg.missing);  rest = the answer after the list
  prior  'absent' | 'G' | 'P' | 'C1' | 'C2'
  cfg    configuration axes that do not change the abstract result (folded back onto the same model
         input): byte contents of the bodies, checksum-file format, how "unavailable" / "HTTP error"
         / the HEAD request of the progress bar are served, and how a WRONG checksum ('bad') is spelled:
         the well-formed MD5 of other bytes (lower or upper case), or a text that is not the 32-digit
         hex of any MD5 -- the right digest one character short / one character long / with a non-hex
         character.  phylib compares the published text with hashlib's hexdigest() as strings, so each
         of these is "a checksum is available and the file does not have it" (probed on the unchanged
         code: mismatch, one retry, RuntimeError), i.e. the same abstract answer Sum 9.  The upper-case
         spelling of the RIGHT digest is deliberately not among them: as a number it IS the file's MD5,
         phylib's string comparison rejects it (fail-safe: RuntimeError, never a normal return), and
         which of "correct"/"wrong" it is is a matter of checksum-file format, outside the reading
         like the bare digest followed by a newline (ASSUMES).
         Stage 6 axes (also folded): 'local' = the final component of output_path (the URL's own basename, or a
         name the checksum file does not list / without extension / differing in case), 'pathform' = how
         output_path is passed (absolute str, pathlib.Path, relative to the cwd, './'-relative), 'xfer' = how the
         server transfers the 200 bodies (identity with Content-Length, no Content-Length, Content-Encoding gzip /
         deflate negotiated on the request's Accept-Encoding -- data URL only or checksum URL too --, HTTP/1.1
         chunked, gzip + chunked).  The property speaks of the bytes of the published file, not of their transfer
         coding: the same abstract world, the same model answer.
"""
import hashlib
import io
import itertools
import os
import shutil
import tempfile
import threading
import zlib

from .. import coqenc as q

ID = 'C20'
RULE = ('exhaustive: every data-URL script of length <= 3 (quick; <= 4 thorough) over {good, corrupt, HTTP error} '
        'x constant checksum-URL behaviour {correct, wrong, missing} x prior file {absent, valid, corrupt} = 351 '
        '(1080) worlds, each under several server configurations (body sizes around the 1024-byte chunk and '
        '2**20-byte MD5 block, checksum-file formats incl. md5sum text and binary mode, 404/500/empty/dropped checksum '
        'answers, HEAD failures, the local file saved under the URL\'s basename / another name / no extension / another '
        'case, output_path as absolute str / pathlib.Path / relative to the cwd, 200 bodies transferred with '
        'Content-Length / without / Content-Encoding gzip or deflate / HTTP/1.1 chunked / gzip + chunked), and '
        'every wrong-checksum world under each spelling of "wrong" (MD5 of other bytes in lower / upper case; the '
        'right digest truncated / one character too long / with a non-hex character); plus '
        'varying checksum scripts, two distinct corrupt bodies, wrong checksums that match a corrupt body, and a '
        'seeded random stream. Non-trivial = at least one data GET was made and answered 200 (a body was written '
        'and verified); distinct = distinct abstract world (configuration axes folded).')
EXHAUSTIVE = {'quick': True, 'thorough': True}
CLAUSES = {
    1: 'observed outcome / final file / request sequence differs from the Coq model PV.C20.Model.download',
    21: 'C20_sound: the call returned normally while a checksum was published, and the file left on disk does not '
        'have that MD5',
    22: 'C20_skip: a valid existing file was downloaded again (or the call did not return it untouched)',
    23: 'C20_one_retry: number of data GETs is not "1, or 2 exactly when the first 200 body failed verification" '
        '(and 0 for a valid existing file; never more than 2)',
    24: 'C20_raises: an HTTP error on a data GET that was made, or a mismatch persisting after the retry, did not raise',
    25: 'C20_sound_final: the call returned normally, the checksum answer the server holds ready after the last data '
        'GET (the first answer when no data GET was made) publishes a checksum -- whether or not the call asked for '
        'it -- and the file left on disk does not have that MD5',
}
TRUSTED = ['hashlib.md5 (distinct bodies used by the harness have distinct digests: asserted at import; the theorems '
           'hold for every digest function)',
           'requests/urllib3 against http.server on 127.0.0.1 (real HTTP on loopback; real networks, time-outs and '
           'partial transfers are not modelled)',
           'the mock server of harness/vt/props/c20.py (scripted responses, request log)']
ASSUMES = ['the checksum file holds the hex digest first, followed by end of file or a space (md5sum format); a bare '
           'digest followed by a newline is outside the reading (phylib splits on spaces only)',
           'the published checksum is the text of the checksum file up to the first space; "correct" = the lower-case '
           'hex digest as md5sum / hashlib print it; a non-empty text that is not the hex of the file\'s MD5 in either '
           'case (other digest, truncated, too long, non-hex character) is a WRONG checksum; the upper-case spelling '
           'of the right digest (rejected by phylib\'s string comparison) is outside the reading',
           'server behaviour is a function of the request count per URL (scripted), as in the property quantifier']
TIMEOUT = {'quick': 30, 'thorough': 60}

BODY_TOK = {'G': 0, 'C1': 1, 'C2': 2, 'P': 3}
SUM_TOK = {'ok': 0, 'c1': 1, 'c2': 2, 'p': 3, 'bad': 9}
_BAD_BYTES = b'bytes that no URL ever serves'


def _bodies(kind):
    """Byte contents of the four bodies, by configuration."""
    if kind == 'small':
        return {'G': b'good data\n', 'C1': b'good dat', 'C2': b'', 'P': b'stale junk'}
    if kind == 'chunky':
        g = bytes((7 * i + 3) % 251 for i in range(3000))
        return {'G': g, 'C1': g[:1024], 'C2': g[:-1] + bytes([g[-1] ^ 1]), 'P': g + b'x'}
    if kind == 'emptygood':
        return {'G': b'', 'C1': b'\0', 'C2': b'y' * 1025, 'P': b' '}
    if kind == 'edge':
        g = bytes((5 * i + 1) % 253 for i in range(2048))
        return {'G': g, 'C1': g[:2047], 'C2': g + g[:1], 'P': g[1:]}
    if kind == 'big':
        n = 2 ** 20
        g = (bytes(range(256)) * (n // 256 + 1))[:n + 5]
        return {'G': g, 'C1': g[:n], 'C2': g[:-1] + b'\xff', 'P': g[:n - 1]}
    raise ValueError(kind)


BODY_KINDS = ['small', 'chunky', 'emptygood', 'edge', 'big']
for _k in BODY_KINDS:
    _b = _bodies(_k)
    assert len({hashlib.md5(v).hexdigest() for v in list(_b.values()) + [_BAD_BYTES]}) == 5, _k

assert hashlib.md5(_BAD_BYTES).hexdigest().upper() != hashlib.md5(_BAD_BYTES).hexdigest()

FMTS = ['bare', 'md5sum', 'space', 'md5sum-bin']
MISSINGS = ['404', '500', 'empty', 'drop']
ERRS = [404, 500, 403]
HEADS = ['ok', '404', 'nolen', 'drop', 'short']
WRONGS = ['md5', 'trunc', 'long', 'nonhex', 'upper']      # spellings of the wrong checksum 'bad'
LOCALS = ['same', 'other', 'noext', 'case']                 # final component of output_path
LOCAL_NAME = {'same': 'data.bin', 'other': 'session1_raw.dat', 'noext': 'download', 'case': 'Data.BIN'}
PATHFORMS = ['str', 'Path', 'rel', 'reldot']
XFERS = ['identity', 'gzip', 'nolen', 'deflate', 'chunked', 'gzip-all', 'gzip-chunked']
DEFAULT_CFG = {'bodies': 'small', 'fmt': 'md5sum', 'missing': '404', 'err': 404, 'head': 'ok', 'wrong': 'md5',
               'local': 'same', 'pathform': 'str', 'xfer': 'identity'}


def _wrong_text(kind, good_hex):
    """The text served for the abstract checksum answer 'bad' (a checksum is published and it is not the MD5 of
    any body).  'trunc' / 'long' / 'nonhex' are derived from the RIGHT digest, so a comparison that tolerates, or
    gives up on, malformed text instead of comparing it shows."""
    if kind == 'md5':
        return hashlib.md5(_BAD_BYTES).hexdigest()
    if kind == 'trunc':
        return good_hex[:-1]                    # phylib's own test fixture for an invalid checksum
    if kind == 'long':
        return good_hex + '0'
    if kind == 'nonhex':
        return good_hex[:-1] + 'g'
    if kind == 'upper':
        return hashlib.md5(_BAD_BYTES).hexdigest().upper()      # contains a letter: asserted at import
    raise ValueError(kind)


def _cfg(i):
    """A deterministic rotation through the configuration axes (every value of every axis occurs)."""
    return {'bodies': BODY_KINDS[i % 4],            # 'big' is added explicitly (1 MiB transfers)
            'fmt': FMTS[(i // 2) % 3] if i % 8 != 5 else 'md5sum-bin',
            'missing': MISSINGS[(i // 3) % 4],
            'err': ERRS[(i // 5) % 3],
            'head': HEADS[(i // 7) % 5],
            'wrong': WRONGS[(i // 4) % 5],
            'local': LOCALS[(3 * i + i // 4) % 4],
            'pathform': PATHFORMS[(i + i // 3) % 4],
            'xfer': XFERS[(5 * i + i // 7) % 7]}


def _world(data, sums, rest, prior, cfg=None):
    return {'kind': 'download', 'inp': {'data': list(data), 'sums': list(sums), 'rest': rest, 'prior': prior,
                                        'cfg': dict(DEFAULT_CFG, **(cfg or {}))}}


def _scripts(alphabet, maxlen):
    for n in range(0, maxlen + 1):
        for s in itertools.product(alphabet, repeat=n):
            yield list(s)


CORPUS = [
    # one boundary case per clause / per branch of download_file
    (['G'], [], 'ok', 'absent'),                 # plain download, verified
    ([], [], 'ok', 'G'),                         # valid existing file: skip, zero data GETs
    (['C1', 'G'], [], 'ok', 'absent'),           # corrupted first transfer, good retry
    (['C1', 'C2'], [], 'ok', 'absent'),          # persistent mismatch -> RuntimeError
    (['C1', 'C1', 'G'], [], 'ok', 'absent'),     # a third attempt is never made
    (['C1', 'E', 'G'], [], 'ok', 'absent'),      # the retry fails differently
    (['E', 'G'], [], 'ok', 'P'),                 # HTTP error: the prior file stays
    (['G'], [], 'ok', 'P'),                      # corrupt existing file is replaced
    (['C1'], [], 'none', 'absent'),              # checksum unavailable: anything is accepted
    (['C1'], [], 'none', 'G'),                   # ... and an existing file is overwritten
    (['G', 'G'], [], 'bad', 'absent'),           # wrong checksum published: good body rejected twice
    (['C1'], [], 'c1', 'absent'),                # published checksum is the corrupt body's
    (['C1', 'G'], ['ok', 'none'], 'ok', 'absent'),   # checksum disappears between the two verifications
    (['C1', 'G'], ['none', 'ok'], 'ok', 'P'),    # pre-check blind, post-check sees the mismatch
    (['G'], ['bad', 'ok'], 'ok', 'G'),           # pre-check says invalid, re-download verified
    # stage 5: the checksum file is missing when the existing file is pre-checked and published from then on
    # (a "missing" answer must not be remembered): corrupted transfer refuted, one retry
    (['C1'], ['none'], 'ok', 'P'),               # ... retry gets 404 -> HTTPError, never a normal return
    (['C1', 'C2'], ['none'], 'ok', 'G'),         # ... valid file not recognised, overwritten, RuntimeError
    (['C1', 'G'], ['none', 'bad', 'none'], 'ok', 'C1'),   # missing, wrong, missing: the retry's good body accepted unverified
    (['G'], ['none', 'none'], 'ok', 'P'),        # missing for pre-check and verification: accepted unverified
]

# stage 6: forced instances of the axes "local file name", "form of output_path", "transfer coding"
CORPUS6 = [
    # the file is saved under another name than the one the md5sum-format checksum file lists: still verified
    (['C1', 'C2'], [], 'ok', 'absent', {'local': 'other'}),
    (['C1', 'G'], [], 'ok', 'P', {'local': 'other', 'fmt': 'md5sum-bin', 'pathform': 'Path'}),
    (['C1', 'C1'], [], 'ok', 'absent', {'local': 'noext', 'fmt': 'space', 'pathform': 'rel'}),
    ([], [], 'ok', 'G', {'local': 'case', 'pathform': 'reldot'}),
    # a correct file transferred with Content-Encoding gzip / deflate / chunked: accepted after ONE download
    (['G'], [], 'ok', 'absent', {'xfer': 'gzip', 'bodies': 'chunky'}),
    (['G'], [], 'ok', 'P', {'xfer': 'gzip-all'}),
    (['C1', 'G'], [], 'ok', 'absent', {'xfer': 'deflate', 'bodies': 'edge'}),
    (['G'], [], 'none', 'absent', {'xfer': 'gzip-chunked', 'bodies': 'chunky'}),
    (['C1', 'G'], [], 'ok', 'absent', {'xfer': 'chunked', 'bodies': 'chunky'}),
    (['G'], [], 'ok', 'absent', {'xfer': 'nolen', 'bodies': 'emptygood'}),
]


def generate(tier, rng):
    cases = []
    for n, (d, s, r, p) in enumerate(CORPUS):
        cases.append(_world(d, s, r, p))
        cases.append(_world(d, s, r, p, _cfg(n + 1)))
    for d, s, r, p, c in CORPUS6:
        cases.append(_world(d, s, r, p, c))
    for wk in WRONGS[1:]:
        # a published checksum that is not a well-formed lower-case MD5 is still a published checksum
        c = dict(DEFAULT_CFG, wrong=wk)
        cases.append(_world(['G', 'G'], [], 'bad', 'absent', c))      # rejected twice -> RuntimeError
        cases.append(_world(['G'], [], 'bad', 'G', c))                # the pre-check says invalid: no skip
        cases.append(_world(['C1', 'G'], ['bad'], 'ok', 'P', c))      # wrong only at the pre-check
    if tier == 'search':
        for n in range(1500):
            cases.append(_random_world(rng, n))
        return cases
    quick = tier == 'quick'
    # the property's quantifier, exhaustively: scripts over {good, corrupt, HTTP error} x constant checksum
    # behaviour x prior file; each world under the default configuration and two rotating ones
    n = 0
    for d in _scripts(['G', 'C1', 'E'], 3 if quick else 4):
        for r in ('ok', 'bad', 'none'):
            for p in ('absent', 'G', 'P'):
                n += 1
                cases.append(_world(d, [], r, p))
                cases.append(_world(d, [], r, p, _cfg(n)))
                cases.append(_world(d, [], r, p, _cfg(3 * n + 1)))
                if not quick:
                    for j in range(4):
                        cases.append(_world(d, [], r, p, _cfg(5 * n + 11 * j + 2)))
                if r == 'bad':
                    # every spelling of "wrong": once under the default configuration, once under a rotating one
                    for j, wk in enumerate(WRONGS[1:]):
                        cases.append(_world(d, [], r, p, dict(DEFAULT_CFG, wrong=wk)))
                        cases.append(_world(d, [], r, p, dict(_cfg(7 * n + 3 * j + 1), wrong=wk)))
    # 1 MiB bodies (the 2**20 block loop of _md5): every world with a script of length <= 2
    for d in _scripts(['G', 'C1', 'E'], 2 if quick else 3):
        for r in ('ok', 'bad', 'none'):
            for p in ('absent', 'G', 'P'):
                n += 1
                c = _cfg(n)
                c['bodies'] = 'big'
                if quick and len(d) == 2 and n % 3:
                    continue
                cases.append(_world(d, [], r, p, c))
    # beyond the quantifier: varying checksum scripts, two corrupt bodies, checksums matching a corrupt body
    for d in _scripts(['G', 'C1', 'C2', 'E'], 2 if quick else 3):
        for s in _scripts(['ok', 'bad', 'none', 'c1'], 2 if quick else 3):
            for r in (('ok',) if quick else ('ok', 'none')):
                for p in (('absent', 'P', 'C1') if quick else ('absent', 'G', 'P', 'C1')):
                    n += 1
                    if s and s[-1] == r:
                        continue
                    cases.append(_world(d, s, r, p, _cfg(n)))
    for i in range(300 if quick else 3000):
        cases.append(_random_world(rng, i))
    return cases


def _random_world(rng, i):
    d = [rng.choice(['G', 'G', 'C1', 'C2', 'P', 'E']) for _ in range(rng.randint(0, 5))]
    s = [rng.choice(['ok', 'ok', 'bad', 'none', 'c1', 'c2', 'p']) for _ in range(rng.randint(0, 4))]
    r = rng.choice(['ok', 'ok', 'bad', 'none', 'c1'])
    p = rng.choice(['absent', 'G', 'P', 'C1', 'C2'])
    c = {'bodies': rng.choice(BODY_KINDS[:4] * 6 + ['big']), 'fmt': rng.choice(FMTS), 'missing': rng.choice(MISSINGS),
         'err': rng.choice(ERRS), 'head': rng.choice(HEADS), 'wrong': rng.choice(WRONGS),
         'local': rng.choice(LOCALS), 'pathform': rng.choice(PATHFORMS), 'xfer': rng.choice(XFERS)}
    return _world(d, s, r, p, c)


# ---- mock server (one per worker process, started lazily) -----------------------------------------

_SERVER = None
_WORLDS = {}          # key -> dict(data=[...], sums=[...], rest=..., cfg=..., bodies=..., nd=0, ns=0, log=[])
_LOCK = threading.Lock()
_SEQ = itertools.count()
_ZCACHE = {}


def _gzip(b):
    import gzip
    return gzip.compress(b, 1)


def _server():
    global _SERVER
    if _SERVER is not None and _SERVER[1] == os.getpid():
        return _SERVER[0]
    from http.server import BaseHTTPRequestHandler, ThreadingHTTPServer

    class H(BaseHTTPRequestHandler):
        protocol_version = 'HTTP/1.0'

        def log_message(self, *a):
            pass

        def _send(self, status, body, head=False, length=True):
            self.send_response(status)
            self.send_header('Content-Type', 'application/octet-stream')
            if length is True:
                self.send_header('Content-Length', str(len(body)))
            elif length is not None:
                self.send_header('Content-Length', str(length))
            self.end_headers()
            if not head:
                self.wfile.write(body)

        def _send_body(self, w, body, sumfile=False):
            """A 200 answer under the world's transfer configuration."""
            mode = w['cfg'].get('xfer', 'identity')
            if sumfile and mode != 'gzip-all':
                return self._send(200, body)
            enc = None
            accept = self.headers.get('Accept-Encoding', '')
            if mode in ('gzip', 'gzip-all', 'gzip-chunked') and 'gzip' in accept:
                enc = 'gzip'
            elif mode == 'deflate' and 'deflate' in accept:
                enc = 'deflate'
            if enc:
                ck = (w['cfg']['bodies'], enc, body)
                with _LOCK:
                    z = _ZCACHE.get(ck)
                if z is None:
                    z = _gzip(body) if enc == 'gzip' else zlib.compress(body, 1)
                    with _LOCK:
                        if len(_ZCACHE) > 64:
                            _ZCACHE.clear()
                        _ZCACHE[ck] = z
                body = z
            chunked = mode in ('chunked', 'gzip-chunked')
            if chunked:
                self.protocol_version = 'HTTP/1.1'
            self.send_response(200)
            self.send_header('Content-Type', 'application/octet-stream')
            if enc:
                self.send_header('Content-Encoding', enc)
            if chunked:
                self.send_header('Transfer-Encoding', 'chunked')
                self.send_header('Connection', 'close')
            elif mode != 'nolen':
                self.send_header('Content-Length', str(len(body)))
            self.end_headers()
            self.close_connection = True
            if chunked:
                pos, step = 0, 1
                while pos < len(body):
                    piece = body[pos:pos + step]
                    self.wfile.write(b'%x\r\n' % len(piece) + piece + b'\r\n')
                    pos += step
                    step = min(step * 7 + 3, 65536)
                self.wfile.write(b'0\r\n\r\n')
            else:
                self.wfile.write(body)

        def _drop(self):
            self.close_connection = True
            try:
                self.connection.shutdown(2)
            except OSError:
                pass

        def _route(self):
            parts = self.path.strip('/').split('/')
            w = _WORLDS.get(parts[0])
            return w, parts[-1]

        def do_HEAD(self):
            w, name = self._route()
            if w is None or name != 'data.bin':
                return self._send(404, b'', head=True)
            with _LOCK:
                w['log'].append('H')
                last = w.get('last_body', b'')
            mode = w['cfg']['head']
            if mode == 'ok':
                self._send(200, last, head=True)
            elif mode == '404':
                self._send(404, b'', head=True)
            elif mode == 'nolen':
                self._send(200, b'', head=True, length=None)
            elif mode == 'short':
                self._send(200, b'', head=True, length=1)
            else:
                self._drop()

        def do_GET(self):
            w, name = self._route()
            if w is None:
                return self._send(404, b'no such world')
            if name == 'data.bin':
                with _LOCK:
                    i = w['nd']
                    w['nd'] += 1
                    w['log'].append('D')
                    r = w['data'][i] if i < len(w['data']) else 'X'
                    if r in BODY_TOK:
                        w['last_body'] = w['bodies'][r]
                if r == 'X':
                    self._send(404, b'script exhausted')
                elif r == 'E':
                    self._send(int(w['cfg']['err']), b'<html>error</html>')
                else:
                    self._send_body(w, w['bodies'][r])
            elif name == 'data.bin.md5':
                with _LOCK:
                    k = w['ns']
                    w['ns'] += 1
                    w['log'].append('S')
                    r = w['sums'][k] if k < len(w['sums']) else w['rest']
                if r == 'none':
                    mode = w['cfg']['missing']
                    if mode in ('404', '500'):
                        self._send(int(mode), b'<html>no checksum here</html>')
                    elif mode == 'empty':
                        self._send(200, b'')
                    else:
                        self._drop()
                else:
                    if r == 'bad':
                        hx = _wrong_text(w['cfg'].get('wrong', 'md5'), hashlib.md5(w['bodies']['G']).hexdigest())
                    else:
                        hx = hashlib.md5(w['bodies'][{v: k_ for k_, v in BODY_TOK.items()}[SUM_TOK[r]]]).hexdigest()
                    fmt = w['cfg']['fmt']
                    txt = (hx if fmt == 'bare' else hx + '  data.bin\n' if fmt == 'md5sum' else
                           hx + ' *data.bin\n' if fmt == 'md5sum-bin' else hx + ' data.bin')
                    self._send_body(w, txt.encode('ascii'), sumfile=True)
            else:
                with _LOCK:
                    w['log'].append('?' + name)
                self._send(404, b'unknown')

    srv = ThreadingHTTPServer(('127.0.0.1', 0), H)
    srv.daemon_threads = True
    t = threading.Thread(target=srv.serve_forever, kwargs={'poll_interval': 0.05}, daemon=True)
    t.start()
    _SERVER = (srv, os.getpid())
    return srv


# ---- implementation side --------------------------------------------------------------------------

def run_case(case):
    import contextlib
    i = case['inp']
    cfg = i['cfg']
    srv = _server()
    bodies = _bodies(cfg['bodies'])
    key = 'w%d_%d' % (os.getpid(), next(_SEQ))
    w = {'data': list(i['data']), 'sums': list(i['sums']), 'rest': i['rest'], 'cfg': cfg, 'bodies': bodies,
         'nd': 0, 'ns': 0, 'log': []}
    _WORLDS[key] = w
    base = os.environ.get('VT_WORK') or tempfile.gettempdir()
    d = tempfile.mkdtemp(prefix='c20_', dir=base)
    cwd0 = None
    try:
        local = LOCAL_NAME[cfg.get('local', 'same')]
        path = os.path.join(d, local)
        form = cfg.get('pathform', 'str')
        if form in ('rel', 'reldot'):
            # relative output_path: the worker runs its cases one after the other, the cwd is restored below
            cwd0 = os.getcwd()
            os.chdir(d)
            arg = local if form == 'rel' else os.path.join('.', local)
        elif form == 'Path':
            import pathlib
            arg = pathlib.Path(path)
        else:
            arg = path
        if i['prior'] != 'absent':
            with open(path, 'wb') as f:
                f.write(bodies[i['prior']])
        url = 'http://127.0.0.1:%d/%s/data.bin' % (srv.server_address[1], key)
        from phylib.io.datasets import download_file
        import requests
        out = io.StringIO()
        with contextlib.redirect_stdout(out):
            try:
                ret = download_file(url, arg)
                outcome = 'ret'
                retval = 'none' if ret is None else 'path' if str(ret) == str(arg) else 'other'
            except requests.exceptions.HTTPError:
                outcome, retval = 'http', ''
            except RuntimeError as e:
                outcome, retval = ('mismatch' if 'checksum' in str(e) else 'other:RuntimeError'), ''
            except Exception as e:  # noqa
                outcome, retval = 'other:' + type(e).__name__, ''
        if os.path.exists(path):
            got = open(path, 'rb').read()
            tok = -1
            for name, b in bodies.items():
                if got == b:
                    tok = BODY_TOK[name]
        else:
            tok = None
        extra = sorted(x for x in os.listdir(d) if x != local)
        with _LOCK:
            log = list(w['log'])
        return (outcome, retval, tok, ''.join(x if len(x) == 1 else '?' for x in log), extra)
    finally:
        if cwd0 is not None:
            os.chdir(cwd0)
        _WORLDS.pop(key, None)
        shutil.rmtree(d, ignore_errors=True)


# ---- encoding for Coq ------------------------------------------------------------------------------

def _dresp(x):
    return 'DErr' if x == 'E' else '(Body %d)' % BODY_TOK[x]


def _cresp(x):
    return 'CNone' if x == 'none' else '(Sum %d)' % SUM_TOK[x]


def encode(case, obs):
    i = case['inp']
    cin = q.app('InDownload', q.lst(i['data'], _dresp), q.lst(i['sums'], _cresp), _cresp(i['rest']),
                'None' if i['prior'] == 'absent' else '(Some %d)' % BODY_TOK[i['prior']])
    if obs[0] == 'crash':
        return cin, 'ObsCrash'
    outcome, retval, tok, log, extra = obs
    if outcome == 'ret':
        o = {'path': 'RetSkip', 'none': 'RetDone'}.get(retval, 'RetOther')
    elif outcome == 'http':
        o = 'RaiseHttp'
    elif outcome == 'mismatch':
        o = 'RaiseMismatch'
    else:
        o = 'RaiseOther'
    if extra or '?' in log:
        # stray files next to the target or requests to other URLs: not what the model describes
        o = 'RaiseOther' if o.startswith('Raise') else 'RetOther'
    trace = q.lst([{'S': 'EvSum', 'D': 'EvData'}[x] for x in log if x in 'SD'])
    cobs = q.app('Obs', o, q.opt(tok), trace)
    return cin, cobs


def nontrivial(case, obs):
    return obs[0] != 'crash' and case['inp']['data'][:1] not in ([], ['E']) and 'D' in obs[3]


def dist(case, obs):
    i = case['inp']
    out = ['data_len=%d' % len(i['data']), 'prior=' + i['prior'],
           'sums=' + ('const:' + i['rest'] if not i['sums'] else 'varying'),
           'cfg.bodies=' + i['cfg']['bodies'], 'cfg.fmt=' + i['cfg']['fmt'], 'cfg.missing=' + i['cfg']['missing'],
           'cfg.err=%s' % i['cfg']['err'], 'cfg.head=' + i['cfg']['head'],
           'cfg.local=' + i['cfg'].get('local', 'same'), 'cfg.pathform=' + i['cfg'].get('pathform', 'str'),
           'cfg.xfer=' + i['cfg'].get('xfer', 'identity')]
    if 'bad' in i['sums'] or i['rest'] == 'bad':
        out.append('cfg.wrong=' + i['cfg'].get('wrong', 'md5'))
    if obs[0] == 'crash':
        out.append('crash=' + obs[1])
        return out
    out.append('outcome=' + obs[0] + ('/' + obs[1] if obs[1] else ''))
    out.append('data_gets=%d' % obs[3].count('D'))
    out.append('sum_gets=%d' % obs[3].count('S'))
    out.append('head_requests=%d' % obs[3].count('H'))
    out.append('final_file=' + {None: 'absent', -1: 'other', 0: 'good'}.get(obs[2], 'corrupt'))
    return out


def size(case):
    i = case['inp']
    return 10 * (len(i['data']) + len(i['sums'])) + (i['prior'] != 'absent') + (i['cfg'] != DEFAULT_CFG)


def shrink(case):
    i = case['inp']

    def mk(**kw):
        j = dict(i)
        j.update(kw)
        return {'kind': 'download', 'inp': j}
    for k in range(len(i['data'])):
        yield mk(data=i['data'][:k] + i['data'][k + 1:])
    for k in range(len(i['sums'])):
        yield mk(sums=i['sums'][:k] + i['sums'][k + 1:])
    if i['sums']:
        yield mk(sums=[])
    if i['prior'] != 'absent':
        yield mk(prior='absent')
    if i['prior'] in ('C1', 'C2'):
        yield mk(prior='P')
    for k, x in enumerate(i['data']):
        if x in ('C2', 'P'):
            yield mk(data=i['data'][:k] + ['C1'] + i['data'][k + 1:])
    for k, x in enumerate(i['sums']):
        if x in ('c1', 'c2', 'p'):
            yield mk(sums=i['sums'][:k] + ['bad'] + i['sums'][k + 1:])
    if i['rest'] in ('c1', 'c2', 'p'):
        yield mk(rest='bad')
    for xa, xb in (('gzip-all', 'gzip'), ('gzip-chunked', 'gzip'), ('gzip-chunked', 'chunked')):
        if i['cfg'].get('xfer') == xa:
            yield mk(cfg=dict(i['cfg'], xfer=xb))
    for ax, dv in DEFAULT_CFG.items():
        if i['cfg'].get(ax, dv) != dv:
            c = dict(i['cfg'])
            c[ax] = dv
            yield mk(cfg=c)


def repro(case):
    return ("import sys; sys.path[:0] = ['/verif/harness', '/repo']\n"
            "from vt import npshim; npshim.setup_process()\n"
            "from vt.props import c20\n"
            "# (outcome, return value, final file token [0 = good body, None = absent], requests S=md5 D=data H=HEAD, stray files)\n"
            "print(c20.run_case(%r))\n" % (case,))
