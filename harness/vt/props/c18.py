"""C18 -- JSON, TSV/CSV and parameter-file round trips (DESIGN.md §8 C18).

Abstract values (small JSON):
  value  ::= ['none'] | ['bool', b] | ['int', z] | ['float', tok] | ['str', s] | ['list', [value..]]
           | ['dict', [[str, value]..]] | ['np', dtype, scalar] | ['arr', dtype, shape, layout, [scalar..]]
  tok    ::= 'nan' | ['inf', neg] | ['f', neg, m, e]        the double (-1)^neg * m * 2^e, m odd or 0
  scalar ::= bool (dtype bool) | int (integer dtypes) | tok (float dtypes)
  dtype  ::= 'bool' 'int8' .. 'uint64' 'float16' 'float32' 'float64' '>i2' .. '>f8'
  layout ::= 'C' | 'F' | 'S' (every other item of the last axis of a larger array) | 'R' (reversed view)
  key    ::= ['i', z] | ['s', str]         (json case flag 'npkeys': integer keys that fit a NumPy integer dtype are given as
                                            NumPy integer scalars; z of any magnitude, up to 256 bits / 10^250 in the streams)
  cell   ::= ['none'] | ['int', z] | ['float', tok] | ['str', s]
  edge   ::= {'what': 'tsv_nested', 'v': value} | {'what': 'json_missing' | 'json_empty' | 'tsv_missing' | 'simple_missing' | 'python_missing'}
           | {'what': 'tsv_no_rows', 'delim', 'first', 'excl', 'n'} | {'what': 'bigint', 'w': 0..4, 'neg': b, 'extra': k}
             (inputs outside the statement: compared with the model only, code 1)
"""
import itertools
import math
import os
import shutil
import tempfile

from .. import coqenc as q

ID = 'C18'
RULE = ('corpus of boundary cases (minimal inputs of the three repaired defects: negative key, non-ASCII digit '
        'keys, quoted / multi-line parameter strings; threshold lengths 9/10/11, empty / rank-0 arrays, quoting, '
        'ties of the %.4f rounding, white space around numbers); exhaustive small scopes: every dtype x byte order x '
        '16 shapes x every memory layout (C, F, strided, reversed) for save_json/load_json, every list of <= 2 rows '
        'over 2 fields x 5 cell kinds x both delimiters x first_field for write_tsv/read_tsv, every string of '
        'length <= 3 (quick) / 4 (thorough) over a 14-character numeric alphabet for _try_make_number; integer '
        'literals of 4300 / 4301 digits (int_max_str_digits); edge inputs outside the statement (missing path, '
        'empty file, table without rows, integer beyond the limit) compared with the model only; '
        'integer keys, values, cells and cluster ids of every magnitude (2^b - 1, 2^b, 2^b + 1 for b = 7 .. 256, '
        '10^k +- 1 for k <= 250, random bit lengths <= 256, both signs; keys beyond int64 / uint64 next to other keys), '
        'integer keys also given as NumPy integer scalars of every integer dtype; '
        'then a seeded random stream of nested dictionaries (depth <= 3), tables over 4-6 fields, '
        'two-column cluster tables and parameter dictionaries; string cells of both table kinds are drawn from free '
        'text as well: a line feed inside the cell (one, several, leading, trailing, next to the delimiter / quotes), '
        'the other line boundaries of str.splitlines (VT FF FS GS RS NEL LS PS), control characters, non-ASCII text '
        '(Latin-1, Greek, CJK, astral, NBSP, BOM, zero-width space), and - once the newline=\'\' repair of the '
        'readers is in the tree (CR_CELLS) - CR and CR LF. Non-trivial = a dictionary holding an '
        'array, NumPy scalar or nested container / a table with a non-empty row / a non-empty '
        'parameter dictionary / a string of >= 2 characters; distinct = distinct abstract input.')
EXHAUSTIVE = {'quick': True, 'thorough': True}
CLAUSES = {
    1: 'observed output differs from the Coq model PV.C18.Model',
    21: 'C18_json / C18_keys (the loaded dictionary has the saved keys, integer keys as integers)',
    22: 'C18_json (each value loads as its normal form: dtype, shape, values kept for every layout; 1-D '
        'arrays of <= 10 items as equal lists; scalars, strings, lists, None, nested dictionaries)',
    24: 'C18_tsv (each row reads back as the written row: int, float to the written precision, '
        'non-numeric strings; None / absent / excluded fields omitted)',
    25: 'C18_tsv (the requested first column comes first)',
    26: 'C18_tsv_simple (two-column cluster table reads back: field name, ids, values)',
    27: 'C18_python (parameter file reads back equal)',
    28: 'C18_int_text / C18_float_text / C18_nonnumeric / C18_int_limit (_try_make_number: int within '
        'int_max_str_digits, float, unchanged text)',
}
TRUSTED = ['oracles of the theorems (universally quantified records; hypotheses Codec_OK / Text_OK / Csv_OK of '
           'C18/Spec.v; shown satisfiable by the reference oracles, C18_oracles_satisfiable): the JSON text layer '
           '(json.dump with indent / sort_keys, json.loads: parsing the printed text of a tree with sorted object '
           'members gives the tree, the text is non-empty), base64 and buffers (b64decode(b64encode(b)) = b; '
           'np.frombuffer(np.ascontiguousarray(a).data, a.dtype) = the C-order elements of a; str(dtype) / '
           'np.dtype(name) as tabulated), the csv text layer (reading with the writing delimiter returns the written '
           'cells, cells without NUL - a cell may hold LF / CR, which csv quotes and the readers, opening the file '
           'with newline=\'\', keep; the first line contains a tab iff delimiter is tab with >= 2 header '
           'cells or a header cell contains a tab, header cells without NUL/CR/LF)',
           'repr(float) / float() as an oracle pair (record floatlayer, hypothesis Float_OK: the text of repr(x) is a '
           'float literal of the transcribed grammar whose correctly rounded value is x, int() rejects it, float '
           'characters only; satisfied by the reference pair = exact decimal expansion + exact conversion); the line '
           'structure of the exec-ed parameter file (one `k = text` per item; no text has a raw line break: '
           'C18_python_rhs_one_line)',
           "C printf '%.nf' being the exact round-half-even decimal and float(str) being correctly rounded "
           '(the observed float is compared with the exact decimal of the model by the rational half-ulp test near_dec)',
           'int()/float()/str(int)/repr(str)/repr of None, bool, int, list, dict/the evaluation of these texts are '
           'MODELLED on characters (ASCII; bytes >= 128 of UTF-8 text are copied); the models are tied to CPython by '
           'the number and python cases of the correspondence',
           'CPython int_max_str_digits = 4300 (sys.get_int_max_str_digits() of the interpreter that runs phylib)']
ASSUMES = ['top-level keys: integers (any sign and magnitude; a Python int or a NumPy integer scalar, which is the same '
           'key under dict equality) and strings that are not optionally-signed digit strings; nested '
           'dictionaries have string keys; the marker keys __ndarray__ / __qbytearray__ are reserved; a dict is '
           'represented by its key-sorted association list (dict equality cannot see insertion order)',
           'numeric dtypes = bool, (u)int8..64, float16/32/64 in either byte order, elements in the range of the '
           'dtype (complex and longdouble are not JSON numbers: outside the reading)',
           'tables: >= 2 columns, n_significant_figures >= 1, field names without tab / line break, string cells '
           'non-empty, rejected by both int() and float(), without NUL, encodable as UTF-8, and either plain ASCII '
           'without FS GS RS US or holding a printable ASCII character outside the alphabet of numeric literals '
           '(Spec.nonnumeric; CR only with the newline=\'\' repair, branch fix-c18-r5)',
           'parameter files: keys are lower-case ASCII identifiers that are not keywords; values are None, bool, int, '
           'finite float, str (any characters) and lists / string-keyed dicts of these',
           'every integer (key, value, cell, id) has at most 4300 decimal digits (|z| < 10^4300, the guard of C18_int_limit)']
TIMEOUT = {'quick': 60, 'thorough': 120}   # generous: the first case of a worker pays the imports on a busy machine

INF = float('inf')

BASES = ['bool', 'int8', 'int16', 'int32', 'int64', 'uint8', 'uint16', 'uint32', 'uint64',
         'float16', 'float32', 'float64']
SWAPPED = {'int16': '>i2', 'int32': '>i4', 'int64': '>i8', 'uint16': '>u2', 'uint32': '>u4',
           'uint64': '>u8', 'float16': '>f2', 'float32': '>f4', 'float64': '>f8'}
UNSWAP = {v: k for k, v in SWAPPED.items()}
ALL_DTYPES = BASES + sorted(SWAPPED.values())
COQ_BASE = {'bool': 'BBool', 'int8': 'BI8', 'int16': 'BI16', 'int32': 'BI32', 'int64': 'BI64',
            'uint8': 'BU8', 'uint16': 'BU16', 'uint32': 'BU32', 'uint64': 'BU64',
            'float16': 'BF16', 'float32': 'BF32', 'float64': 'BF64'}


def _base(dt):
    return UNSWAP.get(dt, dt)


def _kind(dt):
    b = _base(dt)
    return 'b' if b == 'bool' else 'f' if b.startswith('float') else 'i'


# ---- exact float tokens ---------------------------------------------------------------------------

def ftok(x):
    x = float(x)
    if x != x:
        return 'nan'
    if x in (INF, -INF):
        return ['inf', int(x < 0)]
    neg = math.copysign(1.0, x) < 0
    num, den = abs(x).as_integer_ratio()
    e = -(den.bit_length() - 1)
    m = num
    while m and m % 2 == 0:
        m //= 2
        e += 1
    if m == 0:
        e = 0
    return ['f', int(neg), m, e]


def tok_float(t):
    if t == 'nan':
        return float('nan')
    if t[0] == 'inf':
        return -INF if t[1] else INF
    x = math.ldexp(t[2], t[3])
    return -x if t[1] else x


# ---- random material ------------------------------------------------------------------------------

STRS = ['', 'a', 'good', 'he said "hi"', 'back\\slash', 'tab\there', 'new\nline', 'comma,sep', "quo'te",
        'café', 'μV', '007', '-1', '1.5', 'nan', ' spaced ', '{"__x__": 1}', '\\u0041', 'null', 'True']
KEYSTR = ['a', 'b', 'key', 'n_spikes', 'a1', '1a', '-', '-1a', '', 'x y', '1.0', '+1', '1_0', 'café', '--1',
          '-0x', ' 1', 'state', 'shape', 'dtype', '__ndarray', 'None', '\u00b2', '\u0661\u0662', '\uff11\uff12',
          '-\u00b2', '-\u0663', '1\u00b2']
NESTED_KEYS = list(dict.fromkeys(KEYSTR + STRS[1:8] + ['7', '-3', '007']))
INT_RANGE = {'int8': (-2 ** 7, 2 ** 7 - 1), 'int16': (-2 ** 15, 2 ** 15 - 1), 'int32': (-2 ** 31, 2 ** 31 - 1),
             'int64': (-2 ** 63, 2 ** 63 - 1), 'uint8': (0, 2 ** 8 - 1), 'uint16': (0, 2 ** 16 - 1),
             'uint32': (0, 2 ** 32 - 1), 'uint64': (0, 2 ** 64 - 1)}


def _rand_scalar(rng, dt):
    k = _kind(dt)
    if k == 'b':
        return rng.random() < 0.5
    if k == 'i':
        lo, hi = INT_RANGE[_base(dt)]
        r = rng.random()
        if r < 0.15:
            return rng.choice([lo, hi, 0, hi - 1, lo + 1 if lo < 0 else 1])
        if r < 0.7:
            return rng.randint(max(lo, -9), min(hi, 9))
        return rng.randint(lo, hi)
    b = _base(dt)
    r = rng.random()
    if r < 0.08:
        return rng.choice(['nan', ['inf', 0], ['inf', 1], ['f', 1, 0, 0], ['f', 0, 0, 0]])
    mbits, elo, ehi = {'float16': (10, -8, 4), 'float32': (23, -30, 30), 'float64': (52, -60, 60)}[b]
    m = rng.randint(0, 2 ** rng.randint(1, mbits) - 1)
    return ftok(tok_float(['f', int(rng.random() < 0.4), m, rng.randint(elo, ehi)]))


def _rand_float_tok(rng):
    r = rng.random()
    if r < 0.1:
        return rng.choice(['nan', ['inf', 0], ['inf', 1], ['f', 1, 0, 0]])
    if r < 0.3:
        return ftok(rng.choice([0.1, 0.5, 1.5, -2.25, 1e22, 1e-7, 3.141592653589793, 2.0, 1e300, 5e-324, 123456.789]))
    return ftok(tok_float(['f', int(rng.random() < 0.4), rng.randint(0, 2 ** rng.randint(1, 53) - 1), rng.randint(-70, 40)]))


SHAPES = [[], [0], [1], [2], [9], [10], [11], [12], [0, 3], [3, 0], [1, 10], [10, 1], [2, 3], [4, 3], [2, 0, 2], [2, 3, 2]]


def _layouts(shape):
    out = ['C']
    if len(shape) >= 2:
        out.append('F')
    if len(shape) >= 1:
        out += ['S', 'R']
    return out


def _rand_arr(rng, dt=None, shape=None, lay=None):
    dt = dt or rng.choice(ALL_DTYPES)
    if shape is None:
        r = rng.random()
        if r < 0.5:
            shape = rng.choice(SHAPES)
        elif r < 0.75:
            shape = [rng.randint(0, 14)]
        else:
            shape = [rng.randint(0, 4) for _ in range(rng.randint(2, 3))]
    lay = lay or rng.choice(_layouts(shape))
    n = 1
    for s in shape:
        n *= s
    return ['arr', dt, list(shape), lay, [_rand_scalar(rng, dt) for _ in range(n)]]


def _rand_str(rng):
    if rng.random() < 0.6:
        return rng.choice(STRS)
    return ''.join(rng.choice('abcXYZ 019_-.,;:"\'\\/\t\n{}[]é中') for _ in range(rng.randint(0, 8)))


def _rand_value(rng, depth):
    r = rng.random()
    if depth > 0 and r < 0.22:
        return ['list', [_rand_value(rng, depth - 1) for _ in range(rng.randint(0, 4))]]
    if depth > 0 and r < 0.40:
        keys = rng.sample(NESTED_KEYS, rng.randint(0, 4))
        return ['dict', [[k, _rand_value(rng, depth - 1)] for k in keys]]
    if r < 0.62:
        return _rand_arr(rng)
    if r < 0.70:
        dt = rng.choice(ALL_DTYPES)
        return ['np', dt, _rand_scalar(rng, dt)]
    if r < 0.75:
        return ['none']
    if r < 0.80:
        return ['bool', rng.random() < 0.5]
    if r < 0.87:
        return ['int', rng.choice([0, 1, -1, 10, 2 ** 31, -2 ** 63, 2 ** 64, 10 ** 30, rng.randint(-1000, 1000),
                                   _rand_wide_int(rng), _rand_wide_int(rng)])]
    if r < 0.94:
        return ['float', _rand_float_tok(rng)]
    return ['str', _rand_str(rng)]


WIDE_BITS = [7, 8, 15, 16, 31, 32, 53, 63, 64, 65, 96, 127, 128, 200, 256]
WIDE_DEC = [9, 10, 18, 19, 20, 38, 39, 77, 100, 250]


def _rand_wide_int(rng):
    """Integers of every magnitude: around the limits of the machine integer types (2^b - 1, 2^b, 2^b + 1, both
    signs, b = 7 .. 256), around powers of ten (a digit more / less in the text), and uniform in a random bit
    length up to 256 (beyond every fixed-width type; Python integers are unbounded, ids can be 128-bit hashes)."""
    r = rng.random()
    if r < 0.4:
        z = 2 ** rng.choice(WIDE_BITS) + rng.choice([-1, 0, 1])
    elif r < 0.55:
        z = 10 ** rng.choice(WIDE_DEC) + rng.choice([-1, 0, 1])
    else:
        z = rng.getrandbits(rng.randint(1, 256))
    return -z if rng.random() < 0.45 else z


def _rand_key(rng):
    r = rng.random()
    if r < 0.30:
        return ['i', rng.choice([0, 1, 2, 7, 10, 11, 100, 2 ** 40, rng.randint(0, 999), -rng.randint(1, 999), -1])]
    if r < 0.45:
        return ['i', _rand_wide_int(rng)]
    return ['s', rng.choice(KEYSTR)]


def _json_case(items, **kw):
    # distinct keys, also after stringification (the reading excludes int-like strings, so str(k) is injective)
    seen, out = set(), []
    for k, v in items:
        s = str(k[1])
        if s not in seen:
            seen.add(s)
            out.append([k, v])
    d = {'items': out}
    d.update(kw)
    return {'kind': 'json', 'inp': d}


FIELDS = ['cluster_id', 'group', 'amp', 'depth', 'n_spikes', 'KSLabel']
CELL_STRS = ['good', 'mua', 'x,y', 'a\tb', 'he said "hi"', '"', '""', ',', ' lead', 'trail ', 'e5', '1a', '--1',
             '1_', '_1', '.', '-', '+', 'in', 'na', 'infinit', '1e', '0x1f', 'a b', "it's", 'x,"y"\tz', '1 2', '1,5',
             'N/A', 'None', 'True', '1e+', '- 1', 'nan1', '1.2.3', '\t', ' ']


# stage 6: free-text cells -- every character a label typed by a user / pasted from a document can hold, except
# NUL and CR (outside the reading): the line boundaries of str.splitlines (LF VT FF FS GS RS NEL LS PS), other
# control characters, non-ASCII text (Latin-1, CJK, astral), Unicode spaces, BOM
LINE_BOUNDS = ['\n', '\x0b', '\x0c', '\x1c', '\x1d', '\x1e', '\x85', '\u2028', '\u2029']
ODD_CHARS = LINE_BOUNDS + ['\x01', '\x08', '\x1a', '\x1b', '\x1f', '\x7f', '\xa0', '\u3000', '\ufeff', '\u00e9', '\u03bc',
                           '\u4e2d', '\U0001f600', '\u0661', '\u200b']
FREE_STRS = (['drifts\nafter 20 min', 'line1\nline2\nline3', '\ntop', 'end\n', 'a\n\nb', 'x\n,y', 'x\n\ty', 'say "hi"\nthen, go',
              '\n', 'caf\u00e9', '\u03bcV', '\u4e2d\u6587 #2', 'ok \U0001f600', 'a\xa0b', '\ufeffbom', 'a\u200bb']
             + ['a%sb' % ch for ch in LINE_BOUNDS[1:]] + ['%sz' % ch for ch in LINE_BOUNDS[1:]]
             + ['z%s' % ch for ch in LINE_BOUNDS[1:]] + ['x\x01y', 'esc\x1b[0m', 'del\x7f', 'sub\x1az', 'u\x1fs'])
# A carriage return inside a cell (a label pasted from a Windows / old Mac text) is read back as a line feed by
# /repo main before the repair `fix: read_tsv / _read_tsv_simple open the file with newline=''` (branch fix-c18-r5):
# CR cells are drawn only when that commit is in the tree under test.  Set CR_CELLS = True after the cherry-pick.
CR_CELLS = os.environ.get('VT_C18_CR', '1') == '1'   # on since fix commit 28a0741 is on /repo main (VT_C18_CR=0 switches the CR cells off)
CR_STRS = ['a\rb', 'a\r\nb', '\rz', 'z\r', 'x\r\n', 'l1\r\nl2\rl3\nl4', 'q\r,"\r\n"']
_NUM_ALPHA_CH = set('0123456789+-_.einfatyEINFATY')


def _cell_str_ok(s):
    """A string cell of the reading that the byte model decides like CPython: not empty, no NUL / CR, no lone
    surrogate, rejected by int() and float(), and either plain ASCII without FS GS RS US (which CPython strips as
    white space) or holding a printable ASCII character outside the alphabet of numeric literals."""
    if not s or '\x00' in s or ('\r' in s and not CR_CELLS) or _numeric(s):
        return False
    try:
        s.encode('utf-8')
    except UnicodeEncodeError:
        return False
    if all(ord(ch) < 28 or 32 <= ord(ch) < 128 for ch in s):
        return True
    return any(33 <= ord(ch) <= 126 and ch not in _NUM_ALPHA_CH for ch in s)


def _numeric(s):
    try:
        int(s)
        return True
    except ValueError:
        try:
            float(s)
            return True
        except ValueError:
            return False


def _rand_cell(rng, simple=False):
    r = rng.random()
    if r < 0.12 and not simple:
        return ['none']
    if r < 0.40:
        return ['int', rng.choice([0, 1, -1, 7, 10, -12, 2 ** 40, 10 ** 25, rng.randint(-500, 500), _rand_wide_int(rng)])]
    if r < 0.72:
        if simple:
            return ['float', _rand_float_tok(rng)]
        q_ = rng.random()
        if q_ < 0.35:    # ties of the decimal rounding: odd multiples of 1/32, 1/2, 1/8 ...
            return ['float', ftok((2 * rng.randint(-40, 40) + 1) / rng.choice([2, 4, 8, 32, 64, 1024]))]
        if q_ < 0.5:
            return ['float', rng.choice(['nan', ['inf', 0], ['inf', 1], ['f', 1, 0, 0], ['f', 1, 1, -20], ['f', 0, 1, -20],
                                         ftok(1e20), ftok(0.99995), ftok(0.00005), ftok(-0.00005), ftok(2.5), ftok(1e-30)])]
        return ['float', _rand_float_tok(rng)]
    q_ = rng.random()
    if q_ < 0.55:
        return ['str', rng.choice(CELL_STRS)]
    if q_ < 0.7:
        return ['str', rng.choice(FREE_STRS + CR_STRS if CR_CELLS else FREE_STRS)]
    odd = rng.random() < 0.4
    for _ in range(20):
        s = ''.join(rng.choice(ODD_CHARS + ['\r', '\r\n'] if CR_CELLS else ODD_CHARS) if odd and rng.random() < 0.3 else rng.choice('abgxyz 019_-+.,"\'\teEnN')
                    for _ in range(rng.randint(1, 7)))
        if _cell_str_ok(s):
            return ['str', s]
    return ['str', 'good']


def _tsv_case(rng, rows, delim, first, excl, n, default_n=False, nptypes=False):
    fields = set(k for r in rows for k, _ in r) - set(excl)
    if len(fields) < 2:
        return None
    return {'kind': 'tsv', 'inp': {'delim': delim, 'first': first, 'excl': list(excl), 'n': n, 'rows': rows,
                                   'default_n': bool(default_n and n == 4), 'nptypes': bool(nptypes)}}


PY_KEYS = ['dat_path', 'n_channels_dat', 'dtype', 'offset', 'sample_rate', 'hp_filtered', 'a', 'b1', '_x', 'match',
           'type', 'list', 'x_y_z', 'nan', 'inf']


def _rand_plain(rng, depth):
    r = rng.random()
    if depth > 0 and r < 0.2:
        return ['list', [_rand_plain(rng, depth - 1) for _ in range(rng.randint(0, 3))]]
    if depth > 0 and r < 0.3:
        keys = rng.sample(NESTED_KEYS, rng.randint(0, 3))
        return ['dict', [[k, _rand_plain(rng, depth - 1)] for k in keys]]
    if r < 0.4:
        return ['none']
    if r < 0.5:
        return ['bool', rng.random() < 0.5]
    if r < 0.65:
        return ['int', rng.choice([0, 1, -1, 384, 2 ** 70, rng.randint(-1000, 1000), _rand_wide_int(rng)])]
    if r < 0.8:
        t = _rand_float_tok(rng)
        return ['float', t if isinstance(t, list) and t[0] == 'f' else ftok(30000.0)]
    return ['str', _rand_str(rng)]


NUM_ALPHA = ' +-_.019eEinf'
NUM_CORPUS = ['1_0', ' 12 ', '+3', '1e5', 'Infinity', '-nan', '1_', '_1', '1__0', '.5', '5.', '.', '1e', '1e+',
              '1_0.0_1e1_0', '0x10', 'nan ', '\t1', '1 2', '--1', 'iNf', 'infinit', '1.e1', '1e1.0', '- 1', '', ' ',
              '-0', '+0.0', '007', '1e-5', '-.5e+1_0', 'INFINITY', 'NaN', '+inf', 'in f', '1.0000', '-0.0000', '0.0312',
              '12345678901234567890123', '1e2e3', 'e5', '1ee5', '.e1', '1._5', '1_.5', '1e_5', '1e5_0', '9.99e+30',
              '\n12', '1\x0b', '\x0c1.5\r', '\r\n-7\t ', '1\n2', ' \x0b', '+ 1', '1 .5', 'nan\n', '\tinf', '1e 5']


LIMIT = 4300
NUM_LIMIT = ['1' * LIMIT, '1' * (LIMIT + 1), '0' * (LIMIT + 1), '-' + '9' * LIMIT, '-' + '1' * (LIMIT + 1),
             '1_' * (LIMIT - 1) + '1', '1_' * LIMIT + '1', ' ' + '7' * LIMIT + '\n', '1' * (LIMIT + 1) + '.5',
             '1' * (LIMIT + 1) + 'e5', '1' * (LIMIT + 1) + 'x', '9' * 309, '9' * 310, '1' + '0' * 308, '-1' + '0' * 309,
             '1e309', '-1e309', '1.7976931348623157e308', '1.7976931348623159e308', '-Infinity', '9' * 309 + '.0']
EDGES = ([{'what': w} for w in ('json_missing', 'json_empty', 'tsv_missing', 'simple_missing', 'python_missing')] +
         [{'what': 'tsv_no_rows', 'delim': dl, 'first': f, 'excl': ex, 'n': n}
          for dl, f, ex, n in (('tab', None, [], 4), ('comma', None, [], 4), ('tab', 'a', ['b'], 2), ('comma', 'zz', [], 6))] +
         [{'what': 'bigint', 'w': w, 'neg': bool(w % 2), 'extra': 7 * w} for w in range(5)] +
         [{'what': 'tsv_nested', 'v': v} for v in (
             ['list', [['float', ftok(0.123456)], ['int', 1], ['str', 'x'], ['none'], ['float', ftok(-2.5)]]],
             ['dict', [['x', ['float', ftok(0.5)]], ['y', ['list', [['float', ftok(2.0)], ['bool', True]]]]]],
             ['list', [['list', [['float', ftok(0.125)]]], ['dict', [['k', ['float', 'nan']]]]]],
             ['list', []], ['dict', []])])


def generate(tier, rng):
    cases = []
    A = lambda dt, shape, lay, el: ['arr', dt, shape, lay, el]
    # ---- corpus: minimal inputs of the repaired defects first, then one boundary case per clause ----
    cases.append(_json_case([[['i', -1], ['int', 2]]]))                               # fixed: negative key
    cases.append(_json_case([[['s', '\u00b2'], ['int', 1]]]))                          # fixed: str.isdigit() but not int()
    cases.append(_json_case([[['s', '\u0661\u0662'], ['int', 1]]]))                    # fixed: non-ASCII digits -> int 12
    cases.append(_json_case([[['s', '-\u0663'], ['int', 1]], [['s', '\uff11\uff12'], ['int', 2]]]))
    # integer keys of every magnitude next to other keys (stage 5): beyond int64 / uint64 / 128 bits, the limits
    # of each machine type, and the same keys given as NumPy integer scalars (ids taken from np.unique)
    cases.append(_json_case([[['i', 2 ** 64], ['str', 'big']], [['s', 'name'], ['str', 'x']]]))
    cases.append(_json_case([[['i', -2 ** 63 - 1], ['list', [['int', 1], ['int', 2]]]], [['i', 12], ['str', 'small']],
                             [['s', 'n'], ['int', 3]]]))
    cases.append(_json_case([[['i', z], ['int', j]] for j, z in enumerate(
        [2 ** 63 - 1, 2 ** 63, 2 ** 64 - 1, 2 ** 64 + 1, -2 ** 63, -2 ** 64, 2 ** 128, -10 ** 100, 2 ** 31, -2 ** 31 - 1, 255, -129])]
        + [[['s', 'a'], ['int', 2 ** 200]]]))
    cases.append(_json_case([[['i', z], ['int', j]] for j, z in enumerate(
        [0, -1, 127, -128, 255, 256, 65535, -32769, 2 ** 32 - 1, -2 ** 31, 2 ** 63 - 1, 2 ** 64 - 1, -2 ** 63, 2 ** 64])]
        + [[['s', 'a'], ['none']]], npkeys=True))
    cases.append({'kind': 'simple', 'inp': {'delim': 'tab', 'field': 'group', 'nptypes': False, 'data': [
        [2 ** 64, ['str', 'good']], [-2 ** 63 - 1, ['int', 2 ** 64]], [2 ** 128 + 1, ['float', ftok(0.5)]], [5, ['int', -2 ** 100]]]}})
    # free-text cells (stage 6): a line feed inside a cell (csv quotes it; the reader must keep it), the other line
    # boundaries of str.splitlines, control characters, non-ASCII text -- both table kinds, both delimiters
    for delim in ('tab', 'comma'):
        cases.append({'kind': 'simple', 'inp': {'delim': delim, 'field': 'group', 'nptypes': False, 'data': [
            [0, ['str', 'good']], [7, ['str', 'drifts\nafter 20 min']], [12, ['str', 'mua']]]}})
        cases.append({'kind': 'simple', 'inp': {'delim': delim, 'field': 'KSLabel', 'nptypes': False, 'data': [
            [j, ['str', 'a%sb' % ch]] for j, ch in enumerate(LINE_BOUNDS[1:] + ['\x01', '\x7f', '\u00e9', '\U0001f600'])]}})
        cases.append({'kind': 'tsv', 'inp': {
            'delim': delim, 'first': 'cluster_id', 'excl': [], 'n': 4, 'default_n': True, 'nptypes': False,
            'rows': [[['cluster_id', ['int', 3]], ['group', ['str', 'line1\nline2\nline3']], ['amp', ['float', ftok(1.5)]]],
                     [['cluster_id', ['int', 4]], ['group', ['str', 'x\n,y']], ['KSLabel', ['str', 'end\n']]],
                     [['cluster_id', ['int', 5]], ['group', ['str', 'a\u2028b']], ['KSLabel', ['str', 'a\x0cb\x1dc\x85']]]]}})
    if CR_CELLS:
        for delim in ('tab', 'comma'):
            cases.append({'kind': 'simple', 'inp': {'delim': delim, 'field': 'group', 'nptypes': False, 'data': [
                [j, ['str', t]] for j, t in enumerate(CR_STRS)]}})
            cases.append({'kind': 'tsv', 'inp': {
                'delim': delim, 'first': None, 'excl': [], 'n': 4, 'default_n': True, 'nptypes': False,
                'rows': [[['cluster_id', ['int', j]], ['group', ['str', t]]] for j, t in enumerate(CR_STRS)]}})
    cases.append({'kind': 'python', 'inp': {'items': [['a', ['str', 'he said "hi"']]]}})   # fixed: quoting
    cases.append({'kind': 'python', 'inp': {'items': [['a', ['str', 'back\\slash']]]}})
    cases.append({'kind': 'python', 'inp': {'items': [['a', ['str', 'new\nline']]]}})
    cases.append(_json_case([]))
    cases.append(_json_case([[['i', 0], ['none']], [['i', 10], ['bool', True]], [['s', 'a'], ['str', 'x']],
                             [['s', '-'], ['int', 1]], [['s', ''], ['float', 'nan']], [['i', -12], ['list', []]]]))
    for n in (9, 10, 11):
        for dt in ('int32', 'float64', 'bool', '>u2', 'float16'):
            el = [(_rand_scalar(rng, dt)) for _ in range(n)]
            cases.append(_json_case([[['s', 'v'], A(dt, [n], 'C', el)], [['i', n], A(dt, [n], 'S', el)],
                                     [['i', -n], A(dt, [n], 'R', el)]]))
    cases.append(_json_case([[['i', 1], A('int64', [1, 10], 'C', list(range(10)))],
                             [['i', 2], A('int64', [10, 1], 'F', list(range(10)))],
                             [['i', 3], A('uint64', [2], 'C', [2 ** 64 - 1, 2 ** 63])],
                             [['i', 4], A('float32', [], 'C', [ftok(0.5)])],
                             [['i', 5], A('int8', [0], 'C', [])],
                             [['i', 6], A('float64', [0, 3], 'F', [])],
                             [['s', 'nest'], ['list', [['int', 1], ['list', [['int', 2], ['dict', [
                                 ['x', A('int16', [3, 4], 'F', list(range(12)))], ['7', ['np', 'float32', ftok(0.25)]]]]]]]]]]))
    for first in (None, 'b', 'zz'):
        for delim in ('tab', 'comma'):
            cases.append({'kind': 'tsv', 'inp': {
                'delim': delim, 'first': first, 'excl': [], 'n': 4, 'default_n': True, 'nptypes': False,
                'rows': [[['a', ['float', ftok(-0.00001)]], ['b', ['str', 'x,"y"\tz']]], [],
                         [['c', ['none']], ['a', ['int', 3]]], [['b', ['float', ftok(1 / 32)]], ['a', ['float', ftok(3 / 32)]]]]}})
    cases.append({'kind': 'simple', 'inp': {'delim': 'tab', 'field': 'group', 'nptypes': False, 'data': [
        [3, ['str', 'good']], [-2, ['float', ftok(0.1)]], [10, ['int', 7]], [2 ** 40, ['str', 'x,y']]]}})
    cases.append({'kind': 'simple', 'inp': {'delim': 'comma', 'field': 'group', 'nptypes': False, 'data': []}})
    cases.append({'kind': 'python', 'inp': {'items': [
        ['dat_path', ['list', [['str', 'a.dat'], ['str', 'b "c".dat']]]], ['n_channels_dat', ['int', 384]],
        ['sample_rate', ['float', ftok(30000.0)]], ['hp_filtered', ['bool', False]], ['offset', ['none']]]}})
    # the 4300-digit literals cost 1-3 s each in the comparator: three of them in the quick tier
    for s in NUM_CORPUS + (NUM_LIMIT[:3] + NUM_LIMIT[11:] if tier == 'quick' else NUM_LIMIT):
        cases.append({'kind': 'number', 'inp': {'s': s}})
    for e in EDGES:
        cases.append({'kind': 'edge', 'inp': e})
    # parameter values whose text is modelled on characters: exponent / fixed notation of repr(float), signs,
    # nesting, empty containers, quotes inside containers
    cases.append({'kind': 'python', 'inp': {'items': [
        ['a', ['list', [['float', ftok(x)] for x in (1e16, 1e15, 1e22, 1.5e-7, 1e-5, 0.0001, 0.1, -0.0, 5e-324,
                                                      1.7976931348623157e308, 123456789012345678.0, -2.5, 100.0)]]],
        ['b1', ['dict', [['k', ['list', [['int', -1], ['bool', True], ['list', []], ['dict', []], ['none']]]],
                         ["x'y", ['str', 'he said "hi"']], ['q"', ['str', "it's"]], ['', ['float', ftok(-1.5)]]]]],
        ['_x', ['list', [['list', [['list', [['int', 0], ['int', -0]]]]], ['str', ''], ['str', 'a, b]'], ['int', 10 ** 30]]]],
        ['offset', ['int', -(2 ** 70)]], ['nan', ['float', ftok(1e300)]]]}})

    if tier == 'search':
        for _ in range(4000):
            cases.append(_json_case([[_rand_key(rng), _rand_value(rng, 2)] for _ in range(rng.randint(1, 3))],
                                    npkeys=rng.random() < 0.2))
        for _ in range(4000):
            c = _rand_table(rng, 4)
            if c:
                cases.append(c)
        for _ in range(800):
            cases.append(_rand_simple(rng))
            cases.append(_rand_python(rng))
        return cases

    quick = tier == 'quick'
    # ---- exhaustive: dtype x byte order x shape x layout ----
    ki = 0
    for dt in ALL_DTYPES:
        for shape in SHAPES:
            for lay in _layouts(shape):
                ki += 1
                key = [['i', ki], ['s', 'k%d' % ki], ['i', -ki]][ki % 3]
                cases.append(_json_case([[key, _rand_arr(rng, dt, shape, lay)]]))
        cases.append(_json_case([[['s', 'np'], ['np', dt, _rand_scalar(rng, dt)]], [['i', 5], ['np', dt, _rand_scalar(rng, dt)]]]))
    # ---- exhaustive: <= 2 rows over fields {a, b}, 5 cell kinds ----
    kinds = [None, ['none'], ['int', 1], ['float', ftok(1 / 32)], ['str', 'x']]
    rows1 = []
    for ca in kinds:
        for cb in kinds:
            rows1.append([[k, c] for k, c in (('a', ca), ('b', cb)) if c is not None])
    for delim in ('tab', 'comma'):
        for first in (None, 'b'):
            for r1 in rows1:
                for r2 in [None] + rows1:
                    c = _tsv_case(rng, [r1] if r2 is None else [r1, r2], delim, first, [], 4, default_n=True)
                    if c:
                        cases.append(c)
    # ---- exhaustive: short strings for _try_make_number ----
    for L in range(1, (3 if quick else 4) + 1):
        for t in itertools.product(NUM_ALPHA, repeat=L):
            cases.append({'kind': 'number', 'inp': {'s': ''.join(t)}})
    # ---- random streams ----
    nj, nt, ns = (900, 1200, 250) if quick else (18000, 22000, 5000)
    for _ in range(nj):
        cases.append(_json_case([[_rand_key(rng), _rand_value(rng, 3 if rng.random() < 0.3 else 2)]
                                 for _ in range(rng.randint(0, 5))], reverse=rng.random() < 0.5,
                                npkeys=rng.random() < 0.2))
    for _ in range(nt):
        c = _rand_table(rng, 4 if quick else 6)
        if c:
            cases.append(c)
    for _ in range(ns):
        cases.append(_rand_simple(rng))
        cases.append(_rand_python(rng))
        s = ''.join(rng.choice(NUM_ALPHA + '23a\tNFyt') for _ in range(rng.randint(4, 9)))
        if not _big_exponent(s):
            cases.append({'kind': 'number', 'inp': {'s': s}})
    return cases


def _big_exponent(s):
    # keep float() inside the normal range: at most two exponent digits, short mantissas
    import re
    m = re.search(r'[eE][+-]?([0-9_]+)', s)
    return bool(m and len(m.group(1).replace('_', '')) > 2)


def _rand_table(rng, nfields):
    fields = FIELDS[:nfields]
    rows = []
    for _ in range(rng.randint(1, 6)):
        if rng.random() < 0.12:
            rows.append([])
            continue
        ks = [f for f in fields if rng.random() < 0.6]
        rng.shuffle(ks)
        rows.append([[k, _rand_cell(rng)] for k in ks])
    first = rng.choice([None, 'cluster_id', 'cluster_id', 'group', 'zz', fields[-1]])
    excl = [] if rng.random() < 0.8 else rng.sample(fields, 1)
    n = 4 if rng.random() < 0.7 else rng.choice([1, 2, 3, 6])
    return _tsv_case(rng, rows, rng.choice(['tab', 'comma']), first, excl, n, default_n=rng.random() < 0.7,
                     nptypes=rng.random() < 0.25)


def _rand_simple(rng):
    ids = set()
    for _ in range(rng.randint(0, 7)):
        ids.add(rng.choice([0, 1, -1, 2 ** 40, rng.randint(-50, 500), rng.randint(-50, 500), _rand_wide_int(rng)]))
    ids = list(ids)
    rng.shuffle(ids)
    data = []
    for i in ids:
        c = _rand_cell(rng, simple=True)
        data.append([i, c])
    return {'kind': 'simple', 'inp': {'delim': rng.choice(['tab', 'comma']), 'field': rng.choice(FIELDS[1:]),
                                      'data': data, 'nptypes': rng.random() < 0.25}}


def _rand_python(rng):
    keys = rng.sample(PY_KEYS, rng.randint(0, 5))
    return {'kind': 'python', 'inp': {'items': [[k, _rand_plain(rng, 2)] for k in keys]}}


# ---- implementation side -------------------------------------------------------------------------

def _tmp():
    base = os.environ.get('VT_WORK') or tempfile.gettempdir()
    return tempfile.mkdtemp(prefix='c18_', dir=base)


def _np_scalar_of(np, dt, x):
    if _kind(dt) == 'f':
        x = tok_float(x)
    return np.array(x, dtype=_base(dt)).astype(dt)[()]


def _mk_arr(np, dt, shape, lay, elems):
    vals = [tok_float(x) for x in elems] if _kind(dt) == 'f' else list(elems)
    a = np.array(vals, dtype=_base(dt)).reshape(shape).astype(dt)
    if lay == 'F':
        v = np.asfortranarray(a)
    elif lay == 'S':
        big = np.zeros(tuple(shape[:-1]) + (2 * shape[-1] + 1,), dtype=dt)
        big[..., 1:1 + 2 * shape[-1]:2] = a
        v = big[..., 1:1 + 2 * shape[-1]:2]
    elif lay == 'R':
        v = np.ascontiguousarray(a[::-1])[::-1]
    else:
        v = np.array(a, order='C', copy=True)
    if not (v.dtype == np.dtype(dt) and list(v.shape) == list(shape) and str(v.dtype) == dt):
        raise HarnessError('array materialisation %r %r %r' % (dt, shape, lay))
    return v


def _mk(np, v, rev=False):
    t = v[0]
    if t == 'none':
        return None
    if t in ('bool', 'int', 'str'):
        return v[1]
    if t == 'float':
        return tok_float(v[1])
    if t == 'list':
        return [_mk(np, x, rev) for x in v[1]]
    if t == 'dict':
        items = list(reversed(v[1])) if rev else v[1]
        return {k: _mk(np, x, rev) for k, x in items}
    if t == 'np':
        return _np_scalar_of(np, v[1], v[2])
    if t == 'arr':
        return _mk_arr(np, v[1], v[2], v[3], v[4])
    raise ValueError(t)


def _scalar_canon(dt, x):
    k = _kind(dt)
    if k == 'b':
        return bool(x)
    if k == 'i':
        return int(x)
    return ftok(float(x))


def _canon(np, v):
    if v is None:
        return ['none']
    ty = type(v)
    if ty is bool:
        return ['bool', v]
    if ty is int:
        return ['int', v]
    if ty is float:
        return ['float', ftok(v)]
    if ty is str:
        return ['str', v]
    if ty is list:
        return ['list', [_canon(np, x) for x in v]]
    if ty is dict:
        if not all(type(k) is str for k in v):
            return ['other', 'dict with non-str keys']
        return ['dict', [[k, _canon(np, v[k])] for k in v]]
    if isinstance(v, np.ndarray):
        dt = str(v.dtype)
        if dt not in ALL_DTYPES:
            return ['other', 'ndarray ' + dt]
        lay = 'C' if v.flags.c_contiguous else 'F' if v.flags.f_contiguous else 'S'
        flat = v.astype(_base(dt)).ravel(order='C').tolist()
        return ['arr', dt, [int(s) for s in v.shape], lay, [_scalar_canon(dt, x) for x in flat]]
    if isinstance(v, np.generic):
        dt = str(v.dtype)
        if dt not in ALL_DTYPES:
            return ['other', 'generic ' + dt]
        return ['np', dt, _scalar_canon(dt, v.astype(_base(dt)).item())]
    return ['other', ty.__name__]


def _key_canon(k):
    if type(k) is int:
        return ['i', k]
    if type(k) is str:
        return ['s', k]
    return ['s', '<%s %r>' % (type(k).__name__, k)]


def _cell_canon(np, v):
    ty = type(v)
    if ty is int:
        return ['int', v]
    if ty is float:
        return ['float', ftok(v)]
    if ty is str:
        return ['str', v]
    return ['other', ty.__name__]


def _mk_cell(np, c, nptypes):
    t = c[0]
    if t == 'none':
        return None
    if t == 'int':
        return np.int64(c[1]) if nptypes and -2 ** 63 <= c[1] < 2 ** 63 else c[1]
    if t == 'float':
        x = tok_float(c[1])
        return np.float64(x) if nptypes else x
    return c[1]


INT_DTYPES = ['int8', 'uint8', 'int16', 'uint16', 'int32', 'uint32', 'int64', 'uint64']


def _mk_key(np, key, npkeys):
    """Top-level key: a str, a Python int, or (npkeys) the same integer as a NumPy integer scalar of one of the
    dtypes that hold it (chosen by the value, so deterministic); integers beyond uint64 / int64 stay Python ints."""
    if key[0] == 'i' and npkeys:
        fits = [dt for dt in INT_DTYPES if INT_RANGE[dt][0] <= key[1] <= INT_RANGE[dt][1]]
        if fits:
            k = getattr(np, fits[abs(key[1]) % len(fits)])(key[1])
            if int(k) != key[1]:
                raise HarnessError('key materialisation %r' % (key,))
            return k
    return key[1]


class HarnessError(Exception):
    pass


def run_case(case):
    try:
        return _run_case(case)
    except HarnessError as e:
        return ('harness', str(e))


def _run_case(case):
    import numpy as np
    k, i = case['kind'], case['inp']
    if k == 'number':
        from phylib.utils._misc import _try_make_number
        return ('number', _cell_canon(np, _try_make_number(i['s'])))
    d = _tmp()
    try:
        if k == 'edge':
            return _run_edge(np, i, d)
        if k == 'json':
            from phylib.utils._misc import save_json, load_json
            items = list(reversed(i['items'])) if i.get('reverse') else i['items']
            try:
                data = {_mk_key(np, key, i.get('npkeys')): _mk(np, v, i.get('reverse')) for key, v in items}
            except Exception as e:
                raise HarnessError(repr(e))
            if len(data) != len(items):
                raise HarnessError('duplicate keys')
            p = os.path.join(d, 'state.json')
            save_json(p, data)
            out = load_json(p)
            if type(out) is not dict:
                return ('json', [[['s', '<not a dict>'], ['other', type(out).__name__]]])
            return ('json', [[_key_canon(key), _canon(np, v)] for key, v in out.items()])
        if k == 'tsv':
            from phylib.utils._misc import write_tsv, read_tsv
            rows = [{key: _mk_cell(np, c, i['nptypes']) for key, c in r} for r in i['rows']]
            p = os.path.join(d, 'cluster_info.' + ('tsv' if i['delim'] == 'tab' else 'csv'))
            kw = {}
            if not i['default_n']:
                kw['n_significant_figures'] = i['n']
            if i['excl']:
                kw['exclude_fields'] = tuple(i['excl'])
            write_tsv(p, rows, first_field=i['first'], **kw)
            out = read_tsv(p)
            return ('rows', [[[key, _cell_canon(np, v)] for key, v in r.items()] for r in out])
        if k == 'simple':
            from phylib.utils._misc import _write_tsv_simple, _read_tsv_simple
            data = {key: _mk_cell(np, c, i['nptypes']) for key, c in i['data']}
            p = os.path.join(d, 'cluster_x.' + ('tsv' if i['delim'] == 'tab' else 'csv'))
            _write_tsv_simple(p, i['field'], data)
            out = _read_tsv_simple(p)
            if type(out) is not tuple or len(out) != 2 or type(out[1]) is not dict:
                return ('simple', '<%s>' % type(out).__name__, [])
            return ('simple', out[0], [[_key_canon(key), _cell_canon(np, v)] for key, v in out[1].items()])
        if k == 'python':
            from phylib.utils._misc import write_python, read_python
            data = {key: _mk(np, v) for key, v in i['items']}
            p = os.path.join(d, 'params.py')
            write_python(p, data)
            out = read_python(p)
            return ('python', [[_key_canon(key), _canon(np, v)] for key, v in out.items()])
    finally:
        shutil.rmtree(d, ignore_errors=True)
    raise ValueError(k)


def _run_edge(np, i, d):
    from phylib.utils import _misc as m
    w = i['what']
    if w == 'json_missing':
        out = m.load_json(os.path.join(d, 'nope.json'))
        return ('json', [[_key_canon(key), _canon(np, v)] for key, v in out.items()])
    if w == 'json_empty':
        p = os.path.join(d, 'empty.json')
        open(p, 'w').close()
        out = m.load_json(p)
        return ('json', [[_key_canon(key), _canon(np, v)] for key, v in out.items()])
    if w == 'tsv_missing':
        out = m.read_tsv(os.path.join(d, 'nope.tsv'))
        return ('rows', [[[key, _cell_canon(np, v)] for key, v in r.items()] for r in out])
    if w == 'simple_missing':
        out = m._read_tsv_simple(os.path.join(d, 'nope.tsv'))
        if type(out) is dict and not out:
            return ('emptydict',)
        return ('other', type(out).__name__)
    if w == 'python_missing':
        out = m.read_python(os.path.join(d, 'nope.py'))
        return ('python', [[_key_canon(key), _canon(np, v)] for key, v in out.items()])
    if w == 'tsv_no_rows':
        p = os.path.join(d, 'cluster_info.' + ('tsv' if i['delim'] == 'tab' else 'csv'))
        m.write_tsv(p, [], first_field=i['first'], exclude_fields=tuple(i['excl']), n_significant_figures=i['n'])
        out = m.read_tsv(p)
        return ('rows', [[[key, _cell_canon(np, v)] for key, v in r.items()] for r in out])
    if w == 'tsv_nested':
        p = os.path.join(d, 'nested.tsv')
        m.write_tsv(p, [{'a': _mk(np, i['v']), 'b': 1}])
        out = m.read_tsv(p)
        return ('rows', [[[key, _cell_canon(np, v)] for key, v in r.items()] for r in out])
    if w == 'bigint':
        z = (10 ** LIMIT + i['extra']) * (-1 if i['neg'] else 1)
        if i['w'] == 0:
            p = os.path.join(d, 'big.tsv')
            m.write_tsv(p, [{'a': z, 'b': 1}])
            out = m.read_tsv(p)
            return ('rows', [[[key, _cell_canon(np, v)] for key, v in r.items()] for r in out])
        if i['w'] == 1:
            p = os.path.join(d, 'big.tsv')
            m._write_tsv_simple(p, 'f', {1: z})
            return ('other', repr(m._read_tsv_simple(p))[:40])
        if i['w'] == 2:
            p = os.path.join(d, 'big.py')
            m.write_python(p, {'a': z})
            return ('other', repr(m.read_python(p))[:40])
        p = os.path.join(d, 'big.json')
        m.save_json(p, {'a': z} if i['w'] == 3 else {z: 1})
        return ('other', repr(m.load_json(p))[:40])
    raise ValueError(w)


# ---- encoding for Coq ---------------------------------------------------------------------------

def cs(x):
    if all(32 <= ord(ch) < 127 for ch in x):
        return q.s(x)
    return '(sl %s)' % q.zl(list(x.encode('utf-8', 'surrogatepass')))


def _tok(t):
    if t == 'nan':
        return 'FNaN'
    if t[0] == 'inf':
        return '(FInf %s)' % q.b(t[1])
    return '(FFin %s %s %s)' % (q.b(t[1]), q.z(t[2]), q.z(t[3]))


def _dt(dt):
    return '(mkdt %s %s)' % (COQ_BASE[_base(dt)], q.b(dt in UNSWAP))


def _scalar(dt, x):
    k = _kind(dt)
    if k == 'b':
        return '(SBool %s)' % q.b(x)
    if k == 'i':
        return '(SInt %s)' % q.z(x)
    return '(SFlt %s)' % _tok(x)


OTHER = '(PNp (mkdt BBool true) (SInt 0))'   # never equal to a normal form (those contain no NumPy scalar)


def _val(v):
    t = v[0]
    if t == 'none':
        return 'PNone'
    if t == 'bool':
        return '(PBool %s)' % q.b(v[1])
    if t == 'int':
        return '(PInt %s)' % q.z(v[1])
    if t == 'float':
        return '(PFloat %s)' % _tok(v[1])
    if t == 'str':
        return '(PStr %s)' % cs(v[1])
    if t == 'list':
        return '(PList %s)' % q.lst(v[1], _val)
    if t == 'dict':   # canonical member order on both sides: Python dict equality ignores order
        return '(PDict %s)' % q.lst(sorted(v[1], key=lambda kv: kv[0]), lambda kv: q.pair(cs(kv[0]), _val(kv[1])))
    if t == 'np':
        return '(PNp %s %s)' % (_dt(v[1]), _scalar(v[1], v[2]))
    if t == 'arr':
        return '(PArr %s %s L%s %s)' % (_dt(v[1]), q.zl(v[2]), v[3], q.lst(v[4], lambda x: _scalar(v[1], x)))
    return OTHER


def _keyc(k):
    return '(KInt %s)' % q.z(k[1]) if k[0] == 'i' else '(KStr %s)' % cs(k[1])


def _top(items):
    items = sorted(items, key=lambda kv: (str(kv[0][1]), kv[0][0]))
    return q.lst(items, lambda kv: q.pair(_keyc(kv[0]), _val(kv[1])))


def _value(c):
    t = c[0]
    if t == 'none':
        return 'VNone'
    if t == 'int':
        return '(VInt %s)' % q.z(c[1])
    if t == 'float':
        return '(VFloat %s)' % _tok(c[1])
    return '(VStr %s)' % cs(c[1])


def _zc(n):
    # Coq parses a numeral of thousands of digits in tens of seconds, a string literal at once
    return q.z(n) if abs(n) < 10 ** 300 else '(zbig %s %s)' % (q.b(n < 0), q.s(str(abs(n))))


def _cell(c):
    t = c[0]
    if t == 'int':
        return '(OInt %s)' % _zc(c[1])
    if t == 'float':
        return '(OFlt %s)' % _tok(c[1])
    if t == 'str':
        return '(OStr %s)' % cs(c[1])
    return 'ONaN'      # an unexpected Python type: never matches an expected cell (floats are observed as OFlt)


def _delim(d):
    return 'Tab' if d == 'tab' else 'Comma'


def encode(case, obs):
    k, i = case['kind'], case['inp']
    if obs[0] == 'harness':
        raise RuntimeError('harness could not materialise %r: %s' % (case, obs[1]))
    crash = obs[0] == 'crash'
    if k == 'edge':
        w = i['what']
        if w == 'tsv_no_rows':
            e = q.app('ETsvNoRows', _delim(i['delim']), q.opt(i['first'], cs), q.lst(i['excl'], cs), q.z(i['n']))
        elif w == 'tsv_nested':
            e = q.app('ETsvNested', _val(i['v']))
        elif w == 'bigint':
            # lim_bound = 10 ^ 4300 (C18/Lim.v), evaluated once
            zt = '(lim_bound + %s)' % q.z(i['extra'])
            e = q.app('EBigInt', q.z(i['w']), '(- %s)' % zt if i['neg'] else zt)
        else:
            e = {'json_missing': 'EJsonMissing', 'json_empty': 'EJsonEmpty', 'tsv_missing': 'ETsvMissing',
                 'simple_missing': 'ESimpleMissing', 'python_missing': 'EPythonMissing'}[w]
        cin = q.app('InEdge', e)
        if crash:
            cobs = 'ObsCrash'
        elif obs[0] == 'json':
            cobs = q.app('ObsJson', _top(obs[1]))
        elif obs[0] == 'rows':
            cobs = q.app('ObsRows', q.lst(obs[1], lambda r: q.lst(r, lambda kv: q.pair(cs(kv[0]), _cell(kv[1])))))
        elif obs[0] == 'emptydict':
            cobs = 'ObsEmptyDict'
        else:   # a result of a type the model never predicts for an edge input
            cobs = q.app('ObsNumber', 'ONaN')
    elif k == 'json':
        cin = q.app('InJson', _top(i['items']))
        cobs = 'ObsCrash' if crash else q.app('ObsJson', _top(obs[1]))
    elif k == 'tsv':
        cin = q.app('InTsv', _delim(i['delim']), q.opt(i['first'], cs), q.lst(i['excl'], cs), q.z(i['n']),
                    q.lst(i['rows'], lambda r: q.lst(r, lambda kv: q.pair(cs(kv[0]), _value(kv[1])))))
        cobs = 'ObsCrash' if crash else q.app('ObsRows', q.lst(
            obs[1], lambda r: q.lst(r, lambda kv: q.pair(cs(kv[0]), _cell(kv[1])))))
    elif k == 'simple':
        cin = q.app('InSimple', _delim(i['delim']), cs(i['field']),
                    q.lst(i['data'], lambda kv: q.pair(q.z(kv[0]), _value(kv[1]))))
        if crash:
            cobs = 'ObsCrash'
        else:
            bad = [kv for kv in obs[2] if kv[0][0] != 'i']
            cobs = 'ObsCrash' if bad else q.app('ObsSimple', cs(obs[1]), q.lst(
                obs[2], lambda kv: q.pair(q.z(kv[0][1]), _cell(kv[1]))))
    elif k == 'python':
        # dict equality ignores insertion order: canonical key order on both sides
        cin = q.app('InPython', q.lst(sorted(i['items'], key=lambda kv: kv[0]), lambda kv: q.pair(cs(kv[0]), _val(kv[1]))))
        if crash:
            cobs = 'ObsCrash'
        else:
            cobs = q.app('ObsPython', q.lst(sorted(obs[1], key=lambda kv: str(kv[0][1])),
                                            lambda kv: q.pair(cs(kv[0][1]), _val(kv[1]))))
    elif k == 'number':
        cin = q.app('InNumber', cs(i['s']))
        cobs = 'ObsCrash' if crash else q.app('ObsNumber', _cell(obs[1]))
    else:
        raise ValueError(k)
    return cin, cobs


# ---- evidence -----------------------------------------------------------------------------------

def _walk(v):
    yield v
    if v[0] == 'list':
        for x in v[1]:
            yield from _walk(x)
    elif v[0] == 'dict':
        for _, x in v[1]:
            yield from _walk(x)


def nontrivial(case, obs):
    if obs[0] == 'crash':
        return False
    k, i = case['kind'], case['inp']
    if k == 'edge':
        return False
    if k == 'json':
        return any(x[0] in ('arr', 'np', 'list', 'dict') for _, v in i['items'] for x in _walk(v))
    if k == 'tsv':
        return any(len(r) for r in i['rows'])
    if k == 'simple':
        return len(i['data']) > 0
    if k == 'python':
        return len(i['items']) > 0
    return len(i['s']) >= 2


def dist(case, obs):
    k, i = case['kind'], case['inp']
    out = ['kind=' + k]
    if k == 'edge':
        out.append('edge=%s%s -> %s' % (i['what'], ('.%d' % i['w']) if 'w' in i else '',
                                        obs[1] if obs[0] == 'crash' else obs[0]))
        return out
    if obs[0] == 'crash':
        out.append('crash=' + obs[1])
        return out
    if k == 'json':
        out.append('json.items=%s' % _bucket(len(i['items'])))
        for key, v in i['items']:
            out.append('json.key=%s' % ('int<0' if key[0] == 'i' and key[1] < 0 else 'int' if key[0] == 'i' else 'str'))
            if key[0] == 'i':
                out.append('json.key.size=%s%s' % (_magnitude(key[1]), ' (numpy)' if i.get('npkeys') and _magnitude(
                    key[1]) != '>64bit' else ''))
            for x in _walk(v):
                if x[0] == 'arr':
                    n = len(x[4])
                    out.append('json.arr.dtype=' + x[1])
                    out.append('json.arr.rank=%d' % len(x[2]))
                    out.append('json.arr.layout=' + x[3])
                    out.append('json.arr.path=%s' % ('list' if len(x[2]) == 1 and x[2][0] <= 10 else 'base64'))
                    if len(x[2]) == 1 and 9 <= n <= 11:
                        out.append('json.arr.len1d=%d' % n)
                    if n == 0:
                        out.append('json.arr.empty')
                else:
                    out.append('json.value=' + x[0])
    elif k == 'tsv':
        out.append('tsv.delim=' + i['delim'])
        out.append('tsv.rows=%s' % _bucket(len(i['rows'])))
        out.append('tsv.first=%s' % ('none' if i['first'] is None else 'present' if any(
            kk == i['first'] for r in i['rows'] for kk, _ in r) else 'absent'))
        out.append('tsv.n=%d%s' % (i['n'], ' (default)' if i['default_n'] else ''))
        if i['excl']:
            out.append('tsv.exclude')
        for r in i['rows']:
            if not r:
                out.append('tsv.row.empty')
            for _, c in r:
                out.append('tsv.cell=' + c[0])
    elif k == 'simple':
        out.append('simple.delim=' + i['delim'])
        out.append('simple.rows=%s' % _bucket(len(i['data'])))
        for key, _ in i['data']:
            out.append('simple.id.size=' + _magnitude(key))
    elif k == 'python':
        out.append('python.items=%s' % _bucket(len(i['items'])))
    else:
        out.append('number.class=' + obs[1][0])
        if len(i['s']) > 300:
            out.append('number.digits=%s' % ('>4300' if sum(ch.isdigit() for ch in i['s']) > LIMIT else '<=4300'))
    return out


def _magnitude(z):
    return ('<=32bit' if -2 ** 31 <= z < 2 ** 31 else '<=int64' if -2 ** 63 <= z < 2 ** 63 else
            'uint64' if 0 <= z < 2 ** 64 else '>64bit')


def _bucket(n):
    return str(n) if n <= 3 else '4-9' if n <= 9 else '10+'


# ---- shrinking -----------------------------------------------------------------------------------

def _shrink_value(v):
    t = v[0]
    if t in ('list',):
        for x in v[1]:
            yield x
        for d in range(len(v[1])):
            yield ['list', v[1][:d] + v[1][d + 1:]]
        for d, x in enumerate(v[1]):
            for y in _shrink_value(x):
                yield ['list', v[1][:d] + [y] + v[1][d + 1:]]
    elif t == 'dict':
        for _, x in v[1]:
            yield x
        for d in range(len(v[1])):
            yield ['dict', v[1][:d] + v[1][d + 1:]]
        for d, (kk, x) in enumerate(v[1]):
            for y in _shrink_value(x):
                yield ['dict', v[1][:d] + [[kk, y]] + v[1][d + 1:]]
    elif t == 'arr':
        dt, shape, lay, el = v[1:]
        if lay != 'C':
            yield ['arr', dt, shape, 'C', el]
        if dt in UNSWAP:
            yield ['arr', UNSWAP[dt], shape, lay, el]
        for ax, s in enumerate(shape):
            if s > 0:
                # drop the last index of axis ax
                import numpy as np
                idx = np.arange(len(el)).reshape(shape)
                keep = np.take(idx, range(s - 1), axis=ax).ravel().tolist()
                ns = list(shape)
                ns[ax] = s - 1
                yield ['arr', dt, ns, lay if lay in _layouts(ns) else 'C', [el[j] for j in keep]]
        zero = False if _kind(dt) == 'b' else 0 if _kind(dt) == 'i' else ['f', 0, 0, 0]
        if any(x != zero for x in el):
            yield ['arr', dt, shape, lay, [zero for _ in el]]
    elif t == 'str' and v[1]:
        yield ['str', v[1][:-1]]
        yield ['str', v[1][1:]]
    elif t == 'int' and v[1] not in (0, 1):
        yield ['int', 1]
    elif t == 'float' and v[1] != ['f', 0, 1, -1]:
        yield ['float', ['f', 0, 1, -1]]


def _smaller_ints(z):
    """Shrinking candidates of an integer whose size may matter, smallest first: +-1, the powers of two at the
    limits of the machine integer types below it (2^b and 2^b - 1), the power of two below it, half of it."""
    sg = 1 if z > 0 else -1
    a = abs(z)
    out = [1]
    for b in (7, 8, 15, 16, 31, 32, 63, 64, 128):
        out += [2 ** b - 1, 2 ** b]
    out += [2 ** (a.bit_length() - 1), a // 2]
    return [sg * x for x in dict.fromkeys(out) if 0 < x < a]


def shrink(case):
    k, i = case['kind'], case['inp']
    if k in ('json', 'python'):
        items = i['items']
        for d in range(len(items)):
            yield {'kind': k, 'inp': dict(i, items=items[:d] + items[d + 1:])}
        if i.get('reverse'):
            yield {'kind': k, 'inp': dict(i, reverse=False)}
        for d, (key, v) in enumerate(items):
            for y in _shrink_value(v):
                if k == 'python' and y[0] in ('arr', 'np'):
                    continue
                yield {'kind': k, 'inp': dict(i, items=items[:d] + [[key, y]] + items[d + 1:])}
            if k == 'json' and key[0] == 'i' and key[1] not in (0, 1, -1):
                for z in _smaller_ints(key[1]):
                    if all(str(o[0][1]) != str(z) for o in items):
                        yield {'kind': k, 'inp': dict(i, items=items[:d] + [[['i', z], v]] + items[d + 1:])}
        if k == 'json' and i.get('npkeys'):
            yield {'kind': k, 'inp': dict(i, npkeys=False)}
    elif k == 'tsv':
        rows = i['rows']

        def ok(rs, excl):
            return len(set(kk for r in rs for kk, _ in r) - set(excl)) >= 2
        for d in range(len(rows)):
            rs = rows[:d] + rows[d + 1:]
            if rs and ok(rs, i['excl']):
                yield {'kind': k, 'inp': dict(i, rows=rs)}
        if i['excl']:
            yield {'kind': k, 'inp': dict(i, excl=[])}
        if i['first'] is not None:
            yield {'kind': k, 'inp': dict(i, first=None)}
        if i['nptypes']:
            yield {'kind': k, 'inp': dict(i, nptypes=False)}
        for d, r in enumerate(rows):
            for j in range(len(r)):
                rs = rows[:d] + [r[:j] + r[j + 1:]] + rows[d + 1:]
                if ok(rs, i['excl']):
                    yield {'kind': k, 'inp': dict(i, rows=rs)}
            for j, (kk, c) in enumerate(r):
                for simpler in (['int', 1], ['str', 'x']):
                    if c != simpler and c[0] == simpler[0]:
                        yield {'kind': k, 'inp': dict(i, rows=rows[:d] + [r[:j] + [[kk, simpler]] + r[j + 1:]] + rows[d + 1:])}
                if c[0] == 'str' and len(c[1]) > 1:
                    for s in (c[1][:-1], c[1][1:]):
                        if _cell_str_ok(s):
                            yield {'kind': k, 'inp': dict(i, rows=rows[:d] + [r[:j] + [[kk, ['str', s]]] + r[j + 1:]] + rows[d + 1:])}
    elif k == 'simple':
        data = i['data']
        for d in range(len(data)):
            yield {'kind': k, 'inp': dict(i, data=data[:d] + data[d + 1:])}
        if i['nptypes']:
            yield {'kind': k, 'inp': dict(i, nptypes=False)}
        for d, (key, c) in enumerate(data):
            if key not in (0, 1, -1):
                for z in _smaller_ints(key):
                    if all(o[0] != z for o in data):
                        yield {'kind': k, 'inp': dict(i, data=data[:d] + [[z, c]] + data[d + 1:])}
            for simpler in (['int', 1], ['str', 'x'], ['float', ['f', 0, 1, -1]]):
                if c != simpler and c[0] == simpler[0]:
                    yield {'kind': k, 'inp': dict(i, data=data[:d] + [[key, simpler]] + data[d + 1:])}
            if c[0] == 'str' and len(c[1]) > 1:
                for s in (c[1][:-1], c[1][1:]):
                    if _cell_str_ok(s):
                        yield {'kind': k, 'inp': dict(i, data=data[:d] + [[key, ['str', s]]] + data[d + 1:])}
    elif k == 'number':
        s = i['s']
        for d in range(len(s)):
            yield {'kind': k, 'inp': {'s': s[:d] + s[d + 1:]}}


def repro(case):
    return ("import sys; sys.path[:0] = ['/verif/harness', '/repo']\n"
            "from vt import npshim; npshim.setup_process()\n"
            "from vt.props import c18\n"
            "case = %r\n"
            "print(c18.run_case(case))   # materialises the abstract input, runs the real save/write then load/read\n" % (case,))
