"""C14 -- exported ALF values equal the physical quantities they name (DESIGN.md section 8 C14)."""
import copy
import os
import shutil
import tempfile

from .. import coqenc as q
from .. import datasets as D
from .. import datasets_c09 as G
from .. import datasets_c14 as X

ID = 'C14'
RULE = ('generated source directories converted by the real EphysAlfCreator: (a) single directories in the exact regime of '
        'C09 (integer templates / inverse whitening matrix / amplitudes / positions / features) with 2..14 channels (fewer '
        'and more than n_closest_channels = 12), geometries with L1-distance ties (column, square, staggered, grid), probe '
        'tables absent / constant / Merger-like with 2 or 3 probes and shuffled channel order / arbitrary, permuted channel '
        'maps inside wider raw files, curated (emptied ids below and above n_templates) or not (unused template at the start / '
        'in the middle / at the end), features full / subset / none; (b) merged '
        'datasets produced by running the real Merger on 1..4 probe directories of unequal channel counts with permuted '
        'channel maps (then the real exporter), optionally with a pc_features.npy added to the merged directory; (c) single '
        'uncurated directories with full features and MORE than 50 000 spikes (get_depths\' batch size; quick: one of '
        '50 009..50 048 spikes, thorough: 50 001, 99 999, 100 000, 100 001.., 150 003) repeating a period of 4..8 spikes, whose '
        'spikes.amps / spikes.depths are judged entry j against the one-period model at j mod k (C14_depths_periodic, '
        'C14_spike_amps_periodic); (d) stage 5: convert(force=False | True) on every kind of dataset and, for merged datasets, '
        'the merged channel_map.npy stored 1-D or as an (n, 1) column; single directories with a two-shank channel_shanks.npy; '
        'curated directories in which a cluster stems from 2..3 arbitrary templates (any ids, dominant template anywhere in '
        'the group, count ties) whose channel neighbourhoods differ (13..16 channels on one shank, or two shanks): the loaded '
        'cluster waveforms are judged against PV.C08.Model.load composed with the exporter model (clause 28). '
        '(e) stage 6: curated single directories with MORE THAN 256 templates (257..330; products template id x number of '
        'clusters beyond 2^16) whose spike_templates file is uint16 / int32 / uint32 / int64, curated by splits, renumbering and '
        'two-template merges; histories: 1..2 earlier conversions in the same process on the same loaded model - on the SAME '
        'EphysAlfCreator object or on one of their own - with other unit factors / labels / force, each into a fresh directory, '
        'before the judged conversion (single, merged and merge-case datasets). '
        'Corpus first (the stage-6 and stage-5 forced instances, then the three-probe maps [2,0,1] [1,3,0,2] [0,1], narrow probes, 12/13/14 channels), then axis '
        'products, then seeded random. Non-trivial = the conversion ran and wrote every value file; distinct = distinct '
        'abstract input.')
EXHAUSTIVE = {'quick': False, 'thorough': False}
CLAUSES = {
    1: 'a determined exported value differs from the Coq model PV.C14.Model.export_with (exact rationals; float64 within 2^-48, float32 within 2^-23 relative)',
    20: 'the conversion (or the merge / load before it) raised on a well-formed dataset',
    21: 'C14_waveforms: templates.waveforms / clusters.waveforms = unwhitened x amplitude rescaling x unit factor on the listed channels',
    22: 'C14_channels: listed channels = nearest channels of the peak channel\'s probe by L1 distance, peak channel first',
    23: 'C14_amp_units: spikes.amps, templates.amps, clusters.amps carry the unit factor',
    24: 'C14_cluster_depths: clusters.depths = depth of the peak channel, NaN for ids without spikes (curated or not); clusters.channels',
    25: 'C14_spike_depths: spikes.depths = feature-weighted depths, or the cluster depth without a full feature store',
    26: 'C14_durations: clusters.peakToTrough = peak-to-trough time in ms on the peak channel, NaN for ids without spikes (curated or not)',
    27: 'C14_rawind: channels.rawInd restricted to probe k = probe k\'s original channel map (merged datasets of any number of probes)',
    28: 'C14_C08_cluster_waveform: the cluster waveforms the exporter reads (loaded sparse_clusters; source of clusters.waveforms / '
        'channels / depths / peakToTrough / amps) = the template for a one-template cluster, zeros for an empty id, else the '
        'spike-count weighted mean of the stored templates on the channels of the dominant template (PV.C08.Model.load composed in)',
}
TRUSTED = ['np.load/np.save, the TemplateModel loader (C04) and, for merged datasets, the Merger (C11/C12): '
           'the arrays of the loaded model are snapshotted before convert() and are the inputs of the Coq model; since stage 5 the loaded '
           'cluster waveforms / n_clusters / nan_idx (get_merge_map, get_cluster_mean_waveforms, cluster_waveforms) are no longer trusted '
           'but judged against PV.C08.Model.load on the same snapshot (clause 28; n_closest_channels = 12, integer means)',
           'np.matmul / np.bincount / np.unique / np.argmax / np.argsort (a sorting permutation; ties undetermined) / fancy indexing as documented',
           'observed floats are converted to exact rationals: float64 files within 2^-48, float32 files within 2^-23 relative of the exact model value, NaN exactly NaN',
           'datasets of more than 50 000 spikes: the harness (datasets_c14.snapshot) checks with NumPy that the loaded per-spike arrays '
           'are the first period repeated and that the amplitudes are constant per template; the Coq model is evaluated on that period']
ASSUMES = ['dense templates, amplitudes.npy present, feature store with pc_feature_ind.npy; no clusters.channels.npy in the source (C13\'s regime)',
           'exact regime: integer stored values (|template| < 2^24), non-negative channel positions, positive finite factor and rate',
           'no array axis of length 1 in the source (phylib squeezes what it loads)',
           'probe tables that are not what a merge writes (arbitrary labels) are judged against the model in Z only, with a signed channel map']
TIMEOUT = {'quick': 60, 'thorough': 90}
MATCHERS = {}


def _case(inp):
    return {'kind': 'big' if inp.get('big_n') else 'merged' if inp['merged'] else 'single', 'inp': inp}


def generate(tier, rng):
    cases = []
    # ---- corpus -------------------------------------------------------------------------------------------
    # (0) stage 5, forced instances of the new axes, first: a merged dataset of three probes exported with
    # convert(force=True) / with the merged channel_map.npy stored as an (n, 1) column; a curated 16-channel column in
    # which templates 3 and 5 (5 dominant: id != rank in the group) are merged; the same on two shanks
    # (00) stage 6, forced instances first: ONE creator used for two conversions with different unit factors / labels (single,
    # curated by one split; merged of two probes); 300 templates in a uint16 spike_templates file, half of the spikes of
    # template 250 split into the new cluster 300 (products template id x number of clusters beyond 2^16)
    cases.append(_case(X.with_history(rng, X.gen_single(rng, nt=3, nspk=6, st=[0, 1, 2, 2, 1, 0], sc=[0, 1, 2, 3, 1, 0], curated=True,
                                                        features='none', nc=4, table='none', label='volts', factor=0.5, shanks=False),
                                      hist=[{'label': 'raw', 'factor': 1.0, 'force': False, 'same_creator': True}])))
    cases.append(_case(X.with_history(rng, X.gen_merged(rng, k=2, ncs=[3, 4], factor=2.5, label=''),
                                      hist=[{'label': 'probe00', 'factor': 2.0, 'force': True, 'same_creator': True},
                                            {'label': '', 'factor': 4.0, 'force': False, 'same_creator': False}])))
    st300 = [250, 250, 250, 250] + [t for t in range(218, 300, 9)] + [0, 1, 299, 299]
    cases.append(_case(X.gen_many(rng, nt=300, st=st300, sc=[300, 300] + st300[2:], id_dtype='uint16', nc=3, features='none')))
    cases.append(_case(X.gen_many(rng, id_dtype='uint16')))
    cases.append(_case(X.gen_merged(rng, k=3, ncs=[4, 5, 3], cms=[[2, 0, 5, 1], [3, 6, 0, 2, 1], [1, 4, 0]], force=True, cm_col=False)))
    cases.append(_case(X.gen_merged(rng, k=3, ncs=[3, 4, 2], cms=[[2, 0, 1], [1, 3, 0, 2], [0, 1]], force=False, cm_col=True)))
    cases.append(_case(X.gen_merge_case(rng, nt=6, group=[3, 5], dominant=5, extra_spikes=2, new_id=6, split=0.0, nc=16,
                                        geometry='column', shanks=False, table='none', features='none')))
    cases.append(_case(X.gen_merge_case(rng, nt=4, group=[1, 2, 3], dominant=3, extra_spikes=3, new_id=4, split=0.0, nc=6,
                                        shanks=True, table='none')))
    # (a) the repaired defect: three probes, maps [2,0,1] [1,3,0,2] [0,1] (DESIGN.md section 9), all channel-map dtypes
    for dt in ('int32', 'uint32', 'int64'):
        cases.append(_case(X.gen_merged(rng, k=3, ncs=[3, 4, 2], cms=[[2, 0, 1], [1, 3, 0, 2], [0, 1]], cm_dtype=dt)))
    cases.append(_case(X.gen_merged(rng, k=4, ncs=[2, 5, 3, 4])))
    cases.append(_case(X.gen_merged(rng, k=4, ncs=[3, 2, 2, 6], cm_dtype='uint32')))
    cases.append(_case(X.gen_merged(rng, k=3, ncs=[2, 2, 2], sorted_cm=True, extra=0)))      # identity maps: offsets = width - 1
    cases.append(_case(X.gen_merged(rng, k=3, ncs=[4, 3, 5], extra=3)))
    # (b) probes narrower than the exported width; more than 12 channels in all
    cases.append(_case(X.gen_merged(rng, k=2, ncs=[3, 6])))
    cases.append(_case(X.gen_merged(rng, k=4, ncs=[5, 5, 4, 3], nspk=3)))                      # 17 channels > 12
    cases.append(_case(X.gen_merged(rng, k=3, ncs=[6, 6, 6], nspk=3, nt=2)))                   # 18 channels
    cases.append(_case(X.gen_merged(rng, k=1, ncs=[4])))
    cases.append(_case(X.gen_merged(rng, k=3, ncs=[6, 6, 5], geometry='long', nspk=3, nt=2)))     # long shanks side by side
    cases.append(_case(X.gen_merged(rng, k=2, ncs=[6, 6], geometry='long')))
    cases.append(_case(X.gen_merged(rng, k=2, ncs=[3, 4], mfeatures=True, curated=False)))
    cases.append(_case(X.gen_merged(rng, k=3, ncs=[3, 2, 4], mfeatures=True, curated=True)))
    # (c) single directories: one boundary case per clause / constant
    for nc in (11, 12, 13, 14):
        cases.append(_case(X.gen_single(rng, nc=nc, table='none', geometry='column')))
    cases.append(_case(X.gen_single(rng, nc=14, table='like2', geometry='stagger')))
    cases.append(_case(X.gen_single(rng, nc=13, table='like3', geometry='square', cm_dtype='uint32')))
    for o in [dict(curated=True, empty='none', features='full'), dict(curated=True, empty='end', features='none'),
              dict(curated=False, empty='end', features='subset'), dict(curated=False, empty='start', features='full', vanish=1.0),
              dict(curated=True, features='subset'), dict(ties=True, geometry='column', nc=6), dict(ties=True, geometry='square', nc=8),
              dict(zero_template=True), dict(neg_amp=True), dict(table='random', nc=5), dict(table='const', nc=4, cm_dtype='uint32'),
              dict(table='like3', nc=6, cm_dtype='uint32'), dict(table='like2', nc=5, label='probe00', factor=2.5)]:
        cases.append(_case(X.gen_single(rng, **o)))
    # (d) nan_idx pass (fix-c14b): ids without spikes must be NaN in clusters.depths / clusters.peakToTrough whether or not the
    # dataset is curated.  Uncurated with an unused template at the START / in the MIDDLE / at the END / at both ends / two at
    # the end / all but one; with and without a spike_clusters file equal to spike_templates (given st + sc)
    for emp in ('start', 'middle', 'end', 'ends', 'tail2', 'most', 'none'):
        cases.append(_case(X.gen_single(rng, curated=False, empty=emp, nt=4, nspk=6, features=rng.choice(['full', 'subset', 'none']),
                                        nc=rng.choice([3, 4, 5]))))
    cases.append(_case(X.gen_single(rng, curated=False, nt=4, nspk=5, st=[0, 1, 3, 0, 1], sc=None, features='none', nc=4)))
    cases.append(_case(X.gen_single(rng, curated=False, nt=4, nspk=4, st=[1, 3, 3, 1], sc=[1, 3, 3, 1], features='full', nc=3)))
    cases.append(_case(X.gen_single(rng, curated=False, nt=5, nspk=3, st=[2, 2, 2], sc=None, features='subset', nc=5)))
    for emp in ('start', 'middle', 'end'):
        cases.append(_case(X.gen_merged(rng, k=2, ncs=[3, 4], curated=False, empty=emp, nt=3, nspk=5)))
    cases.append(_case(X.gen_merged(rng, k=3, ncs=[2, 3, 2], curated=False, empty='end', nt=3, nspk=4, mfeatures=True)))
    # curated, emptied ids BELOW and ABOVE n_templates (merge 0+1 -> 3, split 3 -> 5 / 6 or 5 / 7, id 4 never used, template 2 kept)
    cases.append(_case(X.gen_single(rng, curated=True, nt=3, nspk=4, st=[0, 1, 2, 2], sc=[5, 6, 2, 2], features='none', nc=4)))
    cases.append(_case(X.gen_single(rng, curated=True, nt=3, nspk=5, st=[0, 1, 2, 2, 0], sc=[5, 5, 7, 2, 5], features='full', nc=3)))
    cases.append(_case(X.gen_single(rng, curated=True, nt=4, nspk=6, st=[0, 1, 2, 3, 2, 3], sc=[6, 6, 6, 6, 6, 6], features='subset', nc=5)))
    cases.append(_case(X.gen_single(rng, curated=True, nt=2, nspk=4, st=[0, 0, 1, 1], sc=[1, 1, 4, 6], features='none', nc=3)))
    # (e) the batch loop of get_depths (50 000 spikes per batch) as seen in the exported spikes.depths: periodic single
    # directories with full features and MORE than 50 000 spikes (not a multiple of the batch size: a trailing partial
    # batch; an exact multiple; one spike more than a batch), everything else tiny.  spikes.amps / spikes.depths are
    # judged entry j against the model of one period at j mod k (Corr.v, InAlfBig).
    for n in {'quick': (50008 + rng.randint(1, 40),), 'thorough': (50001, 99999, 100000, 100001 + rng.randint(0, 40), 150003),
              'search': (50001,)}[tier]:
        cases.append(_case(X.gen_big(rng, n, **({'reps': 4} if tier == 'quick' else {}))))      # quick: period 8
    # ---- axis products ------------------------------------------------------------------------------------
    n_axis, n_single, n_merged = {'quick': (2, 80, 80), 'thorough': (10, 2500, 2500), 'search': (2, 150, 150)}[tier]
    # stage 5: curated merges of arbitrary templates with distinct channel neighbourhoods (> 12 channels / two shanks)
    for _ in range({'quick': 24, 'thorough': 600, 'search': 60}[tier]):
        cases.append(_case(X.gen_merge_case(rng)))
    # stage 6: id magnitudes (more than 256 templates, every id dtype) and histories of conversions on one model / creator
    for _ in range({'quick': 6, 'thorough': 100, 'search': 12}[tier]):
        cases.append(_case(X.gen_many(rng)))
    for _ in range({'quick': 10, 'thorough': 300, 'search': 20}[tier]):
        cases.append(_case(X.with_history(rng, X.gen_single(rng))))
        cases.append(_case(X.with_history(rng, X.gen_merged(rng))))
    for _ in range({'quick': 4, 'thorough': 100, 'search': 8}[tier]):
        cases.append(_case(X.with_history(rng, X.gen_merge_case(rng))))
    for force in (False, True):
        for col in (False, True):
            for k in (2, 3, 4):
                cases.append(_case(X.gen_merged(rng, k=k, force=force, cm_col=col)))
    for _ in range(n_axis):
        for k in (1, 2, 3, 4):
            for dt in ('int32', 'uint32'):
                cases.append(_case(X.gen_merged(rng, k=k, cm_dtype=dt)))
        for table in ('none', 'const', 'like2', 'like3', 'random'):
            for geometry in ('column', 'square'):
                cases.append(_case(X.gen_single(rng, table=table, geometry=geometry)))
        for cur in (False, True):
            for fk in ('full', 'subset', 'none'):
                for f in (1.0, 2.5):
                    cases.append(_case(X.gen_single(rng, curated=cur, features=fk, factor=f, nc=rng.choice([3, 4, 5]))))
    for _ in range(n_single):
        cases.append(_case(X.gen_single(rng)))
    for _ in range(n_merged):
        cases.append(_case(X.gen_merged(rng)))
    return cases


# ---- implementation side ---------------------------------------------------------------------------------

def run_case(case):
    from phylib.io.alf import EphysAlfCreator
    inp = case['inp']
    base = tempfile.mkdtemp(prefix='c14_', dir=os.environ.get('VT_WORK') or None)
    try:
        m = X.build_model(inp, base)
        snap = X.snapshot(m, inp['probes'][0]['n_spikes'] if inp.get('big_n') else None)
        out = os.path.join(base, 'alf')
        try:
            creator = EphysAlfCreator(m)
            # stage 6: the conversions made before the judged one on the same loaded model (and, mostly, on the same
            # creator object), each into a fresh directory of its own
            for j, h in enumerate(inp.get('history') or []):
                c0 = creator if h.get('same_creator', True) else EphysAlfCreator(m)
                m0 = c0.convert(os.path.join(base, 'alf_h%d' % j), label=h['label'], ampfactor=float(h['factor']),
                                **({'force': True} if h.get('force') else {}))
                if m0 is not None:
                    m0.close()
            m2 = creator.convert(out, label=inp['label'], ampfactor=float(inp['factor']),
                                 **({'force': True} if inp.get('force') else {}))
            if m2 is not None:
                m2.close()
        except Exception as e:  # noqa: the conversion raised: an observable
            import traceback
            fr = traceback.extract_tb(e.__traceback__)[-1]
            m.close()
            return ('raised', snap, '%s: %s @ %s:%d' % (type(e).__name__, str(e)[:120], os.path.basename(fr.filename), fr.lineno))
        vals = X.read_values(out, inp['label'])
        m.close()
        return ('ok', snap, vals)
    finally:
        shutil.rmtree(base, ignore_errors=True)


# ---- encoding -------------------------------------------------------------------------------------------

def _z(t):
    """exact integer of a token (the regime is integer-valued stored arrays)"""
    if isinstance(t, (list, tuple)) and len(t) == 3 and t[0] == 'n':
        _, m_, e = t
        if e >= 0:
            return q.z(m_ * 2 ** e)
    raise ValueError('C14 regime: non-integer stored value %r (generator bug)' % (t,))


def _zl(l):
    return q.lst(l, _z)


def _zll(l):
    return q.lst(l, _zl)


def _zlll(l):
    return q.lst(l, _zll)


def _tk(t):
    return D.coq_tok(tuple(t) if isinstance(t, list) else t)


def _tl(l, size=400):
    """long lists are written as concat [[..]; [..]] (Coq's list notation overflows the stack on 50 000 items)"""
    if len(l) <= size:
        return q.lst(l, _tk)
    return '(List.concat %s)' % q.lst([l[j:j + size] for j in range(0, len(l), size)], lambda c: q.lst(c, _tk))


def _tll(l):
    return q.lst(l, _tl)


def _tlll(l):
    return q.lst(l, _tll)


def encode(case, obs):
    if obs[0] == 'crash':
        return 'InBad', 'ObsCrash'
    inp = case['inp']
    _, s, v = obs
    if s['tcols'] or s['amps'] is None:
        raise ValueError('C14 regime: sparse templates / no amplitudes generated')
    feat = 'None'
    if s['feat'] is not None:
        if s['feat']['cols'] is None:
            raise ValueError('C14 regime: feature store without pc_feature_ind generated')
        feat = '(Some (%s, %s))' % (_zlll(s['feat']['data']), q.zll(s['feat']['cols']))
    x = '(mk_alf_in %s %s %s %s %s %s %s %s %s %s %s %s %s %s)' % (
        _zlll(s['tdata']), _zlll(s['cdata']), _zll(s['wmi']), q.zl(s['st']), q.zl(s['sc']), _zl(s['amps']),
        q.z(s['nt']), q.z(s['ncl']), q.zl(s['probes']), _zll(s['pos']), q.zl(s['cmap']), feat, q.z(s['nspikes']),
        q.z(s['nclosest']))
    orig = 'None'
    if inp['merged']:
        orig = '(Some %s)' % q.zll([p['channel_map'] for p in inp['probes']])
    if inp.get('big_n'):
        if not s.get('periodic'):
            raise ValueError('C14 regime: the tiled dataset did not load as a periodic one')
        cin = '(InAlfBig %s %s %s %s %s)' % (x, _tk(D.tok(float(inp['factor']))), _tk(s['rate']), q.zl(s['nan_idx']), q.z(s['n']))
    else:
        cin = '(InAlfL %s %s %s %s %s %s)' % (x, _tk(D.tok(float(inp['factor']))), _tk(s['rate']), orig, q.zl(s['nan_idx']),
                                              q.zl(s['shanks']))
    if obs[0] == 'raised' or any(v[k] is None for k in X.VALUE_FILES):
        return cin, 'ObsCrash'
    cobs = '(ObsAlf (mk_alf_obs %s %s %s %s %s %s %s %s %s %s %s %s))' % (
        _tlll(v['templates.waveforms']), q.zll(v['templates.waveformsChannels']),
        _tlll(v['clusters.waveforms']), q.zll(v['clusters.waveformsChannels']),
        _tl(v['spikes.amps']), _tl(v['templates.amps']), _tl(v['clusters.amps']), q.zl(v['clusters.channels']),
        _tl(v['clusters.peakToTrough']), _tl(v['clusters.depths']), _tl(v['spikes.depths']), q.zl(v['channels.rawInd']))
    return cin, cobs


def nontrivial(case, obs):
    return obs[0] == 'ok' and all(obs[2][k] is not None for k in X.VALUE_FILES)


def dist(case, obs):
    inp = case['inp']
    o = inp['opts']
    out = ['kind=%s' % case['kind'], 'label=%s' % (inp['label'] or '-'), 'factor=%s' % inp['factor'],
           'cm_dtype=%s' % inp['render']['cm_dtype'], 'force=%s' % bool(inp.get('force'))]
    h = inp.get('history') or []
    out.append('history=%d' % len(h))
    if h:
        out += ['history.same_creator=%s' % any(x.get('same_creator', True) for x in h),
                'history.other_factor=%s' % any(x['factor'] != inp['factor'] for x in h),
                'history.other_label=%s' % any(x['label'] != inp['label'] for x in h)]
    out += ['id_dtype=%s' % inp['render']['id_dtype'], 'templates=%s' % ('>256' if inp['probes'][0]['n_templates'] > 256 else '<=256')]
    if inp['merged']:
        out.append('merged.channel_map_column=%s' % bool(inp.get('cm_col')))
    else:
        out.append('single.shanks=%s' % (inp['probes'][0].get('shanks') is not None))
        if o.get('merge_group'):
            g, dm = o['merge_group'], o['merge_dominant']
            out += ['merge.size=%d' % len(g), 'merge.dominant_id_eq_rank=%s' % (g.index(dm) == dm),
                    'merge.neighbourhoods=%s' % ('two_shanks' if inp['probes'][0].get('shanks') is not None else '>12_channels')]
    if inp.get('big_n'):
        out += ['big.n_spikes=%s' % ('50001..99999' if inp['big_n'] < 100000 else '100000' if inp['big_n'] == 100000 else '>100000'),
                'big.multiple_of_batch=%s' % (inp['big_n'] % 50000 == 0), 'big.period=%d' % inp['probes'][0]['n_spikes']]
    if inp['merged']:
        out += ['merged.k=%d' % o['k'], 'merged.wmi=%s' % o['wmi'], 'merged.features=%s' % o['mfeatures'],
                'merged.channels=%s' % ('<12' if sum(o['ncs']) < 12 else '=12' if sum(o['ncs']) == 12 else '>12'),
                'merged.unequal=%s' % (len(set(o['ncs'])) > 1), 'merged.curated=%s' % any(o['curated'])]
    else:
        out += ['single.table=%s' % o['table'], 'single.curated=%s' % o['curated'], 'single.features=%s' % o['features'],
                'single.empty=%s' % o['empty'],
                'single.channels=%s' % ('<12' if o['nc'] < 12 else '=12' if o['nc'] == 12 else '>12')]
    for sem in inp['probes']:
        st_, sc_ = sem['spike_templates'], sem.get('spike_clusters')
        nt_ = sem['n_templates']
        if sc_ is None or list(sc_) == list(st_):
            un = [t for t in range(nt_) if t not in set(st_)]
            out.append('uncurated.unused=%s' % ('+'.join(k for k, f in (('start', 0 in un), ('middle', any(0 < t < nt_ - 1 for t in un)),
                                                                       ('end', nt_ - 1 in un)) if f) or 'none'))
        else:
            em = [c for c in range(max(sc_) + 1) if c not in set(sc_)]
            out.append('curated.emptied=%s' % ('+'.join(k for k, f in (('below_nt', any(c < nt_ for c in em)),
                                                                      ('at_or_above_nt', any(c >= nt_ for c in em))) if f) or 'none'))
    if obs[0] == 'ok':
        v = obs[2]
        if v.get('clusters.depths') is not None:
            out.append('nan_cluster_depths=%s' % ('0' if 'nan' not in v['clusters.depths'] else '1+'))
        s = obs[1]
        out.append('probes_in_model=%d' % len(set(s['probes'])))
    else:
        out.append('outcome=%s' % obs[0])
    return out


def _with_probe(inp, k, sem):
    j = copy.deepcopy(inp)
    j['probes'][k] = sem
    j['features'] = None if inp['merged'] else j['features']
    return j


def shrink(case):
    inp = case['inp']
    if inp.get('big_n'):
        # first the one-period dataset as an ordinary small case (then the failure does not need the batch loop), then
        # fewer spikes above the batch size; each candidate is a 50 000-spike conversion, so nothing finer is tried
        j = copy.deepcopy(inp)
        del j['big_n']
        yield _case(j)
        k = inp['probes'][0]['n_spikes']
        for n in (50001, 50001 + k, 100001):
            if n < inp['big_n']:
                j = copy.deepcopy(inp)
                j['big_n'] = n
                yield _case(j)
        for key, dv in (('factor', 1.0), ('label', '')):
            if inp[key] != dv:
                j = copy.deepcopy(inp)
                j[key] = dv
                yield _case(j)
        return
    if inp['opts'].get('many'):
        # more than 256 templates: every candidate is a conversion + a model evaluation of several seconds, so only a
        # handful of candidates per round: drop a half / a quarter of the spikes, the feature store, then single spikes
        # once at most 6 are left; the templates themselves are kept (their number is the point of the case)
        sem = inp['probes'][0]
        n = sem['n_spikes']
        blocks = [range(n // 2, n), range(0, n // 2), range(3 * n // 4, n), range(0, n // 4)] if n > 6 else [[i] for i in range(n)]
        for blk in blocks:
            s = sem
            for i in sorted(blk, reverse=True):
                s = G.drop_spike(s, i) if s is not None else None
            if s is not None and s.get('spike_clusters') is not None:
                yield _case(_with_probe(inp, 0, s))
        if sem.get('features') is not None:
            s = copy.deepcopy(sem)
            s['features'] = None
            yield _case(_with_probe(inp, 0, s))
        for key, dv in (('factor', 1.0), ('label', ''), ('force', False)):
            if inp.get(key) != dv:
                j = copy.deepcopy(inp)
                j[key] = dv
                yield _case(j)
        return
    if inp['merged']:
        for k in range(len(inp['probes'])):
            j = X.drop_probe(inp, k)
            if j is not None:
                j['opts'] = dict(j['opts'], k=len(j['probes']), ncs=[p['n_channels'] for p in j['probes']],
                                 curated=[p['opts']['curated'] for p in j['probes']], mfeatures=False)
                yield _case(j)
        if inp['features'] is not None:
            j = copy.deepcopy(inp)
            j['features'] = None
            j['opts'] = dict(j['opts'], mfeatures=False)
            yield _case(j)
    for k, sem in enumerate(inp['probes']):
        for i in range(sem['n_spikes']):
            s = G.drop_spike(sem, i)
            if s is not None and (not inp['merged'] or s.get('spike_clusters') is not None or True):
                if inp['merged']:
                    # the placeholder feature rows follow the spike count
                    s['features']['data'] = s['features']['data'][:s['n_spikes']]
                    s['template_features']['data'] = s['template_features']['data'][:s['n_spikes']]
                yield _case(_with_probe(inp, k, s))
        if not inp['merged']:
            for key in ('features', 'probes', 'wm', 'wmi'):
                if sem.get(key) is not None:
                    s = copy.deepcopy(sem)
                    s[key] = None
                    yield _case(_with_probe(inp, k, s))
        if any(a != 1.0 for a in sem['amplitudes']):
            s = copy.deepcopy(sem)
            s['amplitudes'] = [1.0] * sem['n_spikes']
            yield _case(_with_probe(inp, k, s))
        flat = [(abs(v), t, r, c) for t, tm in enumerate(sem['templates']) for r, row in enumerate(tm) for c, v in enumerate(row) if v]
        for _, t, r, c in sorted(flat, reverse=True)[:8]:
            s = copy.deepcopy(sem)
            s['templates'][t][r][c] = 0.0
            yield _case(_with_probe(inp, k, s))
    if inp['factor'] != 1.0:
        j = copy.deepcopy(inp)
        j['factor'] = 1.0
        yield _case(j)
    if inp['label']:
        j = copy.deepcopy(inp)
        j['label'] = ''
        yield _case(j)
    h = inp.get('history') or []
    for k in range(len(h)):
        j = copy.deepcopy(inp)
        del j['history'][k]
        yield _case(j)
    for k, x in enumerate(h):
        for key, dv in (('force', False), ('label', '')):
            if x[key] != dv:
                j = copy.deepcopy(inp)
                j['history'][k][key] = dv
                yield _case(j)
    for key in ('force', 'cm_col'):
        if inp.get(key):
            j = copy.deepcopy(inp)
            j[key] = False
            yield _case(j)


def size(case):
    inp = case['inp']
    return sum(s['n_spikes'] * 10 + s['n_templates'] * s['n_samples_wf'] * s['n_channels'] for s in inp['probes']) + \
        100 * len(inp['probes']) + (50 if inp.get('features') else 0) + 10 * inp.get('big_n', 0) + \
        (5 if inp.get('force') else 0) + (5 if inp.get('cm_col') else 0) + \
        sum(20 + (5 if x.get('force') else 0) + (3 if x['label'] else 0) for x in (inp.get('history') or []))


def repro(case):
    return ("import sys, os, tempfile; sys.path[:0] = ['/verif/harness', os.environ.get('PHYLIB_REPO', '/repo')]\n"
            "from vt import npshim, datasets_c14 as X; npshim.setup_process()\n"
            "import numpy as np\n"
            "from phylib.io.alf import EphysAlfCreator\n"
            "inp = %r\n"
            "base = tempfile.mkdtemp(); m = X.build_model(inp, base)\n"
            "print('channel_mapping', m.channel_mapping, 'channel_probes', m.channel_probes, 'per-probe maps', [p['channel_map'] for p in inp['probes']])\n"
            "c = EphysAlfCreator(m)\n"
            "for j, h in enumerate(inp.get('history') or []): (c if h.get('same_creator', True) else EphysAlfCreator(m)).convert(os.path.join(base, 'alf_h%%d' %% j), label=h['label'], ampfactor=h['factor'], force=bool(h.get('force')))\n"
            "c.convert(os.path.join(base, 'alf'), label=inp['label'], ampfactor=inp['factor'], force=bool(inp.get('force')))\n"
            "for k, v in X.read_values(os.path.join(base, 'alf'), inp['label']).items(): print(k, np.load(os.path.join(base, 'alf', k + ('.' + inp['label'] if inp['label'] else '') + '.npy')).tolist())\n"
            % (case['inp'],))
