"""C10 -- saved curation state survives any save/reload history (DESIGN.md §8 C10)."""
import copy
import itertools
import os
import random
import shutil
import tempfile

from .. import coqenc as q
from .. import datasets as D
from .. import datasets_c10 as T

ID = 'C10'
RULE = ('histories over {save_spike_clusters (fresh vectors, the vector the instance in use was loaded with, a vector saved '
        'before, the instance\'s own array updated in place), save_metadata(field, mapping with None entries, ints, floats, '
        'strings; the mapping the instance loaded, the same mapping twice, empty and all-None mappings, the instance\'s own '
        'dictionary), write a foreign TSV/CSV file (valid table or malformed: empty, header only, ragged, binary bytes, no '
        'cluster_id column, blank first line, garbage text, a directory, a dangling symbolic link), '
        'save_spikes_subset_waveforms (1 / 2 / 3 / 50 spikes per template), close, reload} run on the real TemplateModel over '
        'generated dataset directories with raw data (KS / ALF / labelled ALF names, with or without a spike-cluster file, '
        'int16/float32/int32 raw files in 1-3 parts; all spikes on one template; 22 raw parts with 0 / 1 / 2 spikes in the '
        'kept chunks: subset stores of one spike or none; a store np.load rejects present before the first load; params.py '
        'with n_closest_channels = 1 / 2: stores one or two columns wide; since stage 6: spike_templates.npy of dtype uint16 '
        'with the cluster file byte-copied from it at the first load, cluster files of dtype uint8 / int8 / int16 / uint16 / '
        'big-endian u2 and i4 / uint64, saves of narrow-dtype arrays that leave such a file behind, cluster ids at and beyond '
        '127 / 255 / 32767 / 65535 up to 131071, field names next to the excluded `info` (info_score, information, Info, inf, '
        'cluster_info, group2, ...) and foreign files named next to cluster_info.* (cluster_info_backup.tsv, cluster_info.old.tsv, '
        'cluster_inf.csv, xcluster_info.tsv, ...)); the freshly '
        'loaded model is compared with the Coq view after EVERY reload. quick: every history of length <= 3 over two '
        '10-symbol alphabets (closed by a reload; the second alphabet on a dataset with a loaded cluster_group.tsv: saves '
        'equal to the load-time snapshots) on two datasets and of length <= 2 on a one-spike-store dataset, a corpus, then 300 '
        'seeded random histories of length <= 8; thorough: every history of length <= 4 on one dataset and of length <= 3 on '
        'five more, then 4000 sampled histories of length <= 10. Non-trivial = at least one save precedes an observed reload; '
        'distinct = distinct (dataset, history).')
EXHAUSTIVE = {'quick': True, 'thorough': True}
CLAUSES = {
    1: 'an observed view differs from the Coq model PV.C10.Model.view',
    21: 'C10_last_write_wins_clusters: assignments of the last save_spike_clusters (or the initial ones)',
    22: 'C10_last_write_wins_meta: a saved field shows the mapping of the LAST save_metadata, None entries dropped, not merged',
    23: 'C10_foreign_fields: metadata of the other TSV/CSV files, no field from nowhere',
    24: 'C10_frame: spike templates / samples / times unchanged',
    25: 'C10_subset: subset store = (ids, channel rows of their templates, raw zero-padded windows)',
    26: 'C10_tolerant: loading raised although the saved clusters are loadable (malformed files must be skipped)',
    27: 'C10_subset (look-up): get_waveforms answered from the store = raw window on the stored channels',
    28: 'C10_frame (files): a file outside the curation state changed or appeared',
    29: 'close() raised',
    30: 'C10_subset (selection): the spike ids stored by an extraction are an answer the selector may give for THAT '
        'extraction: per template min(max_n_spikes_per_template, spikes of the template inside the kept chunks) ids, all of '
        'them spikes of that template inside the kept chunks (every ceil(n_chunks/20)-th chunk); since stage 4 also judged '
        'by C17\'s checker select_spec_b on C17\'s kept chunks (strictly increasing ids that are spikes included), which by '
        'C10_link_clause30 accepts exactly the arrays an admissible np.random.choice makes C17\'s route return',
}
TRUSTED = ['csv (text layer: quoting, delimiters), str()/repr()/int()/float() round trip of numbers (oracle: cells are typed tokens)',
           'np.save/np.load/np.memmap, pathlib.glob (order not relied on), the file system',
           'np.random.choice inside SpikeSelector (the stored spike ids are read back and judged by clause 30 = C17\'s '
           'statement; C10_link_selection / C10_link_windows prove the store for every admissible choice) and np.argsort inside '
           'get_template (the per-template best channels are observed at the first load; C10_link_channels proves the stored '
           'rows from C05\'s model for every sorting argsort)',
           'harness-side reading of foreign texts (datasets_c10.parse_file: csv.reader + int()/float() classification)']
ASSUMES = ['field names are identifiers other than cluster_id (and other than `info`: cluster_info.tsv is never loaded)',
           'saved strings are not numeric (they start with a letter other than i, I, n, N); the empty string is dropped like None',
           'no field is given values by two files that are visible at the same time (glob order is not determined)',
           'cluster ids in foreign files are not floats; cluster ids of save_spike_clusters fit int32 (generated: <= 131071 -- '
           'get_merge_map builds a dictionary with max(id) + 1 keys, and for id = 2**31 - 1 that int32 sum wraps and the load '
           'fails with KeyError: noted in notes/C10.md stage 6, not generated); negative ids make the '
           'load fail (get_merge_map KeyError) and are outside the statement',
           '>= 2 spikes, >= 2 templates, >= 2 samples per waveform (phylib squeezes singleton axes of the dataset files; the '
           'subset store itself may hold one spike or none since fix-c10b)']
TIMEOUT = {'quick': 30, 'thorough': 60}

FOREIGN_NAMES = ['cluster_extra.tsv', 'labels.csv', 'junk.tsv', 'notes.csv', 'cluster_info.tsv', 'cluster_info.csv']


# ---- generator -----------------------------------------------------------------------------------------------------

def _meta_op(rng, field, numkind=None, strings=T.WORDS):
    return ['meta', field, T.rand_mapping(rng, strings=strings), numkind or rng.choice(['py', 'py', 'np', 'np', 'own'])]


def _foreign_valid(rng, name, fields):
    return ['foreign', name, {'kind': 'text', 'text': T.rand_table(rng, fields)}]


def _alphabet(rng, ds):
    """Ten concrete operations for one dataset (payloads fixed by the seed)."""
    ns = ds['sem']['n_spikes']
    m1 = [[0, ['s', 'good']], [1, ['i', 3]], [2, None], [4, ['f', (2.5).hex()]], [6, ['i', 0]]]
    m2 = [[1, ['s', 'mua']], [3, ['f', (0.1).hex()]], [4, None], [7, ['f', (0.0).hex()]]]
    return [
        ['clusters', T.rand_clusters(rng, ns, 'merge'), 'int64'],
        ['clusters', T.rand_clusters(rng, ns, 'small'), 'int32'],
        ['meta', 'group', m1, 'py'],
        ['meta', 'group', m2, 'np'],
        ['meta', 'quality', T.rand_mapping(rng), 'py'],
        _foreign_valid(rng, 'cluster_extra.tsv', ['depth', 'label']),
        ['foreign', 'junk.tsv', T.malformed(rng, rng.choice(['empty', 'binary', 'ragged', 'no_cid']), ['zz'])],
        ['subset', 2, None],
        ['close'],
        ['reload'],
    ]


# the mapping the second exhaustive dataset is LOADED with (file cluster_group.tsv present before the first load)
M0 = [[0, ['s', 'good']], [1, ['i', 3]], [4, ['f', (2.5).hex()]], [6, ['i', 0]]]
INIT_B = [['cluster_group.tsv', {'kind': 'text', 'text': 'cluster_id\tgroup\n0\tgood\n1\t3\n4\t2.5\n6\t0\n'}]]


def _alphabet_b(rng, ds):
    """Ten operations aimed at state an instance keeps between operations (self.spike_clusters and self.metadata are
    snapshots taken at load time and never refreshed by a save): saving what the instance was loaded with, after
    another save; the same payload twice; empty / all-None mappings.  Used on a dataset that has cluster_group.tsv = M0."""
    ns = ds['sem']['n_spikes']
    return [
        ['clusters', T.rand_clusters(rng, ns, 'merge'), 'int64'],
        ['clusters_loaded', 'int32'],                       # resolved by _resolve: the vector this instance loaded
        ['meta', 'group', [[0, ['s', 'good']], [1, ['s', 'mua']], [2, None], [9, ['i', 1]]], 'py'],
        ['meta', 'group', copy.deepcopy(M0), 'py'],         # equal to the loaded mapping
        ['meta', 'group', [], 'py'],
        ['meta', 'group', [[c, None] for c, _ in M0], 'np'],
        _foreign_valid(rng, 'cluster_extra.tsv', ['depth', 'label']),
        ['subset', 1, None],
        ['close'],
        ['reload'],
    ]


def _initial_clusters(ds):
    sem = ds['sem']
    return list(sem['spike_clusters'] if sem['spike_clusters'] is not None else sem['spike_templates'])


def _resolve(ops, ds):
    """Replaces ['clusters_loaded', dtype] by the concrete save of the assignments the model instance in use at that
    point was loaded with (the initial ones, or those on disk at the last reload that succeeded)."""
    ns = ds['sem']['n_spikes']
    loaded = disk = _initial_clusters(ds)
    out = []
    for o in ops:
        if o[0] == 'clusters_loaded':
            o = ['clusters', list(loaded), o[1]]
        if o[0] == 'clusters':
            disk = o[1]
            if o[2] == 'inplace':
                if len(o[1]) == ns and all(-2 ** 31 <= c < 2 ** 31 for c in o[1]):
                    loaded = o[1]
                else:
                    o = [o[0], o[1], 'int64']           # cannot be written into the int32 copy of length ns
                    out.append(o)
                    continue
        elif o[0] == 'reload' and len(disk) == ns and all(0 <= c < 2 ** 31 for c in disk):
            loaded = disk
        out.append(o)
    return out


def _narrow_op(rng, ns, dt=None):
    """A save of an array of a narrow integer dtype (values inside its range): afterwards spike_clusters.npy HAS that
    dtype on disk, whatever it had before."""
    dt = dt or rng.choice(sorted(T.NARROW))
    lo, hi = T.NARROW[dt]
    top = rng.choice([4, 4, hi])
    return ['clusters', [rng.choice([0, 1, rng.randint(0, 4), top]) for _ in range(ns)], dt]


def _random_history(rng, ds, n, wide=False):
    """wide (stage 6): also draws cluster ids at / beyond the limits of the narrow integer dtypes, saves of narrow-dtype
    arrays, field names next to the excluded `info` and foreign files named next to cluster_info.*"""
    ns = ds['sem']['n_spikes']
    ops = []
    # fields owned by foreign files vs by save_metadata must stay disjoint (the reading); one exception below
    foreign_fields = {'cluster_extra.tsv': ['depth', 'label'], 'labels.csv': ['ks_label'], 'junk.tsv': ['zz'],
                      'notes.csv': ['remark', 'n2'], 'cluster_info.tsv': ['group', 'depth', 'n_spikes'],
                      'cluster_info.csv': ['quality']}
    fields, fnames = T.FIELDS, FOREIGN_NAMES
    if wide:
        foreign_fields.update(T.NEAR_FOREIGN)
        fields = T.FIELDS + T.NEAR_FIELDS + T.NEAR_FIELDS
        fnames = FOREIGN_NAMES + sorted(T.NEAR_FOREIGN) + sorted(T.NEAR_FOREIGN)
    for _ in range(n):
        k = rng.random()
        if wide and k < 0.14 and rng.random() < 0.6:
            r = rng.random()
            if r < 0.4:
                ops.append(_narrow_op(rng, ns))
            else:
                ops.append(['clusters', T.rand_clusters(rng, ns, 'edge'), rng.choice(['int64', 'int64', 'int32', 'uint32', 'inplace'])])
        elif k < 0.14:
            kind = None
            earlier = [o for o in ops if o[0] == 'clusters']
            r = rng.random()
            if r < 0.22:
                ops.append(['clusters_loaded', rng.choice(['int32', 'int64'])])        # an undo within one session
            elif r < 0.34 and earlier:
                ops.append(copy.deepcopy(rng.choice(earlier)))                         # a vector saved before, again
            elif rng.random() < 0.04:
                v = [rng.randint(-2, 3) for _ in range(ns)]
                ops.append(['clusters', v, 'int64'])
            elif rng.random() < 0.04:
                ops.append(['clusters', T.rand_clusters(rng, ns)[:ns - 1], 'int32'])     # wrong length: unloadable
            else:
                ops.append(['clusters', T.rand_clusters(rng, ns, kind),
                            rng.choice(['int32', 'int64', 'uint32', 'uint16x', 'inplace'])])
        elif k < 0.38:
            f = rng.choice(fields + (['info'] if rng.random() < 0.05 else []))
            strings = T.WORDS + ([''] if rng.random() < 0.15 else [])
            earlier = [o for o in ops if o[0] == 'meta']
            r = rng.random()
            if r < 0.2 and earlier:
                o = copy.deepcopy(rng.choice(earlier))      # the same (field, mapping) again: equals what a reload
                o[3] = rng.choice(['py', 'np', 'own'])      # in between loaded, or what the previous save wrote
                ops.append(o)
            elif r < 0.27:
                ops.append(['meta', f, [], 'py'])
            elif r < 0.34:
                ops.append(['meta', f, [[c, None] for c in rng.sample(range(9), rng.randint(1, 4))], 'py'])
            else:
                ops.append(_meta_op(rng, f, strings=strings))
        elif k < 0.52:
            name = rng.choice(fnames)
            ops.append(_foreign_valid(rng, name, foreign_fields[name]))
        elif k < 0.64:
            name = rng.choice(fnames + ['adir.tsv', 'bdir.csv'])
            kind = 'dir' if name in ('adir.tsv', 'bdir.csv') else rng.choice([x for x in T.MALFORMED_KINDS if x != 'dir'])
            ops.append(['foreign', name, T.malformed(rng, kind, foreign_fields.get(name, ['zz']))])
        elif k < 0.68:
            # a foreign write over a file owned by save_metadata (its own field only)
            f = rng.choice(fields)
            ops.append(_foreign_valid(rng, 'cluster_%s.tsv' % f, [f]))
        elif k < 0.78:
            ops.append(['subset', rng.choice([1, 2, 3, 50]), rng.choice([None, 2, 16])])
        elif k < 0.86:
            ops.append(['close'])
        else:
            ops.append(['reload'])
    ops.append(['reload'])
    return _fix_ops(_resolve(ops, ds), ns)


def _scan(ops, ns):
    """Yields (op, use_after_close) -- close() leaves the model object without its memory maps until a reload
    SUCCEEDS (it fails when the saved clusters have the wrong length or a negative id)."""
    closed, ok = False, True
    for o in ops:
        bad = False
        if o[0] == 'clusters':
            ok = len(o[1]) == ns and all(c >= 0 for c in o[1])
        elif o[0] == 'close':
            closed = True
        elif o[0] == 'reload':
            if ok:
                closed = False
        elif o[0] == 'subset' and closed:
            bad = True
        yield o, bad


def _fix_ops(ops, ns):
    out = []
    for o in ops:
        if o[0] == 'clusters' and o[2] == 'uint16x':
            o = [o[0], [min(c, 60000) for c in o[1]], 'uint16']
        out.append(o)
    return [o for o, bad in _scan(out, ns) if not bad]


def _use_after_close(ops, ns):
    return any(bad for _, bad in _scan(ops, ns))


def _case(ds, ops, init=None, init_store=None):
    inp = {'ds': ds, 'init': init or [], 'ops': ops}
    if init_store:
        inp['init_store'] = init_store       # 'truncated' | 'garbage': see datasets_c10.write_broken_store
    return {'kind': 'hist', 'inp': inp}


def _datasets(rng, n, tier):
    out = []
    forced = [dict(names='ks', write_clusters=False, raw=True, raw_dtype='int16'),
              dict(names='alf', label='probe00', write_clusters=True, raw=True, raw_dtype='float32'),
              dict(names='alf', label='', write_clusters=True, raw=True, raw_dtype='int32'),
              dict(names='ks', write_clusters=True, raw=False),
              dict(names='alf', label='probe00', write_clusters=False, raw=True),
              # subset stores of exactly one spike (fix-c10b): all spikes on one template / 22 raw chunks, one spike kept
              dict(names='ks', raw=True, layout='unused', n_templates=2, n_spikes=4),
              # chunk counts at the boundaries of ceil(n_chunks / 20): 21 -> every 2nd, 40 -> every 2nd, 41 -> every 3rd, 20 -> all
              dict(names='ks', raw=True, layout=('parts', 1, 21), n_spikes=4),
              dict(names='alf', raw=True, layout=('parts', 0, 40), n_spikes=3),
              dict(names='alf', raw=True, layout='unused', n_templates=3),
              dict(names='ks', raw=True, layout=('parts', 2, 22), n_spikes=5),
              dict(names='ks', raw=True, layout=('parts', 2, 41), n_spikes=6),
              dict(names='alf', raw=True, layout=('parts', 4, 20), n_spikes=4),
              dict(names='ks', raw=True, layout=('parts', 2, 40), n_spikes=5)]
    for i in range(n):
        out.append(T.make_dataset(rng, **(forced[i] if i < len(forced) else {})))
    return out


def generate(tier, rng):
    cases = []
    pool = _datasets(rng, {'quick': 8, 'thorough': 17, 'search': 10}[tier], tier)
    # corpus -----------------------------------------------------------------------------------------------
    ds0 = pool[0]
    ns0 = ds0['sem']['n_spikes']
    g1 = ['meta', 'group', [[0, ['s', 'good']], [1, ['s', 'mua']], [2, None]], 'py']
    g2 = ['meta', 'group', [[1, ['s', 'noise']]], 'py']
    cB, cC = ['clusters', [5, 0] * ns0, 'int64'], ['clusters', [1, 2, 3] * ns0, 'int32']
    corpus = [
        [g1, ['reload'], g2, ['reload']],                                         # overwrite, not merge
        [g1, ['meta', 'group', [], 'py'], ['reload']],                            # an empty last mapping
        [['meta', 'quality', [[0, ['i', 3]], [1, ['f', (3.0).hex()]], [2, ['f', (1e22).hex()]], [3, ['s', 'e5']]], 'np'], ['reload']],
        [['meta', 'note', [[5, ['s', '']], [6, ['s', 'a,b']], [7, ['s', 'q"z']]], 'py'], ['reload']],   # '' dropped
        [['meta', 'info', [[0, ['s', 'x']]], 'py'], ['reload']],                  # cluster_info.tsv is never loaded
        [['clusters', [5] * ns0, 'int64'], ['reload'], ['clusters', list(range(ns0)), 'int32'], ['close'], ['reload']],
        [['clusters', [70000] + [0] * (ns0 - 1), 'int64'], ['reload']],
        [['subset', 2, None], ['reload'], ['subset', 3, 16], ['close'], ['reload']],
        [['foreign', 'junk.tsv', {'kind': 'text', 'text': ''}], ['foreign', 'adir.tsv', {'kind': 'dir'}],
         ['foreign', 'labels.csv', T.malformed(rng, 'binary', [])], g1, ['reload']],
        [['foreign', 'cluster_info.tsv', {'kind': 'text', 'text': 'cluster_id\tgroup\n0\tzzz\n'}], g1, ['reload']],
        [g1, ['foreign', 'cluster_group.tsv', {'kind': 'text', 'text': 'cluster_id\tgroup\n7\tforeign\n'}], ['reload'], g2, ['reload']],
        [['foreign', 'labels.csv', {'kind': 'text', 'text': 'cluster_id,ks_label\n3,good\n3,later\n,lost\n4,\n'}], ['reload']],
        # identity-sensitive histories on ONE instance (seeded change C10-m1: a save equal to the load-time snapshot
        # self.spike_clusters was skipped): B then the loaded vector (an undo); the same after a reload; twice; B A B
        [cB, ['clusters_loaded', 'int64'], ['close'], ['reload']],
        [cB, ['reload'], cC, ['clusters_loaded', 'int32'], ['reload']],
        [cB, copy.deepcopy(cB), ['reload'], ['clusters_loaded', 'int32'], ['reload']],
        [cB, ['clusters_loaded', 'int32'], copy.deepcopy(cB), ['reload']],
        [['clusters_loaded', 'int32'], cB, ['clusters_loaded', 'uint32'], ['clusters_loaded', 'int64'], ['reload']],
        [['clusters', [5, 0] * ns0, 'inplace'], ['reload'], ['clusters', [1, 2, 3] * ns0, 'inplace'], ['close'], ['reload']],
        [cB, ['clusters', [1, 2, 3] * ns0, 'inplace'], ['clusters_loaded', 'int64'], copy.deepcopy(cB), ['reload']],
        [['meta', 'group', [[0, ['s', 'good']], [1, ['s', 'mua']], [2, None]], 'own'], ['reload'],
         ['meta', 'group', [[1, ['s', 'noise']]], 'own'], ['meta', 'quality', [[1, ['i', 2]]], 'own'], ['reload']],
        # ... and for self.metadata: a mapping equal to the loaded one after a different one; twice; empty; all None
        [g1, ['reload'], g2, copy.deepcopy(g1), ['reload']],
        [g1, ['reload'], copy.deepcopy(g1), ['reload'], g2, copy.deepcopy(g2), ['reload']],
        [g1, ['reload'], ['meta', 'group', [], 'py'], ['reload'], copy.deepcopy(g1), ['reload']],
        [g1, ['reload'], ['meta', 'group', [[0, None], [1, None], [2, None]], 'py'], ['reload']],
        [g1, g2, copy.deepcopy(g1), ['meta', 'quality', [[0, ['s', 'good']], [1, ['s', 'mua']]], 'py'], ['reload']],
    ]
    # stage 6 (fifth seeding round) ---------------------------------------------------------------------------------
    # field names / foreign file names NEXT TO the excluded stem cluster_info (C10-m12: startswith instead of ==)
    def txt(name, header, rows):
        d = ',' if name.endswith('.csv') else '\t'
        return ['foreign', name, {'kind': 'text', 'text': ''.join(d.join(r) + '\n' for r in [header] + rows)}]
    corpus += [
        [['meta', 'quality', [[0, ['s', 'good']], [1, ['s', 'mua']]], 'py'], ['meta', 'info_score', [[0, ['i', 3]], [1, ['i', 7]]], 'py'],
         ['meta', 'information', [[0, ['f', (0.25).hex()]], [2, ['f', (1.5).hex()]]], 'np'],
         txt('cluster_information_extra.csv', ['cluster_id', 'bits'], [['0', '12'], ['1', '15']]),
         txt('cluster_info.tsv', ['cluster_id', 'n_spikes'], [['0', '20'], ['1', '20']]), ['close'], ['reload']],
        [txt('cluster_info_backup.tsv', ['cluster_id', 'bk_depth'], [['0', '1.5'], ['3', 'deep']]),
         txt('cluster_info.old.tsv', ['cluster_id', 'oldv'], [['2', 'x']]), txt('cluster_inf.csv', ['cluster_id', 'infv'], [['1', '4']]),
         txt('xcluster_info.tsv', ['cluster_id', 'xv'], [['1', 'y']]), txt('cluster_info.csv', ['cluster_id', 'quality'], [['1', 'hidden']]),
         ['reload'], ['meta', 'cluster_info', [[0, ['s', 'a_1']]], 'py'], ['meta', 'Info', [[0, ['i', 1]]], 'py'],
         ['meta', 'inf', [[2, ['s', 'good']]], 'own'], ['meta', 'info', [[0, ['s', 'x']]], 'py'], ['reload']],
        [['meta', 'group', [[0, ['s', 'good']]], 'py'], ['meta', 'group2', [[0, ['s', 'mua']]], 'py'],
         ['meta', 'groupinfo', [[1, ['i', 2]]], 'py'], ['meta', 'myinfo', [[1, ['f', (2.5).hex()]]], 'py'], ['reload'],
         ['meta', 'group2', [], 'py'], ['meta', 'info2', [[4, ['s', 'bad']]], 'np'], ['close'], ['reload']],
        # the dtype spike_clusters.npy has on disk (left by an earlier save of a narrow array) and ids beyond it (C10-m13)
        [['clusters', [1, 0, 4], 'uint16'], ['reload'], ['clusters', [65535, 65536, 70000], 'int64'], ['close'], ['reload']],
        [['clusters', [1, 255, 0], 'uint8'], ['clusters', [255, 256, 300], 'int32'], ['reload'],
         ['clusters', [3, 127, 0], 'int8'], ['close'], ['reload'], ['clusters', [128, 127, 32768], 'inplace'], ['reload']],
        [['clusters', [2, 32767, 0], 'int16'], ['reload'], ['clusters', [32768, 65536, 32767], 'uint32'], ['reload'],
         ['clusters', [7, 65535, 0], '>u2'], ['clusters', [131071, 65537, 1], 'int64'], ['reload']],
    ]
    for ds in pool[:3]:
        for h in corpus:
            h = copy.deepcopy(h)
            for o in h:
                if o[0] == 'clusters':
                    n = ds['sem']['n_spikes']
                    o[1] = (o[1] * n)[:n] if len(o[1]) != n else o[1]
            cases.append(_case(ds, _resolve(h, ds)))
    # subset stores of one spike / no spike (defect repaired on fix-c10b: the reloaded store was squeezed)
    for ds in pool[5:]:
        for h in ([['subset', 1, None], ['reload']],
                  [['subset', 1, 16], ['close'], ['reload'], ['subset', 50, None], ['reload']],
                  [['subset', 50, None], ['reload'], ['subset', 1, None], ['subset', 1, None], ['reload']]):
            cases.append(_case(ds, copy.deepcopy(h)))
    # a dataset that comes with a subset store np.load rejects (interrupted extraction): skipped, then replaced
    for ds, kind in ((pool[0], 'truncated'), (pool[2], 'garbage'), (pool[3], 'truncated')):
        for h in ([['reload']], [['subset', 2, None], ['reload']],
                  [copy.deepcopy(g1), ['close'], ['reload'], ['subset', 1, None], ['subset', 3, 16], ['reload']]):
            cases.append(_case(ds, copy.deepcopy(h), None, kind))
    # a dangling symbolic link among the metadata files
    cases.append(_case(pool[0], [['foreign', 'labels.csv', {'kind': 'symlink'}], copy.deepcopy(g1), ['reload'],
                                 _foreign_valid(rng, 'labels.csv', ['ks_label']), ['reload']]))
    # params.py sets n_closest_channels (class default 12): the store is max(max_n_channels or k, k) columns wide --
    # ONE column for k = 1 (`assert nc > 0` at its boundary), two for max_n_channels = 2; stage-4 triage of the full
    # mutation sweep (`nc > 1` survived: every other dataset has the default 12).  Own stream: the established
    # cases keep their payloads.
    rk = random.Random(1010)
    for kw in (dict(names='ks', n_closest=1, n_channels=3, n_templates=2),
               dict(names='alf', label='probe00', n_closest=2, n_channels=4),
               dict(names='ks', n_closest=1, layout='unused', n_templates=2, n_spikes=4)):
        dsn = T.make_dataset(rk, raw=True, **kw)
        for h in ([['subset', 2, None], ['reload']],
                  [['subset', 1, None], ['reload']],        # third dataset: one spike x one column
                  [['subset', 1, 2], ['close'], ['reload'], ['subset', 50, None], ['reload']],
                  [copy.deepcopy(g1), ['subset', 3, 16], ['reload'], ['subset', 2, 1], ['reload']]):
            cases.append(_case(dsn, copy.deepcopy(h)))
    # stage 6: datasets whose id files have the narrow / unusual dtypes a sorter may write (own stream: the pool keeps its
    # payloads): uint16 spike_templates.npy and no cluster file -- the first load byte-copies it to spike_clusters.npy --
    # or a cluster file of any integer dtype and byte order
    rw = random.Random(1313)
    wide_pool = []
    for kw in (dict(names='ks', id_dtype='uint16', write_clusters=False, curated=False),
               dict(names='alf', label='probe00', id_dtype='uint16', write_clusters=True),
               dict(names='ks', id_dtype='int32', write_clusters=True, clu_dtype='uint8'),
               dict(names='ks', id_dtype='uint32', curated=True, clu_dtype='int16'),
               dict(names='alf', label='', id_dtype='int64', write_clusters=True, clu_dtype='>u2'),
               dict(names='ks', id_dtype='uint16', curated=True, clu_dtype='int8'),
               dict(names='alf', id_dtype='int32', write_clusters=True, clu_dtype='>i4'),
               dict(names='ks', id_dtype='uint16', write_clusters=True, clu_dtype='uint64'))[:8 if tier != 'quick' else 6]:
        wide_pool.append(T.make_dataset(rw, raw=rw.random() < 0.5, **kw))
    for dsw in wide_pool:
        nw = dsw['sem']['n_spikes']
        small = [rw.randint(0, 4) for _ in range(nw)]
        edge = ([65535, 65536, 70000, 256, 128, 32768, 300] * nw)[:nw]
        for h in ([['clusters', edge, 'int64'], ['reload']],
                  [['clusters', small, 'int64'], ['close'], ['reload'], ['clusters', edge, 'int64'], ['close'], ['reload']],
                  [['clusters', edge, 'inplace'], ['reload'], ['clusters_loaded', 'int64'], ['clusters', edge[::-1], 'int32'], ['reload']],
                  [['clusters_loaded', 'int64'], ['reload'], ['clusters', T.rand_clusters(rw, nw, 'edge'), 'uint32'], ['reload']]):
            cases.append(_case(dsw, _resolve(copy.deepcopy(h), dsw)))
    for _ in range({'quick': 90, 'thorough': 1500, 'search': 600}[tier]):
        dsw = rw.choice(wide_pool + pool[:3])
        cases.append(_case(dsw, _random_history(rw, dsw, rw.randint(2, 7 if tier == 'quick' else 9), wide=True)))
    # a dataset that already has metadata files
    init = [['cluster_group.tsv', {'kind': 'text', 'text': 'cluster_id\tgroup\n0\tgood\n2\tmua\n'}],
            ['cluster_info.tsv', {'kind': 'text', 'text': 'cluster_id\tgroup\tdepth\n0\tbad\t10.5\n'}],
            ['old.csv', {'kind': 'text', 'text': 'cluster_id,purity\n1,0.5\n'}]]
    cases.append(_case(pool[1], [['reload'], g2, ['reload']], init))
    # the loaded mapping saved again after another one, without a reload in between (self.metadata is a load-time snapshot)
    g0 = ['meta', 'group', [[0, ['s', 'good']], [2, ['s', 'mua']]], 'py']
    cases.append(_case(pool[1], [g2, g0, ['reload']], init))
    cases.append(_case(pool[2], [g0, ['reload'], g2, copy.deepcopy(g0), ['close'], ['reload']], init))
    if tier == 'search':
        for _ in range(1500):
            ds = rng.choice(pool)
            cases.append(_case(ds, _random_history(rng, ds, rng.randint(1, 8))))
        return [_repair(c) for c in cases]
    # exhaustive small scope ------------------------------------------------------------------------------------
    A, B = _alphabet, _alphabet_b
    scopes = ([(3, pool[0], A, None), (3, pool[1], B, INIT_B), (2, pool[5], B, INIT_B)] if tier == 'quick' else
              [(4, pool[0], A, None), (3, pool[1], B, INIT_B), (3, pool[2], A, None), (3, pool[4], A, None),
               (3, pool[5], B, INIT_B), (3, pool[6], B, None)])
    for L, ds, mk, init in scopes:
        alpha = mk(rng, ds)
        for n in range(1, L + 1):
            for h in itertools.product(range(len(alpha)), repeat=n):
                ops = [copy.deepcopy(alpha[i]) for i in h]
                if ops[-1][0] != 'reload':
                    ops.append(['reload'])
                ops = _resolve(ops, ds)
                if not _use_after_close(ops, ds['sem']['n_spikes']):
                    cases.append(_case(ds, ops, copy.deepcopy(init)))
    # random stream -------------------------------------------------------------------------------------------------
    nrand, lmax = (300, 7) if tier == 'quick' else (4000, 9)
    for _ in range(nrand):
        ds = rng.choice(pool)
        cases.append(_case(ds, _random_history(rng, ds, rng.randint(2, lmax))))
    return [_repair(c) for c in cases]


def _repair(case):
    """Histories are generated per dataset; cluster vectors must have that dataset's length."""
    ds = case['inp']['ds']
    n = ds['sem']['n_spikes']
    for o in case['inp']['ops']:
        if o[0] == 'clusters' and len(o[1]) not in (n, n - 1):
            o[1] = (o[1] * n)[:n]
    case['inp']['ops'] = _resolve(case['inp']['ops'], ds)
    return case


# ---- implementation ----------------------------------------------------------------------------------------------------

def _pyval(v, numkind):
    import numpy as np
    if v is None:
        return None
    t, x = v
    if t == 'i':
        return np.int64(x) if (numkind == 'np' and abs(x) < 2 ** 62) else int(x)
    if t == 'f':
        x = float.fromhex(x)
        return np.float64(x) if numkind == 'np' else x
    return str(x)


def _val(x):
    """canonical form of a loaded metadata value/key"""
    import numpy as np
    if isinstance(x, (bool, np.bool_)):
        return ['s', 'BOOL:%s' % x]
    if isinstance(x, (int, np.integer)):
        return ['i', int(x)]
    if isinstance(x, (float, np.floating)):
        return ['f', float(x).hex()]
    return ['s', str(x)]


CURATION = ('spike_clusters.npy', '_phy_spikes_subset.waveforms.npy', '_phy_spikes_subset.spikes.npy',
            '_phy_spikes_subset.channels.npy')


def _is_curation(name):
    return (name in CURATION or name.startswith('spikes.clusters') or name.endswith('.tsv') or name.endswith('.csv'))


def _ints(a):
    import numpy as np
    a = np.asarray(a)
    if a.dtype.kind == 'f':
        if not np.all(np.isfinite(a)) or not np.all(a == np.round(a)):
            raise ValueError('non-integer waveform value')
        a = a.astype(np.int64)
    return a.tolist()


def _view(m, d, base):
    import numpy as np
    md = {}
    for f, mp in m.metadata.items():
        md[str(f)] = sorted(([_val(k), _val(v)] for k, v in mp.items()), key=repr)
    sw = m.spike_waveforms
    store = lookup = None
    lookup_ok = True
    if sw is not None:
        ids = [int(x) for x in np.atleast_1d(sw.spike_ids)]
        ch, w = np.asarray(sw.spike_channels), np.array(sw.waveforms)
        if np.ndim(sw.spike_ids) == 1 and ch.ndim == 2 and w.ndim == 3:
            store = {'ids': ids, 'ch': _ints(ch), 'w': _ints(w), 'wshape': [int(s) for s in w.shape]}
        else:       # a store that lost an axis: not (ids, one channel row per spike, one window per spike)
            store = {'ids': ids, 'ch': [], 'w': [], 'wshape': [int(s) for s in w.shape]}
        try:
            lk = np.asarray(m.get_waveforms(np.array(ids, dtype=np.int64), None))
            if lk.ndim != 3:
                raise ValueError('get_waveforms returned %d axes' % lk.ndim)
            lookup = _ints(lk)
        except Exception:  # noqa
            lookup_ok = False
    now = D.listing(d)
    changed = sorted(k for k in set(base) | set(now) if not _is_curation(k) and base.get(k) != now.get(k))
    return {'clusters': [int(x) for x in m.spike_clusters], 'cdtype': str(m.spike_clusters.dtype), 'meta': md,
            'templates': [int(x) for x in m.spike_templates], 'samples': [int(x) for x in m.spike_samples],
            'times': [D.tok(float(x)) for x in m.spike_times], 'store': store, 'lookup': lookup, 'lookup_ok': lookup_ok,
            'changed': changed}


def run_case(case):
    """The history runs in a forked child: a closed or truncated memory map can kill the interpreter, and a
    dead pool worker would hang the whole check instead of producing an observation."""
    import json
    import signal
    import numpy  # noqa: imported here so that the forked child does not pay for the imports
    import phylib.io.model  # noqa
    r, w = os.pipe()
    pid = os.fork()
    if pid == 0:
        code = 1
        try:
            os.close(r)
            try:
                out = _run_case(case)
            except BaseException as e:  # noqa
                out = ['crash', type(e).__name__, str(e)[:200]]
            with os.fdopen(w, 'w') as f:
                json.dump(out, f)
            code = 0
            if os.environ.get('VT_COVERAGE'):     # developer tool: os._exit below would drop the child's line data
                from .. import pool
                cov = getattr(pool, '_COV', None)
                if cov is not None:
                    cov.stop()
                    cov.save()
        finally:
            os._exit(code)
    os.close(w)
    try:
        with os.fdopen(r, 'r') as f:
            data = f.read()
        _, status = os.waitpid(pid, 0)
        pid = None
    finally:
        if pid is not None:
            try:
                os.kill(pid, signal.SIGKILL)
                os.waitpid(pid, 0)
            except OSError:
                pass
    if not data:
        sig = os.WTERMSIG(status) if os.WIFSIGNALED(status) else 0
        return ('crash', 'Signal%d' % sig, 'the interpreter died while running the history')
    out = json.loads(data)
    return tuple(out)


def _run_case(case):
    import numpy as np
    from phylib.io.model import load_model
    inp = case['inp']
    ds = inp['ds']
    d = tempfile.mkdtemp(prefix='c10_', dir=os.environ.get('VT_WORK') or None)
    try:
        D.materialise(ds, d)
        for name, spec in inp.get('init', []):
            T.write_foreign(d, name, spec)
        if inp.get('init_store'):
            T.write_broken_store(d, inp['init_store'], ds['sem']['n_samples_wf'])
        params = os.path.join(d, 'params.py')
        if ds.get('n_closest'):
            with open(params, 'a') as f:
                f.write('n_closest_channels = %d\n' % ds['n_closest'])
        m = load_model(params)
        base = D.listing(d)
        nt = int(m.n_templates)
        first = {'best': [[int(c) for c in m.get_template(t).channel_ids] for t in range(nt)],
                 'times': [D.tok(float(x)) for x in m.spike_times], 'nsw': int(m.n_samples_waveforms),
                 'raw': m.traces is not None,
                 'bounds': [int(b) for b in m.traces.chunk_bounds] if m.traces is not None else None}
        views, subset_ids, crash_at, crash = [], {}, None, None
        for k, o in enumerate(inp['ops']):
            if o[0] == 'reload':
                try:
                    m2 = load_model(params)
                except Exception as e:  # noqa
                    views.append(['fail', type(e).__name__, str(e)[:120]])
                    continue
                m = m2
                views.append(['view', _view(m, d, base)])
                continue
            try:
                if o[0] == 'clusters' and o[2] == 'inplace':
                    # manual clustering updates the in-memory copy (see the NOTE in _load_spike_clusters) and saves
                    # that very array object
                    m.spike_clusters[:] = np.array(o[1], dtype=np.int64)
                    m.save_spike_clusters(m.spike_clusters)
                elif o[0] == 'clusters':
                    m.save_spike_clusters(np.array(o[1], dtype=o[2]))
                elif o[0] == 'meta' and o[3] == 'own':
                    # the instance's own dictionary, updated and handed back
                    own = m.metadata.setdefault(o[1], {})
                    own.clear()
                    own.update({int(c): _pyval(v, 'py') for c, v in o[2]})
                    m.save_metadata(o[1], own)
                elif o[0] == 'meta':
                    m.save_metadata(o[1], {int(c): _pyval(v, o[3]) for c, v in o[2]})
                elif o[0] == 'foreign':
                    T.write_foreign(d, o[1], o[2])
                elif o[0] == 'subset':
                    m.save_spikes_subset_waveforms(max_n_spikes_per_template=o[1], max_n_channels=o[2])
                    p = os.path.join(d, '_phy_spikes_subset.spikes.npy')
                    subset_ids[str(k)] = [int(x) for x in np.load(p)] if (first['raw'] and os.path.exists(p)) else []
                elif o[0] == 'close':
                    m.close()
                else:
                    raise ValueError(o[0])
            except Exception as e:  # noqa
                crash_at, crash = k, [type(e).__name__, str(e)[:160]]
                break
        return ['hist', first, views, subset_ids, crash_at, crash]
    finally:
        shutil.rmtree(d, ignore_errors=True)


# ---- encoding ----------------------------------------------------------------------------------------------------------

def _s(x):
    """Coq string term for any text of code points < 256 (tabs and newlines inside cells included)."""
    if all(32 <= ord(ch) < 127 for ch in x):
        return q.s(x)
    parts, cur = [], ''
    for ch in x:
        if 32 <= ord(ch) < 127:
            cur += ch
        else:
            if ord(ch) > 255:
                raise ValueError('character outside Latin-1 in a cell: %r' % ch)
            if cur:
                parts.append(q.s(cur))
                cur = ''
            parts.append('(chr %d%%nat)' % ord(ch))
    if cur:
        parts.append(q.s(cur))
    return '(scat %s)' % q.lst(parts)


def _value(v, saved=False):
    t, x = v
    if t == 'i':
        return '(VInt %s)' % q.z(x)
    if t == 'f':
        return '(VFloat %s)' % D.coq_tok(D.tok(float.fromhex(x)))
    if saved and T.classify_text(x)[0] != 's':
        raise ValueError('numeric string outside the reading: %r' % (x,))
    return '(VStr %s)' % _s(x)


def _cell(c):
    t, x = c
    if t == 'i':
        return '(CInt %s)' % q.z(x)
    if t == 'f':
        return '(CFloat %s)' % D.coq_tok(D.tok(float.fromhex(x)))
    return '(CText %s)' % _s(x)


def _fname(name):
    stem, ext = name.rsplit('.', 1)
    return '(mkname %s %s)' % (q.s(stem), {'tsv': 'Tsv', 'csv': 'Csv'}[ext])


def _mfile(spec):
    p = T.parse_file(spec)
    if p[0] == 'raise':
        return 'FRaise'
    return '(FTable %s %s)' % (q.lst(p[1], _s), q.lst(p[2], lambda r: q.lst(r, _cell)))


def _store(s):
    if s is None:
        return 'None'
    return '(Some (mkstore %s %s %s))' % (q.zl(s['ids']), q.zll(s['ch']), q.lst(s['w'], q.zll))


def _width(o, ds):
    ncl = ds.get('n_closest') or 12          # TemplateModel.n_closest_channels (class default 12, params.py may set it)
    return max(o[2] or ncl, ncl)


def encode(case, obs):
    inp = case['inp']
    ds = inp['ds']
    sem = ds['sem']
    if obs[0] == 'crash':
        # nothing is known about the first load: a well-formed stand-in for what it would have shown
        first = {'best': [[0]] * sem['n_templates'], 'times': [D.tok(0.0)] * sem['n_spikes'], 'nsw': sem['n_samples_wf'],
                 'raw': bool(ds.get('raw'))}
        subset_ids = {}
    else:
        _, first, views, subset_ids, crash_at, crash = obs
    tr = T.traces_of(ds)
    if tr is None:
        raw, chunks = 'None', '[]'
    else:
        raw = '(Some %s)' % q.zll(tr)
        chunks = '(mk_chunks %s %s)' % (q.zl(ds['raw']['sizes']), q.z(int(round(600 * float(sem['rate'])))))
    clusters = sem['spike_clusters'] if sem['spike_clusters'] is not None else sem['spike_templates']
    rest = '(mkrest %s %s %s %s %s %s %s)' % (
        q.zl(sem['spike_templates']), q.zl(sem['spike_samples']), q.lst(first['times'], D.coq_tok), raw, chunks,
        q.z(first['nsw']), q.zll(first['best']))
    files = q.lst(inp.get('init', []), lambda nf: '(%s, %s)' % (_fname(nf[0]), _mfile(nf[1])))
    sub0 = 'None'
    if inp.get('init_store'):
        # spike ids and channel table as written by write_broken_store; a waveform file np.load rejects
        shape = '[2; %d; 12]' % sem['n_samples_wf'] if inp['init_store'] == 'truncated' else '[]'
        sub0 = '(Some (mksub [0; 1] %s (mknpy %s F64 F64 [])))' % (q.zll([[k % 2 for k in range(12)]] * 2), shape)
    d0 = '(mkdisk %s %s %s %s)' % (q.zl(clusters), files, sub0, rest)
    ops = []
    for k, o in enumerate(inp['ops']):
        if o[0] == 'clusters':
            ops.append('(SaveClusters %s)' % q.zl(o[1]))
        elif o[0] == 'meta':
            ops.append('(SaveMeta %s %s)' % (q.s(o[1]), q.lst(o[2], lambda cv: '(%s, %s)' % (
                q.z(cv[0]), 'None' if cv[1] is None else '(Some %s)' % _value(cv[1], saved=True)))))
        elif o[0] == 'foreign':
            ops.append('(WriteForeign %s %s)' % (_fname(o[1]), _mfile(o[2])))
        elif o[0] == 'subset':
            ops.append('(SaveSubset %s %s)' % (q.zl(subset_ids.get(str(k), [])), q.z(_width(o, ds))))
        elif o[0] == 'close':
            ops.append('CloseModel')
        else:
            ops.append('Reload')
    cin = '(InHist %s %s %s)' % (d0, q.lst(ops), q.zl([o[1] for o in inp['ops'] if o[0] == 'subset']))
    if obs[0] == 'crash':
        return cin, 'ObsCrash'
    vs = []
    for v in views:
        if v[0] == 'fail':
            vs.append('OFail')
            continue
        o = v[1]
        meta = q.lst(sorted(o['meta'].items()), lambda fm: '(%s, %s)' % (
            _s(fm[0]), q.lst(fm[1], lambda kv: '(%s, %s)' % (_value(kv[0]), _value(kv[1])))))
        lookup = 'None' if o['lookup'] is None else '(Some %s)' % q.lst(o['lookup'], q.zll)
        vs.append('(OView (mkoview %s %s %s %s %s %s %s %s %s))' % (
            q.zl(o['clusters']), meta, q.zl(o['templates']), q.zl(o['samples']), q.lst(o['times'], D.coq_tok),
            _store(o['store']), lookup, 'true' if o.get('lookup_ok', True) else 'false', q.lst(o['changed'], q.s)))
    cobs = '(ObsHist %s %s)' % (q.lst(vs), q.opt(crash_at))
    return cin, cobs


# ---- evidence ------------------------------------------------------------------------------------------------------------

def nontrivial(case, obs):
    if obs[0] != 'hist':
        return False
    seen_save = False
    for o in case['inp']['ops']:
        if o[0] in ('clusters', 'meta', 'foreign', 'subset'):
            seen_save = True
        if o[0] == 'reload' and seen_save:
            return True
    return False


def dist(case, obs):
    ops = case['inp']['ops']
    ds = case['inp']['ds']
    out = ['len=%d' % len(ops), 'names=%s%s' % (ds['names'], '+label' if ds.get('label') else ''),
           'raw=%s' % (ds['raw']['dtype'] + 'x%d' % len(ds['raw']['sizes']) if ds.get('raw') else 'none'),
           'reloads=%d' % sum(1 for o in ops if o[0] == 'reload')]
    for name, spec in ds.get('files', {}).items():
        if 'clusters' in name or 'templates.npy' in name and 'spike' in name:
            out.append('%s_file_dtype=%s' % ('clusters' if 'clusters' in name else 'templates', spec['dtype']))
    if not any('clusters' in name for name in ds.get('files', {})):
        out.append('clusters_file=copied_at_first_load')
    for o in ops:
        out.append('op=' + o[0])
        if o[0] == 'clusters':
            out.append('saved_array_dtype=' + o[2])
            if o[1] and max(o[1]) > 127:
                out.append('max_id>=' + str(max(b for b in (128, 256, 32768, 65536) if b <= max(o[1]))))
        if o[0] == 'meta' and o[1] not in T.FIELDS:
            out.append('field_near_info=' + o[1])
        if o[0] == 'foreign' and o[1] in T.NEAR_FOREIGN:
            out.append('foreign_near_cluster_info=' + o[1])
        if o[0] == 'foreign':
            p = T.parse_file(o[2])
            out.append('foreign=' + (o[2]['kind'] if p[0] == 'raise' and o[2]['kind'] != 'text' else
                                     'empty' if p[0] == 'raise' else 'table'))
    nm = sum(1 for o in ops if o[0] == 'meta')
    out.append('meta_saves=%s' % (nm if nm < 3 else '3+'))
    if obs[0] == 'hist':
        out.append('load_failed=%d' % sum(1 for v in obs[2] if v[0] == 'fail'))
        if obs[4] is not None:
            out.append('op_raised=%s:%s' % (ops[obs[4]][0], obs[5][0]))
        if any(v[0] == 'view' and v[1]['store'] is not None for v in obs[2]):
            out.append('store_loaded')
        for v in obs[2]:
            if v[0] == 'view' and v[1]['store'] is not None and len(v[1]['store']['ids']) < 2:
                out.append('store_spikes=%d' % len(v[1]['store']['ids']))
    if case['inp'].get('init_store'):
        out.append('broken_store_at_start=' + case['inp']['init_store'])
    same = [o for i, o in enumerate(ops) if o[0] in ('clusters', 'meta') and any(p[:3] == o[:3] for p in ops[:i])]
    if same:
        out.append('payload_saved_again=' + same[0][0])
    if any(o[0] == 'clusters' and o[1] == _initial_clusters(ds) for o in ops):
        out.append('initial_clusters_saved')
    else:
        out.append('crash=' + str(obs[1]))
    return out


def size(case):
    return len(case['inp']['ops']) * 1000 + len(repr(case['inp']['ops']))


def shrink(case):
    ns = case['inp']['ds']['sem']['n_spikes']
    for c in _shrink(case):
        if not _use_after_close(c['inp']['ops'], ns):
            yield c


def _shrink(case):
    inp = case['inp']
    ops = inp['ops']
    for i in range(len(ops)):
        if len(ops) > 1:
            c = copy.deepcopy(inp)
            del c['ops'][i]
            if any(o[0] == 'reload' for o in c['ops']):
                yield {'kind': 'hist', 'inp': c}
    for i, o in enumerate(ops):
        if o[0] == 'meta' and len(o[2]) > 1:
            for j in range(len(o[2])):
                c = copy.deepcopy(inp)
                del c['ops'][i][2][j]
                yield {'kind': 'hist', 'inp': c}
    if inp.get('init'):
        c = copy.deepcopy(inp)
        c['init'] = []
        yield {'kind': 'hist', 'inp': c}
    if inp.get('init_store'):
        c = copy.deepcopy(inp)
        del c['init_store']
        yield {'kind': 'hist', 'inp': c}


def repro(case):
    return ("import sys; sys.path[:0] = ['/verif/harness', '/repo']\n"
            "from vt import npshim; npshim.setup_process()\n"
            "from vt.props import c10\n"
            "case = %r\n"
            "out = c10.run_case(case)\n"
            "print('ops   :', case['inp']['ops'])\n"
            "print('crash :', out[4], out[5])\n"
            "for v in out[2]:\n"
            "    print('reload:', v[0], v[1] if v[0] == 'fail' else {k: v[1][k] for k in ('clusters', 'meta', 'store', 'changed')})\n"
            % (case,))


MATCHERS = {}
