"""C08 -- curated clusters: template provenance (merge map, empty ids) and cluster waveforms (DESIGN.md §8 C08)."""
import copy
import os
import shutil
import tempfile

from .. import coqenc as q
from .. import datasets as D
from .. import datasets_c08 as G

ID = 'C08'
RULE = ('generated dataset directories (dense integer templates, 2-5 templates, 3-16 channels incl. more than the 12 '
        'closest, 1-3 shanks, regular / generic / random geometries, no / signed-permutation / unit-triangular / diagonal '
        'integer inverse whitening, KS and ALF names, id dtypes) whose cluster vector is produced from the template vector by '
        'a history of 0-6 merges, merges into an existing id, splits (incl. one-spike and emptying splits), reassignments '
        '(incl. gaps of empty ids) and id swaps; corpus of boundary cases first (last template without spikes, count ties, '
        'empty ids at both ends and on both sides of n_templates, one-spike clusters, clusters = templates with a template '
        'without spikes at the start / in the middle / at the end; stage 5: regular linear / two-column / staggered / lattice '
        'probes with 13-32 channels where a DISTANCE TIE crosses the 12-nearest boundary, and directories holding bystander files '
        '- KiloSort2\'s templates_ind.npy (arange rows, several dtypes) beside the dense templates, cluster_KSLabel.tsv, '
        'cluster_group.tsv; stage 6: ID MAGNITUDES - 17-130 templates and cluster ids up to 4095 (fresh ids of a long session) '
        'with every accepted id dtype incl. uint16, so that template_id * n_clusters passes 2^16 - and the curation GOING ON ON '
        'THE LOADED OBJECT: 1-3 further stages of 1-3 operations applied to model.spike_clusters in place / element-wise / by '
        'rebinding, get_merge_map() and get_cluster_mean_waveforms of every id asked again after each), then an exhaustive small scope (every cluster vector over ids {0,1,2,4} '
        'for fixed 4-spike template vectors), then the seeded random stream. Non-trivial = the directory loads and the '
        'curated branch is taken (or the identity branch with an unused template); distinct = distinct abstract input.')
EXHAUSTIVE = {'quick': True, 'thorough': True}
CLAUSES = {
    1: 'observed merge_map / nan_idx / n_clusters / sparse_clusters.data / mean waveforms differ from the Coq model PV.C08.Model.load',
    20: 'a well-formed curated dataset failed to load (or a cluster mean waveform query raised)',
    21: 'C08_merge_map: some id in [0, max] does not map to exactly the (increasing, duplicate-free) templates of its spikes',
    22: 'C08_merge_map / C08_nan_idx_both_branches: nan_idx is not exactly the ids without spikes (of [0, max] when curated, '
        'of range(n_templates) when clusters = templates)',
    23: 'C08_single: a cluster stemming from one template does not carry that template unchanged on all channels',
    24: 'C08_mean: a cluster stemming from several templates does not carry, on the channels of a dominant template, the '
        'spike-count weighted mean of the channel-restricted templates (zero elsewhere)',
    25: 'C08_identity: clusters = templates but cluster waveforms are not the template waveforms or n_clusters != n_templates',
    27: 'C08_merge_map_loaded: clusters <> templates but n_clusters or the number of cluster waveforms is not max id + 1',
    26: 'C08_mean_fn: get_cluster_mean_waveforms(c, unwhiten) is not the weighted mean on the channels of a dominant template',
}
TRUSTED = ['np.load/np.save, pathlib.glob (dataset files), np.linalg.inv only through the loaded wmi being re-checked against the '
           'intended integer matrix', 'np.average = sum(a*w)/sum(w) with one binary64 division, reproduced in the comparator with Coq '
           'primitive floats (PrimFloat.div) on the exact integer operands',
           'NumPy default argsort on distance ties at the 12-closest boundary: which tied channel is kept is not modelled; on such '
           'geometries the observed per-template channel lists are witnesses that must be legal 12-nearest selections '
           '(Corr.legal_chans) and clauses 24/26 are evaluated on them (comparator only, no Coq soundness lemma for legal_chans)']
ASSUMES = ['integer template values |v| <= 1024, integer inverse whitening |v| <= 64 (every float32/float64 intermediate exact)',
           'pairwise distinct channel positions (a distance tie between the 12th and 13th closest channel is inside the regime '
           'since stage 5: judged relationally)', 'template ids < n_templates, cluster ids >= 0, at least one spike',
           'order of channel_ids in get_cluster_mean_waveforms is not observed (columns are compared per channel)']
TIMEOUT = {'quick': 60, 'thorough': 120}    # a case takes ~0.1 s; generous so that machine load is never read as a hang


# ---- generator -------------------------------------------------------------------------------------------

def _corpus(rng):
    out = []
    small = dict(nc=4, ns=2, shanks='none', whitening='none', geometry='grid')
    # identity with the LAST template unused: n_clusters must still equal n_templates (fixed: fix-c08)
    out.append(G.gen_input(rng, nt=3, st=[0, 1, 1], sc=[0, 1, 1], write_clusters=True, **small))
    out.append(G.gen_input(rng, nt=3, st=[0, 1, 1], sc=[0, 1, 1], write_clusters=False, **small))
    out.append(G.gen_input(rng, nt=4, st=[2, 0, 0], sc=[2, 0, 0], names='alf', **small))
    # identity with a middle template unused
    out.append(G.gen_input(rng, nt=3, st=[0, 2, 2, 0], sc=[0, 2, 2, 0], **small))
    # nan_idx pass (fix-c14b): clusters = templates, a template without spikes at the START / in the MIDDLE / at the END /
    # all three / none: nan_idx must list exactly those ids (it was [] before the repair)
    out.append(G.gen_input(rng, nt=3, st=[1, 2, 2], sc=[1, 2, 2], write_clusters=False, **small))
    out.append(G.gen_input(rng, nt=4, st=[0, 1, 3], sc=[0, 1, 3], write_clusters=False, **small))
    out.append(G.gen_input(rng, nt=4, st=[0, 1, 2, 1], sc=[0, 1, 2, 1], write_clusters=True, names='alf', **small))
    out.append(G.gen_input(rng, nt=5, st=[1, 3, 3], sc=[1, 3, 3], write_clusters=True, id_dtype='int64', clu_dtype='uint32', **small))
    out.append(G.gen_input(rng, nt=3, st=[2, 0, 1, 1], sc=[2, 0, 1, 1], write_clusters=False, **small))
    # curated, emptied ids below AND above n_templates (merge 0+1 -> 3, 3 split into 5 and 6; 4 never used)
    out.append(G.gen_input(rng, nt=3, st=[0, 1, 2, 2], sc=[5, 6, 2, 2], **small))
    out.append(G.gen_input(rng, nt=3, st=[0, 1, 2, 2, 0], sc=[5, 5, 7, 2, 5], **small))
    # one merge of two templates with different counts / with a tie
    out.append(G.gen_input(rng, nt=2, st=[0, 0, 1], sc=[2, 2, 2], nc=5, ns=2, shanks='two', whitening='none'))
    out.append(G.gen_input(rng, nt=2, st=[0, 1], sc=[2, 2], nc=5, ns=2, shanks='two', whitening='none'))
    out.append(G.gen_input(rng, nt=3, st=[0, 1, 2, 0, 1, 2], sc=[3, 3, 3, 3, 3, 3], nc=6, ns=3, shanks='three', whitening='tri'))
    # tie where the dominant candidates have different channel sets; later template has more spikes
    out.append(G.gen_input(rng, nt=3, st=[0, 1, 1, 2, 2, 2], sc=[5, 5, 5, 5, 5, 5], nc=14, ns=2, shanks='two', whitening='perm', style='local'))
    # splits: one-spike cluster, emptied id, gap of empty ids, empty id 0
    out.append(G.gen_input(rng, nt=2, st=[0, 0, 1, 1], sc=[0, 2, 1, 1], **small))
    out.append(G.gen_input(rng, nt=2, st=[0, 0, 1, 1], sc=[3, 3, 1, 5], **small))
    out.append(G.gen_input(rng, nt=2, st=[0, 0, 1, 1], sc=[1, 1, 2, 2], **small))
    out.append(G.gen_input(rng, nt=3, st=[0, 1, 2, 2], sc=[1, 0, 2, 2], **small))       # swap only
    out.append(G.gen_input(rng, nt=3, st=[0, 1, 2], sc=[7, 7, 2], nc=16, ns=2, shanks='none', whitening='diag', geometry='line2'))
    # stage 3 (History.v): a phy history -- merge(0, 1) -> 3, phy split of 3 -> 4 and 5 (BOTH halves renumbered, id 3 left empty);
    # a merge whose fresh id max + 1 is the id of a template WITHOUT spikes (cluster id < n_templates carrying a mean);
    # a reassignment into an existing, otherwise untouched cluster (not producible by merges / splits: an id is re-used)
    out.append(G.gen_input(rng, nt=3, st=[0, 0, 1, 1, 2], sc=[4, 4, 5, 5, 2], **small))
    out.append(G.gen_input(rng, nt=4, st=[0, 1, 2, 0], sc=[3, 3, 2, 3], nc=5, ns=2, shanks='two', whitening='none'))
    out.append(G.gen_input(rng, nt=2, st=[0, 0, 1], sc=[0, 1, 1], **small))
    # merged cluster plus a template without any spike, more than 12 channels
    out.append(G.gen_input(rng, nt=4, st=[0, 0, 2, 2, 2], sc=[1, 1, 1, 2, 4], nc=13, ns=3, shanks='none', whitening='none', style='local'))
    # stage 5 (indirect seeded changes m10, m11)
    # a distance tie across the 12-nearest boundary: regular linear / two-column probes with more than 12 channels, merged clusters
    out.append(G.gen_input(rng, nt=3, st=[0, 0, 0, 1, 1, 2], sc=[3, 3, 3, 3, 3, 2], nc=16, ns=2, shanks='none', whitening='none',
                           ties=True, geometry='line', style='dense'))
    out.append(G.gen_input(rng, nt=3, st=[0, 1, 1, 2, 2], sc=[4, 4, 4, 4, 4], nc=20, ns=2, shanks='two', whitening='perm',
                           ties=True, geometry='gridu', style='dense'))
    out.append(G.gen_input(rng, nt=2, st=[0, 1, 1], sc=[0, 1, 1], nc=14, ns=2, shanks='none', whitening='diag',
                           ties=True, geometry='stag2'))
    # bystander files: KiloSort2's templates_ind.npy (with an s) beside dense templates, curated / identity / ALF names
    out.append(G.gen_input(rng, nt=4, st=[0, 0, 1, 2, 2, 3], sc=[4, 4, 4, 2, 5, 3], extra=[['templates_ind.npy', 'float64']],
                           names='ks', **small))
    out.append(G.gen_input(rng, nt=3, st=[0, 1, 1], sc=[0, 1, 1], extra=[['templates_ind.npy', 'int32'], ['cluster_KSLabel.tsv', 'text']],
                           names='ks', **small))
    out.append(G.gen_input(rng, nt=3, st=[0, 1, 2, 2], sc=[3, 3, 2, 0], extra=[['templates_ind.npy', 'uint32'], ['cluster_group.tsv', 'text']],
                           names='alf', nc=5, ns=2, shanks='two', whitening='tri'))
    # stage 6 (seeded changes m12, m13)
    # id magnitudes: 24 templates, a long session (fresh ids around 3000), 16-bit / 32-bit template ids
    big_st = [23, 3, 4, 7, 12, 23, 23, 22, 3, 0]
    big_sc = [2998, 3000, 3000, 2999, 2999, 23, 23, 22, 3000, 0]
    for dt in ('uint16', 'int32'):
        out.append(G.gen_input(rng, nt=24, st=big_st, sc=big_sc, nc=3, ns=2, shanks='none', whitening='none', geometry='grid',
                               id_dtype=dt, clu_dtype='int32'))
    # 130 templates and ~520 cluster ids
    out.append(G.gen_input(rng, nt=130, st=[129, 128, 127, 5, 129, 0], sc=[519, 519, 127, 5, 520, 0], nc=3, ns=2, shanks='none',
                           whitening='none', geometry='grid', id_dtype='uint16', clu_dtype='uint32'))
    # the curation goes on on the loaded object: merge into an existing id / split / reassignment between two rounds of queries
    out.append(G.gen_input(rng, nt=3, st=[0, 0, 1, 1, 2, 2, 2], sc=[3, 3, 3, 3, 2, 2, 4],
                           hist=[{'sc': [3, 3, 3, 3, 3, 2, 4], 'mode': 'elementwise'}, {'sc': [3, 4, 3, 3, 3, 2, 0], 'mode': 'inplace'}],
                           **small))
    out.append(G.gen_input(rng, nt=3, st=[0, 1, 1, 2, 2], sc=[0, 1, 1, 2, 2],
                           hist=[{'sc': [3, 3, 3, 2, 2], 'mode': 'rebind'}, {'sc': [3, 3, 1, 3, 2], 'mode': 'elementwise'}],
                           nc=5, ns=2, shanks='two', whitening='perm'))
    out.append(G.gen_input(rng, nt=3, st=[0, 0, 0, 1, 1, 2], sc=[3, 3, 3, 3, 3, 2], nc=16, ns=2, shanks='none', whitening='none',
                           ties=True, geometry='line', style='dense', hist=[{'sc': [3, 3, 0, 3, 3, 3], 'mode': 'inplace'}]))
    return out


def _exhaustive(tier):
    """every cluster vector over {0,1,2,4} for two fixed 4-spike template vectors (quick) / 5-spike (thorough)"""
    import itertools
    import random
    rng = random.Random(808)
    out = []
    sts = [[0, 0, 1, 2], [0, 1, 1, 0]] if tier == 'quick' else [[0, 0, 1, 2, 1], [0, 1, 1, 0, 0], [2, 2, 0, 0, 2]]
    for st in sts:
        base = G.gen_input(rng, nt=3, st=list(st), sc=list(st), nc=4, ns=2, shanks='two', whitening='none', geometry='grid',
                           id_dtype='uint32', clu_dtype='int32', tmpl_dtype='float32', names='ks', vec2d=False,
                           write_clusters=True, wmi_file=False)
        for sc in itertools.product([0, 1, 2, 4], repeat=len(st)):
            c = copy.deepcopy(base)
            c['sc'] = list(sc)
            c['ops'] = ['exhaustive']
            out.append(c)
    return out


def generate(tier, rng):
    cases = [{'kind': 'load', 'inp': i} for i in _corpus(rng)]
    if tier != 'search':
        cases += [{'kind': 'load', 'inp': i} for i in _exhaustive(tier)]
    n_rand = {'quick': 260, 'thorough': 5000, 'search': 2500}[tier]
    for k in range(n_rand):
        o = {}
        r = rng.random()
        if r < 0.08:
            o['n_ops'] = 0
            o['unused'] = rng.choice(['start', 'middle', 'end', 'end', 'ends', 'none'])
        elif r < 0.16:
            o['last_unused'] = True
        # stage 5: independent axes -- boundary-tied geometries (13-32 channels), bystander files in the directory
        if rng.random() < 0.22:
            o['ties'] = True
        o['p_extra'] = 0.2
        # stage 6: independent axes -- id magnitudes (many templates, cluster ids in the thousands, biased to the narrow id
        # dtype), and the curation going on on the loaded object between two rounds of queries
        if rng.random() < 0.07:
            o['big'] = True
            if rng.random() < 0.5:
                o['id_dtype'] = 'uint16'
        o['p_hist'] = 0.25
        cases.append({'kind': 'load', 'inp': G.gen_input(rng, **o)})
    return cases


# ---- implementation --------------------------------------------------------------------------------------

def _col_pairs(r):
    """(channel_ids, mean_waveforms[ns, nch]) -> [(channel, [column tokens over samples])] sorted by channel"""
    import numpy as np
    ch = [int(c) for c in np.asarray(r.channel_ids).tolist()]
    mwf = np.asarray(r.mean_waveforms)
    assert mwf.ndim == 2 and mwf.shape[1] == len(ch)
    return sorted((c, [D.tok(float(v)) for v in mwf[:, j]]) for j, c in enumerate(ch))


def run_case(case):
    import numpy as np
    from phylib.io.model import TemplateModel
    inp = case['inp']
    ds = G.to_dataset(inp)
    d = tempfile.mkdtemp(prefix='c08_', dir=os.environ.get('VT_WORK') or None)
    try:
        kw = D.materialise(ds, d)
        m = TemplateModel(**kw)
        nc = len(inp['pos'])
        wmi = inp['wmi'] if inp['wmi'] is not None else [[int(i == j) for j in range(nc)] for i in range(nc)]
        inputs_ok = (np.asarray(m.spike_templates).tolist() == inp['st'] and np.asarray(m.spike_clusters).tolist() == inp['sc']
                     and np.array_equal(np.asarray(m.wmi), np.array(wmi, dtype=float))
                     and np.array_equal(np.asarray(m.sparse_templates.data), np.array(inp['tmpl'], dtype=float))
                     and np.array_equal(np.asarray(m.channel_shanks), np.array(inp['shanks'] or [0] * nc))
                     and np.array_equal(np.asarray(m.channel_positions), np.array(inp['pos'], dtype=float)))
        data = np.asarray(m.sparse_clusters.data)
        assert data.ndim == 3
        obs = {
            'mm': [(int(k), [int(t) for t in v]) for k, v in m.merge_map.items()],
            'nan': [int(x) for x in np.asarray(m.nan_idx).tolist()],
            'ncl': int(m.n_clusters), 'nt': int(m.n_templates),
            'data': [[[D.tok(float(v)) for v in row] for row in t] for t in data],
            'inputs_ok': bool(inputs_ok),
            # stage 5: dense storage is an OBSERVATION (a dense templates file without template_ind.npy must be loaded as
            # dense whatever else lies in the directory), not part of the harness self-check
            'dense': bool(m.sparse_templates.cols is None),
        }
        # stage 5: the per-template channel lists (witnesses for geometries with a distance tie at the 12-nearest boundary)
        for unw, key in ((False, 'tch_w'), (True, 'tch_u')):
            obs[key] = [(int(t), [int(c) for c in np.asarray(m.get_template(t, unwhiten=unw).channel_ids).tolist()])
                        for t in sorted(set(inp['st']))]
        for unw, key in ((False, 'mean_w'), (True, 'mean_u')):
            l = []
            for j, c in enumerate(sorted(set(inp['sc']))):
                # the unwhitened route is observed through the DEFAULT call (signature: unwhiten=True) on every other
                # cluster id and through the explicit keyword on the others (stage 3, mutant "default True -> False")
                r = (m.get_cluster_mean_waveforms(c) if (unw and j % 2 == 1) else
                     m.get_cluster_mean_waveforms(c, unwhiten=unw))
                l.append((int(c), _col_pairs(r)))
            obs[key] = l
        # stage 6: the curation goes on on the SAME object: spike_clusters updated (whole array in place / only the changed
        # elements in place / attribute rebound to a new array), then get_merge_map() and the mean waveforms of every id
        # with spikes are asked again (both routes)
        if inp.get('hist'):
            stages = []
            try:
                for h in inp['hist']:
                    new = np.array(h['sc'], dtype=np.asarray(m.spike_clusters).dtype)
                    if h['mode'] == 'rebind':
                        m.spike_clusters = new
                    elif h['mode'] == 'elementwise':
                        idx = np.nonzero(np.asarray(m.spike_clusters) != new)[0]
                        m.spike_clusters[idx] = new[idx]
                    else:
                        m.spike_clusters[:] = new
                    assert np.asarray(m.spike_clusters).tolist() == h['sc']
                    mm, nan = m.get_merge_map()
                    so = {'sc': list(h['sc']), 'mm': [(int(k), [int(t) for t in v]) for k, v in mm.items()],
                          'nan': [int(x) for x in np.asarray(nan).tolist()]}
                    for unw, key in ((False, 'mean_w'), (True, 'mean_u')):
                        so[key] = [(int(c), _col_pairs(m.get_cluster_mean_waveforms(c, unwhiten=unw)))
                                   for c in sorted(set(h['sc']))]
                    stages.append(so)
                obs['hist'] = stages
            except AssertionError:
                raise
            except Exception as e:          # a query on the updated object raised: code 20
                obs['hist_crash'] = '%s: %s' % (type(e).__name__, e)
        m.close()
        return ('loaded', obs)
    finally:
        shutil.rmtree(d, ignore_errors=True)


# ---- encoding --------------------------------------------------------------------------------------------

def _toks(l):
    return q.lst(l, D.coq_tok)


def _mobs(l):
    return q.lst(l, lambda cv: '(mkmobs %s %s)' % (q.z(cv[0]), q.lst(cv[1], lambda p: '(%s, %s)' % (q.z(p[0]), _toks(p[1])))))


def encode(case, obs):
    inp = case['inp']
    nc = len(inp['pos'])
    shanks = inp['shanks'] if inp['shanks'] is not None else [0] * nc
    wmi = inp['wmi'] if inp['wmi'] is not None else [[int(i == j) for j in range(nc)] for i in range(nc)]
    cin = '(InLoad (mkds %s %s %s %s %s %s %s))' % (
        q.zl(inp['st']), q.zl(inp['sc']), q.lst(inp['tmpl'], q.zll), q.zl([p[0] for p in inp['pos']]),
        q.zl([p[1] for p in inp['pos']]), q.zl(shanks), q.zll(wmi))
    if obs[0] == 'crash':
        return cin, 'ObsCrash'
    o = obs[1]
    tch = lambda l: q.lst(l, lambda kv: '(%s, %s)' % (q.z(kv[0]), q.zl(kv[1])))
    mmenc = lambda l: q.lst(l, lambda kv: '(%s, %s)' % (q.z(kv[0]), q.zl(kv[1])))
    rec = '(mkobs %s %s %s %s %s %s %s %s %s %s %s)' % (
        mmenc(o['mm']), q.zl(o['nan']), q.z(o['ncl']), q.z(o['nt']),
        q.lst(o['data'], lambda t: q.lst(t, _toks)), _mobs(o['mean_w']), _mobs(o['mean_u']), q.b(o['inputs_ok']),
        tch(o['tch_w']), tch(o['tch_u']), q.b(o['dense']))
    if 'hist_crash' in o:
        return cin, '(ObsHistCrash %s)' % rec
    if 'hist' in o:
        return cin, '(ObsHist %s %s)' % (rec, q.lst(o['hist'], lambda h: '(mkhobs %s %s %s %s %s)' % (
            q.zl(h['sc']), mmenc(h['mm']), q.zl(h['nan']), _mobs(h['mean_w']), _mobs(h['mean_u']))))
    return cin, '(ObsLoaded %s)' % rec


def _n_templates_of(inp, c):
    return len(set(t for t, k in zip(inp['st'], inp['sc']) if k == c))


def nontrivial(case, obs):
    inp = case['inp']
    if obs[0] != 'loaded':
        return False
    return inp['sc'] != inp['st'] or len(set(inp['st'])) < len(inp['tmpl'])


def dist(case, obs):
    inp = case['inp']
    out = ['outcome=' + obs[0] + (':' + obs[1] if obs[0] == 'crash' else '')]
    curated = inp['sc'] != inp['st']
    out.append('branch=' + ('curated' if curated else 'identity'))
    out.append('n_ops=%d' % (len(inp['ops']) if inp['ops'] not in (['given'], ['exhaustive']) else -1))
    out.append('nt=%d' % len(inp['tmpl']))
    nc = len(inp['pos'])
    out.append('nc=%s' % ('<=12' if nc <= 12 else '>12'))
    out.append('shanks=%s' % ('none' if inp['shanks'] is None else len(set(inp['shanks']))))
    out.append('whitening=%s' % ('none' if inp['wmi'] is None else ('file' if inp['opts']['wmi_file'] else 'inverted')))
    out.append('names=' + inp['opts']['names'])
    out.append('boundary_tie=%s' % G.boundary_tie(inp['pos']))
    out.append('extra=' + ('+'.join(sorted(e[0] for e in inp['opts'].get('extra') or [])) or 'none'))
    out.append('id_dtype=' + inp['opts']['id_dtype'])
    out.append('hist_stages=%d' % len(inp.get('hist') or []))
    out.append('hist_modes=' + ('+'.join(sorted(set(h['mode'] for h in inp.get('hist') or []))) or 'none'))
    # does template_id * n_clusters leave 16 bits for some spike?
    out.append('id_product=%s' % ('>=2^16' if max(inp['st']) * (max(inp['sc']) + 1) >= 65536 else '<2^16'))
    out.append('max_cluster_id=%s' % ('<64' if max(inp['sc']) < 64 else '<1024' if max(inp['sc']) < 1024 else '>=1024'))
    if curated:
        mx = max(inp['sc'])
        present = set(inp['sc'])
        out.append('empty_ids=%d' % min(3, mx + 1 - len(present)))
        ks = [_n_templates_of(inp, c) for c in present]
        out.append('max_templates_per_cluster=%d' % max(ks))
        out.append('one_spike_cluster=%s' % any(inp['sc'].count(c) == 1 for c in present))
        tie = False
        for c in present:
            cnt = {}
            for t, k in zip(inp['st'], inp['sc']):
                if k == c:
                    cnt[t] = cnt.get(t, 0) + 1
            v = sorted(cnt.values())
            if len(v) >= 2 and v[-1] == v[-2]:
                tie = True
        out.append('count_tie=%s' % tie)
        # a present id below n_templates whose own template has no spike at all (a fresh id max + 1 that re-uses the number of
        # an unused template), and an id <= max(st) that holds a spike of another template (re-use: needs a reassignment)
        used_t = set(inp['st'])
        out.append('id_of_unused_template=%s' % any(c < len(inp['tmpl']) and c not in used_t for c in present))
        out.append('id_reused=%s' % any(k <= max(inp['st']) and k != t for t, k in zip(inp['st'], inp['sc'])))
    else:
        out.append('unused_last_template=%s' % (max(inp['st']) + 1 < len(inp['tmpl'])))
        nt_, used = len(inp['tmpl']), set(inp['st'])
        un = [t for t in range(nt_) if t not in used]
        out.append('unused_templates=%s' % ('+'.join(k for k, f in (('start', 0 in un), ('middle', any(0 < t < nt_ - 1 for t in un)),
                                                                  ('end', nt_ - 1 in un)) if f) or 'none'))
    return out


def size(case):
    inp = case['inp']
    return len(inp['st']) * 50 + len(inp['tmpl']) * len(inp['tmpl'][0]) * len(inp['pos']) + sum(abs(v) for t in inp['tmpl'] for r in t for v in r) // 10


def shrink(case):
    inp = case['inp']
    nt, ns, nc = len(inp['tmpl']), len(inp['tmpl'][0]), len(inp['pos'])

    def mk(**kw):
        c = copy.deepcopy(inp)
        c.update(kw)
        c['ops'] = ['given']
        return {'kind': 'load', 'inp': c}
    # drop a spike
    if len(inp['st']) > 1:
        for i in range(len(inp['st'])):
            kw = dict(st=inp['st'][:i] + inp['st'][i + 1:], sc=inp['sc'][:i] + inp['sc'][i + 1:])
            if inp.get('hist'):
                kw['hist'] = [dict(h, sc=h['sc'][:i] + h['sc'][i + 1:]) for h in inp['hist']]
            yield mk(**kw)
    # stage 6: drop a stage of the on-object history (first / last), drop the history; make the first stage the loaded vector
    hist = inp.get('hist') or []
    if hist:
        c = copy.deepcopy(inp)
        c.pop('hist')
        c['ops'] = ['given']
        yield {'kind': 'load', 'inp': c}
        if len(hist) > 1:
            yield mk(hist=hist[:-1])
            yield mk(hist=hist[1:])
            yield mk(sc=list(hist[0]['sc']), hist=hist[1:])
        for j, h in enumerate(hist):
            if h['mode'] != 'inplace':
                yield mk(hist=hist[:j] + [dict(h, mode='inplace')] + hist[j + 1:])
            for i, cc in enumerate(h['sc']):
                prev = (inp['sc'] if j == 0 else hist[j - 1]['sc'])[i]
                if cc != prev:          # undo one reassignment of the stage
                    yield mk(hist=hist[:j] + [dict(h, sc=h['sc'][:i] + [prev] + h['sc'][i + 1:])] + hist[j + 1:])
    # drop unused templates above the largest used id at once (many-template inputs)
    if nt > 2 and max(inp['st']) + 1 < nt - 1:
        yield mk(tmpl=inp['tmpl'][:max(2, max(inp['st']) + 1)])
    # drop whitening, shanks
    if inp['wmi'] is not None:
        yield mk(wmi=None)
    if inp['shanks'] is not None:
        yield mk(shanks=None)
    # drop the last template when unused
    if nt > 1 and max(inp['st']) < nt - 1:
        yield mk(tmpl=inp['tmpl'][:-1])
    # drop the last channel
    if nc > 2:
        c = copy.deepcopy(inp)
        c['tmpl'] = [[row[:-1] for row in t] for t in inp['tmpl']]
        c['pos'] = inp['pos'][:-1]
        if G.boundary_tie(c['pos']) and not G.boundary_tie(inp['pos']):
            pass
        else:
            if c['shanks'] is not None:
                c['shanks'] = c['shanks'][:-1]
            if c['wmi'] is not None:
                c['wmi'] = None
            c['ops'] = ['given']
            yield {'kind': 'load', 'inp': c}
    # drop a sample row
    if ns > 1:
        yield mk(tmpl=[t[:-1] for t in inp['tmpl']])
    # lower cluster ids
    for i, c in enumerate(inp['sc']):
        if c > 0:
            sc = list(inp['sc'])
            sc[i] = c - 1
            yield mk(sc=sc)
    # renumber a cluster id to the smallest unused id
    used = set(inp['sc'])
    for c in sorted(used, reverse=True):
        free = [x for x in range(c) if x not in used]
        if free:
            yield mk(sc=[free[0] if x == c else x for x in inp['sc']])
    # simplify template values
    for t in range(nt):
        if any(v for row in inp['tmpl'][t] for v in row):
            tm = copy.deepcopy(inp['tmpl'])
            tm[t] = [[(v // 2 if v > 0 else -((-v) // 2)) for v in row] for row in tm[t]]
            yield mk(tmpl=tm)
    # drop the bystander files, one at a time
    for i in range(len(inp['opts'].get('extra') or [])):
        ex = inp['opts']['extra'][:i] + inp['opts']['extra'][i + 1:]
        oo = dict(inp['opts'])
        if ex:
            oo['extra'] = ex
        else:
            oo.pop('extra')
        yield mk(opts=oo)
    # plain file options
    o = inp['opts']
    if (o['names'], o['vec2d'], o['id_dtype'], o['tmpl_dtype']) != ('ks', False, 'uint32', 'float32'):
        oo = dict(o, names='ks', vec2d=False, id_dtype='uint32', clu_dtype='int32', tmpl_dtype='float32')
        yield mk(opts=oo)


def repro(case):
    return ("import sys, tempfile; sys.path[:0] = ['/verif/harness', '/repo']\n"
            "from vt import npshim, datasets as D, datasets_c08 as G; npshim.setup_process()\n"
            "from phylib.io.model import TemplateModel\n"
            "inp = %r\n"
            "d = tempfile.mkdtemp(); m = TemplateModel(**D.materialise(G.to_dataset(inp), d))\n"
            "print('n_templates', m.n_templates, 'n_clusters', m.n_clusters, 'merge_map', m.merge_map, 'nan_idx', m.nan_idx)\n"
            "print(m.sparse_clusters.data)\n"
            "for c in sorted(set(inp['sc'])): r = m.get_cluster_mean_waveforms(c, unwhiten=False); print(c, r.channel_ids, r.mean_waveforms.T)\n"
            % (case['inp'],))


MATCHERS = {}
