"""C17 -- spike selection honours its cluster, chunk, subset and count constraints (DESIGN.md §8 C17)."""
import itertools

from .. import coqenc as q

ID = 'C17'
RULE = ('kept chunks: every (number of bounds, n_chunks_kept) pair of the tier on strictly increasing grids and on '
        'grids with repeated bounds; selection: for a set of (grid, n_chunks_kept, spike-time pattern with spikes '
        'exactly on, inside and outside the kept bounds) every cluster vector up to the tier length over two '
        'cluster ids x counts {None,0,1,2,10} x request lists (empty, unknown id, duplicates, both orders) x chunk '
        'restriction on/off x subset {None, empty, partial}; a one-spike-per-time sweep for every grid x '
        'n_chunks_kept; then a seeded random stream (unsorted times, duplicate and unknown ids, subsets with '
        'repeats and foreign ids, negative counts). Every call that may sub-sample is repeated under 5 NumPy '
        'seeds; array dtypes/containers (int64, uint64, int32, float64 on a half-integer scale, list/array '
        'arguments; keyword arguments left at their defaults in every other configuration) are multiplied in on the '
        'implementation side. Round 2 (kind seq): 2-4 calls made one after the other on ONE SpikeSelector object, every '
        'call judged by the clauses of a single call: every ordered pair of (subset_chunks, count in {None,0,1,2,10}) '
        'settings on the setups x cluster vectors with spikes inside and outside the kept chunks, request lists / '
        'subsets in rotation (always a shared cluster); every subset_chunks pattern of 3 and 4 calls; a seeded random '
        'stream of histories. Stage 5 (value ranges / dtypes): cluster ids around every power-of-two boundary of the '
        'integer widths (2^7, 2^8, 2^15, 2^16, 2^31, 2^32, 2^40 -1/+0/+1, 10^6, negative ids) as largest / smallest / '
        'neighbouring id, on cluster vectors of dtype int64, int32, uint32, uint64, uint16; spike samples and chunk '
        'grids translated to offsets around 2^24, 2^31, 2^32, 2^40, 2^52 and to 30 kHz recording lengths (one spike per '
        'sample across every bound), under every integer / float64 time dtype that holds them; a seeded random stream '
        'with both transformations. Non-trivial = the call returns at least one '
        'spike (kept: at least two chunks in the grid); distinct = distinct abstract input.')
EXHAUSTIVE = {'quick': True, 'thorough': True}
CLAUSES = {
    1: 'observed output differs from the Coq model PV.C17.Model (chunks_kept, or the returned array of a call '
       'in which no cluster is sub-sampled)',
    21: 'C17_kept (kept chunks = grid intervals at a regular stride from the first, all of them, <= n_chunks_kept)',
    22: 'C17_select (returned array strictly increasing)',
    23: 'C17_select (every returned id is a spike of a requested cluster; unknown clusters / empty request give nothing)',
    24: 'C17_select + C17_parity (every returned id lies in a kept chunk [a, b) when the chunk restriction is on)',
    25: 'C17_select (every returned id is in the requested spike subset)',
    26: 'C17_select (per requested cluster: all eligible spikes, or exactly the requested count)',
    27: 'C17_kept_densest (kept chunks = the densest regular selection from the first chunk that fits in '
        'n_chunks_kept: the stride is the least one keeping <= n_chunks_kept chunks, ceil(n_chunks / n_chunks_kept))',
}
TRUSTED = ['np.random.choice(ids, n, replace=False) returns n distinct members of ids (oracle hypothesis of the '
           'theorems; the draws themselves are judged relationally)',
           'np.searchsorted / np.intersect1d / np.unique / boolean and fancy indexing as documented',
           '_spikes_per_cluster(spike_clusters).get(c, empty) returns the positions of c in increasing order '
           '(this is property C07; C17 models it as such)',
           'float true division n_chunks / n_chunks_kept followed by math.ceil equals the exact ceiling '
           '(exact for n_chunks < 2**52)']
ASSUMES = ['n_chunks_kept >= 1 (0 raises ZeroDivisionError; negative values keep every chunk)',
           'the chunk grid is non-decreasing and has at least one bound (np.searchsorted needs a sorted array)',
           'spike_times and spike_clusters have the same length']
TIMEOUT = {'quick': 10, 'thorough': 20}

# implementation-side configurations (DESIGN.md §5 g): (times dtype, grid container, scale, request/subset container)
CFGS = [('int64', 'list', 1, 'list'), ('float64', 'float64', 0.5, 'array'), ('uint64', 'int64', 1, 'list'),
        ('int32', 'list', 1, 'array'), ('float64', 'list', 1, 'list'), ('int64', 'int64', 1, 'array')]
SEEDS = (0, 1, 2, 3, 4)


def _sel(times, clusters, grid, k, n, req, sc, sub, cfg=0):
    return {'kind': 'select', 'inp': {'times': list(times), 'clusters': list(clusters), 'grid': list(grid), 'k': k,
                                      'n': n, 'req': list(req), 'sc': bool(sc),
                                      'sub': None if sub is None else list(sub), 'cfg': cfg}}


def _kept(grid, k, cfg=0):
    return {'kind': 'kept', 'inp': {'grid': list(grid), 'k': k, 'cfg': cfg}}


def _call(n, req, sc, sub=None):
    return {'n': n, 'req': list(req), 'sc': bool(sc), 'sub': None if sub is None else list(sub)}


def _seq(times, clusters, grid, k, calls, cfg=0):
    """calls made one after the other on ONE SpikeSelector object (round-2 seed C17-m5: a cache on the object)"""
    return {'kind': 'seq', 'inp': {'times': list(times), 'clusters': list(clusters), 'grid': list(grid), 'k': k,
                                   'calls': [_call(c['n'], c['req'], c['sc'], c['sub']) for c in calls], 'cfg': cfg}}


def _route(seed, nst, nspk, rate):
    return {'kind': 'route', 'inp': {'seed': seed, 'nst': nst, 'nspk': nspk, 'rate': rate}}


# ---- stage 5: value-range axes (ids and sample numbers far from 0) ------------------------------------------
# dtype of the spike-cluster vector handed to _spikes_per_cluster (inp['cdt']; int64 when the ids do not fit, or
# when the spread of a signed vector exceeds the dtype -- np.diff on such a vector is property C07's business)
CDTS = ['int64', 'int32', 'uint32', 'uint64', 'uint16']
BIG_IDS = sorted({2 ** p + d for p in (7, 8, 15, 16, 31, 32, 40) for d in (-1, 0, 1)} | {10 ** 6})
NEG_IDS = [-1, -2, -2 ** 15 - 1, -2 ** 31 - 1]
# offsets of the sample numbers: around the 24-bit significand of single precision, the 32-bit integers, beyond
# (all below 2 ** 52: float64 times on the half-integer scale and float64 upcasts stay exact)
BIG_T = [2 ** 24 - 3, 2 ** 24 + 1, 29999997, 59999999, 10 ** 8 + 1, 2 ** 31 - 3, 2 ** 31 + 1, 2 ** 32 - 3,
         2 ** 32 + 1, 2 ** 40 + 1, 10 ** 12 + 7, 2 ** 52 - 63]


def _map_ids(case, m, cdt=0):
    """the same case with every cluster id x (spike vector and requests) replaced by m.get(x, x)"""
    i = dict(case['inp'])
    f = lambda l: [m.get(x, x) for x in l]
    i['clusters'] = f(i['clusters'])
    if 'calls' in i:
        i['calls'] = [dict(c, req=f(c['req'])) for c in i['calls']]
    else:
        i['req'] = f(i['req'])
    i['cdt'] = cdt
    return {'kind': case['kind'], 'inp': i}


def _shift(case, b, mul=1):
    """the same case with every spike time and chunk bound x replaced by b + mul * x"""
    i = dict(case['inp'])
    i['times'] = [b + mul * x for x in i['times']]
    i['grid'] = [b + mul * x for x in i['grid']]
    return {'kind': case['kind'], 'inp': i}


def _wide_cases(quick, n0=0):
    cases = []
    n = n0
    t = list(range(12))
    g = [0, 3, 6, 9, 12]
    # (a) every boundary id v as the largest / the smallest / a middle id of the vector, and beside its neighbours
    for v in BIG_IDS + NEG_IDS:
        vecs = [[3 if x % 3 == 0 else v if x % 3 == 1 else 9 for x in (0, 1, 0, 2, 1, 0, 2, 2, 1, 0, 1, 2)],
                [v if x == 0 else v + 1 if x == 1 else 2 * abs(v) + 5 for x in (2, 0, 1, 0, 2, 0, 1, 1, 0, 2, 0, 1)],
                [v - 1 if x == 0 else v if x == 1 else v + 1 for x in (1, 0, 2, 1, 1, 0, 2, 0, 1, 2, 0, 1)],
                [0 if x == 0 else v for x in (1, 0, 0, 1, 1, 0, 1, 0, 0, 1, 1, 0)]]
        for cl in vecs:
            ids = sorted(set(cl))
            reqs = [[c] for c in ids] + [ids, ids[::-1], [ids[-1], ids[-1] + 1, ids[0] - 1]]
            for r, req in enumerate(reqs):
                nn, sc = ((None, False), (None, True), (1, True), (0, False), (2, False), (10, True))[(n + r) % 6]
                c = _sel(t, cl, g, 2, nn, req, sc, None, n % len(CFGS))
                c['inp']['cdt'] = n % len(CDTS)
                cases.append(c)
                n += 1
            if not quick:
                cases.append(_seq(t, cl, g, 2, [_call(None, [ids[0]], True), _call(1, ids, False),
                                                 _call(None, ids[::-1], True)], n % len(CFGS)))
                cases[-1]['inp']['cdt'] = n % len(CDTS)
    # (b) one spike per sample from below the grid to above it, at every offset: step-2 and step-3 grids (odd and
    # even bounds), every stride; both clusters asked for, with and without a limiting count
    for b in BIG_T:
        for nb, step in ((3, 2), (4, 3), (5, 2)) if quick else ((2, 1), (3, 2), (4, 3), (5, 2), (6, 3), (7, 1)):
            grid = [step * x for x in range(nb)]
            ts = list(range(-2, grid[-1] + 3))
            for k in range(1, nb + 1):
                for cfg in range(len(CFGS)) if (not quick or k == 2) else (n % len(CFGS),):
                    cases.append(_shift(_sel(ts, [1] * len(ts), grid, k, None, [1], True, None, cfg), b))
                cases.append(_shift(_sel(ts, [1 + (x % 2) for x in range(len(ts))], grid, k, 2, [2, 1], True, None,
                                         (n + 1) % len(CFGS)), b))
                n += 1
        # a long recording: chunks of `b` samples, spikes one sample before / on / after every bound
        if 3 * b + 1 >= 2 ** 52:
            continue
        grid = [0, b, 2 * b, 3 * b]
        ts = sorted({x + d for x in grid for d in (-1, 0, 1)} | {10})
        for k in (1, 2, 3):
            cases.append(_sel(ts, [5 + (x % 2) for x in range(len(ts))], grid, k, None, [5, 6], True, None, (n % 2) * 2))
            n += 1
    return cases


def _random_wide(rng, seq=False):
    """a random case (as _random / _random_seq) with its ids mapped injectively into the boundary ids and / or its
    times and grid translated to a large offset"""
    case = _random_seq(rng) if seq else _random(rng)
    r = rng.random()
    if r < 0.65:
        i = case['inp']
        ids = sorted(set(i['clusters']) | {x for c in i.get('calls', [i]) for x in c['req']})
        pool = BIG_IDS + (NEG_IDS if rng.random() < 0.2 else [])
        if rng.random() < 0.5:
            # a window of neighbouring boundary values (so that the largest id sits exactly on a boundary)
            a = rng.randrange(len(pool))
            pool = pool[max(0, a - len(ids)):a + 1] + [0, 3]
        m = dict(zip(ids, rng.sample(pool, min(len(ids), len(pool)))))
        case = _map_ids(case, m, rng.randrange(len(CDTS)))
    if r > 0.35:
        case = _shift(case, rng.choice(BIG_T) + rng.randint(-2, 2), rng.choice((1, 1, 1, 2, 1000)))
    return case


def _corpus():
    c = []
    # upstream's example, on a doubled integer scale
    g = [0, 2, 4, 6, 8, 10, 12]
    for n, req, sub in [(3, [], None), (3, [0], None), (3, [1], None), (None, [1, 2, 4], None), (0, [1, 2, 4], None),
                        (3, [1, 2, 4], None), (2, [1, 2, 4], None), (1, [1, 2, 4], None), (2, [1, 2, 4], [0, 1])]:
        c.append(_sel([0, 2, 4, 6, 8], [1, 2, 1, 2, 4], g, 2, n, req, True, sub))
    c.append(_sel([0, 2, 4, 6, 8], [1, 2, 1, 2, 4], g, 2, 2, [1, 2, 4], False, None))
    # one boundary case per operator of the anchored code
    c.append(_kept([0, 1, 2, 3, 4, 5], 3))            # ceil(5/3) = 2, not 1: floor would keep 5 chunks
    c.append(_kept([0, 1, 2, 3, 4, 5, 6], 3))         # 6/3 exact
    c.append(_kept([0, 1, 2, 3, 4, 5, 6, 7], 3))      # ceil(7/3) = 3 -> 3 chunks
    c.append(_kept([0, 1, 2, 3, 4], 2))               # last kept chunk is the last-but-one of the grid
    c.append(_kept([0, 1, 2], 7))                     # more requested than present: max(1, .)
    c.append(_kept([0, 1], 1))
    c.append(_kept([0], 1))                           # no chunk at all
    c.append(_kept([0, 0, 1, 1, 1, 2], 2))            # repeated bounds
    # spikes exactly on kept bounds: lower bound in, upper bound out ('right' + odd)
    c.append(_sel([0, 1, 2, 3, 4, 5, 6, 7], [1] * 8, [0, 2, 4, 6], 2, None, [1], True, None))
    c.append(_sel([0, 1, 2, 3, 4, 5, 6, 7], [1] * 8, [0, 2, 4, 6], 3, None, [1], True, None))   # stride 1: inner bounds twice
    c.append(_sel([-1, 0, 2, 2, 3, 4], [1] * 6, [0, 2, 2, 4], 3, None, [1], True, None))       # empty chunk [2, 2)
    # count equal to / one below / one above the number of eligible spikes
    for n in (2, 3, 4):
        c.append(_sel([0, 1, 2, 3], [5, 5, 5, 6], [0, 9], 1, n, [5], False, None))
        c.append(_sel([0, 1, 2, 3], [5, 5, 5, 6], [0, 9], 1, n, [5, 6], True, [0, 1, 2, 3]))
    # count applies after the chunk and subset restrictions, not before
    c.append(_sel([0, 1, 5, 5, 5, 5], [1] * 6, [0, 2, 4, 6], 2, 2, [1], True, None))
    c.append(_sel([0, 1, 2, 3, 4, 5], [1] * 6, [0, 9], 1, 2, [1], False, [0, 5]))
    # duplicates in the request, unknown ids, subset with repeats and foreign ids, negative count
    c.append(_sel([0, 1, 2, 3], [1, 2, 1, 2], [0, 9], 1, 1, [1, 1, 2, 9, 1], False, None))
    c.append(_sel([0, 1, 2, 3], [1, 2, 1, 2], [0, 9], 1, -1, [2, 1], False, [3, 3, 0, 77, -1]))
    c.append(_sel([], [], [0, 2, 4], 1, 3, [1], True, None))
    c.append(_sel([3, 1, 0, 2], [1, 1, 1, 1], [0, 2, 4], 1, None, [1], True, None))            # unsorted times
    # round 2: histories on one selector object (C17-m5's demo, scaled down): the chunk restriction applies iff it is
    # set in THIS call, whichever way the cluster was asked for before
    t, cl, g = [0, 1, 2, 3, 4, 5, 6, 7, 8, 9], [1, 2, 1, 2, 1, 2, 1, 2, 1, 2], [0, 2, 4, 6, 8, 10]
    c.append(_seq(t, cl, g, 2, [_call(None, [1, 2], True), _call(2, [1, 2], True), _call(None, [1, 2, 3], False),
                                _call(10, [2, 3], False)]))
    c.append(_seq(t, cl, g, 2, [_call(2, [1], False), _call(None, [1], True), _call(2, [1], True)]))
    c.append(_seq(t, cl, g, 2, [_call(None, [1], True), _call(None, [1], False)]))
    c.append(_seq(t, cl, g, 2, [_call(None, [2], False), _call(None, [2], True)]))
    c.append(_seq(t, cl, g, 2, [_call(1, [2], True), _call(1, [1], False), _call(0, [2, 1], False, [1, 3, 4, 5])]))
    # stage 5: forced instances of the value-range axes. (i) a cluster id of exactly 2 ** 16 as the largest id (the
    # demo of C17-m10), (ii) sample numbers of a 50-minute recording at 30 kHz with spikes one sample before / on /
    # after the chunk bounds (the demo of C17-m11), under integer time dtypes
    t = [10 * x for x in range(12)]
    for v in (65536, 65535, 70000):
        cl = [3, v, 3, 9, v, 3, 9, 9, v, 3, v, 9]
        for req in ([3], [v], [9, v, 3]):
            c.append(_sel(t, cl, [0, 30, 60, 90, 120], 2, None, req, True, None))
    c[-1]['inp']['cdt'] = 1
    t = [10, 29999999, 30000000, 30000001, 59999999, 60000000, 89999999]
    for cfg in (0, 2):
        c.append(_sel(t, [5, 6, 5, 6, 5, 6, 5], [0, 30000000, 60000000, 90000000], 2, None, [5, 6], True, None, cfg))
    return c


_REQS = [[], [1], [2], [1, 2], [2, 1], [1, 1], [7], [1, 7, 2]]
_NS = [None, 0, 1, 2, 10]
# (grid, k, time pattern): pattern has spikes on lower/upper kept bounds, inside, in skipped chunks, outside the grid
_SETUPS = [([0, 2, 4, 6], 2, [0, 2, 1, 4, 6, 3, 5, -1]),
           ([0, 2, 4, 6], 3, [2, 0, 5, 6, 4, 1, 3, 7]),
           ([0, 2, 4, 6, 8, 10], 2, [0, 6, 2, 7, 8, 5, 1, 3]),
           ([0, 2, 2, 4], 3, [2, 1, 0, 4, 3, 2, -1, 5]),
           ([0, 3], 1, [0, 3, 1, 2, -1, 4, 0, 3]),
           ([0, 2, 4, 6, 8], 2, [4, 5, 0, 6, 2, 8, 1, 7])]


def generate(tier, rng):
    cases = _corpus()
    if tier == 'search':
        cases += [_random(rng, big=True) for _ in range(6000)]
        cases += [_random_seq(rng, big=True) for _ in range(2000)]
        cases += [_random_wide(rng, seq=(x % 4 == 3)) for x in range(3000)]
        return cases
    quick = tier == 'quick'
    # kept chunks: all (bounds, k)
    nbmax, kmax = (30, 34) if quick else (70, 80)
    n = 0
    for nb in range(1, nbmax + 1):
        for k in range(1, kmax + 1):
            cases.append(_kept(range(nb), k, n % len(CFGS)))
            n += 1
    for nb in range(2, 9 if quick else 12):
        for k in range(1, nb + 2):
            cases.append(_kept([i // 2 for i in range(nb)], k, n % len(CFGS)))
            cases.append(_kept([3 * i - 4 for i in range(nb)], k, (n + 1) % len(CFGS)))
            n += 1
    # sweep: one spike per integer time from below the grid to above it, every grid x k
    for nb in range(1, 7 if quick else 9):
        for step in (1, 2):
            grid = [step * i for i in range(nb)]
            ts = list(range(-1, grid[-1] + 2))
            for k in range(1, nb + 2):
                cases.append(_sel(ts, [1] * len(ts), grid, k, None, [1], True, None, n % len(CFGS)))
                cases.append(_sel(ts, [1 + (i % 2) for i in range(len(ts))], grid, k, 2, [2, 1], True, None,
                                  (n + 1) % len(CFGS)))
                n += 1
    # selection logic: all cluster vectors over two ids
    lmax = 4 if quick else 6
    setups = _SETUPS[:3] if quick else _SETUPS
    for si, (grid, k, pat) in enumerate(setups):
        for L in range(0, lmax + 1):
            for cl in itertools.product((1, 2), repeat=L):
                subs = [None, [], [i for i in range(L) if i % 3 != 1] + [L + 3]]
                for nn in _NS:
                    for req in _REQS:
                        for sc in (False, True):
                            for sub in subs:
                                cases.append(_sel(pat[:L], cl, grid, k, nn, req, sc, sub, n % len(CFGS)))
                                n += 1
    for _ in range(1500 if quick else 20000):
        cases.append(_random(rng))
    cases += _seq_cases(quick, n)
    for _ in range(400 if quick else 5000):
        cases.append(_random_seq(rng))
    # the route through TemplateModel.save_spikes_subset_waveforms on generated datasets (chunks of 6 or 3
    # samples, so that the recordings have fewer and more than the 20 chunks the method asks for)
    for _ in range(60 if quick else 600):
        cases.append(_route(rng.randrange(10 ** 6), rng.choice((1, 1, 2, 3, 50)), rng.choice((3, 8, 20, 40, 60)),
                            rng.choice((0.01, 0.005))))
    # stage 5: ids / sample numbers far from 0 (after everything else: the earlier random streams are unchanged)
    cases += _wide_cases(quick, n)
    for _ in range(500 if quick else 8000):
        cases.append(_random_wide(rng))
    for _ in range(150 if quick else 2500):
        cases.append(_random_wide(rng, seq=True))
    return cases


_SEQ_SETTINGS = [(sc, nn) for sc in (False, True) for nn in _NS]
# request lists of two consecutive calls (they share a cluster, except the last pair)
_SEQ_REQS = [([1], [1]), ([1, 2], [2]), ([2, 1], [1, 7, 2]), ([2], [1, 2]), ([1, 1], [2, 1]), ([1], [2])]


def _seq_cases(quick, n0=0):
    """histories on one selector: (a) every ordered pair of (subset_chunks, count) settings, (b) every subset_chunks
    pattern of 3 and of 4 calls, on setups x cluster vectors in which both clusters have spikes inside and outside
    the kept chunks; request lists, subsets and counts of (b) in rotation"""
    cases = []
    n = n0
    setups = _SETUPS[:3] if quick else _SETUPS
    vectors = [[1] * 8, [1, 2] * 4, [1, 1, 2, 1, 2, 2, 1, 2]] + ([] if quick else [[2, 2, 1, 1, 1, 2, 1, 2], [1, 2, 2, 2, 2, 1, 2, 2]])
    for grid, k, pat in setups:
        for cl in vectors:
            L = len(cl)
            subs = [None, None, None, [i for i in range(L) if i % 3 != 1] + [L + 3], None, []]
            for (sc1, n1) in _SEQ_SETTINGS:
                for (sc2, n2) in _SEQ_SETTINGS:
                    r1, r2 = _SEQ_REQS[n % len(_SEQ_REQS)]
                    cases.append(_seq(pat, cl, grid, k, [_call(n1, r1, sc1, subs[n % 6]), _call(n2, r2, sc2, subs[(n // 6) % 6])],
                                      n % len(CFGS)))
                    n += 1
            for m in (3, 4):
                for scs in itertools.product((False, True), repeat=m):
                    for rot in range(3 if quick else 5):
                        calls = []
                        for j, sc in enumerate(scs):
                            r = _SEQ_REQS[(n + j) % len(_SEQ_REQS)][j % 2]
                            calls.append(_call(_NS[(rot + 2 * j + n) % len(_NS)], r, sc, subs[(n + 5 * j) % 6]))
                        cases.append(_seq(pat, cl, grid, k, calls, n % len(CFGS)))
                        n += 1
    return cases


def _random_seq(rng, big=False):
    """a random selector (as _random) and 2-4 random calls on it, most of them sharing clusters"""
    i = _random(rng, big)['inp']
    ids = sorted(set(i['clusters'])) or [1]
    N = len(i['times'])
    calls = [_call(i['n'], i['req'], i['sc'], i['sub'])]
    for _ in range(rng.randint(1, 3)):
        prev = calls[-1]
        r = rng.random()
        if r < 0.4:
            req = list(prev['req'])
        elif r < 0.7:
            req = [rng.choice(ids) for _ in range(rng.randint(1, 3))]
        else:
            req = [rng.choice(ids + [99]) for _ in range(rng.choice((0, 1, 2, 4)))]
        n = rng.choice((None, None, 0, 1, 2, 3, 5, 10, -1, prev['n']))
        sc = (not prev['sc']) if rng.random() < 0.6 else rng.random() < 0.5
        sub = None
        if rng.random() < 0.3:
            sub = [rng.randint(-1, N + 1) for _ in range(rng.randint(0, N + 2))]
        calls.append(_call(n, req, sc, sub))
    return _seq(i['times'], i['clusters'], i['grid'], i['k'], calls, i['cfg'])


def _random(rng, big=False):
    nb = rng.randint(1, 16 if big else 10)
    g, x = [], rng.randint(-2, 2)
    for _ in range(nb):
        g.append(x)
        x += rng.choice((0, 1, 1, 2, 3, 5))
    k = rng.choice((1, 2, 3, rng.randint(1, nb + 2)))
    N = rng.choice((0, 1, 2, 5, 9, rng.randint(0, 40 if big else 24)))
    lo, hi = g[0] - 2, g[-1] + 2
    pool = sorted(set(g)) + [rng.randint(lo, hi) for _ in range(3)]
    times = [rng.choice(pool) if rng.random() < 0.5 else rng.randint(lo, hi) for _ in range(N)]
    if rng.random() < 0.6:
        times.sort()
    ids = rng.choice(([1, 2, 3], [0, 5], [4], [0, 1, 2, 3, 6]))
    clusters = [rng.choice(ids) for _ in range(N)]
    n = rng.choice((None, 0, 1, 2, 3, 5, 10, -1, rng.randint(1, 12)))
    req = [rng.choice(ids + [99]) for _ in range(rng.choice((0, 1, 1, 2, 3, 4, 6)))]
    sub = None
    if rng.random() < 0.5:
        sub = [rng.randint(-1, N + 1) for _ in range(rng.randint(0, N + 2))]
    return _sel(times, clusters, g, k, n, req, rng.random() < 0.7, sub, rng.randrange(len(CFGS)))


# ---- implementation side -------------------------------------------------------------------------

def _unscale(x, scale):
    if isinstance(x, int) and scale == 1:
        return x                        # exact for integer grids of any magnitude
    v = float(x) / scale
    if v != int(v):
        raise RuntimeError('chunks_kept holds %r, not a value of the supplied grid' % (x,))
    return int(v)


def _cdt(i):
    """dtype name of the spike-cluster vector: CDTS[inp['cdt']] when it holds the ids (and, for a signed dtype, their
    spread), int64 otherwise"""
    import numpy as np
    name = CDTS[i.get('cdt', 0)]
    cl = i.get('clusters', [])
    if cl:
        info = np.iinfo(name)
        lo, hi = min(cl), max(cl)
        if lo < info.min or hi > info.max or (info.min < 0 and hi - lo > info.max):
            name = 'int64'
    return name


def _selector(i):
    import numpy as np
    from phylib.io.array import SpikeSelector, _spikes_per_cluster
    tdt, gkind, scale, _ = CFGS[i.get('cfg', 0)]
    times = i.get('times', [])
    if tdt == 'uint64' and any(t < 0 for t in times):
        tdt = 'int64'
    if tdt == 'int32' and any(not -2 ** 31 <= t < 2 ** 31 for t in times):
        tdt = 'int64'
    st = (np.array(times, dtype=np.float64) * scale) if tdt == 'float64' else np.array(times, dtype=tdt)
    grid = [g * scale for g in i['grid']] if scale != 1 else list(i['grid'])
    if gkind != 'list':
        grid = np.array(grid, dtype=gkind)
    # exactly the construction of TemplateModel.save_spikes_subset_waveforms and of upstream's tests
    spc = _spikes_per_cluster(np.array(i.get('clusters', []), dtype=_cdt(i)))
    ss = SpikeSelector(get_spikes_per_cluster=lambda cl: spc.get(cl, np.array([], dtype=np.int64)),
                       spike_times=st, chunk_bounds=grid, n_chunks_kept=i['k'])
    kept = [_unscale(x, scale) for x in np.asarray(ss.chunks_kept).tolist()]
    return ss, kept


def _run_route(i):
    import logging
    import os
    import random
    import shutil
    import tempfile
    import numpy as np
    from .. import datasets as D
    from phylib.io.model import TemplateModel
    logging.disable(logging.CRITICAL)
    rng = random.Random(i['seed'])
    sem = D.gen_semantic(rng, raw=True, rate=i['rate'], curated=False, features=False, template_features=False,
                         whitening='none', raw_dtype='int16', n_spikes=i['nspk'], similar=False, offset=0)
    ds = D.render(sem, rng, names='ks')
    d = tempfile.mkdtemp(prefix='c17_', dir=os.environ.get('VT_WORK') or tempfile.gettempdir())
    try:
        m = TemplateModel(**D.materialise(ds, d))
        samples = [int(x) for x in m.spike_samples]
        templates = [int(x) for x in m.spike_templates]
        grid = [int(x) for x in m.traces.chunk_bounds]
        path = os.path.join(d, '_phy_spikes_subset.spikes.npy')
        results = []
        for s in SEEDS[:3]:
            if os.path.exists(path):
                os.remove(path)
            np.random.seed(s)
            try:
                m.save_spikes_subset_waveforms(max_n_spikes_per_template=i['nst'])
            except Exception:
                # the spike ids are saved before the waveforms are extracted; failures of the extraction
                # (property C03) are not C17's business, a missing spike file is
                if not os.path.exists(path):
                    raise
            out = np.load(path)
            if out.ndim != 1 or out.dtype.kind not in 'iu':
                raise RuntimeError('saved spike ids are not a 1-D integer array: %r %r' % (out.dtype, out.shape))
            r = [int(x) for x in out]
            if r not in results:
                results.append(r)
        m.close()
        return ('route', samples, templates, grid, results)
    finally:
        shutil.rmtree(d, ignore_errors=True)


def _omit_defaults(i):
    # odd configurations rely on the defaults of __call__ (subset_chunks=False, subset_spikes=None)
    return i.get('cfg', 0) % 2 == 1


def _call_kwargs(i, sub, sc=None):
    kw = {}
    sc = i['sc'] if sc is None else sc
    if sc or not _omit_defaults(i):
        kw['subset_chunks'] = sc
    if sub is not None or not _omit_defaults(i):
        kw['subset_spikes'] = sub
    return kw


def run_case(case):
    import numpy as np
    k, i = case['kind'], case['inp']
    if k == 'route':
        return _run_route(i)
    ss, kept = _selector(i)
    if k == 'kept':
        return ('kept', kept)
    cont = CFGS[i.get('cfg', 0)][3]
    if k == 'seq':
        calls = i['calls']
        draws = any(c['n'] is not None and c['n'] > 0 for c in calls)
        per_call = [[] for _ in calls]
        for s in (SEEDS[:3] if draws else SEEDS[:1]):
            # the WHOLE history on one object; a fresh object per NumPy seed
            ss, kept2 = _selector(i)
            if kept2 != kept:
                raise RuntimeError('chunks_kept differs between two constructions: %r %r' % (kept, kept2))
            for j, c in enumerate(calls):
                req = np.array(c['req'], dtype=np.int64) if cont == 'array' else list(c['req'])
                sub = c['sub']
                if sub is not None and cont == 'array':
                    sub = np.array(sub, dtype=np.int64)
                np.random.seed(s + 7 * j)
                out = np.asarray(ss(c['n'], req, **_call_kwargs(i, sub, c['sc'])))
                if out.ndim != 1 or out.dtype.kind not in 'iu':
                    raise RuntimeError('selection %d is not a 1-D integer array: %r %r' % (j, out.dtype, out.shape))
                r = [int(x) for x in out]
                if r not in per_call[j]:
                    per_call[j].append(r)
        return ('seq', kept, per_call)
    req = np.array(i['req'], dtype=np.int64) if cont == 'array' else list(i['req'])
    sub = i['sub']
    if sub is not None and cont == 'array':
        sub = np.array(sub, dtype=np.int64)
    results = []
    seeds = SEEDS if (i['n'] is not None and i['n'] > 0) else SEEDS[:1]
    kw = _call_kwargs(i, sub)
    for s in seeds:
        np.random.seed(s)
        out = ss(i['n'], req, **kw)
        out = np.asarray(out)
        if out.ndim != 1 or out.dtype.kind not in 'iu':
            raise RuntimeError('selection is not a 1-D integer array: %r %r' % (out.dtype, out.shape))
        r = [int(x) for x in out]
        if r not in results:
            results.append(r)
    return ('select', kept, results)


# ---- encoding for Coq ---------------------------------------------------------------------------

def encode(case, obs):
    k, i = case['kind'], case['inp']
    crash = obs[0] == 'crash'
    if k == 'kept':
        cin = q.app('InKept', q.zl(i['grid']), q.z(i['k']))
        cobs = 'ObsCrash' if crash else q.app('ObsKept', q.zl(obs[1]))
    elif k == 'select':
        cin = q.app('InSelect', q.zl(i['times']), q.zl(i['clusters']), q.zl(i['grid']), q.z(i['k']),
                    q.opt(i['n']), q.zl(i['req']), q.b(i['sc']), q.opt(i['sub'], q.zl))
        cobs = 'ObsCrash' if crash else q.app('ObsSelect', q.zl(obs[1]), q.zll(obs[2]))
    elif k == 'seq':
        cin = q.app('InSeq', q.zl(i['times']), q.zl(i['clusters']), q.zl(i['grid']), q.z(i['k']),
                    q.lst(i['calls'], lambda c: q.app('mkcall', q.opt(c['n']), q.zl(c['req']), q.b(c['sc']),
                                                      q.opt(c['sub'], q.zl))))
        cobs = 'ObsCrash' if crash else q.app('ObsSeq', q.zl(obs[1]), q.lst(obs[2], q.zll))
    elif k == 'route':
        if crash:
            # without the loaded arrays the input cannot be stated; a well-formed stand-in makes the crash
            # count as a failure of the property, not as a regime error
            cin = q.app('InRoute', '[]', '[]', '[0]', q.z(max(1, i['nst'])))
            cobs = 'ObsCrash'
        else:
            cin = q.app('InRoute', q.zl(obs[1]), q.zl(obs[2]), q.zl(obs[3]), q.z(i['nst']))
            cobs = q.app('ObsRoute', q.zll(obs[4]))
    else:
        raise ValueError(k)
    return cin, cobs


def nontrivial(case, obs):
    if obs[0] == 'crash':
        return False
    if case['kind'] == 'kept':
        return len(case['inp']['grid']) >= 3
    if case['kind'] == 'route':
        return any(len(r) > 0 for r in obs[4])
    if case['kind'] == 'seq':
        return any(len(r) > 0 for rs in obs[2] for r in rs)
    return any(len(r) > 0 for r in obs[2])


def _bucket(n):
    return str(n) if n <= 3 else '4-9' if n <= 9 else '10+'


def _magnitude(v):
    if v < 0:
        return '<0'
    for p in (8, 16, 24, 32, 53):
        if v < 2 ** p:
            return '<2^%d' % p
    return '>=2^53'


def dist(case, obs):
    k, i = case['kind'], case['inp']
    if k == 'route':
        out = ['kind=route', 'route.nst=%s' % _bucket(i['nst'])]
        if obs[0] == 'crash':
            return out + ['crash=' + obs[1]]
        nch = len(obs[3]) - 1
        out.append('route.n_chunks=%s' % ('<=20' if nch <= 20 else '21-40' if nch <= 40 else '41+'))
        out.append('route.draws_differ=%s' % (len(obs[4]) > 1))
        out.append('route.returned=%s' % _bucket(max(len(r) for r in obs[4])))
        out.append('route.all_spikes_returned=%s' % (max(len(r) for r in obs[4]) == len(obs[1])))
        return out
    out = ['kind=' + k, 'cfg=%s' % '/'.join(str(x) for x in CFGS[i.get('cfg', 0)])]
    if obs[0] == 'crash':
        out.append('crash=' + obs[1])
        return out
    nch = len(i['grid']) - 1
    out.append('%s.n_chunks=%s' % (k, _bucket(nch)))
    if k in ('select', 'seq'):
        out.append('ids.dtype=%s' % (_cdt(i) if i['clusters'] else 'int64'))
        out.append('ids.max=%s' % _magnitude(max(i['clusters'], default=0)))
        out.append('ids.negative=%s' % any(x < 0 for x in i['clusters']))
        out.append('times.max=%s' % _magnitude(max(i['times'] + i['grid'])))
    out.append('%s.kept_chunks=%s' % (k, _bucket(len(obs[1]) // 2)))
    out.append('%s.k_vs_chunks=%s' % (k, 'lt' if i['k'] < nch else 'eq' if i['k'] == nch else 'gt'))
    if k == 'seq':
        calls = i['calls']
        out.append('seq.calls=%d' % len(calls))
        out.append('seq.subset_chunks=%s' % ''.join('T' if c['sc'] else 'F' for c in calls))
        flips = [(a, b) for a, b in zip(calls, calls[1:]) if a['sc'] != b['sc']]
        out.append('seq.flag_changes=%s' % bool(flips))
        known = set(i['clusters'])
        shared = any(set(a['req']) & set(b['req']) & known for x, a in enumerate(calls) for b in calls[x + 1:]
                     if a['sc'] != b['sc'])
        out.append('seq.cluster_asked_under_both_flags=%s' % shared)
        out.append('seq.counts=%s' % ','.join('None' if c['n'] is None else '<=0' if c['n'] <= 0 else _bucket(c['n'])
                                              for c in calls[:2]))
        out.append('seq.subset_given=%s' % any(c['sub'] is not None for c in calls))
        out.append('seq.draws_differ=%s' % any(len(rs) > 1 for rs in obs[2]))
        out.append('seq.returned=%s' % _bucket(max(len(r) for rs in obs[2] for r in rs)))
    if k == 'select':
        n = i['n']
        out.append('select.count=%s' % ('None' if n is None else '<=0' if n <= 0 else _bucket(n)))
        out.append('select.spikes=%s' % _bucket(len(i['times'])))
        out.append('select.subset_chunks=%s' % i['sc'])
        out.append('select.subset_spikes=%s' % ('None' if i['sub'] is None else 'empty' if not i['sub'] else 'given'))
        known = set(i['clusters'])
        req = i['req']
        out.append('select.request=%s' % ('empty' if not req else 'all-unknown' if not (set(req) & known) else
                                          'some-unknown' if (set(req) - known) else 'known'))
        out.append('select.request_dups=%s' % (len(set(req)) < len(req)))
        out.append('select.draws_differ=%s' % (len(obs[2]) > 1))
        out.append('select.returned=%s' % _bucket(max(len(r) for r in obs[2])))
        on_bound = bool(set(i['times']) & set(i['grid']))
        out.append('select.spike_on_bound=%s' % on_bound)
        out.append('select.times_sorted=%s' % (sorted(i['times']) == i['times']))
    return out


def size(case):
    i = case['inp']
    if case['kind'] == 'route':
        return 1000 + i['nspk'] + i['nst']
    if case['kind'] == 'seq':
        return 3 * len(i['times']) + 2 * len(i['grid']) + min(i['k'], 20) + sum(
            4 + len(c['req']) + len(c['sub'] or []) + (1 if c['sub'] is not None else 0) + (1 if c['n'] is not None else 0)
            for c in i['calls'])
    return 3 * len(i.get('times', [])) + 2 * len(i['grid']) + len(i.get('req', [])) + len(i.get('sub') or []) + \
        (1 if i.get('sub') is not None else 0) + (1 if i.get('sc') else 0) + min(i['k'], 20)


def shrink(case):
    k, i = case['kind'], case['inp']

    def mk(**kw):
        j = dict(i)
        j.update(kw)
        return {'kind': k, 'inp': j}
    if k == 'route':
        # not below the generator's minimum of 3 spikes: a one-spike dataset does not load at all
        # (TemplateModel._load_spike_samples asserts ndim == 1 on the squeezed array), which would turn the
        # shrunk replay of a genuine failure into an unrelated loader crash
        for nspk in sorted({i['nspk'] // 2, i['nspk'] - 1}):
            if 3 <= nspk < i['nspk']:
                yield mk(nspk=nspk)
        if i['nst'] > 1:
            yield mk(nst=i['nst'] - 1)
        return
    if i.get('cfg', 0) != 0:
        yield mk(cfg=0)
    if k in ('select', 'seq'):
        if i.get('cdt', 0) != 0:
            yield mk(cdt=0)
        # large ids -> their ranks (order-preserving), large sample numbers -> translated towards 0
        ids = sorted(set(i['clusters']) | {x for c in i.get('calls', [i]) for x in c['req']})
        if ids and (ids[-1] > len(ids) + 1 or ids[0] < 0):
            yield _map_ids({'kind': k, 'inp': i}, {x: r for r, x in enumerate(ids)}, i.get('cdt', 0))
        lo = min(i['grid'] + i['times'])
        if lo > 100:
            for d in (lo, lo // 2):
                yield _shift({'kind': k, 'inp': i}, -d)
    g = i['grid']
    if k == 'seq':
        calls = i['calls']
        if len(calls) > 2:
            for d in range(len(calls)):
                yield mk(calls=calls[:d] + calls[d + 1:])
        t, c = i['times'], i['clusters']
        for d in range(len(t)):
            # dropping spike d renumbers the later spikes; renumber every call's subset accordingly
            nc = [dict(x, sub=None if x['sub'] is None else [s - 1 if s > d else s for s in x['sub'] if s != d])
                  for x in calls]
            yield mk(times=t[:d] + t[d + 1:], clusters=c[:d] + c[d + 1:], calls=nc)
        for j, x in enumerate(calls):
            def rep(**kw):
                return mk(calls=calls[:j] + [dict(x, **kw)] + calls[j + 1:])
            for d in range(len(x['req'])):
                yield rep(req=x['req'][:d] + x['req'][d + 1:])
            if x['sub'] is not None:
                yield rep(sub=None)
                for d in range(len(x['sub'])):
                    yield rep(sub=x['sub'][:d] + x['sub'][d + 1:])
            if x['n'] is not None:
                yield rep(n=None)
                if x['n'] > 1:
                    yield rep(n=x['n'] - 1)
    if k == 'select':
        t, c = i['times'], i['clusters']
        for d in range(len(t)):
            # dropping spike d renumbers the later spikes; renumber the subset accordingly
            sub = i['sub']
            if sub is not None:
                sub = [s - 1 if s > d else s for s in sub if s != d]
            yield mk(times=t[:d] + t[d + 1:], clusters=c[:d] + c[d + 1:], sub=sub)
        for d in range(len(i['req'])):
            yield mk(req=i['req'][:d] + i['req'][d + 1:])
        if i['sub'] is not None:
            yield mk(sub=None)
            for d in range(len(i['sub'])):
                yield mk(sub=i['sub'][:d] + i['sub'][d + 1:])
        if i['sc']:
            yield mk(sc=False)
        if i['n'] is not None:
            yield mk(n=None)
            if i['n'] > 1:
                yield mk(n=i['n'] - 1)
    for d in range(len(g)):
        if len(g) > 1:
            yield mk(grid=g[:d] + g[d + 1:])
    if i['k'] > 1:
        yield mk(k=i['k'] - 1)
        yield mk(k=i['k'] // 2)
    if k in ('select', 'seq'):
        t = i['times']
        for d in range(len(t)):
            if t[d] > 0:
                yield mk(times=t[:d] + [t[d] - 1] + t[d + 1:])


def repro(case):
    k, i = case['kind'], case['inp']
    if k == 'route':
        return ("import sys; sys.path[:0] = ['/verif/harness', '/repo']\n"
                "from vt import npshim; npshim.setup_process()\n"
                "from vt.props import c17\n"
                "# builds the dataset of this seed, loads it with TemplateModel, calls save_spikes_subset_waveforms\n"
                "# and returns (spike_samples, spike_templates, traces.chunk_bounds, saved spike ids per NumPy seed)\n"
                "print(c17.run_case(%r))\n" % (case,))
    pre = ("import sys; sys.path[:0] = ['/verif/harness', '/repo']\n"
           "from vt import npshim; npshim.setup_process()\n"
           "import numpy as np\nfrom phylib.io.array import SpikeSelector, _spikes_per_cluster\n")
    body = ("spc = _spikes_per_cluster(np.array(%r, dtype=np.%s))\n"
            "ss = SpikeSelector(get_spikes_per_cluster=lambda cl: spc.get(cl, np.array([], dtype=np.int64)),\n"
            "                   spike_times=np.array(%r), chunk_bounds=%r, n_chunks_kept=%r)\n"
            "print('chunks_kept', ss.chunks_kept)\n" % (i.get('clusters', []), _cdt(i), i.get('times', []), i['grid'],
                                                       i['k']))
    if k == 'seq':
        body += "# the calls below are made one after the other on the SAME object ss\n"
        for j, c in enumerate(i['calls']):
            kw = ''.join(', %s=%r' % kv for kv in _call_kwargs(i, c['sub'], c['sc']).items())
            body += "np.random.seed(%d); print('call %d:', ss(%r, %r%s))\n" % (7 * j, j, c['n'], c['req'], kw)
    if k == 'select':
        kw = ''.join(', %s=%r' % kv for kv in _call_kwargs(i, i['sub']).items())
        body += ("for seed in range(5):\n    np.random.seed(seed)\n"
                 "    print(ss(%r, %r%s))\n" % (i['n'], i['req'], kw))
    return pre + body + "# implementation-side configuration used by the harness: %r\n" % (CFGS[i.get('cfg', 0)],)
