"""C06 -- sparse feature storage is densified exactly (DESIGN.md §8 C06)."""
import copy
import itertools
import os
import shutil
import tempfile

from .. import coqenc as q
from .. import datasets as D
from .. import datasets_c06 as D6

ID = 'C06'
RULE = ('from_sparse: exhaustive small scope (<= 2 spikes, <= 3 local columns, column entries and requested '
        'channels over an alphabet of 4 plus the -1 padding entry, every column table and every duplicate-free '
        'request list, each run together with the reversed request), then seeded random (data, column table, '
        'request) triples up to 50 x 6 with trailing dimensions, unknown channels, empty spike lists, duplicate '
        'requests (rejection) and shape mismatches; get_features / get_template_features on generated dataset '
        'directories with and without pc_feature_ind / *_spike_ids tables, spike subsets in shuffled order, '
        'channel permutations, index dtypes; _project_pcs on random integer operands; _compute_pcs / '
        'compute_features / the waveform route of get_features on Walsh-pattern waveforms (exactly diagonal '
        'covariance). Stage 3: histories on ONE model object holding a pc-feature store and/or a template-feature store '
        '(spike-id tables drawn independently, so they differ), 2-6 calls of the two accessors in any order with '
        'different requests (stores absent: the accessor returns None); large subset stores given by rule (70 000 - '
        '200 000 spikes, every 2nd / 3rd stored, increasing or decreasing spike-id tables; requests = the first / '
        'last stored spikes and rows 32767 / 32768, or every stored spike, observed at probed positions) judged through '
        'the proved closed form; _index_of directly (small random lookups with -1 entries, unknown and out-of-range '
        'values; lookups of 33 000 - 70 000 entries, values up to 2^22 + 1); _compute_pcs / compute_features / the '
        'waveform route with k = 1, 2, 3, 5, 6, 7 spikes (Helmert contrasts: exactly diagonal covariance, integer means; '
        'min(3, k-1) components claimed) and with exactly two spikes carrying arbitrary integer waveforms (component 0 / '
        'feature 0 against the normalised difference vector, relative tolerance 2^-18). '
        'Stage 4: the waveform route on SPARSE waveform stores (per-template or per-spike channel rows of any width, -1 '
        'padding at the end or anywhere, channels missing for some spikes, junk in the padding columns), 1-8 requested stored '
        'spikes, judged through the linked model C06/LinkC03.v (C03 get_waveforms -> compute_features -> placement): exactly '
        'diagonalisable masked waveforms (components judged per channel as far as they are determined) and arbitrary integer '
        'waveforms (waveform stage, zero features of unstored channels, placement; two spikes: feature 0 within 2^-18). '
        'Full sweep: from_sparse on int64 / uint64 data with cells beyond 2^53 (integer results are observed exactly, not through '
        'float64). '
        'Non-trivial = at least one stored value lands in the output; distinct = distinct abstract input.')
EXHAUSTIVE = {'quick': True, 'thorough': True}
CLAUSES = {
    30: 'C06_index_of (members of the lookup list are replaced by their positions)',
    1: 'observed output differs from the Coq model PV.C06.Model',
    21: 'C06_from_sparse (every cell is the stored value of that channel for that spike, else zero)',
    22: 'C06_from_sparse_shape (n_spikes, n_requested, trailing dims)',
    23: 'C06_from_sparse_perm (the column of a channel does not depend on the order / company it is requested in)',
    24: 'C06_get_features (requested order, row table, template column table)',
    25: 'C06_template_features (requested order, row table, template column table)',
    26: 'C06_project (features[l][k][i] = sum_j pcs[i][j][k] x[l][j][k])',
    27: '_compute_pcs returns (+-) the min(3, k-1) determined leading eigenvectors for k spikes (exactly diagonal covariance: exact; '
        'two arbitrary integer waveforms: component 0 = +- d/|d| within 2^-18; numerical validation)',
    28: 'waveform-route features are the projections onto the min(3, k-1) determined leading components (up to sign; two spikes: '
        'feature 0 = +- <w, d>/|d| within 2^-18)',
    29: 'C06_pca_assemble (rows at the requested positions, zero rows for spikes without stored waveform)',
    31: 'C06_link_unstored_channel (waveform route: a channel that is not stored for a requested stored spike gives three zero features)',
}
TRUSTED = ['np.linalg.eigh / np.cov (LAPACK): validated numerically only, on inputs whose covariance is exactly diagonal',
           'np.einsum, np.intersect1d, np.isin, np.unique, fancy indexing/assignment (modelled)',
           'np.load/np.save, TemplateModel loading of the other dataset files (C04)']
ASSUMES = ['requested channels distinct and >= 0; requested spike ids distinct and existing; row table entries distinct',
           'within one row of the column table a channel occurs at most once (otherwise any candidate is accepted)',
           'well-formed dataset: no array axis of length 1 (the loader squeezes every file), ids fit int32',
           'PCA route: integer waveforms whose per-channel covariance over the requested stored spikes is exactly '
           'diagonal with min(3, k-1) positive, separated leading variances (k = number of requested stored spikes; nothing '
           'is claimed for the remaining components, nothing at all for k <= 1 beyond shape and placement); or exactly two '
           'requested stored spikes with arbitrary integer waveforms (component 0 only, tolerance 2^-18 relative to '
           'sum_j |w_j||d_j| / |d| + 1: the components are stored as float32); comparison up to the sign of each component',
           'large stores: the model is evaluated through its closed form (theorem C06_get_dense_closed, premise checked by wf_b: '
           'C06_wf_checker_sound) and _index_of through C06_index_of, because the lookup-table model is quadratic on Coq lists; '
           'the rows of a large request are observed at probed positions only',
           'the lookup table of _index_of has at most ~2^22 cells in the generated cases (values near 2^31 are out of reach)',
           'sparse waveform stores: at least one requested spike is stored and at least one channel is requested (otherwise '
           '_compute_pcs divides by zero / get_waveforms falls back to absent raw data); the waveforms are judged against '
           'C03\'s model of get_waveforms evaluated on the store files as generated (not on an export of raw data)']
TIMEOUT = {'quick': 20, 'thorough': 40}

ALPH = [0, 1, 2, 5]


# ---- generators ------------------------------------------------------------------------------------------

def _fs(data, cols, chans, chans2, n_loc, tshape=(), dtype='float32', cdtype='int32'):
    return {'kind': 'fs', 'inp': {'tshape': list(tshape), 'n_loc': n_loc, 'data': data, 'cols': cols,
                                  'chans': list(chans), 'chans2': list(chans2), 'dtype': dtype, 'cdtype': cdtype}}


def _cells(ns, n_loc, tshape):
    ts = 1
    for d in tshape:
        ts *= d
    return [[[100 * (s + 1) + 10 * (k + 1) + t + 1 for t in range(ts)] for k in range(n_loc)] for s in range(ns)]


def _requests(alph, maxlen):
    for n in range(0, maxlen + 1):
        for p in itertools.permutations(alph, n):
            yield list(p)


def _fs_exhaustive(tier):
    cases = []
    entries = ALPH + [-1]
    if tier == 'quick':
        plan = [(1, 1, 3, entries), (1, 2, 3, entries), (1, 3, 2, ALPH), (2, 1, 2, ALPH), (2, 2, 2, [0, 1, 5])]
    else:
        plan = [(1, 1, 4, entries), (1, 2, 4, entries), (1, 3, 3, entries), (2, 1, 3, entries), (2, 2, 3, ALPH),
                (2, 3, 2, [0, 1, 5])]
    for ns, n_loc, maxreq, ent in plan:
        for flat in itertools.product(ent, repeat=ns * n_loc):
            cols = [list(flat[s * n_loc:(s + 1) * n_loc]) for s in range(ns)]
            for req in _requests(ALPH, maxreq):
                cases.append(_fs(_cells(ns, n_loc, ()), cols, req, req[::-1], n_loc))
    return cases


def _fs_random(rng, big=False):
    ns = rng.choice([0, 1, 2, 3, 5, 8]) if not big else rng.randint(0, 50)
    n_loc = rng.choice([0, 1, 2, 3, 4]) if not big else rng.randint(1, 6)
    nch = rng.randint(n_loc, n_loc + 6) + 1
    tshape = rng.choice([(), (), (2,), (3,), (2, 2), (1,)])
    cols = []
    for _ in range(ns):
        if rng.random() < 0.85:
            row = rng.sample(range(nch), n_loc)          # a channel at most once per row
        else:
            row = [rng.randrange(nch) for _ in range(n_loc)]
        row = [(-1 if rng.random() < 0.1 else c) for c in row]
        cols.append(row)
    pool = list(range(nch + 3))                           # includes channels nobody stores
    chans = rng.sample(pool, rng.randint(0, min(len(pool), 8)))
    r = rng.random()
    if r < 0.5:
        chans2 = list(chans)
        rng.shuffle(chans2)
    elif r < 0.9:
        chans2 = rng.sample(pool, rng.randint(0, min(len(pool), 8)))
    else:
        chans2 = chans + ([rng.choice(chans)] if chans else [0, 0])       # duplicate request: rejected
    data = _cells(ns, n_loc, tshape)
    if rng.random() < 0.2:
        for row in data:
            for c in row:
                if rng.random() < 0.2:
                    c[:] = [0] * len(c)                   # stored zeros
    c = _fs(data, cols, chans, chans2, n_loc, tshape, dtype=rng.choice(['float32', 'float64', 'int32', 'int16']),
            cdtype=rng.choice(['int32', 'int64', 'uint32' if all(x >= 0 for r_ in cols for x in r_) else 'int16']))
    if rng.random() < 0.04 and ns > 0:
        c['inp']['cols'] = [row + [0] for row in cols]    # cols.shape != data.shape[:2]: AssertionError
    return c


def _store(rng, what, **f):
    """Random abstract input of a model-level case."""
    nt = f.get('n_templates', rng.randint(2, 4))
    nspk = f.get('n_spikes', rng.randint(3, 9))
    nc = f.get('n_channels', rng.randint(3, 6))
    st = [rng.randrange(nt) for _ in range(nspk)]
    sparse = f.get('sparse', rng.random() < 0.8)
    universe = nc if what == 'features' else nt
    ncl = rng.randint(2, universe) if sparse else universe
    if ncl < 2:
        ncl = 2
    ind = None
    if sparse:
        ind = [rng.sample(range(universe), ncl) if ncl <= universe else list(range(ncl)) for _ in range(nt)]
    subset = f.get('subset', rng.random() < 0.5)
    rows = None
    if subset:
        rows = rng.sample(range(nspk), rng.randint(2, nspk))
        if rng.random() < 0.5:
            rows.sort()
    nrows = len(rows) if rows is not None else nspk
    npcs = rng.choice([2, 3])
    if what == 'features':
        data = [[[100 * (r + 1) + 10 * (p + 1) + (l + 1) for l in range(ncl)] for p in range(npcs)] for r in range(nrows)]
    else:
        data = [[100 * (r + 1) + (l + 1) for l in range(ncl)] for r in range(nrows)]
    # request
    mode = f.get('req', rng.choice(['stored', 'stored', 'any', 'any', 'all', 'empty', 'one']))
    held = rows if rows is not None else list(range(nspk))
    if mode == 'stored':
        ids = rng.sample(held, rng.randint(1, len(held)))
    elif mode == 'any':
        ids = rng.sample(range(nspk), rng.randint(1, nspk))
    elif mode == 'all':
        ids = list(range(nspk))
        if rng.random() < 0.5:
            rng.shuffle(ids)
    elif mode == 'empty':
        ids = []
    else:
        ids = [rng.randrange(nspk)]
    if f.get('sorted_ids'):
        ids.sort()
    if f.get('dup_ids'):
        ids = ids + [rng.choice(ids)] if ids else ids
    # curated dataset: cluster ids that differ from the template ids (features follow the templates)
    sc = None
    if f.get('curated', rng.random() < 0.5):
        sc = [(t + 1) % nt if rng.random() < 0.7 else rng.randint(0, nt + 1) for t in st]
    inp = {'what': what, 'n_templates': nt, 'n_channels': nc, 'spike_templates': st, 'spike_clusters': sc,
           'npcs': npcs, 'ncl': ncl,
           'data': data, 'ind': ind, 'rows': rows, 'ids': ids,
           'ids_dtype': rng.choice(['int64', 'int64', 'int32', 'uint32', 'list']),
           'rows_dtype': rng.choice(['int64', 'int32', 'uint32']), 'ind_dtype': rng.choice(['uint32', 'int32', 'int64']),
           'id_dtype': rng.choice(['uint32', 'int32', 'int64']), 'fdtype': rng.choice(['float32', 'float64'])}
    if what == 'features':
        cm = f.get('chans', rng.choice(['all', 'perm', 'subset', 'subset', 'unknown']))
        if cm == 'all':
            chans = list(range(nc))
        elif cm == 'perm':
            chans = rng.sample(range(nc), nc)
        elif cm == 'subset':
            chans = rng.sample(range(nc), rng.randint(0, nc))
        else:
            chans = rng.sample(range(nc + 3), rng.randint(1, nc))
        inp['chans'] = chans
        inp['chans_dtype'] = rng.choice(['int64', 'int32', 'list'])
    return {'kind': what, 'inp': inp}


def _project(rng):
    npcs, nsamp, nc, ns = rng.randint(1, 3), rng.randint(1, 5), rng.randint(1, 4), rng.randint(0, 4)
    pcs = [[[rng.randint(-3, 3) for _ in range(nc)] for _ in range(nsamp)] for _ in range(npcs)]
    x = [[[rng.randint(-9, 9) for _ in range(nc)] for _ in range(nsamp)] for _ in range(ns)]
    return {'kind': 'project', 'inp': {'nsamp': nsamp, 'nc': nc, 'pcs': pcs, 'x': x,
                                       'dtype': rng.choice(['float32', 'float64'])}}


def _walsh(rng, kind):
    n = rng.choice([4, 8, 8, 16])
    nsamp = rng.randint(3, 6) if n > 4 else 3
    nc = rng.randint(1, 4)
    w = D6.walsh_waveforms(rng, n, nsamp, nc)
    return {'kind': kind, 'inp': {'nsamp': nsamp, 'nc': nc, 'w': w, 'dtype': rng.choice(['float32', 'float64', 'int16'])}}


def _pca(rng):
    n = rng.choice([4, 8])
    nsamp = rng.randint(3, 5) if n > 4 else 3
    nc = rng.randint(2, 4)
    w = D6.walsh_waveforms(rng, n, nsamp, nc)
    nspk = n + rng.randint(0, 4)
    stored = rng.sample(range(nspk), n)
    if rng.random() < 0.6:
        stored.sort()
    others = [s for s in range(nspk) if s not in stored]
    ids = stored + rng.sample(others, rng.randint(0, len(others)))
    rng.shuffle(ids)
    chans = rng.choice([list(range(nc)), rng.sample(range(nc), nc), rng.sample(range(nc), rng.randint(1, nc))])
    nt = 2
    return {'kind': 'pca', 'inp': {'n_spikes': nspk, 'n_templates': nt, 'n_channels': nc, 'nsamp': nsamp,
                                   'spike_templates': [i % nt for i in range(nspk)], 'w': w, 'stored': stored,
                                   'ids': ids, 'chans': chans, 'wdtype': rng.choice(['float32', 'float64'])}}


def _request(rng, nspk, held, mode=None):
    mode = mode or rng.choice(['stored', 'stored', 'any', 'any', 'all', 'empty', 'one'])
    if mode == 'stored':
        ids = rng.sample(held, rng.randint(1, len(held)))
    elif mode == 'any':
        ids = rng.sample(range(nspk), rng.randint(1, nspk))
    elif mode == 'all':
        ids = list(range(nspk))
        if rng.random() < 0.5:
            rng.shuffle(ids)
    elif mode == 'empty':
        ids = []
    else:
        ids = [rng.randrange(nspk)]
    return ids


def _hist(rng, both_subset=None, have=None):
    """One model object, a pc-feature store and/or a template-feature store (each with or without its own
    spike-id table: the two tables are drawn independently, so they differ), several calls of the two
    accessors in any order with different requests."""
    nt, nspk, nc = rng.randint(2, 4), rng.randint(4, 10), rng.randint(3, 6)
    if both_subset is None:
        both_subset = rng.random() < 0.6
    sub_f = True if both_subset else rng.random() < 0.5
    sub_t = True if both_subset else rng.random() < 0.5
    f = _store(rng, 'features', n_templates=nt, n_spikes=nspk, n_channels=nc, subset=sub_f)['inp']
    t = _store(rng, 'tfeatures', n_templates=nt, n_spikes=nspk, n_channels=nc, subset=sub_t)['inp']
    if both_subset and f['rows'] == t['rows']:
        t['rows'] = list(reversed(t['rows'])) if len(t['rows']) > 1 else t['rows']
    have = have or rng.choice(['both'] * 8 + ['f', 't', 'none'])
    calls = []
    for _ in range(rng.randint(2, 5)):
        which = rng.choice(['f', 't'])
        st = f if which == 'f' else t
        held = st['rows'] if st['rows'] is not None else list(range(nspk))
        ids = _request(rng, nspk, held)
        if which == 'f':
            cm = rng.choice(['all', 'perm', 'subset', 'unknown'])
            chans = (list(range(nc)) if cm == 'all' else rng.sample(range(nc), nc) if cm == 'perm' else
                     rng.sample(range(nc), rng.randint(0, nc)) if cm == 'subset' else rng.sample(range(nc + 3), rng.randint(1, nc)))
            calls.append(['f', ids, chans])
        else:
            calls.append(['t', ids])
    if have == 'both' and not ({'f', 't'} <= set(c[0] for c in calls)):
        # both accessors at least once, the second one asked for spikes of ITS store
        held_t = t['rows'] if t['rows'] is not None else list(range(nspk))
        held_f = f['rows'] if f['rows'] is not None else list(range(nspk))
        calls.append(['t', rng.sample(held_t, rng.randint(1, len(held_t)))])
        calls.append(['f', rng.sample(held_f, rng.randint(1, len(held_f))), list(range(nc))])
        if rng.random() < 0.5:
            calls.reverse()
    inp = {'n_templates': nt, 'n_channels': nc, 'spike_templates': f['spike_templates'], 'spike_clusters': f['spike_clusters'],
           'f': ({k: f[k] for k in ('npcs', 'ncl', 'data', 'ind', 'rows')} if have in ('both', 'f') else None),
           't': ({k: t[k] for k in ('ncl', 'data', 'ind', 'rows')} if have in ('both', 't') else None),
           'calls': calls, 'ids_dtype': f['ids_dtype'], 'rows_dtype': f['rows_dtype'], 'ind_dtype': f['ind_dtype'],
           'id_dtype': f['id_dtype'], 'fdtype': f['fdtype']}
    return {'kind': 'hist', 'inp': inp}


def _big(rng, what, n_spikes, stride, req, down=False):
    """A large subset store given by rule (DESIGN: the abstract input stays small).  req: 'ends' = the first and
    the last stored spikes (+ unstored ones), 'long' = every stored spike, probed at a few positions."""
    nt, nc = 4, 6
    nstored = (n_spikes + stride - 1) // stride
    rows = [['seg', 0, stride, nstored]] if not down else [['seg', (nstored - 1) * stride, -stride, nstored]]
    stored = D6.expand(rows)
    ncl = 2 if what == 'features' else 3
    universe = nc if what == 'features' else nt
    ind = [rng.sample(range(universe), ncl) for _ in range(nt)]
    if req == 'ends':
        pick = stored[:3] + stored[-3:] + [stored[32767], stored[32768]] if nstored > 32768 else stored[:3] + stored[-3:]
        pick = pick + ([1, n_spikes - 1] if stride > 1 else [])
        rng.shuffle(pick)
        ids = [['lit', pick]]
        probes = list(range(len(pick)))
    else:
        ids = [['seg', stored[-1], stored[-2] - stored[-1], nstored]] if rng.random() < 0.5 else \
              [['seg', stored[nstored // 2], stored[1] - stored[0], nstored - nstored // 2],
               ['seg', stored[0], stored[1] - stored[0], nstored // 2]]
        probes = sorted(set([0, 1, 32767, 32768, 32769, nstored - 1]) & set(range(nstored)))
    chans = rng.sample(range(nc), nc)
    return {'kind': 'big', 'inp': {'what': what, 'n_spikes': n_spikes, 'n_templates': nt, 'n_channels': nc, 'npcs': 2,
                                   'ncl': ncl, 'rows': rows, 'drule': [rng.choice([7, 11, 13]), 3, 5, 8191], 'ind': ind,
                                   'trule': [rng.choice([1, 3, 5]), rng.randrange(nt)], 'ids': ids, 'chans': chans,
                                   'probes': probes, 'rows_dtype': rng.choice(['int64', 'int32', 'uint32']),
                                   'ids_dtype': 'int64'}}


ROUND = [1000, 1024, 2048, 2500, 4096, 5000, 8192, 10000, 16384, 20000, 25000, 32768, 50000, 65536, 100000]
FORMS = ['tail', 'head', 'rev', 'two', 'mixed']


def _round_len(rng, cap):
    """a request length next to a multiple of a round block size: k * c + d, d in -1 .. 2"""
    c = rng.choice([c for c in ROUND if c <= cap])
    return min(cap + 2, rng.randint(1, max(1, cap // c)) * c + rng.choice([-1, 0, 1, 1, 2]))


def _big_len(rng, what, n_req, stride, form, table=True):
    """Stage 6: the LENGTH of a long request as an axis of its own.  A store given by rule (full: stride 1, with or
    without the identity spike-id table; subset: every stride-th spike) and a request with exactly n_req STORED spikes
    ('tail' / 'head' = the last / first n_req stored spikes in increasing order, 'rev' = decreasing, 'two' = two
    increasing runs swapped, 'mixed' = every spike id of a range, stored or not, n_req of them stored), observed at
    the first and last rows, around every multiple of every round block size (ROUND) and at random rows."""
    nt, nc = 4, 6
    nstored = n_req + rng.choice([0, 0, 1, 3, 17])
    n_spikes = nstored * stride - rng.choice([0, stride - 1])
    rows = [['seg', 0, stride, nstored]] if (stride > 1 or table) else None
    ncl = 2 if what == 'features' else 3
    universe = nc if what == 'features' else nt
    ind = [rng.sample(range(universe), ncl) for _ in range(nt)]
    first = (nstored - n_req) * stride                         # spike id of the first requested stored spike ('tail')
    f = 1
    if form == 'tail':
        ids = [['seg', first, stride, n_req]]
    elif form == 'head':
        ids = [['seg', 0, stride, n_req]]
    elif form == 'rev':
        ids = [['seg', (nstored - 1) * stride, -stride, n_req]]
    elif form == 'two':
        h = rng.choice([1, n_req // 2, n_req - 1]) if n_req > 1 else 0
        ids = [['seg', first + h * stride, stride, n_req - h], ['seg', first, stride, h]]
    else:                                                      # 'mixed': positions 0, stride, 2 stride, ... are stored
        ids = [['seg', first, 1, (n_req - 1) * stride + 1]]
        f = stride
    n_ids = sum(s[3] for s in ids)
    marks = set([0, n_req])
    for c in ROUND:
        marks.update(range(c, n_req + 3, c))
    probes = set()
    for m_ in marks:
        probes.update(range(f * m_ - 4, f * m_ + 5))
    probes.update(rng.randrange(n_ids) for _ in range(16))
    probes = sorted(p for p in probes if 0 <= p < n_ids)
    chans = rng.sample(range(nc), nc)
    return {'kind': 'big', 'inp': {'what': what, 'n_spikes': n_spikes, 'n_templates': nt, 'n_channels': nc, 'npcs': 2,
                                   'ncl': ncl, 'rows': rows, 'drule': [rng.choice([7, 11, 13]), 3, 5, 8191], 'ind': ind,
                                   'trule': [rng.choice([1, 3, 5]), rng.randrange(nt)], 'ids': ids, 'chans': chans,
                                   'probes': probes, 'rows_dtype': rng.choice(['int64', 'int32', 'uint32']),
                                   'ids_dtype': rng.choice(['int64', 'int64', 'int32', 'uint32']), 'form': form}}


def _big_len_random(rng, cap):
    what = rng.choice(['features', 'tfeatures'])
    stride = rng.choice([1, 1, 2, 3])
    form = rng.choice(FORMS if stride > 1 else FORMS[:4])
    return _big_len(rng, what, _round_len(rng, cap // stride if form == 'mixed' else cap), stride, form,
                    table=rng.random() < 0.5)


def _fs_wide(rng):
    """from_sparse on int64 / uint64 data with cells beyond 2^53 (not representable in float64)."""
    c = _fs_random(rng)
    dt = rng.choice(['int64', 'int64', 'uint64'])
    for row in c['inp']['data']:
        for cell in row:
            for t in range(len(cell)):
                r = rng.random()
                if r < 0.6:
                    v = 2 ** rng.randint(53, 62) + rng.choice([1, 3, 2 ** 20 + 1]) + cell[t]
                    cell[t] = -v if (dt == 'int64' and rng.random() < 0.3) else v
                elif r < 0.7:
                    cell[t] = 2 ** 63 - 1 if dt == 'int64' else 2 ** 64 - 1
    c['inp']['dtype'] = dt
    return c


def _idx_small(rng):
    n = rng.randint(0, 6)
    vals = rng.sample(range(0, 12), n)
    if vals and rng.random() < 0.3:
        vals[rng.randrange(n)] = -1                      # from_sparse looks up in np.r_[channel_ids, -1]
    arr = [rng.choice(vals + [-1, 0, 1, 13, 14, -2, -20]) for _ in range(rng.randint(0, 6))]
    if rng.random() < 0.6 and vals:
        arr = [rng.choice(vals) for _ in range(rng.randint(1, 6))]
    return {'kind': 'idx', 'inp': {'lookup': [['lit', vals]], 'arr': arr, 'dtype': rng.choice(['int64', 'int32', 'uint32' if all(v >= 0 for v in vals + arr) else 'int16'])}}


def _idx_big():
    """lookups longer than 2^15 / 2^16 entries, values beyond 2^15 / 2^16 / 2^17 / 2^22 (the table is as large as
    the largest value: 2^31 is out of reach, and the int32 cast of the real code is not modelled)."""
    out = []
    for lookup, n in (([['seg', 0, 1, 33000]], 33000), ([['seg', 5, 3, 70000]], 70000), ([['seg', 139998, -2, 70000]], 70000),
                      ([['seg', 0, 2, 40000]], 40000)):
        lk = D6.expand(lookup)
        pos = sorted(set([0, 1, 127, 128, 255, 256, 32767, 32768, 32769, 65535, 65536, 65537, n - 1]) & set(range(n)))
        out.append({'kind': 'idx', 'inp': {'lookup': lookup, 'arr': [lk[q] for q in pos], 'dtype': 'int64'}})
    out.append({'kind': 'idx', 'inp': {'lookup': [['lit', [2 ** 20, 5, 2 ** 22 + 1, 32768, 65536, 2 ** 17 - 1]]],
                                       'arr': [2 ** 22 + 1, 5, 65536, 32768, 2 ** 20, 2 ** 17 - 1], 'dtype': 'int64'}})
    return out


def _kspike(rng, kind, k=None):
    """_compute_pcs / compute_features on k spikes, k not a power of two included (Helmert contrasts)."""
    k = k or rng.choice([1, 2, 2, 3, 3, 5, 6, 7])
    nsamp = rng.randint(3, 6)
    nc = rng.randint(1, 3)
    w = D6.helmert_waveforms(rng, k, nsamp, nc)
    return {'kind': kind, 'inp': {'nsamp': nsamp, 'nc': nc, 'w': w, 'dtype': rng.choice(['float32', 'float64', 'int16'])}}


def _two(rng, kind):
    """two spikes, arbitrary small integer waveforms (differences such as (3, 4, 0), (0, 0, 5), (1, 2, 2) included)."""
    nsamp = rng.randint(3, 6)
    nc = rng.randint(1, 3)
    w0 = [[rng.randint(-9, 9) for _ in range(nc)] for _ in range(nsamp)]
    w1 = [[0] * nc for _ in range(nsamp)]
    for k in range(nc):
        r = rng.random()
        if r < 0.25:
            d = [3, 4] + [0] * (nsamp - 2)
        elif r < 0.4:
            d = [rng.choice([-5, 2, 7])] + [0] * (nsamp - 1)
        elif r < 0.5:
            d = [0] * nsamp                                   # identical on this channel: nothing is determined
        else:
            d = [rng.randint(-6, 6) for _ in range(nsamp)]
        rng.shuffle(d)
        for j in range(nsamp):
            w1[j][k] = w0[j][k] + d[j]
    return {'kind': kind, 'inp': {'nsamp': nsamp, 'nc': nc, 'w': [w0, w1], 'dtype': rng.choice(['float32', 'float64', 'int16'])}}


def _pca_k(rng, k=None, general=False):
    """waveform route of get_features with exactly k of the requested spikes stored (k = 1, 2, 3, ...)."""
    k = 2 if general else (k or rng.choice([1, 2, 2, 3, 5]))
    nsamp = rng.randint(3, 5)
    nc = rng.randint(2, 4)
    wk = _two(rng, 'x')['inp']['w'] if general else D6.helmert_waveforms(rng, k, nsamp, nc)
    if general:
        nsamp, nc = len(wk[0]), len(wk[0][0])
        if nc < 2:
            return _pca_k(rng, general=True)
    extra = rng.randint(0, 3)                                  # stored but not requested
    nspk = max(2, k + extra + rng.randint(0, 3))          # a dataset with a single spike is not well-formed (squeezed axes)
    stored = rng.sample(range(nspk), k + extra)
    if rng.random() < 0.6:
        stored.sort()
    req_pos = sorted(rng.sample(range(k + extra), k))          # which stored spikes are requested
    w = [[[rng.randint(-9, 9) for _ in range(nc)] for _ in range(nsamp)] for _ in range(k + extra)]
    # the requested stored spikes, taken in increasing id order (the order of intersect1d), carry wk
    req_ids = sorted(stored[q] for q in req_pos)
    for l, sp in enumerate(req_ids):
        w[stored.index(sp)] = wk[l]
    others = [s_ for s_ in range(nspk) if s_ not in stored]
    ids = req_ids + rng.sample(others, rng.randint(0, len(others)))
    rng.shuffle(ids)
    chans = list(range(nc)) if general else rng.choice([list(range(nc)), rng.sample(range(nc), nc), rng.sample(range(nc), rng.randint(1, nc))])
    nt = 2
    return {'kind': 'pca2' if general else 'pca',
            'inp': {'n_spikes': nspk, 'n_templates': nt, 'n_channels': nc, 'nsamp': nsamp,
                    'spike_templates': [i % nt for i in range(nspk)], 'w': w, 'stored': stored,
                    'ids': ids, 'chans': chans, 'wdtype': rng.choice(['float32', 'float64'])}}


def _pca_sparse(rng, mode):
    """waveform route of get_features on a SPARSE waveform store.  mode 'exact': the masked waveforms of the requested
    stored spikes have an exactly diagonal covariance on every channel; 'general': arbitrary small integers."""
    k = rng.choice([1, 2, 3, 4, 5, 5, 6, 7, 8]) if mode == 'exact' else rng.choice([1, 2, 2, 2, 3, 4, 6])
    nsamp = rng.randint(3, 5)
    nc = rng.randint(2, 5)
    extra = rng.randint(0, 3)
    nspk = max(2, k + extra + rng.randint(0, 3))
    nt = rng.randint(2, 3)
    stpl = [rng.randrange(nt) for _ in range(nspk)]
    stored = rng.sample(range(nspk), k + extra)
    if rng.random() < 0.6:
        stored.sort()
    req = sorted(rng.sample(stored, k))                      # requested stored spikes in the order of intersect1d
    per_template = rng.random() < 0.6                        # rows as save_spikes_subset_waveforms writes them
    def chanset():
        r = rng.random()
        return list(range(nc)) if r < 0.4 else rng.sample(range(nc), rng.randint(0 if r < 0.5 else 1, nc))
    tsets = [chanset() for _ in range(nt)]
    sets = {sp: (list(tsets[stpl[sp]]) if per_template else chanset()) for sp in stored}
    ncs = max(1, max(len(v) for v in sets.values())) + rng.choice([0, 0, 1, 3])       # may exceed n_channels
    pad_anywhere = rng.random() < 0.25
    chrows = []
    for sp in stored:
        row = list(sets[sp])
        if not per_template:
            rng.shuffle(row)
        row = row + [-1] * (ncs - len(row))
        if pad_anywhere:
            rng.shuffle(row)
        chrows.append(row)
    if per_template and not pad_anywhere:                    # one row per template, shared by its spikes
        trow = {}
        for q, sp in enumerate(stored):
            chrows[q] = trow.setdefault(stpl[sp], chrows[q])
    if mode == 'exact':
        E = D6.sparse_exact_waveforms(rng, k, nsamp, nc, [[ch in sets[sp] for ch in range(nc)] for sp in req])
    else:
        E = [[[rng.randint(-9, 9) for _ in range(nc)] for _ in range(nsamp)] for _ in range(k)]
    junk = rng.random() < 0.5                                # non-zero values in the padding columns
    w = []
    for q, sp in enumerate(stored):
        m = []
        for j in range(nsamp):
            r = []
            for ch in chrows[q]:
                if ch < 0:
                    r.append(rng.randint(1, 9) if junk else 0)
                elif sp in req:
                    r.append(E[req.index(sp)][j][ch])
                else:
                    r.append(rng.randint(-9, 9))
            m.append(r)
        w.append(m)
    others = [s_ for s_ in range(nspk) if s_ not in stored]
    ids = req + rng.sample(others, rng.randint(0, len(others)))
    rng.shuffle(ids)
    chans = rng.choice([list(range(nc)), rng.sample(range(nc), nc), rng.sample(range(nc), rng.randint(1, nc))])
    inp = {'n_spikes': nspk, 'n_templates': nt, 'n_channels': nc, 'nsamp': nsamp, 'spike_templates': stpl, 'w': w,
           'chrows': chrows, 'stored': stored, 'ids': ids, 'chans': chans, 'exact': mode == 'exact', 'judged': 0,
           'wdtype': rng.choice(['float32', 'float64']), 'chdtype': rng.choice(['int32', 'int32', 'int64']),
           'rows': 'per-template' if per_template else 'per-spike'}
    if mode == 'exact':
        det = D6.determined_components(D6.effective_waveforms(inp), min(3, k - 1))
        assert det is not None, 'generator: covariance not diagonal'
        inp['judged'] = sum(det)
    return {'kind': 'pcas', 'inp': inp}


def _corpus(rng):
    cases = []
    # upstream test_from_sparse example and boundary requests
    data = [[[1], [2], [3]], [[4], [5], [6]]]
    cols = [[20, 23, 21], [21, 19, 22]]
    for req in ([20], [21], [22], [23], [19], [20, 21], [23, 21], [19, 22, 20, 21, 23], [], [7]):
        cases.append(_fs(data, cols, req, req[::-1], 3))
    cases.append(_fs([], [], [1, 2], [2, 1], 3))                       # empty spike list
    cases.append(_fs(_cells(2, 2, (2,)), [[0, 1], [1, 2]], [2, 0, 1], [1, 2, 0], 2, (2,)))
    cases.append(_fs(_cells(1, 2, ()), [[0, 1]], [1, 1], [1], 2))       # duplicate request rejected
    cases.append(_fs(_cells(1, 2, ()), [[-1, 3]], [3, 0], [0, 3], 2))   # -1 padding entry in the column table
    cases.append(_fs(_cells(1, 3, ()), [[4, 4, 1]], [4, 1], [1, 4], 3))  # a channel twice in a row (undetermined)
    # stage 4 (full sweep #121): integer stores whose cells float64 cannot hold -- the dense array keeps data.dtype
    cases.append(_fs([[[2 ** 53 + 1], [-(2 ** 53) - 1]]], [[3, 1]], [1, 3], [3, 1], 2, dtype='int64'))
    cases.append(_fs([[[2 ** 63 - 1, 7]], [[-(2 ** 63), 2 ** 62 + 1]]], [[0], [2]], [2, 0, 4], [0], 1, (2,), dtype='int64'))
    cases.append(_fs([[[2 ** 64 - 1], [2 ** 53 + 1]]], [[0, -1]], [0], [1, 0], 2, dtype='uint64'))
    # the inputs on which get_template_features failed before fix-c06 (rows sorted by spike id instead of
    # request order; AssertionError for a request naming a spike outside the row table)
    tf = {'what': 'tfeatures', 'n_templates': 3, 'n_channels': 3, 'spike_templates': [2, 2, 1], 'spike_clusters': None,
          'npcs': 2, 'ncl': 3, 'data': [[101, 102, 103], [201, 202, 203]], 'ind': None, 'rows': [2, 1], 'ids': [2, 1],
          'ids_dtype': 'int64', 'rows_dtype': 'int64', 'ind_dtype': 'uint32', 'id_dtype': 'uint32', 'fdtype': 'float32'}
    cases.append({'kind': 'tfeatures', 'inp': tf})
    cases.append({'kind': 'tfeatures', 'inp': dict(tf, rows=[0, 2], ids=[0, 1, 2], ind=[[0, 1, 2], [2, 0, 1], [1, 2, 0]])})
    cases.append({'kind': 'tfeatures', 'inp': dict(tf, rows=[0, 2], ids=[1])})
    # model level: the configurations behind the repaired get_template_features defect
    for what in ('tfeatures', 'features'):
        for f in (dict(subset=True, req='stored'), dict(subset=True, req='any'), dict(subset=False, req='all'),
                  dict(subset=True, req='empty'), dict(subset=True, req='one'), dict(subset=False, sparse=False),
                  dict(subset=True, sparse=False, req='stored')):
            for _ in range(3):
                cases.append(_store(rng, what, **f))
    # second seeding round: (m4) both stores are subset stores with different spike-id tables and both accessors
    # are called on one model object; (m6) exactly two requested spikes on the waveform route
    h = {'n_templates': 3, 'n_channels': 3, 'spike_templates': [0, 1, 2, 0, 1, 2], 'spike_clusters': None,
         'f': {'npcs': 2, 'ncl': 2, 'data': [[[111, 112], [121, 122]], [[211, 212], [221, 222]], [[311, 312], [321, 322]]],
               'ind': [[0, 1], [1, 2], [2, 0]], 'rows': [0, 2, 4]},
         't': {'ncl': 2, 'data': [[101, 102], [201, 202], [301, 302]], 'ind': [[0, 1], [1, 2], [2, 0]], 'rows': [1, 2, 5]},
         'calls': [['f', [0, 2, 4], [0, 1, 2]], ['t', [1, 2, 5]], ['f', [4, 0], [2, 0]]],
         'ids_dtype': 'int64', 'rows_dtype': 'int64', 'ind_dtype': 'uint32', 'id_dtype': 'uint32', 'fdtype': 'float32'}
    cases.append({'kind': 'hist', 'inp': h})
    cases.append({'kind': 'hist', 'inp': dict(h, calls=[['t', [5, 1]], ['f', [2, 4, 0], [1, 0, 2]], ['t', [2]]])})
    cases.append({'kind': 'hist', 'inp': dict(h, f=None, calls=[['f', [0], [0]], ['t', [1, 2]]])})
    cases.append({'kind': 'hist', 'inp': dict(h, t=None, calls=[['t', [0]], ['f', [2, 0], [0, 1]]])})
    two = {'n_spikes': 4, 'n_templates': 2, 'n_channels': 2, 'nsamp': 3, 'spike_templates': [0, 1, 0, 1],
           'w': [[[1, 2], [5, 0], [0, 7]], [[4, 2], [9, 0], [0, 2]], [[3, 3], [3, 3], [3, 3]]], 'stored': [0, 2, 3],
           'ids': [2, 1, 0], 'chans': [0, 1], 'wdtype': 'float32'}          # differences (3, 4, 0) and (0, 0, -5)
    cases.append({'kind': 'pca2', 'inp': two})
    cases.append({'kind': 'pca', 'inp': dict(two, w=[[[1, 2], [5, 0], [0, 7]], [[1, 2], [9, 0], [0, 2]], [[3, 3], [3, 3], [3, 3]]])})
    cases.append({'kind': 'pca', 'inp': dict(two, ids=[3, 1])})                # a single stored spike: nothing claimed
    # stage 4: sparse waveform stores.  (A) two requested stored spikes, channel rows [1, 0] / [2, -1] / [0, 1], junk in the
    # padding column, channels requested in another order; (B) one stored spike requested; (C) exact, three spikes of which
    # one does not store channel 1
    sp = {'n_spikes': 4, 'n_templates': 2, 'n_channels': 3, 'nsamp': 3, 'spike_templates': [0, 1, 0, 1],
          'w': [[[2, 1], [0, 5], [7, 0]], [[4, 9], [1, 9], [0, 9]], [[3, 3], [3, 3], [3, 3]]],
          'chrows': [[1, 0], [2, -1], [0, 1]], 'stored': [0, 2, 3], 'ids': [2, 1, 0], 'chans': [0, 2, 1],
          'exact': False, 'judged': 0, 'wdtype': 'float32', 'chdtype': 'int32', 'rows': 'per-spike'}
    cases.append({'kind': 'pcas', 'inp': sp})
    cases.append({'kind': 'pcas', 'inp': dict(sp, ids=[3, 1], chans=[2, 0])})
    spx = dict(sp, w=[[[2, 0], [1, 0], [0, 3]], [[-2, 9], [1, 9], [0, 9]], [[0, 0], [-2, 0], [0, -3]]],
               chrows=[[0, 1], [0, -1], [0, 1]], ids=[3, 0, 2], chans=[1, 0], exact=True)
    spx['judged'] = sum(D6.determined_components(D6.effective_waveforms(spx), 2))
    cases.append({'kind': 'pcas', 'inp': spx})
    # stage 6 (fifth seeding round, m12): the length of a long request.  Forced instances: k * block + 1 stored spikes
    # requested, with and without a spike-id table (own generator state: the streams below are unchanged)
    import random
    r6 = random.Random(606)
    cases.append(_big_len(r6, 'tfeatures', 10001, 1, 'tail', table=False))
    cases.append(_big_len(r6, 'features', 20001, 1, 'rev', table=True))
    cases.append(_big_len(r6, 'features', 4097, 2, 'mixed'))
    cases.append(_big_len(r6, 'tfeatures', 16385, 3, 'two'))
    return cases


def generate(tier, rng):
    cases = _corpus(rng)
    if tier == 'search':
        for _ in range(2500):
            cases.append(_fs_random(rng, big=rng.random() < 0.2))
        for _ in range(700):
            cases.append(_store(rng, 'features'))
            cases.append(_store(rng, 'tfeatures'))
        for _ in range(200):
            cases.append(_project(rng))
        for _ in range(600):
            cases.append(_hist(rng))
        for _ in range(100):
            cases.append(_pca_k(rng))
            cases.append(_pca_k(rng, general=True))
            cases.append(_idx_small(rng))
        for _ in range(300):
            cases.append(_pca_sparse(rng, 'exact'))
            cases.append(_pca_sparse(rng, 'general'))
        for _ in range(200):
            cases.append(_fs_wide(rng))
        return cases
    quick = tier == 'quick'
    cases += _fs_exhaustive(tier)
    n_fs, n_big, n_store, n_proj, n_walsh, n_pca = (600, 60, 220, 100, 40, 40) if quick else (6000, 1500, 2500, 1000, 400, 300)
    for _ in range(n_fs):
        cases.append(_fs_random(rng))
    for _ in range(n_big):
        cases.append(_fs_random(rng, big=True))
    for _ in range(n_store):
        cases.append(_store(rng, 'features'))
        cases.append(_store(rng, 'tfeatures'))
    for _ in range(n_store // 10):
        cases.append(_store(rng, 'features', dup_ids=True))
        cases.append(_store(rng, 'tfeatures', dup_ids=True))
    for _ in range(n_proj):
        cases.append(_project(rng))
    for _ in range(n_walsh):
        cases.append(_walsh(rng, 'pcs'))
        cases.append(_walsh(rng, 'cf'))
    for _ in range(n_pca):
        cases.append(_pca(rng))
    # stage 3
    n_hist, n_k, n_idx = (160, 30, 60) if quick else (2000, 300, 600)
    for _ in range(n_hist):
        cases.append(_hist(rng))
    for _ in range(n_hist // 4):
        cases.append(_hist(rng, both_subset=True, have='both'))
    for _ in range(n_k):
        cases.append(_kspike(rng, 'pcs'))
        cases.append(_kspike(rng, 'cf'))
        cases.append(_two(rng, 'pcs2'))
        cases.append(_two(rng, 'cf2'))
        cases.append(_pca_k(rng))
        cases.append(_pca_k(rng, general=True))
    for _ in range(n_idx):
        cases.append(_idx_small(rng))
    cases += _idx_big()
    # stage 4: sparse waveform stores through the linked model
    for _ in range(40 if quick else 500):
        cases.append(_pca_sparse(rng, 'exact'))
        cases.append(_pca_sparse(rng, 'general'))
    # large subset stores (more than 2^15 stored spikes; thorough: more than 2^16)
    cases.append(_big(rng, 'features', 80000, 2, 'ends'))
    cases.append(_big(rng, 'tfeatures', 80000, 2, 'ends', down=True))
    cases.append(_big(rng, 'features', 70000, 2, 'long'))
    if not quick:
        cases.append(_big(rng, 'tfeatures', 70000, 2, 'long'))
        cases.append(_big(rng, 'features', 140000, 2, 'ends'))
        cases.append(_big(rng, 'features', 140000, 2, 'long', down=True))
        cases.append(_big(rng, 'tfeatures', 70000, 1, 'long'))
        cases.append(_big(rng, 'features', 200000, 3, 'ends', down=True))
    # stage 4 (full sweep): int64 / uint64 data beyond 2^53 (appended last: the streams above are unchanged)
    for _ in range(40 if quick else 600):
        cases.append(_fs_wide(rng))
    # stage 6: long requests whose length sits next to a multiple of a round block size (appended last)
    for _ in range(6 if quick else 60):
        cases.append(_big_len_random(rng, 33000))
    return cases


# ---- implementation side ---------------------------------------------------------------------------------

ERR = {'NotImplementedError': 1, 'AssertionError': 2, 'IndexError': 3}


def _arr_obs(a, lead):
    """array -> ('arr', shape, rows[s][j] = flat token list of the trailing block)."""
    import numpy as np
    a = np.asarray(a)
    shape = [int(x) for x in a.shape]
    ns = shape[0]
    n = shape[1] if len(shape) > 1 else 0
    rows = []
    for s in range(ns):
        row = []
        for j in range(n):
            blk = np.asarray(a[s, j])
            # integer results are observed exactly (float64 cannot hold an int64 / uint64 cell beyond 2^53)
            row.append([D.tok(v) for v in (blk if blk.dtype.kind in 'iub' else blk.astype(np.float64)).ravel().tolist()])
        rows.append(row)
    return ('arr', shape, rows)


def _guard(fn):
    try:
        return fn()
    except (NotImplementedError, AssertionError, IndexError) as e:
        return ('err', ERR[type(e).__name__])


def _tok3(a):
    import numpy as np
    return [[[D.tok(float(v)) for v in r] for r in m] for m in np.asarray(a, dtype=np.float64).tolist()]


def _as_ids(l, dt):
    import numpy as np
    # an empty Python list would become a float64 index array: spike ids are integer arrays
    return list(l) if (dt == 'list' and len(l)) else np.array(l, dtype='int64' if dt == 'list' else dt)


def run_case(case):
    import numpy as np
    k, i = case['kind'], case['inp']
    if k == 'fs':
        from phylib.io.model import from_sparse
        ns, n_loc, ts = len(i['data']), i['n_loc'], tuple(i['tshape'])
        data = np.array(i['data'], dtype=i['dtype']).reshape((ns, n_loc) + ts)
        ncol = len(i['cols'][0]) if i['cols'] else n_loc
        cols = np.array(i['cols'], dtype=i['cdtype']).reshape((ns, ncol))
        before = (data.copy(), cols.copy())
        o1 = _guard(lambda: _arr_obs(from_sparse(data, cols, np.array(i['chans'], dtype=np.int64)), 2))
        o2 = _guard(lambda: _arr_obs(from_sparse(data, cols, list(i['chans2'])), 2))
        if not (np.array_equal(before[0], data) and np.array_equal(before[1], cols)):
            raise RuntimeError('from_sparse modified its arguments')
        return ('pair', o1, o2)
    if k in ('features', 'tfeatures'):
        d = tempfile.mkdtemp(prefix='c06_', dir=os.environ.get('VT_WORK') or None)
        try:
            m = D6.open_model(D6.features_dataset(i), d)
            ids = _as_ids(i['ids'], i['ids_dtype'])
            if k == 'features':
                chans = _as_ids(i['chans'], i['chans_dtype'])
                o = _guard(lambda: _arr_obs(m.get_features(ids, chans), 2))
            else:
                o = _guard(lambda: _arr_obs(m.get_template_features(ids), 2))
            m.close()
            return ('one', o)
        finally:
            shutil.rmtree(d, ignore_errors=True)
    if k == 'hist':
        d = tempfile.mkdtemp(prefix='c06_', dir=os.environ.get('VT_WORK') or None)
        try:
            m = D6.open_model(D6.both_dataset(i), d)
            out = []
            for c in i['calls']:                                 # ONE model object for the whole history
                ids = _as_ids(c[1], i['ids_dtype'])
                if c[0] == 'f':
                    r = _guard(lambda: m.get_features(ids, np.array(c[2], dtype=np.int64)))
                else:
                    r = _guard(lambda: m.get_template_features(ids))
                out.append(('none',) if r is None else r if isinstance(r, tuple) else _arr_obs(r, 2))
            m.close()
            return ('many', out)
        finally:
            shutil.rmtree(d, ignore_errors=True)
    if k == 'big':
        d = tempfile.mkdtemp(prefix='c06_', dir=os.environ.get('VT_WORK') or None)
        try:
            m = D6.open_model(D6.big_dataset(i), d)
            ids = np.array(D6.expand(i['ids']), dtype=i['ids_dtype'])
            if i['what'] == 'features':
                r = _guard(lambda: m.get_features(ids, np.array(i['chans'], dtype=np.int64)))
            else:
                r = _guard(lambda: m.get_template_features(ids))
            m.close()
            if isinstance(r, tuple):
                return ('one', r)
            o = _arr_obs(r[np.array(i['probes'], dtype=np.int64)], 2)
            return ('one', ('arr', [int(x) for x in r.shape], o[2]))
        finally:
            shutil.rmtree(d, ignore_errors=True)
    if k == 'idx':
        from phylib.io.array import _index_of
        lk = np.array(D6.expand(i['lookup']), dtype=i['dtype'])
        try:
            return ('zs', [int(v) for v in _index_of(np.array(i['arr'], dtype=i['dtype']), lk)])
        except IndexError:
            return ('zs', None)
    if k == 'pcs2':
        from phylib.io.model import _compute_pcs
        return ('z3', _tok3(_compute_pcs(np.array(i['w'], dtype=i['dtype']), 3)))
    if k == 'cf2':
        k = 'cf'
    if k == 'pca2':
        k = 'pca'
    if k == 'project':
        from phylib.io.model import _project_pcs
        pcs = np.array(i['pcs'], dtype=i['dtype']).reshape((len(i['pcs']), i['nsamp'], i['nc']))
        x = np.array(i['x'], dtype=i['dtype']).reshape((len(i['x']), i['nsamp'], i['nc']))
        return ('z3', _tok3(_project_pcs(x, pcs)))
    if k == 'pcs':
        from phylib.io.model import _compute_pcs
        w = np.array(i['w'], dtype=i['dtype'])
        return ('z3', _tok3(_compute_pcs(w, 3)))
    if k == 'cf':
        from phylib.io import model as M
        w = np.array(i['w'], dtype=i['dtype'])
        seen = []
        orig = M._compute_pcs

        def spy(x, npcs):
            out = orig(x, npcs)
            seen.append(np.array(out))
            return out
        M._compute_pcs = spy
        try:
            f = M.compute_features(w)
        finally:
            M._compute_pcs = orig
        return ('cf', _tok3(seen[0]), _tok3(f))
    if k == 'pca':
        d = tempfile.mkdtemp(prefix='c06_', dir=os.environ.get('VT_WORK') or None)
        try:
            m = D6.open_model(D6.pca_dataset(i), d)
            if m.sparse_features is not None or m.spike_waveforms is None:
                raise RuntimeError('pca dataset not loaded as intended')
            f = m.get_features(np.array(i['ids'], dtype=np.int64), np.array(i['chans'], dtype=np.int64))
            m.close()
            return ('z3', _tok3(f))
        finally:
            shutil.rmtree(d, ignore_errors=True)
    if k == 'pcas':
        from phylib.io import model as M
        d = tempfile.mkdtemp(prefix='c06_', dir=os.environ.get('VT_WORK') or None)
        seen = []
        orig = M._compute_pcs

        def spy(x, npcs):
            out = orig(x, npcs)
            seen.append((np.array(x), np.array(out)))
            return out
        try:
            m = D6.open_model(D6.pca_dataset(i), d)
            if m.sparse_features is not None or m.spike_waveforms is None:
                raise RuntimeError('pca dataset not loaded as intended')
            M._compute_pcs = spy
            try:
                f = m.get_features(np.array(i['ids'], dtype=np.int64), np.array(i['chans'], dtype=np.int64))
            finally:
                M._compute_pcs = orig
            m.close()
            wav, pcs = seen[0] if seen else (np.zeros((0, 0, 0)), np.zeros((0, 0, 0)))
            return ('link', _tok3(wav), _tok3(pcs), _tok3(f))
        finally:
            shutil.rmtree(d, ignore_errors=True)
    raise ValueError(k)


# ---- encoding for Coq ------------------------------------------------------------------------------------

def _cell(c):
    return q.lst(c, D.coq_tok)


def _rows(rows):
    return q.lst(rows, lambda r: q.lst(r, _cell))


def _obs1(o):
    if o[0] == 'arr':
        return '(OArr %s %s)' % (q.zl(o[1]), _rows(o[2]))
    if o[0] == 'none':
        return 'ONone'
    return '(OErr %d)' % o[1]


def _segs(segs):
    return q.lst(segs, lambda s_: '(Seg %s %s %s)' % (q.z(s_[1]), q.z(s_[2]), q.z(s_[3])) if s_[0] == 'seg' else '(Lit %s)' % q.zl(s_[1]))


def _t3(a):
    return q.lst(a, lambda m: q.lst(m, lambda r: q.lst(r, D.coq_tok)))


def _z3(a):
    return q.lst(a, q.zll)


def _optzll(x):
    return 'None' if x is None else '(Some %s)' % q.zll(x)


def _optzl(x):
    return 'None' if x is None else '(Some %s)' % q.zl(x)


def encode(case, obs):
    k, i = case['kind'], case['inp']
    crash = obs[0] == 'crash'
    if k == 'fs':
        data = q.lst(i['data'], lambda r: q.lst(r, lambda c: q.lst(c, lambda v: D.coq_tok(D.tok(v)))))
        cin = '(InFromSparse %s %s %s %s %s)' % (q.zl(i['tshape']), data, q.zll(i['cols']), q.zl(i['chans']), q.zl(i['chans2']))
        cobs = 'ObsCrash' if crash else '(ObsPair %s %s)' % (_obs1(obs[1]), _obs1(obs[2]))
    elif k == 'features':
        file = q.lst(i['data'], lambda r: q.lst(r, lambda pc: q.lst(pc, lambda v: D.coq_tok(D.tok(v)))))
        cin = '(InFeatures %s %s %s %s %s %s %s %s)' % (
            q.nat(i['npcs']), q.nat(i['ncl']), file, _optzll(i['ind']), _optzl(i['rows']), q.zl(i['spike_templates']),
            q.zl(i['ids']), q.zl(i['chans']))
        cobs = 'ObsCrash' if crash else '(ObsOne %s)' % _obs1(obs[1])
    elif k == 'tfeatures':
        file = q.lst(i['data'], lambda r: q.lst(r, lambda v: D.coq_tok(D.tok(v))))
        cin = '(InTFeatures %s %s %s %s %s %s %s)' % (
            q.nat(i['ncl']), file, _optzll(i['ind']), _optzl(i['rows']), q.zl(i['spike_templates']), q.zl(i['ids']),
            q.nat(i['n_templates']))
        cobs = 'ObsCrash' if crash else '(ObsOne %s)' % _obs1(obs[1])
    elif k == 'project':
        cin = '(InProject %s %s %s %s)' % (q.nat(i['nsamp']), q.nat(i['nc']), _z3(i['pcs']), _z3(i['x']))
        cobs = 'ObsCrash' if crash else '(ObsZ3 %s)' % _t3(obs[1])
    elif k == 'pcs':
        cin = '(InPcs %s %s %s)' % (q.nat(i['nsamp']), q.nat(i['nc']), _z3(i['w']))
        cobs = 'ObsCrash' if crash else '(ObsZ3 %s)' % _t3(obs[1])
    elif k == 'cf':
        cin = '(InComputeFeatures %s %s %s)' % (q.nat(i['nsamp']), q.nat(i['nc']), _z3(i['w']))
        cobs = 'ObsCrash' if crash else '(ObsCF %s %s)' % (_t3(obs[1]), _t3(obs[2]))
    elif k in ('pca', 'pca2'):
        cin = '(%s %s %s %s %s %s)' % ('InPca' if k == 'pca' else 'InPca2', q.nat(i['nsamp']), _z3(i['w']), q.zl(i['stored']),
                                       q.zl(i['ids']), q.zl(i['chans']))
        cobs = 'ObsCrash' if crash else '(ObsZ3 %s)' % _t3(obs[1])
    elif k == 'pcs2':
        cin = '(InPcs2 %s %s %s)' % (q.nat(i['nsamp']), q.nat(i['nc']), _z3(i['w']))
        cobs = 'ObsCrash' if crash else '(ObsZ3 %s)' % _t3(obs[1])
    elif k == 'cf2':
        cin = '(InCF2 %s %s %s)' % (q.nat(i['nsamp']), q.nat(i['nc']), _z3(i['w']))
        cobs = 'ObsCrash' if crash else '(ObsCF %s %s)' % (_t3(obs[1]), _t3(obs[2]))
    elif k == 'hist':
        f, t = i['f'], i['t']
        ff = 'None' if f is None else '(Some %s)' % q.lst(f['data'], lambda r: q.lst(r, lambda pc: q.lst(pc, lambda v: D.coq_tok(D.tok(v)))))
        tt = 'None' if t is None else '(Some %s)' % q.lst(t['data'], lambda r: q.lst(r, lambda v: D.coq_tok(D.tok(v))))
        calls = q.lst(i['calls'], lambda c: '(CallF %s %s)' % (q.zl(c[1]), q.zl(c[2])) if c[0] == 'f' else '(CallT %s)' % q.zl(c[1]))
        cin = '(InHist %s %s %s %s %s %s %s %s %s %s %s %s)' % (
            q.nat(f['npcs'] if f else 1), q.nat(f['ncl'] if f else 0), ff, _optzll(f['ind'] if f else None),
            _optzl(f['rows'] if f else None), q.nat(t['ncl'] if t else 0), tt, _optzll(t['ind'] if t else None),
            _optzl(t['rows'] if t else None), q.zl(i['spike_templates']), q.nat(i['n_templates']), calls)
        cobs = 'ObsCrash' if crash else '(ObsMany %s)' % q.lst(obs[1], _obs1)
    elif k == 'big':
        cin = '(InBig %s %s %s %s %s %s %s %s %s %s %s %s)' % (
            q.b(i['what'] == 'tfeatures'), q.nat(i['npcs']), q.nat(i['ncl']), q.z(i['n_spikes']),
            'None' if i['rows'] is None else '(Some %s)' % _segs(i['rows']), q.zl(i['drule']), _optzll(i['ind']),
            q.nat(i['n_templates']), q.zl(i['trule']), _segs(i['ids']), q.zl(i['chans']), q.zl(i['probes']))
        cobs = 'ObsCrash' if crash else '(ObsOne %s)' % _obs1(obs[1])
    elif k == 'idx':
        cin = '(InIndexOf %s %s)' % (_segs(i['lookup']), q.zl(i['arr']))
        cobs = 'ObsCrash' if crash else '(ObsZs %s)' % _optzl(obs[1])
    elif k == 'pcas':
        cin = '(InPcaS %s %s %s %s %s %s %s %s)' % (q.b(i['exact']), q.nat(i['judged']), q.nat(i['nsamp']), _z3(i['w']),
                                                  q.zll(i['chrows']), q.zl(i['stored']), q.zl(i['ids']), q.zl(i['chans']))
        cobs = 'ObsCrash' if crash else '(ObsLink %s %s %s)' % (_t3(obs[1]), _t3(obs[2]), _t3(obs[3]))
    else:
        raise ValueError(k)
    return cin, cobs


def nontrivial(case, obs):
    if obs[0] == 'crash':
        return False
    k = case['kind']
    if k == 'fs':
        o = obs[1]
        return o[0] == 'arr' and any(t != ('n', 0, 0) and t != ['n', 0, 0] for r in o[2] for c in r for t in c)
    if k in ('features', 'tfeatures'):
        o = obs[1]
        return o[0] == 'arr' and any(t not in (('n', 0, 0), 'nan') for r in o[2] for c in r for t in c)
    if k == 'big':
        o = obs[1]
        return o[0] == 'arr' and any(t not in (('n', 0, 0), 'nan', ['n', 0, 0]) for r in o[2] for c in r for t in c)
    if k == 'hist':
        return any(o[0] == 'arr' and any(t not in (('n', 0, 0), 'nan', ['n', 0, 0]) for r in o[2] for c in r for t in c)
                   for o in obs[1])
    if k == 'idx':
        return bool(obs[1])
    if k == 'pcas':
        return any(t not in (('n', 0, 0), ['n', 0, 0]) for r in obs[3] for c in r for t in c)
    return True


def _bucket(n):
    return str(n) if n <= 3 else '4-9' if n <= 9 else '10+'


def dist(case, obs):
    k, i = case['kind'], case['inp']
    out = ['kind=' + k]
    if obs[0] == 'crash':
        out.append('crash=' + obs[1])
        return out
    if k == 'fs':
        out.append('fs.n_spikes=%s' % _bucket(len(i['data'])))
        out.append('fs.n_loc=%s' % _bucket(i['n_loc']))
        out.append('fs.n_requested=%s' % _bucket(len(i['chans'])))
        out.append('fs.trailing=%s' % 'x'.join(map(str, i['tshape'])))
        stored = set(c for r in i['cols'] for c in r)
        out.append('fs.unknown_channel_requested=%s' % any(c not in stored for c in i['chans']))
        out.append('fs.outcome=%s/%s' % (obs[1][0] + (str(obs[1][1]) if obs[1][0] == 'err' else ''),
                                         obs[2][0] + (str(obs[2][1]) if obs[2][0] == 'err' else '')))
        out.append('fs.second_request=%s' % ('same-set' if sorted(i['chans']) == sorted(i['chans2']) else 'other'))
        out.append('fs.dtype=%s' % i['dtype'])
        out.append('fs.cell_beyond_2^53=%s' % any(abs(v) > 2 ** 53 for r in i['data'] for c in r for v in c))
    elif k in ('features', 'tfeatures'):
        out.append('%s.row_table=%s' % (k, i['rows'] is not None))
        out.append('%s.col_table=%s' % (k, i['ind'] is not None))
        held = set(i['rows']) if i['rows'] is not None else set(range(len(i['spike_templates'])))
        out.append('%s.request=%s' % (k, 'empty' if not i['ids'] else
                                      ('sorted' if i['ids'] == sorted(i['ids']) else 'unsorted') +
                                      ('' if set(i['ids']) <= held else '+unstored') +
                                      ('+dup' if len(set(i['ids'])) < len(i['ids']) else '')))
        out.append('%s.ids_dtype=%s' % (k, i['ids_dtype']))
        out.append('%s.curated=%s' % (k, i.get('spike_clusters') is not None))
        out.append('%s.outcome=%s' % (k, obs[1][0]))
        if k == 'features':
            nc = i['n_channels']
            ch = i['chans']
            out.append('features.channels=%s' % ('all' if ch == list(range(nc)) else 'perm' if sorted(ch) == list(range(nc))
                                                 else 'unknown' if any(c >= nc for c in ch) else 'subset'))
    elif k in ('pcs', 'cf', 'pca', 'pcs2', 'cf2', 'pca2'):
        if k in ('pca', 'pca2'):
            out.append('%s.stored_requested=%s' % (k, _bucket(len(set(i['ids']) & set(i['stored'])))))
            out.append('%s.stored_not_requested=%s' % (k, bool(set(i['stored']) - set(i['ids']))))
            out.append('%s.unstored_requested=%s' % (k, bool(set(i['ids']) - set(i['stored']))))
            out.append('%s.channels=%s' % (k, 'all' if i['chans'] == list(range(i['n_channels'])) else 'other'))
        else:
            out.append('%s.n_spikes=%s' % (k, _bucket(len(i['w']))))
        out.append('%s.nsamp=%d' % (k, i['nsamp']))
    elif k == 'hist':
        f, t = i['f'], i['t']
        out.append('hist.stores=%s' % ('both' if f and t else 'f' if f else 't' if t else 'none'))
        if f and t:
            rf, rt = f['rows'], t['rows']
            out.append('hist.row_tables=%s' % ('none' if rf is None and rt is None else 'one' if rf is None or rt is None
                                               else 'both-same' if rf == rt else 'both-different'))
        seq = ''.join(c[0] for c in i['calls'])
        out.append('hist.n_calls=%d' % len(seq))
        out.append('hist.accessors=%s' % ('both' if {'f', 't'} <= set(seq) else seq[:1]))
        out.append('hist.first=%s' % seq[:1])
        for o in obs[1]:
            out.append('hist.outcome=%s' % o[0])
    elif k == 'big':
        rows = D6.expand(i['rows']) if i['rows'] is not None else None
        out.append('big.what=%s' % i['what'])
        out.append('big.n_spikes=%d' % i['n_spikes'])
        out.append('big.n_stored=%s' % (len(rows) if rows is not None else i['n_spikes']))
        out.append('big.request_len=%d' % len(D6.expand(i['ids'])))
        if 'form' in i:
            stored_req = len(set(D6.expand(i['ids'])) & set(rows)) if rows is not None else len(D6.expand(i['ids']))
            out.append('big.request_form=%s' % i['form'])
            out.append('big.row_table=%s' % ('none' if rows is None else 'identity' if len(rows) == i['n_spikes'] else 'subset'))
            out.append('big.stored_requested_mod_1000=%s' % (stored_req % 1000 if stored_req % 1000 <= 2 or stored_req % 1000 == 999 else 'other'))
            out.append('big.stored_requested_mod_1024=%s' % (stored_req % 1024 if stored_req % 1024 <= 2 or stored_req % 1024 == 1023 else 'other'))
        out.append('big.outcome=%s' % obs[1][0])
    elif k == 'idx':
        lk = D6.expand(i['lookup'])
        out.append('idx.lookup_len=%s' % ('<=6' if len(lk) <= 6 else '>2^16' if len(lk) > 65536 else '>2^15' if len(lk) > 32768 else 'mid'))
        out.append('idx.max_value=%s' % ('<2^15' if max(lk + [0]) < 32768 else '<2^16' if max(lk) < 65536 else '<2^17' if max(lk) < 2 ** 17
                                           else '>=2^17'))
        out.append('idx.outcome=%s' % ('IndexError' if obs[1] is None else 'ok'))
    elif k == 'pcas':
        exist = sorted(set(i['ids']) & set(i['stored']))
        rows = [i['chrows'][i['stored'].index(sp)] for sp in exist]
        out.append('pcas.mode=%s' % ('exact' if i['exact'] else 'general'))
        out.append('pcas.stored_requested=%s' % _bucket(len(exist)))
        out.append('pcas.rows=%s' % i.get('rows'))
        out.append('pcas.requested_channel_missing_for_some_spike=%s' % any(ch not in r for r in rows for ch in i['chans']))
        out.append('pcas.requested_channel_stored_by_none=%s' % any(all(ch not in r for r in rows) for ch in i['chans']))
        out.append('pcas.padding=%s' % ('none' if not any(-1 in r for r in rows) else
                                        'end' if all(-1 not in r[:len([c for c in r if c >= 0])] for r in rows) else 'anywhere'))
        out.append('pcas.row_wider_than_n_channels=%s' % (len(i['chrows'][0]) > i['n_channels']))
        out.append('pcas.unstored_requested=%s' % bool(set(i['ids']) - set(i['stored'])))
        out.append('pcas.stored_not_requested=%s' % bool(set(i['stored']) - set(i['ids'])))
        if i['exact']:
            full = min(3, len(exist) - 1) * len(i['chans'])
            out.append('pcas.components_judged=%s' % ('none' if i['judged'] == 0 else 'all' if i['judged'] == full else 'some'))
    return out


def size(case):
    return len(str(case['inp']))


def shrink(case):
    k, i = case['kind'], case['inp']
    if k == 'fs':
        ns = len(i['data'])
        for s in range(ns):                                   # drop a spike
            j = copy.deepcopy(i)
            del j['data'][s]
            del j['cols'][s]
            yield {'kind': k, 'inp': j}
        if i['n_loc'] > 0 and all(len(r) == i['n_loc'] for r in i['cols']):
            for c in range(i['n_loc']):                        # drop a local column
                j = copy.deepcopy(i)
                j['n_loc'] -= 1
                for r in j['data']:
                    del r[c]
                for r in j['cols']:
                    del r[c]
                yield {'kind': k, 'inp': j}
        for key in ('chans', 'chans2'):
            for c in range(len(i[key])):
                j = copy.deepcopy(i)
                del j[key][c]
                yield {'kind': k, 'inp': j}
        if i['tshape']:
            j = copy.deepcopy(i)
            j['tshape'] = []
            j['data'] = [[c[:1] for c in r] for r in j['data']]
            yield {'kind': k, 'inp': j}
    elif k in ('features', 'tfeatures'):
        for c in range(len(i['ids'])):
            j = copy.deepcopy(i)
            del j['ids'][c]
            yield {'kind': k, 'inp': j}
        if k == 'features':
            for c in range(len(i['chans'])):
                j = copy.deepcopy(i)
                del j['chans'][c]
                yield {'kind': k, 'inp': j}
        if i['rows'] is not None and len(i['rows']) > 2:
            for c in range(len(i['rows'])):
                j = copy.deepcopy(i)
                del j['rows'][c]
                del j['data'][c]
                yield {'kind': k, 'inp': j}
        for key, v in (('ids_dtype', 'int64'), ('rows_dtype', 'int64'), ('ind_dtype', 'uint32'), ('id_dtype', 'uint32'),
                       ('fdtype', 'float32'), ('chans_dtype', 'int64')):
            if key in i and i[key] != v:
                j = copy.deepcopy(i)
                j[key] = v
                yield {'kind': k, 'inp': j}
    elif k == 'project':
        for key in ('x', 'pcs'):
            if len(i[key]) > (1 if key == 'pcs' else 0):
                j = copy.deepcopy(i)
                del j[key][-1]
                yield {'kind': k, 'inp': j}
    elif k == 'hist':
        for c in range(len(i['calls'])):
            if len(i['calls']) > 1:
                j = copy.deepcopy(i)
                del j['calls'][c]
                yield {'kind': k, 'inp': j}
        for c in range(len(i['calls'])):
            for a in range(1, len(i['calls'][c])):
                for e in range(len(i['calls'][c][a])):
                    j = copy.deepcopy(i)
                    del j['calls'][c][a][e]
                    yield {'kind': k, 'inp': j}
        for key, v in (('ids_dtype', 'int64'), ('rows_dtype', 'int64'), ('ind_dtype', 'uint32'), ('id_dtype', 'uint32'),
                       ('fdtype', 'float32')):
            if i[key] != v:
                j = copy.deepcopy(i)
                j[key] = v
                yield {'kind': k, 'inp': j}
        if i.get('spike_clusters') is not None:
            j = copy.deepcopy(i)
            j['spike_clusters'] = None
            yield {'kind': k, 'inp': j}
    elif k == 'big':
        ids = D6.expand(i['ids'])
        if len(i['probes']) > 2:
            # many probes (stage 6): every candidate costs one evaluation of the large store, so halve instead of
            # dropping one probe at a time (a failing probe fails on its own: rows are judged one by one)
            h = len(i['probes']) // 2
            for sub in (i['probes'][h:], i['probes'][:h]):
                j = copy.deepcopy(i)
                j['probes'] = list(sub)
                yield {'kind': k, 'inp': j}
        elif len(i['probes']) > 1:
            for c in range(len(i['probes'])):
                j = copy.deepcopy(i)
                del j['probes'][c]
                yield {'kind': k, 'inp': j}
        if len(i['probes']) == 1 and len(ids) > 1 and len(ids) <= 64:
            j = copy.deepcopy(i)
            j['ids'] = [['lit', [ids[i['probes'][0]]]]]
            j['probes'] = [0]
            yield {'kind': k, 'inp': j}
    elif k == 'idx':
        for c in range(len(i['arr'])):
            j = copy.deepcopy(i)
            del j['arr'][c]
            yield {'kind': k, 'inp': j}
    elif k in ('pca', 'pca2'):
        others = [s for s in i['ids'] if s not in i['stored']]
        for s in others:
            j = copy.deepcopy(i)
            j['ids'].remove(s)
            yield {'kind': k, 'inp': j}
        if i['chans'] != list(range(i['n_channels'])):
            j = copy.deepcopy(i)
            j['chans'] = list(range(i['n_channels']))
            yield {'kind': k, 'inp': j}
        if i['ids'] != sorted(i['ids']):
            j = copy.deepcopy(i)
            j['ids'] = sorted(i['ids'])
            yield {'kind': k, 'inp': j}
    elif k == 'pcas':
        others = [s for s in i['ids'] if s not in i['stored']]
        for s in others:
            j = copy.deepcopy(i)
            j['ids'].remove(s)
            yield {'kind': k, 'inp': j}
        for q_, sp in enumerate(i['stored']):                 # drop a stored spike that is not requested
            if sp not in i['ids'] and len(i['stored']) > 1:
                j = copy.deepcopy(i)
                del j['stored'][q_]
                del j['chrows'][q_]
                del j['w'][q_]
                yield {'kind': k, 'inp': j}
        if not i['exact']:
            for c in range(len(i['chans'])):
                if len(i['chans']) > 1:
                    j = copy.deepcopy(i)
                    del j['chans'][c]
                    yield {'kind': k, 'inp': j}
        if i['ids'] != sorted(i['ids']):
            j = copy.deepcopy(i)
            j['ids'] = sorted(i['ids'])
            yield {'kind': k, 'inp': j}
        for key, v in (('wdtype', 'float32'), ('chdtype', 'int32')):
            if i[key] != v:
                j = copy.deepcopy(i)
                j[key] = v
                yield {'kind': k, 'inp': j}


def repro(case):
    k, i = case['kind'], case['inp']
    pre = ("import sys; sys.path[:0] = ['/verif/harness', '/repo']\n"
           "from vt import npshim; npshim.setup_process()\nimport numpy as np\n")
    if k == 'fs':
        return pre + ("from phylib.io.model import from_sparse\n"
                      "data = np.array(%r, dtype=%r).reshape((%d, %d) + %r)\ncols = np.array(%r, dtype=%r).reshape((%d, -1))\n"
                      "print(from_sparse(data, cols, np.array(%r, dtype=np.int64)))   # cell (s, j) must be data[s, k] where cols[s, k] == chans[j], else 0\n"
                      "print(from_sparse(data, cols, %r))\n"
                      % (i['data'], i['dtype'], len(i['data']), i['n_loc'], tuple(i['tshape']), i['cols'], i['cdtype'],
                         len(i['data']), i['chans'], i['chans2']))
    return pre + "from vt.props import c06\nprint(c06.run_case(%r))\n" % (case,)
