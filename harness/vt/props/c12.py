"""C12 -- merged channel and template arrays are block-structured by probe (DESIGN.md §8 C12)."""
import copy
import itertools
import os
import shutil
import tempfile

from .. import coqenc as q
from .. import datasets as D
from .. import datasets_c12 as M

ID = 'C12'
RULE = ('generated probe directories run through the real Merger (its six channel/template methods in merge order, '
        'and the whole Merger.merge for a part of the cases): corpus of the inputs behind the repaired defects, then every '
        'combination of (channel count, template count) in {1,2,3}x{1,2} for 1..3 probes (1..4 thorough) with random contents, '
        'sampling rates that are non-integer (30000.207), below 1, written as int or float literals; template / channel / '
        'probe counts around block sizes (a probe with 63/64/65/70/128/130 templates followed by probes with 1, few and many '
        'templates, 33..130 channels, 8 and 12 probes; thorough: 31..257 templates x followers 1/3/40/70, up to 20 probes); '
        'then a seeded random stream of 1..5 probes with 1..6 channels, 1..4 templates, 1..4 samples, permuted channel maps '
        'inside wider raw files, zero-width / positive-minimum / fractional x coordinates, index tables of 5 signed and '
        'unsigned dtypes, float32/float64 positions, templates and matrices mixed across probes (the dtypes of the merged '
        'files are compared with PV.C12.Dtypes.merged_dt), '
        'table widths 1..3, optional matrices present in all / some / no probes, (n,) and (n,1) channel maps; every probe has '
        'spikes whose templates use all / all but the trailing / all but a middle / a random subset of its templates '
        '(cross-property clause 27: merged spike_templates against merged templates.npy and template_feature_ind.npy). '
        'HISTORY: ~30% of the random cases (and 4 forced corpus cases that run first) perform 1..3 earlier merges IN THE SAME '
        'PROCESS over the same probe directories (the same list again, a prefix - A+B then A+B+C -, a suffix, a permutation, '
        'a single probe, a random sublist) before the observed merge, ~10% run the observed merge twice on one Merger object; '
        'MATRIX VALUES: ~60% of the probes carry entries that float32 cannot hold (0.1, 1/3, 1+2^-30, 1e-50, 2^24+1) - kept '
        'exactly by float64 files, rounded once at materialisation by float32 files - so that float32 and float64 matrices '
        'with full-precision entries meet in one merge in either order. '
        'STORAGE FORM: ~35% of the probes (and 5 forced corpus cases that run first) store some or all of their .npy files '
        '(channel_map, channel_positions, templates, pc_feature_ind, template_feature_ind, the three matrices) in Fortran '
        'order (header fortran_order=True, MATLAB npy writers) and / or byte-swapped (big-endian descr): every file of the '
        'probe in one form, an independent form per file, or a single file; in the first probe only, in later probes only, '
        'in all; np.load returns the same values, so the model is not told and the merged dataset must not change. '
        'Non-trivial = at least two probes and the merge produced the arrays; distinct = distinct abstract input.')
EXHAUSTIVE = {'quick': True, 'thorough': True}
CLAUSES = {
    1: 'observed merged arrays differ from the Coq model PV.C12.Model.merge_side (or their dtypes from PV.C12.Dtypes.merged_dt)',
    21: 'C12_channel_blocks (probe label k on block k, channel map and x shifted by per-probe constants, same y, input order)',
    22: 'C12_apart (x ranges of different probes strictly ordered, i.e. disjoint)',
    23: 'C12_template_blocks (T[toff_k+t][s][coff_k+c] = T_k[t][s][c], zero outside the block)',
    24: 'C12_block_diag (whitening_mat, whitening_mat_inv, similar_templates block-diagonal; written iff every probe has the file)',
    25: 'C12_index_tables (pc_feature_ind shifted by coff_k, template_feature_ind shifted by toff_k)',
    26: 'C12_params (same sample rate, n_channels_dat = sum, dat_path = [])',
    27: 'C12_spike_template_rows / C12_spike_template_tables (link C11 x C12): row spike_templates[i] of the merged '
        'templates.npy / template_feature_ind.npy is the row of the template the spike named in its own probe',
}
TRUSTED = ['np.load/np.save/tobytes and the raw in-place write into templates.npy, scipy.linalg.block_diag, '
           'phylib.utils._misc.read_python/write_python (params.py text layer)',
           'materialisation of abstract probes and observation of the merged directory (harness/vt/datasets_c12.py)']
ASSUMES = ['every probe has >= 1 channel, >= 1 template, >= 1 waveform sample, the same n_samples (a few cases with unequal n_samples '
           'exercise the AssertionError exit of write_templates: model undefined, nothing but code 1 can be raised there), '
           'table widths and sample rate; '
           'templates have as many channels as the channel map; index-table entries are valid local indices; x >= 0',
           'template values are small integers / dyadic numbers exact in float32, coordinates multiples of 1/4 (exact regime); '
           'matrix entries are any finite doubles, given to the model as the probe file holds them',
           'a Fortran-ordered or byte-swapped .npy file is the same input as its C-ordered native twin (np.load trusted)',
           'earlier merges of a history write into their own output directories and never into a probe directory']
TIMEOUT = {'quick': 60, 'thorough': 120}     # a merge takes ~10 ms; generous because the machine may be heavily loaded
MATCHERS = {}


# ---- generator ------------------------------------------------------------------------------------------

RATES = [100.0, 30000.0, 25000.0, 128.0, 2000.0,
         30000.207, 29999.954, 30000.5, 29999.999999999996, 123456.78125, 2.5e4 + 2 ** -20,
         0.5, 0.1, 0.999, 1e-3, 1.5]


def _none(n):
    return {'wm': [False] * n, 'wmi': [False] * n, 'sim': [False] * n}


def _boundary_cases(rng, tier):
    """Template / channel / probe counts around block sizes (a writer that works by chunks of 32/64/128 rows or
    columns, a buffer reused across probes): a probe with 63/64/65/70/128/130 templates followed by probes with 1, few
    and many templates; wide probes (33..130 channels); many probes.  Waveforms stay tiny (2 samples x 1..3 channels),
    one-column tables, no similarity matrix except where noted, so that the Coq literal stays small."""
    small = dict(route='methods', ns=2, pcw=1, tfw=1, stmode='all')
    out = []

    def add(sizes, **kw):
        o = dict(small)
        o.update(kw)
        if 'present' not in o:
            o['present'] = _none(len(sizes))
        out.append(_case(rng, sizes, **o))
    add([(2, 70), (3, 40)])                       # remainder 6, follower 40 > 6
    add([(2, 65), (1, 3), (2, 2)], present={'wm': [True] * 3, 'wmi': [False] * 3, 'sim': [True] * 3})
    add([(1, 64), (2, 65), (2, 66)])
    add([(2, 63), (2, 64), (1, 1)])
    add([(1, 130), (2, 1), (2, 5)])               # remainder 2: followers with 1 (unaffected) and 5 templates
    add([(2, 128), (1, 1), (2, 66), (1, 2)], route='merge')
    add([(65, 1), (2, 2), (33, 2)])               # wide probes
    add([(3, 2), (130, 1), (1, 3)], ns=1)
    for k in (8, 12):                             # many probes
        add([(rng.randint(1, 2), rng.randint(1, 2)) for _ in range(k)], ns=rng.choice([1, 2]))
    if tier != 'quick':
        big = [31, 32, 33, 63, 64, 65, 70, 96, 127, 128, 129, 130, 192, 200, 257]
        for a in big:
            for b in (1, 3, 40, 70):
                add([(rng.randint(1, 3), a), (rng.randint(1, 3), b), (1, rng.choice([1, 2, 9]))])
        for _ in range(40):
            k = rng.choice([2, 3, 3, 4])
            add([(rng.randint(1, 3), rng.choice(big + [1, 2, 5, 20])) for _ in range(k)],
                route=rng.choice(['methods', 'methods', 'merge']), stmode=rng.choice(['all', 'trailing', 'random']))
        for a in (31, 32, 33, 64, 65, 100, 128, 129):
            add([(a, rng.randint(1, 2)), (rng.randint(1, 3), 2), (rng.choice(big[:9]), 1)], ns=rng.choice([1, 2]))
        for k in (6, 9, 16, 20):
            add([(rng.randint(1, 3), rng.randint(1, 3)) for _ in range(k)])
    return out

def _case(rng, sizes, route=None, vec2d=None, **o):
    """sizes = [(nc, nt), ...]"""
    ns = o.pop('ns', rng.choice([1, 2, 2, 3, 3, 4]))
    nss = o.pop('nss', None) or [ns] * len(sizes)      # per-probe n_samples: unequal = the AssertionError exit
    pcw = o.pop('pcw', rng.choice([1, 2, 2, 3]))
    tfw = o.pop('tfw', rng.choice([1, 2, 2, 3]))
    # the sampling rate is common to the probes of a case (ASSUMES); integer-valued rates (written as an int or as a
    # float literal, per probe), calibrated non-integer rates (SpikeGLX style), rates below 1 and rates whose repr
    # needs all 17 digits -- params.py carries repr(rate), which round-trips exactly
    rate = o.pop('rate', rng.choice(RATES))
    lits = o.pop('rate_lits', None)
    if lits is None:
        lits = [rng.choice(['float', 'float', 'int']) for _ in sizes]
    pre = o.pop('pre', None)
    mat_dtypes = o.pop('mat_dtypes', None)
    again = o.pop('again', None)
    lays = o.pop('lays', None)               # per-probe storage forms of the files (None = drawn per probe)
    pres = o.pop('present', None)
    if pres is None:
        pres = {}
        for name in ('wm', 'wmi', 'sim'):
            mode = rng.choice(['all', 'all', 'none', 'some'])
            pres[name] = [mode == 'all' or (mode == 'some' and rng.random() < 0.6) for _ in sizes]
    probes = []
    for k, (nc, nt) in enumerate(sizes):
        po = dict(o)
        for name in ('wm', 'wmi', 'sim'):
            po[name] = pres[name][k]
        if mat_dtypes is not None:
            po['wm_dtype'], po['wmi_dtype'], po['sim_dtype'] = mat_dtypes[k]
        if lays is not None:
            po['lay'] = lays[k]
        probes.append(M.gen_probe(rng, nc=nc, nt=nt, ns=nss[k], pcw=pcw, tfw=tfw, rate=rate, rate_lit=lits[k], **po))
    if route is None:
        route = 'merge' if rng.random() < 0.25 else 'methods'
    if pre is None:
        pre = _history(rng, len(sizes)) if rng.random() < 0.3 else []
    if again is None:
        again = 2 if rng.random() < 0.1 else 1
    inp = {'route': route, 'vec2d': bool(rng.random() < 0.3) if vec2d is None else vec2d, 'probes': probes}
    if pre:
        inp['pre'] = [list(h) for h in pre]
    if again != 1:
        inp['again'] = again
    return {'kind': 'merge', 'inp': inp}


def _history(rng, n):
    """Merges done earlier in the same process over the same probe directories: 1..3 lists of probe indices, each the
    full list again, a prefix (probes sorted one after the other: A+B, then A+B+C), a suffix, a permutation, a single
    probe or a random sublist in random order."""
    out = []
    for _ in range(rng.choice([1, 1, 1, 2, 3])):
        kind = rng.choice(['full', 'prefix', 'prefix', 'suffix', 'perm', 'one', 'sub'])
        idx = list(range(n))
        if kind == 'prefix':
            idx = idx[:rng.randint(1, n)]
        elif kind == 'suffix':
            idx = idx[rng.randrange(n):]
        elif kind == 'perm':
            rng.shuffle(idx)
        elif kind == 'one':
            idx = [rng.randrange(n)]
        elif kind == 'sub':
            idx = rng.sample(idx, rng.randint(1, n))
        out.append(idx)
    return out


def _spikes(case, sts):
    for p, st in zip(case['inp']['probes'], sts):
        p['st'] = list(st)
    return case


def _all(n):
    return {'wm': [True] * n, 'wmi': [True] * n, 'sim': [True] * n}


def _lay_all(form):
    return {k: form for k in M.LAY_KEYS}


def generate(tier, rng):
    cases = []
    # storage form of the probe files: Fortran-ordered (MATLAB npy writers) and byte-swapped (big-endian) .npy files load
    # to the same arrays; first probe only / every probe / a later probe only, 32-bit signed and unsigned tables
    cases.append(_case(rng, [(3, 2), (2, 3), (2, 2)], route='methods', present=_all(3), pre=[], again=1, ns=3,
                       lays=[_lay_all('F'), {}, {}]))
    cases.append(_case(rng, [(3, 2), (2, 2)], route='methods', present=_all(2), pre=[], again=1, ind_dtype='int32',
                       tf_dtype='int32', lays=[_lay_all('>'), {}]))
    cases.append(_case(rng, [(2, 2), (3, 2), (2, 3)], route='merge', present=_all(3), pre=[], again=1, ind_dtype='uint32',
                       tf_dtype='uint32', ns=2, lays=[_lay_all('F>')] * 3))
    cases.append(_case(rng, [(2, 3), (3, 2)], route='methods', present=_all(2), pre=[], again=1, ns=2,
                       lays=[{}, _lay_all('F>')]))
    cases.append(_case(rng, [(2, 2), (3, 3)], route='methods', present=_all(2), pre=[[0, 1]], again=2, ns=2,
                       ind_dtype='int64', lays=[{'tmpl': 'F', 'pc': '>', 'wm': 'F>'}, {'tf': '>', 'pos': 'F', 'sim': 'F'}]))
    # history axis: the observed merge comes after other merges of the same probe directories in the same process
    # (A+B, then A+B+C; the same merge again; another order first), or is run twice on one Merger object
    cases.append(_case(rng, [(2, 2), (3, 1), (1, 2)], route='methods', pre=[[0, 1]], again=1))
    cases.append(_case(rng, [(2, 1), (1, 2)], route='methods', pre=[[0, 1]], again=1))
    cases.append(_case(rng, [(1, 2), (2, 1), (2, 2)], route='merge', pre=[[0], [0, 1, 2]], again=1))
    cases.append(_case(rng, [(2, 1), (1, 1), (1, 2)], route='methods', pre=[[2, 1, 0], [1, 2]], again=1))
    cases.append(_case(rng, [(2, 2), (1, 1)], route='methods', pre=[], again=2, present=_all(2)))
    cases.append(_case(rng, [(1, 1), (2, 2), (1, 2)], route='merge', pre=[], again=2))
    # matrix dtypes mixed across probes with full-precision entries in the float64 files: single precision first /
    # last / in the middle (block_diag keeps every block as it is and gives the result the widest dtype)
    cases.append(_case(rng, [(2, 2), (2, 3)], route='methods', present=_all(2), fine=True, pre=[], again=1,
                       mat_dtypes=[('float32', 'float32', 'float32'), ('float64', 'float64', 'float64')]))
    cases.append(_case(rng, [(2, 2), (3, 1), (1, 2)], route='methods', present=_all(3), fine=True, pre=[], again=1,
                       mat_dtypes=[('float64',) * 3, ('float32',) * 3, ('float64',) * 3]))
    cases.append(_case(rng, [(1, 2), (2, 2)], route='merge', present=_all(2), fine=True, pre=[], again=1,
                       mat_dtypes=[('float64',) * 3, ('float32',) * 3]))
    # corpus: inputs behind the repaired defects and one boundary case per clause
    cases.append(_case(rng, [(2, 2), (3, 1), (4, 2)], route='methods', present=_all(3)))        # k = 3, unequal sizes
    cases.append(_case(rng, [(2, 2), (3, 3), (4, 2)], route='methods', ind_dtype='int32', present=_all(3)))
    cases.append(_case(rng, [(2, 1), (3, 2), (2, 2), (1, 1)], route='methods'))
    cases.append(_case(rng, [(2, 2), (2, 2)], route='methods', ind_dtype='uint32'))              # uint32 += numpy int
    cases.append(_case(rng, [(3, 2), (2, 3)], route='methods', ind_dtype='uint32', sorted_cm=True, extra=0))
    cases.append(_case(rng, [(2, 2), (2, 2)], route='methods', xkind='zero'))                     # zero-width probes at x = 0
    cases.append(_case(rng, [(2, 2), (3, 2), (2, 1)], route='methods', xkind='zero'))
    cases.append(_case(rng, [(2, 2), (2, 2)], route='methods', xkind='col'))
    cases.append(_case(rng, [(3, 1), (3, 1)], route='methods'))                                  # single-template probes
    cases.append(_case(rng, [(1, 2), (2, 2)], route='methods'))                                  # single-channel probe
    cases.append(_case(rng, [(1, 1), (1, 1)], route='methods'))
    cases.append(_case(rng, [(3, 2), (2, 2)], route='methods', pcw=1, tfw=1))                     # one-column tables
    cases.append(_case(rng, [(3, 2)], route='methods'))                                          # a single probe
    cases.append(_case(rng, [(3, 2)], route='merge'))
    cases.append(_case(rng, [(2, 2), (3, 2)], route='methods',
                       present={'wm': [True, False], 'wmi': [False, True], 'sim': [False, False]}))
    cases.append(_case(rng, [(2, 2), (3, 2), (2, 3)], route='merge', present=_all(3), vec2d=True))
    cases.append(_case(rng, [(3, 2), (2, 2), (4, 3)], route='merge', xkind='posmin'))
    # cross-property defect (fix-c11b): a NON-LAST probe whose trailing templates have no spike (first probe, middle
    # probe, two trailing templates, whole merge); controls: an unused middle template, trailing unused in the last probe
    cases.append(_spikes(_case(rng, [(2, 3), (2, 2)], route='methods', stmode='all'), [[0, 1, 0], [0, 1]]))
    cases.append(_spikes(_case(rng, [(2, 2), (3, 3), (1, 2)], route='methods', stmode='all'), [[0, 1], [1, 0, 1], [1, 0]]))
    cases.append(_spikes(_case(rng, [(2, 4), (2, 2)], route='methods', stmode='all'), [[1, 0], [0, 1]]))
    cases.append(_spikes(_case(rng, [(2, 3), (1, 1), (2, 2)], route='merge', stmode='all'), [[0, 0], [0, 0], [1, 0]]))
    cases.append(_spikes(_case(rng, [(2, 3), (2, 2)], route='methods', stmode='all'), [[0, 2, 2], [0, 1]]))
    cases.append(_spikes(_case(rng, [(2, 2), (2, 3)], route='methods', stmode='all'), [[0, 1], [0, 1, 0]]))
    # sampling rate kept exactly: non-integer rates, int vs float literals, rates below 1
    cases.append(_case(rng, [(2, 1), (1, 2)], route='methods', rate=30000.207, rate_lits=['float', 'float']))
    cases.append(_case(rng, [(2, 2), (2, 1), (1, 1)], route='merge', rate=29999.954, rate_lits=['float'] * 3))
    cases.append(_case(rng, [(1, 1), (2, 2)], route='methods', rate=30000.0, rate_lits=['int', 'float']))
    cases.append(_case(rng, [(1, 1), (2, 2)], route='methods', rate=30000.0, rate_lits=['float', 'int']))
    cases.append(_case(rng, [(2, 1), (1, 1)], route='methods', rate=0.5, rate_lits=['float', 'float']))
    cases.append(_case(rng, [(1, 2)], route='methods', rate=0.1, rate_lits=['float']))
    cases.append(_case(rng, [(1, 1), (1, 1)], route='methods', rate=29999.999999999996, rate_lits=['float', 'float']))
    # error exit (C12_assertion_exit): probes that disagree on the number of waveform samples
    cases.append(_case(rng, [(2, 1), (1, 2)], route='methods', nss=[2, 3]))
    cases.append(_case(rng, [(2, 2), (3, 1), (1, 1)], route='methods', nss=[2, 2, 1], present=_all(3)))
    cases.append(_case(rng, [(1, 1), (2, 2)], route='merge', nss=[1, 2]))
    if tier == 'thorough':
        for _ in range(40):
            k = rng.choice([2, 3, 4])
            nss = [rng.randint(1, 4) for _ in range(k)]
            if len(set(nss)) == 1:
                nss[rng.randrange(k)] += 1
            cases.append(_case(rng, [(rng.randint(1, 4), rng.randint(1, 3)) for _ in range(k)], nss=nss))
    cases.extend(_boundary_cases(rng, tier))
    if tier == 'search':
        for _ in range(1200):
            k = rng.randint(1, 5)
            cases.append(_case(rng, [(rng.randint(1, 6), rng.randint(1, 4)) for _ in range(k)]))
        for _ in range(60):
            k = rng.choice([2, 3])
            cases.append(_case(rng, [(rng.randint(1, 3), rng.choice([1, 3, 40, 63, 64, 65, 70, 128, 130])) for _ in range(k)],
                               ns=2, pcw=1, tfw=1, present=_none(k)))
        return cases
    quick = tier == 'quick'
    kmax = 3 if quick else 4
    cells = [(nc, nt) for nc in (1, 2, 3) for nt in (1, 2)]
    for k in range(1, kmax + 1):
        for sizes in itertools.product(cells, repeat=k):
            cases.append(_case(rng, list(sizes), route='methods'))
    for _ in range(170 if quick else 3000):
        k = rng.choice([1, 2, 2, 3, 3, 3, 4, 4, 5])
        cases.append(_case(rng, [(rng.randint(1, 6), rng.randint(1, 4)) for _ in range(k)]))
    return cases


# ---- implementation ---------------------------------------------------------------------------------------

def _run_once(case):
    base = tempfile.mkdtemp(prefix='c12_', dir=os.environ.get('VT_WORK') or None)
    try:
        crashed, out = M.run_merger(case['inp'], base)
        obs = M.observe(out)
        obs['crashed'] = crashed
        return ('merged', obs)
    finally:
        shutil.rmtree(base, ignore_errors=True)


def run_case(case):
    # the merge is deterministic: an exception that does not repeat is the environment (a full disk, a
    # loaded machine), not phylib; one that repeats is reported as a crash by the pool
    try:
        return _run_once(case)
    except Exception:
        return _run_once(case)


# ---- encoding ---------------------------------------------------------------------------------------------

def _t(v):
    return D.coq_tok(D.tok(v))


def _tll(m):
    return q.lst(m, lambda r: q.lst(r, _t))


def _otok(t):
    return D.coq_tok(tuple(t) if isinstance(t, list) else t)


def _opt(x, f):
    return 'None' if x is None else '(Some %s)' % f(x)


_IDT = {'int8': 'I8', 'int16': 'I16', 'int32': 'I32', 'int64': 'I64', 'uint8': 'U8', 'uint16': 'U16', 'uint32': 'U32',
        'uint64': 'U64'}
_FDT = {'float32': 'F32', 'float64': 'F64'}


def _dt(table, name, opt):
    """Coq term for a dtype name; opt: wrap in an option (None = no file, or a dtype outside the table)"""
    c = table.get(name)
    if not opt:
        return c
    return 'None' if c is None else '(Some %s)' % c


def encode(case, obs):
    inp = case['inp']
    ps = []
    for p in inp['probes']:
        ps.append('(mkprobe %s %s %s %s %s %s %s %s (mkpar %s %s %s))' % (
            q.zl(p['cm']), q.lst(p['pos'], lambda r: '(mkxy %s %s)' % (q.z(r[0]), q.z(r[1]))),
            q.lst(p['tmpl'], _tll), q.zll(p['pc']), q.zll(p['tf']),
            _opt(M.mat_stored(p, 'wm'), _tll), _opt(M.mat_stored(p, 'wmi'), _tll), _opt(M.mat_stored(p, 'sim'), _tll),
            _t(float(p['rate'])), q.z(p['ncd']), q.z(p['offset'])))
    sps = ['(mksp %s %s %d)' % (q.zl(M.spike_times(p, k)), q.zl(M.spike_templates(p)), len(p['tmpl']))
           for k, p in enumerate(inp['probes'])]
    dts = []
    for p in inp['probes']:
        d = M.probe_dtypes(p)
        dts.append('(mkpdt %s %s %s %s %s %s %s %s)' % (
            _dt(_IDT, d[0], False), _dt(_FDT, d[1], False), _dt(_FDT, d[2], False), _dt(_IDT, d[3], False),
            _dt(_IDT, d[4], False), _dt(_FDT, d[5], True), _dt(_FDT, d[6], True), _dt(_FDT, d[7], True)))
    cin = '(InMerge %d %s %s %s)' % (M.UNIT, q.lst(ps), q.lst(sps), q.lst(dts))
    if obs[0] == 'crash':
        return cin, 'ObsCrash'
    o = obs[1]

    def oll(m):
        return q.lst(m, lambda r: q.lst(r, _otok))
    od = o['dt']
    odt = '(mkodt %s)' % ' '.join(_dt(_IDT if i in (0, 1, 4, 5) else _FDT, od[i], True) for i in range(9))
    cobs = '(ObsMerged (mkobs %s %s %s %s %s %s %s %s %s %s %s %s %s %s))' % (
        _opt(o['par'], lambda x: '(mkpar %s %s %s)' % (_otok(x[0]), q.z(x[1]), q.z(x[2]))),
        _opt(o['map'], q.zl), _opt(o['probe'], q.zl),
        _opt(o['pos'], lambda l: q.lst(l, lambda r: '(mktxy %s %s)' % (_otok(r[0]), _otok(r[1])))),
        _opt(o['tmpl'], lambda l: q.lst(l, oll)), _opt(o['pc'], q.zll), _opt(o['tf'], q.zll),
        _opt(o['wm'], oll), _opt(o['wmi'], oll), _opt(o['sim'], oll), q.zl(o['crashed']),
        _opt(o.get('stimes'), q.zl), _opt(o.get('st'), q.zl), odt)
    return cin, cobs


def nontrivial(case, obs):
    return obs[0] == 'merged' and len(case['inp']['probes']) >= 2 and not obs[1]['crashed'] and obs[1]['tmpl'] is not None


def dist(case, obs):
    inp = case['inp']
    ps = inp['probes']
    out = ['outcome=' + (obs[0] if obs[0] != 'crash' else 'crash:' + obs[1]), 'route=' + inp['route'],
           'probes=%d' % len(ps), 'vec2d=%s' % inp['vec2d']]
    if obs[0] == 'merged' and obs[1]['crashed']:
        out.append('methods_crashed=%s' % obs[1]['crashed'])
    ncs = [len(p['cm']) for p in ps]
    nts = [len(p['tmpl']) for p in ps]
    out.append('unequal_channels=%s' % (len(set(ncs)) > 1))
    out.append('unequal_templates=%s' % (len(set(nts)) > 1))
    out.append('has_1_channel_probe=%s' % (1 in ncs))
    out.append('has_1_template_probe=%s' % (1 in nts))
    zw = [len(set(r[0] for r in p['pos'])) == 1 for p in ps]
    out.append('zero_width_probes=%s' % ('none' if not any(zw) else 'all' if all(zw) else 'some'))
    out.append('zero_width_then_xmin0=%s' % any(zw[i] and min(r[0] for r in ps[i + 1]['pos']) == 0 for i in range(len(ps) - 1)))
    for name in ('wm', 'wmi', 'sim'):
        n = sum(1 for p in ps if p.get(name) is not None)
        out.append('%s=%s' % (name, 'all' if n == len(ps) else 'none' if n == 0 else 'some'))
    for dt in sorted(set(p['ind_dtype'] for p in ps)):
        out.append('ind_dtype=' + dt)
    for i, name in enumerate(('cm', 'pos', 'tmpl', 'pc', 'tf', 'wm', 'wmi', 'sim')):
        ds = set(M.probe_dtypes(p)[i] for p in ps) - {None}
        if len(ds) > 1:
            out.append('mixed_dtypes_%s=True' % name)
    if obs[0] == 'merged':
        od = obs[1]['dt']
        out.append('merged_dtype_map=%s' % od[0])
        out.append('merged_dtype_templates=%s' % od[3])
        out.append('merged_dtype_tables=%s/%s' % (od[4], od[5]))
        out.append('merged_dtype_whitening=%s' % od[6])
        out.append('merged_dtype_similar=%s' % od[8])
    pre = inp.get('pre') or []
    out.append('earlier_merges_in_process=%d' % len(pre))
    if pre:
        out.append('earlier_merge_same_first_probe=%s' % any(h[0] == 0 for h in pre))
        out.append('earlier_merge_kinds=%s' % '+'.join(sorted(set(
            'same' if h == list(range(len(ps))) else 'prefix' if h == list(range(len(h))) else
            'single' if len(h) == 1 else 'other' for h in pre))))
    out.append('runs_on_one_merger=%d' % int(inp.get('again') or 1))
    for name in ('wm', 'wmi', 'sim'):
        ms = [(M.probe_dtypes(p)[5 + ('wm', 'wmi', 'sim').index(name)], p.get(name)) for p in ps]
        if all(m is not None for _, m in ms):
            fine = [d == 'float64' and any(M.stored(v, 'float32') != v for r in m for v in r) for d, m in ms]
            f32 = [d == 'float32' for d, _ in ms]
            if any(fine) and any(f32):
                out.append('full_precision_%s_beside_float32=%s' % (
                    name, 'float32_first' if f32[0] else 'float64_first'))
    lays = [p.get('lay') or {} for p in ps]
    out.append('probes_with_nonstandard_files=%s' % ('none' if not any(lays) else 'all' if all(lays) else
                                                      'first_only' if lays[0] and not any(lays[1:]) else
                                                      'later_only' if not lays[0] else 'some'))
    for key in M.LAY_KEYS:
        forms = set(c for l in lays for c in l.get(key, ''))
        if 'F' in forms:
            out.append('fortran_order_file=' + key)
        if '>' in forms:
            out.append('big_endian_file=' + key)
    if 'F' in lays[0].get('tmpl', '') and len(ps[0]['tmpl']) > 1 and len(ps[0]['tmpl'][0]) * len(ps[0]['cm']) > 1:
        out.append('first_probe_templates_fortran_nontrivial=True')
    for key, i in (('pc', 3), ('tf', 4)):
        if '>' in lays[0].get(key, '') and M.probe_dtypes(ps[0])[i] in ('int32', 'uint32'):
            out.append('first_probe_big_endian_32bit_table=' + key)
    out.append('pc_width=%d' % len(ps[0]['pc'][0]))
    out.append('permuted_map=%s' % any(p['cm'] != sorted(p['cm']) for p in ps))
    sts = [M.spike_templates(p) for p in ps]
    out.append('unused_trailing_templates_in_nonlast_probe=%s' % any(max(st) + 1 < len(p['tmpl']) for p, st in zip(ps[:-1], sts[:-1])))
    out.append('unused_trailing_templates_in_last_probe=%s' % (max(sts[-1]) + 1 < len(ps[-1]['tmpl'])))
    out.append('unused_middle_templates=%s' % any(len(set(st)) < max(st) + 1 for st in sts))
    r = float(ps[0]['rate'])
    out.append('rate=%s' % ('below_1' if r < 1 else 'integer' if r == int(r) else 'non_integer'))
    lits = set(M.rate_literal(p).lstrip('-').isdigit() for p in ps)
    out.append('rate_literals=%s' % ('mixed' if len(lits) > 1 else 'int' if True in lits else 'float'))
    out.append('n_samples=%d' % len(ps[0]['tmpl'][0]))
    out.append('unequal_n_samples=%s' % (len(set(len(p['tmpl'][0]) for p in ps)) > 1))

    def bucket(n):
        return '1..4' if n <= 4 else '5..62' if n < 63 else '63..65' if n <= 65 else '66..127' if n < 127 else '127..'
    out.append('max_templates=' + bucket(max(nts)))
    out.append('max_channels=' + bucket(max(ncs)))
    out.append('over_64_templates_remainder_then_more=%s' % any(
        nts[i] > 64 and nts[i] % 64 and nts[i + 1] > nts[i] % 64 for i in range(len(ps) - 1)))
    return out


def size(case):
    return sum(len(p['cm']) * len(p['tmpl']) + 3 for p in case['inp']['probes']) * 100 + len(str(case))


def _drop_channel(p):
    n = len(p['cm'])
    p = copy.deepcopy(p)
    p['cm'] = p['cm'][:-1]
    p['pos'] = p['pos'][:-1]
    p['tmpl'] = [[row[:-1] for row in t] for t in p['tmpl']]
    p['pc'] = [[min(v, n - 2) for v in row] for row in p['pc']]
    for name in ('wm', 'wmi'):
        if p.get(name) is not None:
            p[name] = [row[:-1] for row in p[name][:-1]]
    return p


def _keep_templates(p, n):
    """the probe with its first n templates (n >= 1)"""
    p = copy.deepcopy(p)
    p['tmpl'] = p['tmpl'][:n]
    p['pc'] = p['pc'][:n]
    p['tf'] = [[min(v, n - 1) for v in row] for row in p['tf'][:n]]
    if p.get('st') is not None:
        st = [v for v in p['st'] if v < n]
        p['st'] = st if len(st) >= 2 else (st + [n - 1, n - 1])[:2]
    if p.get('sim') is not None:
        p['sim'] = [row[:n] for row in p['sim'][:n]]
    return p


def _keep_channels(p, n):
    """the probe with its first n channels (n >= 1)"""
    p = copy.deepcopy(p)
    p['cm'] = p['cm'][:n]
    p['pos'] = p['pos'][:n]
    p['tmpl'] = [[row[:n] for row in t] for t in p['tmpl']]
    p['pc'] = [[min(v, n - 1) for v in row] for row in p['pc']]
    for name in ('wm', 'wmi'):
        if p.get(name) is not None:
            p[name] = [row[:n] for row in p[name][:n]]
    return p


def _drop_template(p):
    nt = len(p['tmpl'])
    p = copy.deepcopy(p)
    p['tmpl'] = p['tmpl'][:-1]
    p['pc'] = p['pc'][:-1]
    p['tf'] = [[min(v, nt - 2) for v in row] for row in p['tf'][:-1]]
    if p.get('st') is not None:
        p['st'] = [min(v, nt - 2) for v in p['st']]
    if p.get('sim') is not None:
        p['sim'] = [row[:-1] for row in p['sim'][:-1]]
    return p


def _remap_pre(pre, k):
    """the history after probe k is removed from the input"""
    out = []
    for h in pre:
        h2 = [j - 1 if j > k else j for j in h if j != k]
        if h2:
            out.append(h2)
    return out


def shrink(case):
    inp = case['inp']
    ps = inp['probes']

    def mk(**kw):
        j = copy.deepcopy(inp)
        j.update(kw)
        return {'kind': 'merge', 'inp': j}
    pre = inp.get('pre') or []
    if len(ps) > 1:
        for k in range(len(ps)):
            yield mk(probes=ps[:k] + ps[k + 1:], pre=_remap_pre(pre, k))
    if pre:
        yield mk(pre=[])
        if len(pre) > 1:
            for i in range(len(pre)):
                yield mk(pre=pre[:i] + pre[i + 1:])
        for i, h in enumerate(pre):
            for j in range(len(h)):
                if len(h) > 1:
                    yield mk(pre=pre[:i] + [h[:j] + h[j + 1:]] + pre[i + 1:])
    if int(inp.get('again') or 1) > 1:
        yield mk(again=1)
    if any(p.get('lay') for p in ps):
        yield mk(probes=[{k: v for k, v in p.items() if k != 'lay'} for p in ps])
        for k, p in enumerate(ps):
            lay = p.get('lay') or {}
            if lay:
                yield mk(probes=ps[:k] + [{a: v for a, v in p.items() if a != 'lay'}] + ps[k + 1:])
            for key in sorted(lay):
                rest = {a: v for a, v in lay.items() if a != key}
                yield mk(probes=ps[:k] + [dict(p, lay=rest)] + ps[k + 1:])
                if len(lay[key]) > 1:
                    for c in lay[key]:
                        yield mk(probes=ps[:k] + [dict(p, lay=dict(rest, **{key: c}))] + ps[k + 1:])
    # large probes: halve / cut the template and channel counts before anything else
    for k, p in enumerate(ps):
        nt, nc = len(p['tmpl']), len(p['cm'])
        for n in sorted(set(x for x in (nt // 2, nt - 16, nt - 4) if 1 <= x < nt - 1)):
            yield mk(probes=ps[:k] + [_keep_templates(p, n)] + ps[k + 1:])
        for n in sorted(set(x for x in (nc // 2, nc - 16, nc - 4) if 1 <= x < nc - 1)):
            yield mk(probes=ps[:k] + [_keep_channels(p, n)] + ps[k + 1:])
    if inp['route'] != 'methods':
        yield mk(route='methods')
    if inp['vec2d']:
        yield mk(vec2d=False)
    for name in ('wm', 'wmi', 'sim'):
        if any(p.get(name) is not None for p in ps):
            yield mk(probes=[dict(p, **{name: None}) for p in ps])
    for k, p in enumerate(ps):
        if len(p['tmpl']) > 1:
            yield mk(probes=ps[:k] + [_drop_template(p)] + ps[k + 1:])
        if len(p['cm']) > 1:
            yield mk(probes=ps[:k] + [_drop_channel(p)] + ps[k + 1:])
    for k, p in enumerate(ps):
        st = M.spike_templates(p)
        for i in range(len(st)):
            if len(st) > 1:
                yield mk(probes=ps[:k] + [dict(p, st=st[:i] + st[i + 1:])] + ps[k + 1:])
        for i in range(len(st)):
            if st[i] > 0:
                yield mk(probes=ps[:k] + [dict(p, st=st[:i] + [st[i] - 1] + st[i + 1:])] + ps[k + 1:])
    if len(ps[0]['tmpl'][0]) > 1:
        yield mk(probes=[dict(p, tmpl=[t[:1] for t in p['tmpl']]) for p in ps])
    if len(ps[0]['pc'][0]) > 1:
        yield mk(probes=[dict(p, pc=[r[:1] for r in p['pc']]) for p in ps])
    if len(ps[0]['tf'][0]) > 1:
        yield mk(probes=[dict(p, tf=[r[:1] for r in p['tf']]) for p in ps])
    for k, p in enumerate(ps):
        for key, dflt in (('cm_dtype', 'int32'), ('pos_dtype', 'float64'), ('tmpl_dtype', 'float32'), ('offset', 0),
                          ('rate_lit', 'float'), ('ind_dtype', 'uint32'), ('tf_dtype', p['ind_dtype']),
                          ('wm_dtype', 'float64'), ('wmi_dtype', 'float64'), ('sim_dtype', 'float32')):
            if p.get(key, dflt) != dflt:
                yield mk(probes=ps[:k] + [dict(p, **{key: dflt})] + ps[k + 1:])
        if p['cm'] != list(range(len(p['cm']))) or p['ncd'] != len(p['cm']):
            yield mk(probes=ps[:k] + [dict(p, cm=list(range(len(p['cm']))), ncd=len(p['cm']))] + ps[k + 1:])
        if any(v != 0 for t in p['tmpl'] for r in t for v in r if v not in (0, 1)):
            yield mk(probes=ps[:k] + [dict(p, tmpl=[[[1 if v else 0 for v in r] for r in t] for t in p['tmpl']])] + ps[k + 1:])
        for name in ('wm', 'wmi', 'sim'):
            m = p.get(name)
            if m is not None and any(v not in (0, 1) for r in m for v in r):
                yield mk(probes=ps[:k] + [dict(p, **{name: [[1 if v else 0 for v in r] for r in m]})] + ps[k + 1:])
                for i, r in enumerate(m):
                    for j, v in enumerate(r):
                        if v not in (0, 1) and len(m) * len(m) <= 16:
                            m2 = [list(x) for x in m]
                            m2[i][j] = 0
                            yield mk(probes=ps[:k] + [dict(p, **{name: m2})] + ps[k + 1:])
        if any(r[1] != 0 for r in p['pos']):
            yield mk(probes=ps[:k] + [dict(p, pos=[[r[0], 0] for r in p['pos']])] + ps[k + 1:])


def repro(case):
    return ("import sys, os, tempfile; sys.path[:0] = ['/verif/harness', os.environ.get('PHYLIB_REPO', '/repo')]\n"
            "from vt import npshim, datasets_c12 as M; npshim.setup_process()\n"
            "inp = %r\n"
            "base = tempfile.mkdtemp(); crashed, out = M.run_merger(inp, base)\n"
            "print('methods that raised (clause codes):', crashed)\n"
            "import numpy as np, os\n"
            "for n in sorted(os.listdir(out)):\n"
            "    print(n, np.load(os.path.join(out, n)).tolist() if n.endswith('.npy') else open(os.path.join(out, n)).read())\n"
            % (case['inp'],))
