"""C04 -- loading a dataset reproduces its files under every supported layout (DESIGN.md §8 C04)."""
import copy
import os
import random
import shutil
import tempfile

from .. import coqenc as q
from .. import datasets as D
from .. import datasets_c04 as D4

ID = 'C04'
RULE = ('generated dataset directories over the option product (KS vs ALF names with/without label, (n,) vs (n,1) '
        'vectors, each optional file present/absent incl. features / template features / spike_times_reordered, dense vs '
        'sparse templates, id/time/channel-map dtypes, raw file wider than the channel map, NaN/inf sprinkled into fully '
        'loaded arrays, all-NaN templates, extra spike_*.npy attributes of right and wrong length, non-monotonic times, '
        'four construction routes: kwargs / load_model(params.py) / two alternative params.py spellings; channel positions in '
        'eight coordinate systems - non-negative micrometres, pitch units centred on the probe, dense centred blocks, '
        'half/quarter steps, mirrored pairs, one line, far from the origin, dyadic fractions - stored as float64 / float32 / '
        'int32 / int64; whitening matrices with exact and with inexact binary64 inverse; a pre-existing inverse file '
        'holding the binary64 inverse, its float32 / float16 / decimal-rounded copy or a stale matrix; the environment of '
        'the load: working directory as it is / the dataset directory / its parent / an empty sibling / another session\'s '
        'directory with same-named raw files, params.py and arrays of other content (which must stay untouched), and paths '
        'spelled absolutely, relative to the working directory or through a symbolic link): pairwise-style '
        'coverage of the axes first, then seeded random; every such directory satisfies the decidable well-formedness '
        'predicate wf_b of C04/Spec.v (checked by the comparator, code 3 otherwise).  A second stream of malformed '
        'directories (one well-formedness condition broken) is judged on the exception class of the error exit only.  '
        'Non-trivial = the directory loads, is rejected for non-monotonic times, or leaves by the error exit the model '
        'names; distinct = distinct abstract dataset.')
EXHAUSTIVE = {'quick': False, 'thorough': False}
CLAUSES = {
    1: 'observed attributes differ from the Coq model PV.C04.Model.load',
    20: 'a well-formed dataset failed to load',
    21: 'C04_times: spike samples / times', 22: 'C04_attr: spike templates / clusters / amplitudes',
    23: 'C04_attr: channel map / positions / shanks / probes', 24: 'C04_attr: template waveforms',
    25: 'C04_attr: whitening matrix and its inverse (wm * wmi = I exactly)', 26: 'C04_attr: similar templates default',
    27: 'C04_attr: extra per-spike attribute arrays', 28: 'C04_frame: pre-existing files byte-identical, nothing created '
    'except the spike-cluster copy and the inverse whitening matrix when missing',
    29: 'C04_rejects: non-monotonic spike times must be rejected', 30: 'C04_traces: raw traces with columns permuted by the channel map',
    31: 'C04_routes_agree: constructor arguments (dir_path, dat_path, dtype, offset, sample_rate, n_channels_dat) from '
        'kwargs / load_model(params.py) / alternative params.py spellings',
}
TRUSTED = ['np.load/np.save/np.memmap, pathlib.glob, shutil.copy, np.linalg.inv (judged exactly by wm*wmi = I)',
           'Coq primitive floats (PrimFloat) reproduce the single binary64 division samples/rate and the product times*rate in the comparator']
ASSUMES = ['well-formed = wf_b of C04/Spec.v: at most one file per glob pattern, consistent shapes (so no axis of length 1 '
           'other than the (n,1) vector layout: phylib squeezes every array), integer ids, channel map within the raw '
           'file, pairwise distinct positions, a template file, no two spike-cluster files, finite spike times',
           'an invertible, well-conditioned whitening matrix when the inverse file is absent (the computed inverse is judged to '
           '2^-30); a pre-existing inverse file only needs the right shape']
TIMEOUT = {'quick': 20, 'thorough': 30}

# how the model is constructed (implementation-side axis; the abstract result does not depend on it):
# keyword arguments, load_model(params.py) with dat_path a list of file names relative to the directory,
# the same with upper-case parameter names / dat_path a bare string when there is exactly one raw file / absolute paths
# a params.py that first assigns upper-case names to wrong values and then the lower-case names (read_python lower-cases the
# keys in insertion order: the later assignment wins), gives dir_path explicitly, an integer sample rate, no offset when 0
NEAR_RESERVED = ['timestamps', 'templates_orig', 'amplitudes_uV', 'clusters_old', 'samples2', 'times_s', 'my_times',
                 'times_reordered_v2', 'template', 'amplitude']
ROUTES = ['kwargs', 'params', 'params_alt', 'params_dup']
ID_DTYPES = ['uint16', 'uint32', 'int32', 'int64']
TIME_DTYPES = ['uint64', 'int64', 'int32']
CM_DTYPES = ['uint32', 'int32', 'int64']


POS_STYLES = ['centred', 'block', 'frac', 'mirror', 'line', 'big', 'dyadic']
WMI_KINDS = ['exact64', 'exact64', 'f32', 'rounded', 'f16', 'stale']
CWD_KINDS = ['asis', 'asis', 'asis', 'decoy', 'decoy', 'decoy', 'dataset', 'parent', 'empty']


def _positions(rng, nc, style):
    """nc pairwise distinct channel positions in a coordinate system other than non-negative integer micrometres.
    Distinct as PAIRS only: coordinates repeat, cancel, mirror and interleave freely (a*x + y is far from injective)."""
    pitch = rng.choice([1.0, 1.0, 0.5, 0.25, 16.0, 20.0, 2.5])
    if style == 'centred':      # site-pitch units with the origin in the middle of the probe
        cells = [(x, y) for x in range(-1, 3) for y in range(-3, 5)]
        pts = rng.sample(cells, nc)
    elif style == 'block':      # a full block of sites, k columns, rows centred on zero (the usual dense probe)
        k = rng.choice([1, 2, 2, 3])
        rows = -(-nc // k)
        y0, x0 = -(rows // 2) - rng.choice([0, 0, 1]), rng.choice([0, 0, -1])
        pts = [(x0 + i % k, y0 + i // k) for i in range(nc)]
        rng.shuffle(pts)
    elif style == 'frac':       # staggered columns: half / quarter steps
        cells = [(x / 2, y / 4) for x in range(-2, 4) for y in range(-6, 8)]
        pts = rng.sample(cells, nc)
    elif style == 'mirror':     # (a, b) together with (b, a), (-a, -b), (a, -b)
        pts = []
        while len(pts) < nc:
            a, b = rng.randint(-3, 3), rng.randint(-3, 3)
            for p in rng.sample([(a, b), (b, a), (-a, -b), (a, -b), (-b, a)], 5):
                if p not in pts and len(pts) < nc:
                    pts.append(p)
    elif style == 'line':       # all sites in one column or one row
        ys = rng.sample(range(-4, 6), nc)
        c = rng.choice([0, 0, -1, 7])
        pts = [(c, y) for y in ys] if rng.random() < 0.5 else [(y, c) for y in ys]
    elif style == 'big':        # far from the origin: distinct only in the low digits
        bx, by = rng.choice([10 ** 6, -10 ** 6, 2 ** 24, 0]), rng.choice([10 ** 6, 2 ** 30, -2 ** 20])
        cells = [(bx + x, by + y) for x in range(0, 3) for y in range(-2, 4)]
        pts = rng.sample(cells, nc)
    else:                       # 'dyadic': arbitrary small dyadic fractions of either sign
        pts = []
        while len(pts) < nc:
            p = (rng.randint(-40, 40) / 8, rng.randint(-40, 40) / 8)
            if p not in pts:
                pts.append(p)
    out = [[float(x * pitch), float(y * pitch)] for x, y in pts]
    assert len(set(map(tuple, out))) == nc
    return out


def _dense_wm(rng, nc):
    """a well-conditioned (strictly diagonally dominant) whitening matrix with dyadic entries: its inverse is NOT exact in
    binary64 (np.linalg.inv is judged by the tolerance of Corr.v; a stored inverse is read as it is)."""
    M = [[(rng.randint(-3, 3) / 8 if rng.random() < 0.7 else 0.0) for _ in range(nc)] for _ in range(nc)]
    for i in range(nc):
        M[i][i] = float(rng.choice([2, 3, 3, 5, -3])) + rng.choice([0, 0.5, 0.25])
    return M


def _tmpl_file(files):
    """the template data file the loader reads (documented priority)"""
    for n in ('templates.npy', 'templates.waveforms.npy'):
        if n in files:
            return n
    return [n for n in sorted(files) if n.startswith('templates.waveforms.')][0]


def _mk(rng, **force):
    """One abstract dataset with recorded options."""
    o = {
        'names': rng.choice(['ks', 'alf']), 'label': rng.choice(['', 'probe00']), 'vec2d': rng.random() < 0.4,
        'write_clusters': rng.random() < 0.5, 'id_dtype': rng.choice(ID_DTYPES), 'time_dtype': rng.choice(TIME_DTYPES),
        'cm_dtype': rng.choice(CM_DTYPES), 'alf_samples': rng.random() < 0.5, 'write_wmi': rng.random() < 0.3,
        'tmpl_dtype': rng.choice(['float32', 'float64']), 'nan': rng.random() < 0.35, 'nan_template': rng.random() < 0.15,
        'attrs': rng.random() < 0.4, 'nonmono': rng.random() < 0.08, 'sparse': rng.random() < 0.3,
        'route': rng.choice(ROUTES), 'features': rng.random() < 0.25, 'tfeatures': rng.random() < 0.2,
        'warm': rng.random() < 0.3,
        'reorder': rng.random() < 0.25, 'nan_partial': rng.random() < 0.15, 'one_channel': rng.random() < 0.06,
    }
    # stage 5 axes: the coordinate system of the channel positions (probe geometries are not only non-negative integer
    # micrometres), the dtype of the position file, the kind of whitening matrix (its inverse need not be exact in
    # binary64) and what a PRE-EXISTING whitening_mat_inv.npy holds (phylib reads it as it is: the statement says
    # "equal the file contents", not "equal inv(wm)")
    o['pos_style'] = rng.choice(POS_STYLES) if rng.random() < 0.55 else 'um'
    o['pos_dtype'] = rng.choice(['float64', 'float64', 'float32', 'int32', 'int64'])
    o['wm_dense'] = rng.random() < 0.3
    o['wmi_kind'] = rng.choice(WMI_KINDS)
    o.update(force)
    if o['one_channel']:
        # a single channel: every per-channel array is squeezed to 0-d / 1-d and restored by atleast_1d/2d/3d, reshape(-1)
        o['sparse'] = o['features'] = False
        force = dict(force, curated=False)
    sem = D.gen_semantic(rng, n_spikes=rng.randint(2, 9), n_templates=rng.randint(2, 4),
                         n_channels=1 if o['one_channel'] else force.get('n_channels', rng.randint(2, 5)),
                         n_samples_wf=rng.randint(2, 4), features=bool(o['features']), template_features=bool(o['tfeatures']),
                         rate=rng.choice([128.0, 1024.0, 100.0, 30000.0, 25000.0]),
                         **{k: force[k] for k in ('curated', 'amplitudes', 'shanks', 'probes', 'whitening', 'similar', 'raw')
                            if k in force})
    if o['names'] == 'alf':
        # ALF times are stored in seconds: samples/rate must be exact for the stored value to be "the" time
        sem['rate'] = rng.choice([128.0, 1024.0, 32768.0])
    import numpy as np
    nc_ = sem['n_channels']
    if o['pos_style'] != 'um':
        sem['positions'] = _positions(rng, nc_, o['pos_style'])
    if o['wm_dense'] and sem['wm'] is not None:
        sem['wm'] = _dense_wm(rng, nc_)
    if o['write_wmi'] and sem['wm'] is not None:
        sem['wmi'] = np.linalg.inv(np.array(sem['wm'])).tolist()
    ds = D.render(sem, rng, **{k: o[k] for k in ('names', 'label', 'vec2d', 'write_clusters', 'id_dtype', 'time_dtype',
                                                  'cm_dtype', 'alf_samples', 'tmpl_dtype')})
    files = ds['files']
    ns = sem['n_spikes']
    pn = [n for n in files if n.startswith(('channel_positions', 'channels.localCoordinates'))][0]
    orig = np.array(files[pn]['data'], dtype='float64').reshape(-1, 2)
    with np.errstate(all='ignore'):
        cast = orig.astype(o['pos_dtype'])
    # (a narrower dtype must keep the sites pairwise distinct; an integer dtype must hold the values)
    if o['pos_dtype'] != 'float64' and len(set(map(tuple, cast.tolist()))) == nc_ and \
            (o['pos_dtype'] == 'float32' or bool(np.array_equal(cast.astype('float64'), orig))):
        files[pn]['dtype'] = o['pos_dtype']
        if o['pos_dtype'].startswith('int'):
            files[pn]['data'] = [int(v) for v in files[pn]['data']]
    else:
        o['pos_dtype'] = 'float64'
    if o['write_wmi']:
        # what the pre-existing inverse file holds
        kind = o['wmi_kind']
        if sem['wm'] is None:
            # no whitening matrix file (wm = identity by default) but an inverse file: read as it is
            kind = o['wmi_kind'] = 'stale'
        if kind != 'exact64':
            inv = np.linalg.inv(np.array(sem['wm'])) if sem['wm'] is not None else np.eye(nc_)
            if kind == 'f32':        # a sorter that saves its matrices in single precision
                a = inv.astype(np.float32)
            elif kind == 'rounded':  # exported with a few decimals
                a = np.round(inv, rng.choice([2, 3, 5]))
            elif kind == 'f16':
                a = inv.astype(np.float16).astype(np.float32)
            else:                    # 'stale': the inverse of another matrix (the whitening matrix was regenerated)
                a = np.linalg.inv(np.array(_dense_wm(rng, nc_) if rng.random() < 0.5 else D.whitening(rng, nc_, 'perm2')))
                if rng.random() < 0.3:
                    a = a.astype(np.float32)
            files['whitening_mat_inv.npy'] = {'dtype': a.dtype.name, 'shape': [nc_, nc_], 'data': [float(v) for v in a.ravel()]}
    else:
        o['wmi_kind'] = 'absent'
    if ds.get('raw') and sum(ds['raw']['sizes']) > 14 and o.get('short_raw', rng.random() < 0.85):
        # a recording shorter than the last spike (the loader only logs a warning): keeps the raw literal small
        k = len(ds['raw']['sizes'])
        ds['raw']['sizes'] = [rng.randint(1, max(1, 12 // k)) for _ in range(k)]
    if o['names'] == 'alf' and not o['alf_samples'] and o.get('frac', rng.random() < 0.6):
        # stored seconds that fall between samples: round(times * rate) must round half to even
        tn = [n for n in files if n.startswith('spikes.times')][0]
        fr = sorted(s + rng.choice([0, 0.25, 0.5, 0.5, 0.75]) for s in sem['spike_samples'])
        files[tn]['data'] = [x / sem['rate'] for x in fr]
    o['both'] = bool(o.get('both', rng.random() < 0.15))
    if o['both']:
        # both naming conventions present for some roles, with different (well-formed) contents: the documented
        # priority (KS name first; templates.waveforms.npy before templates.waveforms.<label>.npy) decides
        nc = sem['n_channels']
        lab = ('.' + o['label']) if o['label'] else ''
        ks = o['names'] == 'ks'

        def other(ks_name, alf_name, perturb):
            """add the file of the other convention for this role, content = perturbed copy"""
            have, add = (ks_name, alf_name) if ks else (alf_name, ks_name)
            if have in files and add not in files:
                sp = copy.deepcopy(files[have])
                sp['data'] = perturb(list(sp['data']))
                files[add] = sp
        files['amplitudes.npy'] = {'dtype': 'float64', 'shape': [ns], 'data': [float(rng.randint(1, 9)) for _ in range(ns)]}
        files['spikes.amps%s.npy' % lab] = {'dtype': 'float64', 'shape': [ns], 'data': [float(rng.randint(1, 9)) for _ in range(ns)]}
        files['channel_shanks.npy'] = {'dtype': 'int32', 'shape': [nc], 'data': [rng.randrange(3) for _ in range(nc)]}
        files['channels.shanks%s.npy' % lab] = {'dtype': 'int32', 'shape': [nc], 'data': [rng.randrange(3) for _ in range(nc)]}
        files['channel_probe.npy'] = {'dtype': 'int32', 'shape': [nc], 'data': [rng.randrange(3) for _ in range(nc)]}
        files['channels.probes%s.npy' % lab] = {'dtype': 'int32', 'shape': [nc], 'data': [rng.randrange(3) for _ in range(nc)]}
        neg = lambda d: [(-v if not isinstance(v, str) else v) for v in d]
        rot = lambda d: d[1:] + d[:1]
        r_ = rng.random()
        if not ks and lab and (o.get('tmpl23') or r_ < 0.35):
            # the second name of the list (templates.waveforms.npy) beats the third (templates.waveforms.<label>.npy)
            sp = copy.deepcopy(files['templates.waveforms%s.npy' % lab])
            sp['data'] = [(v * 2 if not isinstance(v, str) else v) for v in sp['data']]
            files['templates.waveforms.npy'] = sp
        elif r_ < 0.8:
            other('templates.npy', 'templates.waveforms%s.npy' % lab, neg)
        if rng.random() < 0.5:
            other('channel_map.npy', 'channels.rawInd%s.npy' % lab, rot)
        if rng.random() < 0.5:
            other('channel_positions.npy', 'channels.localCoordinates%s.npy' % lab, lambda d: [v + 1.0 for v in d])
        if rng.random() < 0.5 and not any(n.startswith(('spike_clusters', 'spikes.clusters')) for n in files):
            # (with a cluster file present a different winning template file would turn the dataset into a curated one)
            other('spike_templates.npy', 'spikes.templates%s.npy' % lab, lambda d: list(reversed(d)))
        if ks and rng.random() < 0.5:
            # ALF time files next to spike_times.npy are ignored
            files['spikes.times%s.npy' % lab] = {'dtype': 'float64', 'shape': [ns], 'data': [float(i) for i in range(ns)]}
            files['spikes.samples%s.npy' % lab] = {'dtype': 'int64', 'shape': [ns], 'data': [7 * i for i in range(ns)]}
    if sem['shanks'] is not None and sem['n_channels'] >= 4 and sem['n_channels'] % 2 == 0 and rng.random() < 0.5:
        # shanks stored as a 2-d table: the loader flattens it (reshape(-1))
        sn = [n for n in files if n.startswith(('channel_shanks', 'channels.shanks'))][0]
        files[sn]['shape'] = [sem['n_channels'] // 2, 2]
    if o['sparse']:
        # sparse template storage: (n_templates, n_samples, n_channels_loc) data + a column table of channel ids
        # (trailing -1 = unused column); no axis of length 1 (the loader squeezes)
        tn = _tmpl_file(files)
        nt_, nsw_, nc_ = files[tn]['shape']
        ncl = rng.randint(2, nc_)
        cols = []
        for _ in range(nt_):
            row = rng.sample(range(nc_), ncl)
            if ncl > 2 and rng.random() < 0.4:
                row[-1] = -1
            cols.append(row)
        for tn_ in [n for n in files if n.startswith('templates') and 'Channels' not in n]:
            dense = files[tn_]['data']
            data = [(dense[(t * nsw_ + s_) * nc_ + c] if c >= 0 else 0.0)
                    for t in range(nt_) for s_ in range(nsw_) for c in cols[t]]
            files[tn_] = {'dtype': files[tn_]['dtype'], 'shape': [nt_, nsw_, ncl], 'data': data}
        lab_ = ('.' + o['label']) if o['label'] else ''
        cn = 'template_ind.npy' if o['names'] == 'ks' else 'templates.waveformsChannels%s.npy' % lab_
        files[cn] = {'dtype': rng.choice(['int32', 'int64', 'uint32']) if all(c >= 0 for r in cols for c in r) else rng.choice(['int32', 'int64']),
                     'shape': [nt_, ncl], 'data': [c for r in cols for c in r]}
        if o['both'] and rng.random() < 0.5:
            on = 'templates.waveformsChannels%s.npy' % lab_ if o['names'] == 'ks' else 'template_ind.npy'
            files[on] = {'dtype': 'int32', 'shape': [nt_, ncl], 'data': [c for r in cols for c in reversed(r)]}
    if o['reorder']:
        D4.add_reorder(ds, rng, ns, o['vec2d'])
    if o['attrs']:
        files['spike_foo.npy'] = {'dtype': 'float64', 'shape': [ns, 1] if o['vec2d'] else [ns],
                                  'data': [float(rng.randint(-5, 5)) for _ in range(ns)]}
        files['spike_wrong.npy'] = {'dtype': 'int32', 'shape': [ns + 1], 'data': list(range(ns + 1))}
        if rng.random() < 0.5:
            files['spike_mat.npy'] = {'dtype': 'float32', 'shape': [ns, 2], 'data': [float(rng.randint(0, 9)) for _ in range(2 * ns)]}
        # extra attributes whose names merely BEGIN with (or contain) a reserved name: only the exact names
        # clusters / templates / samples / times / times_reordered / amplitudes are skipped (seeded change C04-m5)
        for nm in rng.sample(NEAR_RESERVED, rng.randint(1, 3)):
            files['spike_%s.npy' % nm] = {'dtype': rng.choice(['float64', 'int32']), 'shape': [ns],
                                          'data': [rng.randint(0, 9) for _ in range(ns)]}
    if o['nan']:
        for name in list(files):
            if name in ('amplitudes.npy', 'similar_templates.npy', 'spike_foo.npy', 'spike_mat.npy') or name.startswith('spikes.amps'):
                d = files[name]['data']
                for _ in range(rng.randint(1, 2)):
                    d[rng.randrange(len(d))] = rng.choice(['nan', 'inf', '-inf'])
    if o['nan_template']:
        tn = _tmpl_file(files)
        per = files[tn]['shape'][1] * files[tn]['shape'][2]
        k = rng.randrange(files[tn]['shape'][0])
        files[tn]['data'][k * per:(k + 1) * per] = ['nan'] * per
    if o['nan_partial'] and sem['spike_clusters'] is None:
        # a few NaN / inf entries inside a template: the template file is memory-mapped, so they must come back as they
        # are (only fully loaded arrays are scrubbed, only ALL-NaN templates are zeroed).  Uncurated datasets only: with
        # curated clusters phylib's cluster_waveforms does not accept NaN amplitudes (outside "well-formed").
        tn = _tmpl_file(files)
        d = files[tn]['data']
        for _ in range(rng.randint(1, 2)):
            d[rng.randrange(len(d))] = rng.choice(['nan', 'inf', '-inf'])
        nt_, nsw_, ncl_ = files[tn]['shape']
        if ncl_ >= 2 and rng.random() < 0.4:
            # one channel of one template entirely NaN (every sample), the other channels finite: not an all-NaN template
            t_, c_ = rng.randrange(nt_), rng.randrange(ncl_)
            for s_ in range(nsw_):
                d[(t_ * nsw_ + s_) * ncl_ + c_] = 'nan'
                if d[(t_ * nsw_ + s_) * ncl_ + (c_ + 1) % ncl_] == 'nan':
                    d[(t_ * nsw_ + s_) * ncl_ + (c_ + 1) % ncl_] = 1.0
    if o['nonmono'] and ns >= 2:
        tn = [n for n in files if n.startswith('spike_times') or n.startswith('spikes.times')][0]
        d = files[tn]['data']
        i = rng.randrange(ns - 1)
        if d[i] == d[i + 1]:
            d[i + 1] = d[i] + (2 if tn.startswith('spike_times') else 2 / sem['rate'])
        d[i], d[i + 1] = d[i + 1], d[i]
        sn = [n for n in files if n.startswith('spikes.samples')]
        if sn:
            files[sn[0]]['data'][i], files[sn[0]]['data'][i + 1] = files[sn[0]]['data'][i + 1], files[sn[0]]['data'][i]
    # stage 6 axes = the ENVIRONMENT of the load (the abstract result must not depend on it): the current working
    # directory of the process (left as it is / the dataset directory itself / its parent / an empty sibling / a sibling
    # 'decoy' session directory holding files with the very same names - raw files, params.py, every array - but other
    # contents), and how the caller spells the paths (absolute, relative to that working directory, or through a
    # symbolic link to the dataset directory)
    o.setdefault('cwd', rng.choice(CWD_KINDS))
    o.setdefault('pass', rng.choice(['abs'] * 6 + ['rel', 'rel', 'rel', 'link']))
    o.setdefault('env_seed', rng.randrange(1 << 30))
    ds['opts'] = o
    return ds


AXES = [
    ('sparse', [False, True]), ('route', ROUTES),
    ('names', ['ks', 'alf']), ('label', ['', 'probe00']), ('vec2d', [False, True]), ('write_clusters', [False, True]),
    ('amplitudes', [False, True]), ('whitening', ['none', 'perm2', 'tri', 'diag']), ('write_wmi', [False, True]),
    ('shanks', [False, True]), ('probes', [False, True]), ('similar', [False, True]), ('raw', [False, True]),
    ('curated', [False, True]), ('alf_samples', [False, True]), ('nan', [False, True]), ('attrs', [False, True]),
]
# files the loader reads but that feed no attribute of the statement: paired with the layout axes only in the quick tier
AXES_LIGHT = [('features', [False, True]), ('tfeatures', [False, True]), ('reorder', [False, True])]
LIGHT_AGAINST = ('names', 'vec2d', 'curated', 'sparse', 'route')
# the optional file a breaker of the malformed stream needs
BREAK_NEEDS = {'amps_longer': dict(amplitudes=True), 'amps_2d': dict(amplitudes=True), 'clusters_longer': dict(write_clusters=True),
               'shanks_longer': dict(shanks=True), 'probes_longer': dict(probes=True), 'wm_bigger': dict(whitening='tri'),
               'wmi_bigger': dict(whitening='perm2', write_wmi=True), 'similar_bigger': dict(similar=True),
               'reorder_longer': dict(reorder=True)}


def generate(tier, rng):
    cases = []
    # stage 6 corpus (runs first): the process sits in ANOTHER session's directory that holds same-named files, in the
    # dataset directory itself, in its parent; paths given relative to the working directory
    for force in [
        dict(route='params', raw=True, cwd='decoy', **{'pass': 'abs'}), dict(route='params_alt', raw=True, cwd='decoy'),
        dict(route='params_dup', raw=True, cwd='decoy'), dict(route='kwargs', raw=True, cwd='decoy', **{'pass': 'rel'}),
        dict(route='params', raw=True, cwd='decoy', names='alf', **{'pass': 'rel'}),
        dict(route='params', raw=True, cwd='dataset', **{'pass': 'rel'}), dict(route='kwargs', raw=True, cwd='dataset', **{'pass': 'rel'}),
        dict(route='params', raw=True, cwd='parent', **{'pass': 'rel'}), dict(route='params_alt', raw=False, cwd='empty', **{'pass': 'rel'}),
        dict(route='kwargs', raw=False, cwd='decoy', write_clusters=False, curated=False, whitening='tri', write_wmi=False),
        dict(route='params', raw=True, cwd='decoy', **{'pass': 'link'}), dict(route='kwargs', raw=True, cwd='asis', **{'pass': 'link'}),
    ]:
        for _ in range(2):
            cases.append({'kind': 'load', 'inp': _mk(rng, **force)})
    # stage 5 corpus (runs first): channel positions outside non-negative integer micrometres, and pre-existing inverse
    # whitening files that are not the binary64 inverse phylib itself would write
    for force in [
        dict(pos_style='block', n_channels=5, names='ks', pos_dtype='float64'), dict(pos_style='block', n_channels=4, names='alf'),
        dict(pos_style='centred', n_channels=5), dict(pos_style='frac', n_channels=5), dict(pos_style='mirror', n_channels=5),
        dict(pos_style='line'), dict(pos_style='big', pos_dtype='float64'), dict(pos_style='dyadic', pos_dtype='float32'),
        dict(pos_style='block', pos_dtype='int32', curated=True),
        dict(whitening='tri', wm_dense=True, write_wmi=True, wmi_kind='f32'),
        dict(whitening='tri', wm_dense=True, write_wmi=True, wmi_kind='rounded', names='alf'),
        dict(whitening='diag', wm_dense=True, write_wmi=True, wmi_kind='f16'),
        dict(whitening='perm2', write_wmi=True, wmi_kind='stale'), dict(whitening='none', write_wmi=True),
        dict(whitening='tri', wm_dense=True, write_wmi=False), dict(whitening='diag', wm_dense=True, write_wmi=True, wmi_kind='exact64'),
    ]:
        for _ in range(2):
            cases.append({'kind': 'load', 'inp': _mk(rng, **force)})
    # corpus: the configurations behind known defects / boundary rules
    for force in [
        dict(names='alf', label='', write_clusters=False, curated=False),          # ALF without a cluster file
        dict(names='alf', label='probe00', write_clusters=False, curated=False),
        dict(names='ks', write_clusters=False, curated=False, whitening='none', amplitudes=False, shanks=False,
             probes=False, similar=False, raw=False),                                # every optional file absent
        dict(names='ks', nan_template=True, nonmono=False),                          # all-NaN template (memmap r+)
        dict(names='ks', nonmono=True), dict(names='alf', nonmono=True, alf_samples=False),
        dict(names='alf', alf_samples=False, write_clusters=True, frac=True),
        dict(names='alf', both=True), dict(names='ks', both=True), dict(names='alf', both=True, label='probe00', sparse=True),
        dict(names='ks', both=True, sparse=True), dict(names='alf', both=True, label='probe00', tmpl23=True), dict(names='alf', both=True, label='probe00', curated=False),
        dict(names='ks', raw=True, vec2d=True), dict(names='ks', whitening='tri', write_wmi=False),
        dict(names='ks', whitening='perm2', write_wmi=True),
        dict(names='ks', reorder=True, vec2d=True), dict(names='alf', reorder=True, attrs=True),
        dict(names='ks', features=True, tfeatures=True, curated=True, sparse=False),
        dict(route='params_dup', raw=True), dict(route='params_alt', raw=True), dict(route='params', raw=False),
        dict(nan_partial=True, curated=False, names='ks'), dict(nan_partial=True, curated=False, names='alf', sparse=True),
        dict(id_dtype='float64', names='ks'), dict(id_dtype='float64', names='alf', write_clusters=True),
        dict(one_channel=True, names='ks', whitening='diag', raw=True), dict(one_channel=True, names='alf', vec2d=True, shanks=True, probes=True),
        dict(one_channel=True, whitening='none', similar=False),
    ]:
        for _ in range(3):
            cases.append({'kind': 'load', 'inp': _mk(rng, **force)})
    n_pair, n_rand = {'quick': (6, 20), 'thorough': (40, 2000), 'search': (10, 1500)}[tier]
    # every pair of axis values at least n_pair times (random completion of the other axes)
    axes = AXES if tier == 'quick' else AXES + AXES_LIGHT
    if tier == 'quick':      # the fourth route is exercised by the corpus, the light axes and the random stream
        axes = [(a, [v for v in va if v != 'params_dup']) for a, va in axes]
    pairs = [(p1, p2) for i, p1 in enumerate(axes) for p2 in axes[i + 1:]]
    if tier == 'quick':
        pairs += [(p1, p2) for p1 in AXES_LIGHT for p2 in AXES if p2[0] in LIGHT_AGAINST]
        pairs += [(p1, p2) for i, p1 in enumerate(AXES_LIGHT) for p2 in AXES_LIGHT[i + 1:]]
    for (a, va), (b, vb) in pairs:
        for x in va:
            for y in vb:
                for _ in range(1 if tier == 'quick' else n_pair // 8 or 1):
                    cases.append({'kind': 'load', 'inp': _mk(rng, **{a: x, b: y})})
    for _ in range(n_rand):
        cases.append({'kind': 'load', 'inp': _mk(rng)})
    # malformed stream: one well-formedness condition broken; the model names the error exit
    n_mal = {'quick': 2, 'thorough': 12, 'search': 6}[tier]
    for name in sorted(D4.BREAKERS):
        got = 0
        for _ in range(n_mal * 6):
            if got >= n_mal:
                break
            base = _mk(rng, nonmono=False, nan_template=False, route='kwargs', both=False, **BREAK_NEEDS.get(name, {}))
            bad = D4.break_dataset(base, name, rng)
            if bad is not None:
                cases.append({'kind': 'malformed', 'inp': bad})
                got += 1
    return cases


# ---- implementation ------------------------------------------------------------------------------------

def _ta(x):
    return None if x is None else D.tok_array(x)


def _write_params(ds, route, d):
    """params.py of the route (the single source of what the Coq model of read_python is given)."""
    with open(os.path.join(d, 'params.py'), 'w') as f:
        for k, v in D4.route_assigns(ds, route):
            f.write('%s = %s\n' % (k, D4.py_literal(v, d)))


def _make_decoy(ds, side, seed):
    """Another session's directory: files with the SAME NAMES as the dataset's (every array, the raw files, params.py) and
    other contents / lengths; some of them left out.  Nothing in it belongs to the dataset that is loaded."""
    import numpy as np
    r = random.Random(seed)
    D.materialise(ds, side)
    for name in sorted(os.listdir(side)):
        p = os.path.join(side, name)
        if name.endswith('.npy'):
            if r.random() < 0.3:
                os.remove(p)
                continue
            a = np.load(p)
            if a.ndim and a.shape[0] > 1 and r.random() < 0.7:
                a = np.roll(a, 1, axis=0)
            else:
                with np.errstate(all='ignore'):
                    a = (a + np.ones((), a.dtype)).astype(a.dtype)
            np.save(p, a)
    raw = ds.get('raw')
    if raw:
        for j, n in enumerate(raw['sizes']):
            n2 = max(1, n + r.choice([0, 0, 3, -1, 7]))
            arr = D.raw_array(n2, raw['n_channels_dat'], raw['dtype'], 1000 + 17 * j)
            with open(os.path.join(side, D4.raw_names(ds)[j]), 'wb') as f:
                f.write(b'\x09' * raw.get('offset', 0))
                f.write(arr.tobytes())
    pr = ds['params']
    with open(os.path.join(side, 'params.py'), 'w') as f:
        f.write('dat_path = %r\nn_channels_dat = %r\ndtype = %r\noffset = 0\nsample_rate = %r\nhp_filtered = True\n' % (
            D4.raw_names(ds), (pr.get('n_channels_dat') or 1) + 1, str(pr.get('dtype', 'int16')), 2.0 * float(pr['sample_rate'])))


class _Environment(object):
    """The environment of one load: chdir into the working directory the case names ('asis' = wherever the process is),
    spell the caller's paths absolutely or relative to it, and restore everything afterwards.  `listing()` = the
    content of a working directory this class created (it must not change either)."""
    def __init__(self, ds, d, kw):
        o = ds.get('opts', {})
        self.kind, self.rel, self.link = o.get('cwd', 'asis'), o.get('pass', 'abs') == 'rel', o.get('pass', 'abs') == 'link'
        self.ds, self.d, self.kw, self.seed = ds, d, kw, o.get('env_seed', 0)
        self.side, self.old = None, None

    def __enter__(self):
        self.old = os.getcwd()
        if self.kind in ('decoy', 'empty'):
            self.side = self.d + '.cwd'
            os.mkdir(self.side)
            if self.kind == 'decoy':
                _make_decoy(self.ds, self.side, self.seed)
        cwd = {'asis': self.old, 'dataset': self.d, 'parent': os.path.dirname(self.d)}.get(self.kind, self.side)
        os.chdir(cwd)
        sp = (lambda x: os.path.relpath(str(x), cwd)) if self.rel else (lambda x: str(x))
        if self.link:
            os.symlink(self.d, self.d + '.lnk')
            sp = lambda x: self.d + '.lnk' + str(x)[len(self.d):]   # noqa
        from pathlib import Path
        kw = dict(self.kw)
        kw['dir_path'] = Path(sp(kw['dir_path']))
        if kw.get('dat_path'):
            kw['dat_path'] = [Path(sp(x)) for x in kw['dat_path']]
        self.kwargs, self.params_path = kw, sp(os.path.join(self.d, 'params.py'))
        return self

    def listing(self):
        return D.listing(self.side) if self.side else {}

    def __exit__(self, *exc):
        os.chdir(self.old)
        if self.link and os.path.islink(self.d + '.lnk'):
            os.unlink(self.d + '.lnk')
        if self.side:
            shutil.rmtree(self.side, ignore_errors=True)
        return False


def _abstract_path(p, d):
    p = os.path.realpath(str(p))     # (a relative path is relative to the working directory of the load; links resolved)
    return D4.DIR + p[len(d):] if (p == d or p.startswith(d + os.sep)) else p


def _warm_up(ds, d, kw, route):
    """The directory has already been loaded once, in this process, at a time when its optional files (the ones
    that have a documented default) were not there yet; they were added afterwards.  A load reads the directory as it
    is NOW: what an earlier load of the same directory saw must not matter (seeded change C04-m9 cached directory
    listings per process).  Everything the first load created is removed again, so the load that is observed starts
    from exactly the generated directory."""
    from phylib.io.model import TemplateModel, load_model
    OPT = ('amplitudes.npy', 'spikes.amps', 'channel_shanks.npy', 'channels.shanks', 'channel_probe.npy', 'channels.probes',
           'spike_clusters.npy', 'spikes.clusters', 'similar_templates.npy', 'whitening_mat.npy', 'whitening_mat_inv.npy',
           'template_ind.npy', 'templates.waveformsChannels')
    names = [n for n in os.listdir(d) if n.startswith(OPT)]
    if not names:
        return
    side = d + '.side'
    os.mkdir(side)
    try:
        for n in names:
            os.rename(os.path.join(d, n), os.path.join(side, n))
        kept = set(os.listdir(d))
        try:
            m0 = TemplateModel(**kw) if route == 'kwargs' else load_model(os.path.join(d, 'params.py'))
            m0.close()
            del m0
        except Exception:  # noqa
            pass
        for n in set(os.listdir(d)) - kept:
            os.remove(os.path.join(d, n))
    finally:
        for n in names:
            os.rename(os.path.join(side, n), os.path.join(d, n))
        os.rmdir(side)


def _traces_obs(np, m):
    """model.traces[:] — read after the model's reader object has already answered a channel-restricted read, a
    derived column view and a plain read (earlier reads must not change later answers); if the two full reads
    differ the second, changed one is what is reported."""
    if m.traces is None:
        return None
    first = np.array(m.traces[:])
    nch = int(m.traces.shape[1]) if len(m.traces.shape) > 1 else 1
    try:
        m.traces[0:1, [nch - 1]]
        m.traces[:, [0]]
        m.traces[-1:]
    except Exception:  # noqa
        pass
    second = np.array(m.traces[:])
    if first.shape != second.shape or first.dtype != second.dtype or not np.array_equal(first, second, equal_nan=True):
        return _ta(second)
    return _ta(first)


def _observe(np, ds, d, route, env):
    from phylib.io.model import TemplateModel
    before, before_cwd = D.listing(d), env.listing()
    try:
        if route == 'kwargs':
            m = TemplateModel(**env.kwargs)
        else:
            from phylib.io.model import load_model
            m = load_model(env.params_path)
    except ValueError as e:
        if 'increasing' in str(e):
            return ('rejected',)
        raise
    obs = {
        'samples': _ta(m.spike_samples), 'times': _ta(m.spike_times), 'amps': _ta(m.amplitudes),
        'stemplates': _ta(m.spike_templates), 'sclusters': _ta(m.spike_clusters),
        'cmap': _ta(m.channel_mapping), 'pos': _ta(m.channel_positions), 'shanks': _ta(m.channel_shanks),
        'probes': _ta(m.channel_probes), 'tdata': _ta(np.array(m.sparse_templates.data)),
        'tcols': _ta(m.sparse_templates.cols), 'wm': _ta(m.wm), 'wmi': _ta(m.wmi), 'similar': _ta(m.similar_templates),
        'attrs': sorted((k, _ta(v)) for k, v in m.spike_attributes.items()),
        'traces': _traces_obs(np, m),
        'reordered': _ta(m.spike_times_reordered),
        'ctor': {'dir': _abstract_path(m.dir_path, d), 'dats': [_abstract_path(x, d) for x in m.dat_path],
                 'dtype': np.dtype(m.dtype).name, 'offset': int(m.offset), 'rate': D.tok(float(m.sample_rate)),
                 'ncd': None if m.n_channels_dat is None else int(m.n_channels_dat)},
    }
    m.close()
    del m
    after, after_cwd = D.listing(d), env.listing()
    # (files of the working directory are reported under 'cwd:<name>': nothing there may change or appear)
    obs['changed'] = sorted(k for k in before if after.get(k) != before[k]) + \
        sorted('cwd:' + k for k in before_cwd if after_cwd.get(k) != before_cwd[k])
    obs['new'] = [(k, _ta(np.load(os.path.join(d, k)))) for k in sorted(set(after) - set(before))
                  if k.endswith('.npy')] + [(k, None) for k in sorted(set(after) - set(before)) if not k.endswith('.npy')] + \
        [('cwd:' + k, None) for k in sorted(set(after_cwd) - set(before_cwd))]
    return ('loaded', obs)


def run_case(case):
    import numpy as np
    from phylib.io.model import TemplateModel
    ds = case['inp']
    d = os.path.realpath(tempfile.mkdtemp(prefix='c04_', dir=os.environ.get('VT_WORK') or None))
    try:
        kw = D.materialise(ds, d)
        route = ds.get('opts', {}).get('route', 'kwargs')
        if route != 'kwargs':
            _write_params(ds, route, d)
        if ds.get('opts', {}).get('warm'):
            _warm_up(ds, d, kw, route)
        with _Environment(ds, d, kw) as env:
            return _observe(np, ds, d, route, env)
    finally:
        shutil.rmtree(d, ignore_errors=True)


# ---- encoding -------------------------------------------------------------------------------------------

def _files(l):
    return q.lst(l, lambda kv: '(%s, %s)' % (q.s(kv[0]), D.coq_arr(kv[1]) if kv[1] is not None else '(mkarr DBool [] [])'))


def _pyval(v):
    tag, x = v
    if tag == 'str':
        return '(PStr %s)' % q.s(x)
    if tag == 'strs':
        return '(PStrs %s)' % q.lst(x, q.s)
    if tag == 'int':
        return '(PInt %s)' % q.z(x)
    if tag == 'float':
        return '(PFloat %s)' % D.coq_tok(D.tok(float(x)))
    if tag == 'bool':
        return '(PBool %s)' % q.b(x)
    raise ValueError(tag)


NAME_ONLY = ('pc_feature', 'template_feature')
EXN = {'OSError': 'XnIOError', 'IOError': 'XnIOError', 'FileNotFoundError': 'XnIOError', 'AssertionError': 'XnAssertion',
       'ValueError': 'XnValueError'}


def encode(case, obs):
    import numpy as np
    ds = case['inp']
    # feature files feed no attribute of the statement and match no pattern of the model: passed by name, content elided
    files = sorted((name, D.spec_to_tokarr(spec) if not name.startswith(NAME_ONLY) else (spec['dtype'], [0], []))
                   for name, spec in ds['files'].items())
    raw = ds.get('raw')
    if raw:
        rows, r0 = [], 0
        for n in raw['sizes']:
            a = D.raw_array(n, raw['n_channels_dat'], raw['dtype'], r0)
            rows.append([[D.tok(v) for v in row] for row in a.tolist()])
            r0 += n
        rawtxt = '(Some %s)' % q.lst(rows, lambda f: q.lst(f, lambda row: q.lst(row, D.coq_tok)))
    else:
        rawtxt = 'None'
    ncd = ds['params'].get('n_channels_dat')
    route = ds.get('opts', {}).get('route', 'kwargs')
    assigns = q.lst(D4.route_assigns(ds, route), lambda kv: '(%s, %s)' % (q.s(kv[0]), _pyval(kv[1])))
    inp = '(mkinp %s %s %s %s %s %s (%s %s))' % (
        _files(files), D.coq_tok(D.tok(float(ds['params']['sample_rate']))), q.opt(ncd), rawtxt, q.s(D4.DIR),
        q.lst(D4.raw_names(ds), q.s), 'RKw' if route == 'kwargs' else 'RPy', assigns)
    cin = '(%s %s)' % ('InMalformed' if case.get('kind') == 'malformed' else 'InLoad', inp)
    if obs[0] == 'crash':
        return cin, '(ObsCrashX %s)' % EXN.get(obs[1], 'XnOther')
    if obs[0] == 'rejected':
        return cin, 'ObsRejected'
    o = obs[1]
    A, OA = D.coq_arr, D.coq_opt_arr
    k = o['ctor']
    ctor = '(mkctor %s %s %s %s %s %s)' % (q.s(k['dir']), q.lst(k['dats'], q.s), q.s(k['dtype']), q.z(k['offset']),
                                           D.coq_tok(tuple(k['rate']) if isinstance(k['rate'], list) else k['rate']),
                                           q.opt(k['ncd']))
    cobs = ('(ObsLoaded (mkobs %s %s %s %s %s %s %s %s %s %s %s %s %s %s %s %s %s %s %s %s))' % (
        A(o['samples']), A(o['times']), OA(o['amps']), A(o['stemplates']), A(o['sclusters']), A(o['cmap']), A(o['pos']),
        A(o['shanks']), A(o['probes']), A(o['tdata']), OA(o['tcols']), A(o['wm']), A(o['wmi']), A(o['similar']),
        _files(o['attrs']), _files(o['new']), q.lst(o['changed'], q.s), OA(o['traces']), OA(o['reordered']), ctor))
    return cin, cobs


def nontrivial(case, obs):
    if case.get('kind') == 'malformed':
        return obs[0] == 'crash'
    return obs[0] in ('loaded', 'rejected')


def dist(case, obs):
    o = case['inp']['opts']
    out = ['kind=' + case.get('kind', 'load'), 'outcome=' + obs[0] + (':' + obs[1] if obs[0] == 'crash' else '')]
    if case.get('kind') == 'malformed':
        return out + ['broken=%s' % o.get('broken')]
    for k in ('names', 'label', 'vec2d', 'write_clusters', 'id_dtype', 'time_dtype', 'cm_dtype', 'nan', 'nan_template',
              'attrs', 'nonmono', 'write_wmi', 'alf_samples', 'sparse', 'route', 'features', 'tfeatures', 'reorder',
              'nan_partial', 'one_channel', 'both', 'pos_style', 'pos_dtype', 'wm_dense', 'wmi_kind', 'cwd', 'pass'):
        out.append('%s=%s' % (k, o.get(k)))
    f = case['inp']['files']
    out.append('raw=%s' % bool(case['inp'].get('raw')))
    out.append('whitening_file=%s' % ('whitening_mat.npy' in f))
    out.append('n_files=%d' % len(f))
    return out


def shrink(case):
    ds = case['inp']
    kind = case.get('kind', 'load')
    if kind == 'malformed':
        return
    optional = ['amplitudes.npy', 'channel_shanks.npy', 'channel_probe.npy', 'similar_templates.npy', 'whitening_mat.npy',
                'whitening_mat_inv.npy', 'spike_foo.npy', 'spike_wrong.npy', 'spike_mat.npy', 'spike_times_reordered.npy',
                'pc_features.npy', 'template_features.npy']
    for name in list(ds['files']):
        if name in optional or name.startswith(('spikes.amps', 'channels.shanks', 'channels.probes')) or \
                name in ['spike_%s.npy' % nm for nm in NEAR_RESERVED]:
            c = copy.deepcopy(ds)
            del c['files'][name]
            if name == 'whitening_mat.npy':
                c['files'].pop('whitening_mat_inv.npy', None)
            if name == 'pc_features.npy':
                c['files'].pop('pc_feature_ind.npy', None)
                c['files'].pop('pc_feature_spike_ids.npy', None)
            if name == 'template_features.npy':
                c['files'].pop('template_feature_ind.npy', None)
                c['files'].pop('template_feature_spike_ids.npy', None)
            yield {'kind': 'load', 'inp': c}
    if ds.get('raw'):
        c = copy.deepcopy(ds)
        c['raw'] = None
        yield {'kind': 'load', 'inp': c}
    if ds.get('opts', {}).get('route', 'kwargs') != 'kwargs':
        c = copy.deepcopy(ds)
        c['opts']['route'] = 'kwargs'
        yield {'kind': 'load', 'inp': c}
    for k, v in (('cwd', 'asis'), ('pass', 'abs'), ('warm', False)):
        if ds.get('opts', {}).get(k, v) != v:
            c = copy.deepcopy(ds)
            c['opts'][k] = v
            yield {'kind': 'load', 'inp': c}


def repro(case):
    return ("import os, sys, tempfile; sys.path[:0] = ['/verif/harness', '/repo']\n"
            "from vt import npshim, datasets as D; npshim.setup_process()\n"
            "from vt.props import c04\n"
            "from phylib.io.model import TemplateModel, load_model\n"
            "ds = %r\n"
            "d = os.path.realpath(tempfile.mkdtemp()); kw = D.materialise(ds, d)\n"
            "route = ds.get('opts', {}).get('route', 'kwargs')\n"
            "if route != 'kwargs': c04._write_params(ds, route, d)\n"
            "before = D.listing(d)\n"
            "env = c04._Environment(ds, d, kw).__enter__()   # working directory (opts['cwd']) and path spelling (opts['pass'])\n"
            "print('cwd', os.getcwd(), sorted(os.listdir('.'))[:12])\n"
            "m = TemplateModel(**env.kwargs) if route == 'kwargs' else load_model(env.params_path)\n"
            "print(m.spike_times, m.spike_clusters, m.channel_mapping, m.dat_path, m.dtype, m.offset, m.sample_rate)\n"
            "print('traces', None if m.traces is None else m.traces[:])\n"
            "after = D.listing(d); print('changed', [k for k in before if after.get(k) != before[k]], 'new', sorted(set(after) - set(before)))\n"
            % (case['inp'],))
