"""C07 -- spike-cluster index utilities partition the spikes (DESIGN.md §8 C07)."""
import itertools
import math

from .. import coqenc as q

ID = 'C07'
RULE = ('exhaustive small scope: every cluster-assignment vector up to the tier\'s length bound over the '
        'gapped alphabet {0,2,3,7} (every vector without a spike-id vector; with one for every vector below the '
        'bound and a quarter (quick) / half (thorough) of those at the bound; requested cluster lists = every '
        'subset of {0,1,2,3,7,9} on the shorter vectors, unsorted/duplicated/absent lists on the longer '
        'ones), every permutation of every subset of the alphabet as unsorted lookup; each abstract input '
        'is run under every dtype of int32/int64/uint16/uint32 that can hold it and every distinct '
        'observation is judged; for the dtype-aware model (kind spc_dt) every vector up to length 3 (quick) / 5 (thorough) '
        'over the extreme values {-128,-1,0,1,127} of int8 and {0,1,128,255} of uint8, one dtype per case, wrapping '
        'differences included; grouped_mean also with the VALUES in every dtype of int8/uint8/int16/uint16/int32/float32/bool (every '
        'cluster vector up to length 3 (quick) / 4 and a quarter of the next length, values at the ends of the dtype\'s range so that '
        'per-cluster sums leave it, 1-D and 2 columns); stage 5: ids anywhere in the range of the dtype that holds them for the '
        'table-based helpers and the selection / query routes (every vector up to length 2 over {0,1,3,127,128,200,255,256,32767,'
        '32768,40000,65535,65536,70000} for _unique / grouped_mean, random ones up to 10 spikes with ids below 2^17, under every '
        'dtype of int8/uint8/int16/uint16/int32/uint32/int64 that holds them, so with the top bit of the unsigned dtypes set), '
        'and the three TemplateModel queries on an instance built by the real loader from a dataset directory (every template '
        'vector of length 2..3 (quick) / 4 over {0,1,2,3}, spike_clusters.npy absent or present, every dtype); '
        'stage 6: _spikes_in_clusters jointly over the spread of the ids (spacing 1 .. 10^7, ids up to 2^31 - 1) and the length of '
        'the request (0 .. 70 ids, present / absent / duplicated, any order; given as list, tuple, int64 array or strided view), '
        'i.e. over all three internal algorithms of np.isin (lookup table, per-id loop, merge sort), 2 .. 300 (quick) / 3000 spikes '
        'over 1 .. 24 clusters; histories on one object: _index_of with the lookup as the caller\'s own ndarray of the dtype of '
        'the case, 0 .. 3 earlier calls on that same lookup object and the judged call made 1 .. 3 times on the same argument '
        'objects, the other helpers and queries called 2 .. 3 times on the same argument objects, every result judged; '
        'then seeded random long vectors. Non-trivial = at least two spikes and, '
        'for grouping/selection, at least two distinct ids or a non-empty result; distinct = distinct '
        'abstract input.')
EXHAUSTIVE = {'quick': True, 'thorough': True}
CLAUSES = {
    1: 'observed output differs from the Coq model PV.C07.Model',
    21: 'C07_groups (keys = exactly the ids present, increasing; group = members in input order)',
    22: 'C07_partition (groups together are a rearrangement of all spike ids)',
    23: 'C07_in_clusters (selection = sorted union of the requested groups)',
    24: 'C07_unique (increasing list of the distinct non-negative ids)',
    25: 'C07_index_of (lookup[result] = id; -1 kept)',
    26: 'C07_flatten (increasing list of the distinct spike ids of all groups)',
    27: 'C07_grouped_mean (mean = sum over the group / size of the group, ids increasing)',
    28: 'C07_template_counts (histogram over templates of the spikes of the cluster, minlength n_templates)',
    29: 'C07_cluster_spikes (TemplateModel.get_cluster_spikes / get_template_spikes = the group)',
}
TRUSTED = ['np.argsort(kind="mergesort") is a stable sort; np.isin / np.bincount / np.add.at / np.unique as documented',
           'TemplateModel query methods are run on an instance built with __new__ and the three attributes they '
           'read (spike_clusters, spike_templates, n_templates); stage 5: also on an instance built by TemplateModel(dir_path=...) '
           'from a minimal dataset directory with at least two spikes (what else the loader does is C04)',
           'the one floating-point division of grouped_mean is reproduced with Coq primitive floats on exact operands']
ASSUMES = ['values fit the dtype; kinds spc / spc_flatten: max - min of the ids < 2^31 and the model is over Z (justified by '
           'C07_no_wrap); kinds spc_dt / index_of_dt: the dtype-aware model (modular first difference, int32 table size), '
           'any span, property clauses judged where no two ids differ by more than the top of the dtype range',
           '_index_of: lookup distinct and non-negative, queried ids in the lookup or -1',
           'grouped_mean: non-negative ids, integer-valued data with |sum| < 2^53, given as an int64 array or (round 3) as an '
           'int8 / uint8 / int16 / uint16 / int32 / float32 / bool array holding those integers exactly',
           'get_template_counts: non-negative templates, len(spike_templates) >= len(spike_clusters)']
TIMEOUT = {'quick': 20, 'thorough': 60}

ALPHA = (0, 2, 3, 7)
REQ = (0, 1, 2, 3, 7, 9)
DT_ALL = ['int32', 'int64', 'uint16', 'uint32']
DT_SIGNED = ['int32', 'int64']
LIMITS = {'int32': (-2 ** 31, 2 ** 31 - 1), 'int64': (-2 ** 63, 2 ** 63 - 1),
          'uint16': (0, 2 ** 16 - 1), 'uint32': (0, 2 ** 32 - 1),
          'int8': (-2 ** 7, 2 ** 7 - 1), 'uint8': (0, 2 ** 8 - 1),       # the 8-bit dtypes: kind spc_dt and the stage-5 wide cases
          'int16': (-2 ** 15, 2 ** 15 - 1)}
# stage 5 (seed C07-m10): the table-based helpers (_unique / _index_of / grouped_mean: a bincount / lookup table of max(id) + 1
# cells) with ids anywhere in the range of the dtype that holds them -- in particular in the upper half of an unsigned dtype
# (top bit set) -- and just beyond 2^8 / 2^16.  Ids stay below 2^17: the table is as long as the largest id.
DT_WIDE = ['int8', 'uint8', 'int16', 'uint16', 'int32', 'uint32', 'int64']
WIDE = (0, 1, 3, 127, 128, 200, 255, 256, 32767, 32768, 40000, 65535, 65536, 70000)
# dtypes of the VALUES given to grouped_mean (key 'vdt' of a gmean case; absent = int64) and the integers they hold exactly.
# The per-cluster sums are accumulated in float64 whatever the dtype of the values (exact below 2^53), so the model stays the
# exact sum / count; the ranges are there to make the sums LEAVE the dtype of the values.
VDT = {'int8': (-2 ** 7, 2 ** 7 - 1), 'uint8': (0, 2 ** 8 - 1), 'int16': (-2 ** 15, 2 ** 15 - 1), 'uint16': (0, 2 ** 16 - 1),
       'int32': (-2 ** 31, 2 ** 31 - 1), 'float32': (-2 ** 24, 2 ** 24), 'bool': (0, 1), 'int64': (-2 ** 40, 2 ** 40)}


def _dts(*lists):
    lo = min([0] + [min(l) for l in lists if l])
    hi = max([0] + [max(l) for l in lists if l])
    return [d for d in DT_ALL if LIMITS[d][0] <= lo and hi <= LIMITS[d][1]]


def _dts_wide(*lists):
    lo = min([0] + [min(l) for l in lists if l])
    hi = max([0] + [max(l) for l in lists if l])
    return [d for d in DT_WIDE if LIMITS[d][0] <= lo and hi <= LIMITS[d][1]]


def _vectors(alpha, kmax, kmin=0):
    for k in range(kmin, kmax + 1):
        for v in itertools.product(alpha, repeat=k):
            yield list(v)


def _subsets(s):
    for k in range(len(s) + 1):
        for c in itertools.combinations(s, k):
            yield list(c)


def _rand_ids(rng, n):
    """A spike-id vector for n spikes: increasing with gaps, permuted, with repeats, longer or shorter."""
    style = rng.randrange(6)
    if style == 0:
        out, cur = [], rng.randint(0, 3)
        for _ in range(n):
            out.append(cur)
            cur += rng.randint(1, 4)
        return out
    if style == 1:
        out = list(range(n))
        rng.shuffle(out)
        return out
    if style == 2:
        return [rng.randint(0, 5) for _ in range(n)]
    if style == 3:
        return [10 * i + 1 for i in range(n + rng.randint(1, 2))]      # longer than needed
    if style == 4 and n > 0:
        return [3 * i for i in range(n - 1)]                           # too short: IndexError
    return [n - i for i in range(n)]                                   # decreasing


def _rand_req(rng, pool):
    k = rng.randint(0, 5)
    return [rng.choice(pool) for _ in range(k)]


def _case(kind, **inp):
    return {'kind': kind, 'inp': inp}


def _corpus():
    c = []
    # one boundary case per operator of the anchored code
    c.append(_case('spc', sc=[], ids=None, dts=DT_ALL))                       # not len(...) -> {}
    c.append(_case('spc', sc=[5], ids=None, dts=DT_ALL))                      # single spike, clusters[-1]
    c.append(_case('spc', sc=[3, 3, 3], ids=None, dts=DT_ALL))                # one cluster: no boundary but diff[0]
    c.append(_case('spc', sc=[7, 0, 3, 3, 0, 7, 2], ids=None, dts=DT_ALL))
    c.append(_case('spc', sc=[7, 0, 3, 3, 0, 7, 2], ids=[10, 5, 8, 9, 1, 2, 3], dts=DT_ALL))
    c.append(_case('spc', sc=[2, 0, 2, 0, 2, 0, 2, 0, 2, 0, 2, 0, 2, 0, 2, 0, 2, 0], ids=None, dts=DT_ALL))  # stability, n > 16
    c.append(_case('spc', sc=[1, 0, 1, 0], ids=[4, 5], dts=DT_ALL))           # ids too short
    c.append(_case('spc', sc=[1, 0, 1, 0], ids=[4, 5, 6, 7, 8], dts=DT_ALL))  # ids longer
    c.append(_case('spc', sc=[65535, 0, 65534, 65535], ids=None, dts=['uint16', 'int32', 'int64', 'uint32']))
    c.append(_case('spc', sc=[4294967295, 2147483648, 4294967295], ids=None, dts=['uint32', 'int64']))
    c.append(_case('spc', sc=[-1, 3, -1, 0, -5], ids=None, dts=DT_SIGNED))
    c.append(_case('sic', sc=[7, 0, 3, 3, 0, 7, 2], cl=[9, 3, -1, 0, 3], dts=DT_ALL))
    c.append(_case('sic', sc=[], cl=[1], dts=DT_ALL))
    c.append(_case('sic', sc=[1, 2], cl=[], dts=DT_ALL))
    c.append(_case('sic', sc=[65535, 1], cl=[65535, 65536, -1], dts=DT_ALL))
    c.append(_case('unique', x=[], dts=DT_ALL))
    c.append(_case('unique', x=[-1, 3, -1, 0, 3], dts=DT_SIGNED))
    c.append(_case('unique', x=[-1, -1], dts=DT_SIGNED))
    c.append(_case('unique', x=[0], dts=DT_ALL))
    c.append(_case('index_of', arr=[-1, 3, 5], lookup=[3, 1], dts=DT_SIGNED))          # IndexError
    c.append(_case('index_of', arr=[-1, 3, 4, 2, 0], lookup=[3, 1], dts=DT_SIGNED))    # non-members, tmp[-1]
    c.append(_case('index_of', arr=[7, 0, 3, 3, 0, 7, 2], lookup=[7, 3, 0, 2], dts=DT_ALL))
    c.append(_case('index_of', arr=[], lookup=[], dts=DT_ALL))
    c.append(_case('index_of', arr=[0, -1], lookup=[], dts=DT_SIGNED))
    c.append(_case('flatten', d=[[0, [1, 4]], [2, [6]], [3, [2, 3]]]))
    c.append(_case('flatten', d=[]))                                                   # ValueError
    c.append(_case('flatten', d=[[0, [5, 1, 5]], [1, [1, 0]]]))
    c.append(_case('gmean', cols=[[1, 2, 3, 4, 5, 6, 8]], sc=[7, 0, 3, 3, 0, 7, 2], twod=False, dts=DT_ALL))
    c.append(_case('gmean', cols=[[1, 2, 4]], sc=[1, 1, 1], twod=False, dts=DT_ALL))   # 7/3: rounded division
    c.append(_case('gmean', cols=[[1, 2, 3]], sc=[-1, 2, 2], twod=False, dts=DT_SIGNED))  # ValueError
    c.append(_case('gmean', cols=[[]], sc=[], twod=False, dts=DT_ALL))
    c.append(_case('gmean', cols=[[1, -2, 3], [0, 5, -7]], sc=[3, 0, 3], twod=True, dts=DT_ALL))
    c.append(_case('spikes_of', v=[7, 0, 3, 3, 0, 7, 2], c=3, which='cluster', dts=DT_ALL))
    c.append(_case('spikes_of', v=[7, 0, 3, 3, 0, 7, 2], c=1, which='template', dts=DT_ALL))
    c.append(_case('counts', sc=[7, 0, 3, 3, 0, 7, 2], st=[1, 1, 0, 2, 1, 0, 0], nt=4, c=3, dts=DT_ALL))
    c.append(_case('counts', sc=[1, 1], st=[0, 0], nt=3, c=1, dts=DT_ALL))             # minlength pads
    c.append(_case('counts', sc=[1, 1], st=[0, 4], nt=3, c=1, dts=DT_ALL))             # template >= n_templates
    c.append(_case('counts', sc=[1, 1], st=[0, 0], nt=3, c=5, dts=DT_ALL))             # empty cluster
    c.append(_case('spc_flatten', sc=[7, 0, 3, 3, 0, 7, 2], ids=None, dts=DT_ALL))
    # stage 2: the behaviours the theorems state outside the documented use
    c.append(_case('index_of', arr=[7, 0, 3, -1, 2], lookup=[7, 3, 0, 2], dts=DT_SIGNED))         # C07_ex_index_of
    c.append(_case('index_of', arr=[5, 8, -2, -9], lookup=[7, 3, 0, 2], dts=DT_SIGNED))           # non-member, max+1, wraps
    c.append(_case('index_of', arr=[9], lookup=[7, 3, 0, 2], dts=DT_ALL))                         # IndexError (N = 9)
    c.append(_case('index_of', arr=[-10], lookup=[7, 3, 0, 2], dts=DT_SIGNED))                    # IndexError
    c.append(_case('gmean', cols=[[10, 1, 2]], sc=[-2, 3, 3], twod=False, dts=DT_SIGNED))         # id -2 wraps into cluster 3
    c.append(_case('gmean', cols=[[10, 1, 2]], sc=[-3, 0, 3], twod=False, dts=DT_SIGNED))         # id -3 lands in cell 0
    c.append(_case('gmean', cols=[[1, 2]], sc=[2, 2, 2], twod=False, dts=DT_ALL))                 # AssertionError
    c.append(_case('gmean', cols=[[1, 2, 3, 4]], sc=[2, 0, 2, 0], twod=False, dts=DT_ALL))        # repeated ids: np.add.at
    c.append(_case('counts', sc=[7, 0, 3, 3, 0, 7, 2], st=[1, 1, 0, 2, 1, 0, 0], nt=4, c=5, dts=DT_ALL))   # absent cluster
    c.append(_case('counts', sc=[1, 1], st=[0, -4], nt=3, c=1, dts=DT_SIGNED))                    # ValueError
    c.append(_case('counts', sc=[1, 1, 2], st=[0, 0, -4], nt=3, c=1, dts=DT_SIGNED))              # negative template elsewhere: fine
    c.append(_case('counts', sc=[0, 0, 1], st=[2, 2], nt=3, c=0, dts=DT_ALL))                     # short templates, not reached
    c.append(_case('counts', sc=[0, 0, 1], st=[2, 2], nt=3, c=1, dts=DT_ALL))                     # short templates: IndexError
    c.append(_case('flatten', d=[[3, []], [1, []]]))                                              # only empty groups
    # stage 3: the dtype-aware model (C07_no_wrap).  Unsigned: ids 0 and the top of the range together
    for dt, v in (('uint16', [65535, 0, 1, 65535]), ('uint16', [0, 65535]), ('uint32', [0, 4294967295, 0]),
                  ('uint32', [4294967295, 0, 2147483648, 1]), ('uint8', [255, 0, 255, 128, 0]),
                  # signed, ids at most dt_hi apart: no wrap either
                  ('int32', [-2147483648, -1]), ('int32', [0, 2147483647, 0]), ('int64', [-2 ** 63, -1]),
                  ('int8', [-128, -1, -128]), ('int8', [-1, 126]),
                  # signed, ids MORE than dt_hi apart: the first difference wraps, clusters are merged (C07_ex_signed_wrap)
                  ('int32', [-2147483648, 2147483647]), ('int32', [-2147483648, 0]), ('int32', [-1, 2147483647]),
                  ('int32', [5, -2147483648, 2147483647, 5, -2147483648]), ('int64', [-2 ** 63, 2 ** 63 - 1]),
                  ('int8', [-128, 127]), ('int8', [127, -1, 0, -128])):
        c.append(_case('spc_dt', sc=v, ids=None, dts=[dt]))
    c.append(_case('spc_dt', sc=[65535, 0, 1, 65535], ids=[9, 8, 7, 6], dts=['uint16']))
    c.append(_case('spc_dt', sc=[0, 255], ids=[4], dts=['uint8']))                                # ids too short
    # _index_of: the table size max + 2 is an int32 addition (C07_no_wrap_index_of)
    c.append(_case('index_of_dt', arr=[7, 0, 3, -1, 2], lookup=[7, 3, 0, 2], dts=['int64']))
    c.append(_case('index_of_dt', arr=[0], lookup=[2147483646], dts=['int64']))                   # max + 2 wraps: ValueError
    c.append(_case('index_of_dt', arr=[0], lookup=[2147483647], dts=['int64']))                   # max + 1 wraps: ValueError
    c.append(_case('index_of_dt', arr=[3], lookup=[3, 2147483647, 0], dts=['int64']))
    c.append(_case('index_of_dt', arr=[-1], lookup=[], dts=['int64']))
    # stage 3 (mutation triage): the argument None and a plain Python list (np.asarray([]) is float64, so the
    # `len(x) == 0` exit of _unique is what keeps bincount away from a float array); results must be integer arrays
    c.append(_case('unique', x=[], dts=['none']))
    c.append(_case('unique', x=[], dts=['pylist']))
    c.append(_case('unique', x=[3, 1, 3, 0], dts=['pylist']))
    c.append(_case('spc', sc=[], ids=None, dts=['none']))
    c.append(_case('sic', sc=[], cl=[1], dts=['pylist']))
    c.append(_case('sic', sc=[2, 1, 2], cl=[2], dts=['pylist']))
    # round-3 seed C07-m9: grouped_mean on values of a narrow integer / boolean / float32 dtype whose per-cluster sums leave
    # that dtype (an accumulator of the dtype of the values wraps, ORs booleans, rounds float32)
    c.append(_case('gmean', cols=[[30000, 20, 30000, 7, 30, 30000]], sc=[5, 2, 5, 9, 2, 5], twod=False, dts=DT_ALL, vdt='int16'))
    c.append(_case('gmean', cols=[[200, 1, 100, 7, 3, 0]], sc=[5, 2, 5, 9, 2, 5], twod=False, dts=DT_ALL, vdt='uint8'))
    c.append(_case('gmean', cols=[[1, 0, 1, 1, 1, 0]], sc=[5, 2, 5, 9, 2, 5], twod=False, dts=DT_ALL, vdt='bool'))
    c.append(_case('gmean', cols=[[30000, 2, 30000, 6, 8, 1], [1, 3, 5, 7, 9, 1]], sc=[5, 2, 5, 9, 2, 5], twod=True, dts=DT_ALL, vdt='int16'))
    c.append(_case('gmean', cols=[[127, 127, -128, -128, -1]], sc=[3, 3, 0, 0, 0], twod=False, dts=DT_ALL, vdt='int8'))
    c.append(_case('gmean', cols=[[65535, 1, 65535]], sc=[2, 2, 7], twod=False, dts=DT_ALL, vdt='uint16'))
    c.append(_case('gmean', cols=[[2147483647, 2147483647, -2147483648, -2147483648]], sc=[0, 0, 3, 3], twod=False, dts=DT_ALL, vdt='int32'))
    c.append(_case('gmean', cols=[[16777215, 16777215, 3, 16777216, 1]], sc=[2, 2, 2, 0, 0], twod=False, dts=DT_ALL, vdt='float32'))
    c.append(_case('gmean', cols=[[1, 1], [1, 0]], sc=[7, 7], twod=True, dts=DT_ALL, vdt='bool'))
    c.append(_case('gmean', cols=[[100, 20, 100, 7, 30, 100]], sc=[5, 2, 5, 9, 2, 5], twod=False, dts=DT_ALL, vdt='int16'))   # sums stay in range
    # stage 5, seed C07-m10: ids in the upper half of an unsigned dtype (top bit set), at the top of a signed one, beyond 2^16
    c.append(_case('unique', x=[3, 40000, 3, 7, 65535, 40000, 7, 3], dts=['uint16', 'int32', 'uint32', 'int64']))
    c.append(_case('unique', x=[200, 128, 255, 0, 128], dts=_dts_wide([255])))
    c.append(_case('unique', x=[32767, 127, 32767], dts=_dts_wide([32767])))
    c.append(_case('unique', x=[65536, 70000, 65535], dts=_dts_wide([70000])))
    c.append(_case('gmean', cols=[[0, 1, 2, 3, 4, 5, 6, 7]], sc=[3, 40000, 3, 7, 65535, 40000, 7, 3], twod=False,
                   dts=['uint16', 'int32', 'uint32', 'int64']))
    c.append(_case('gmean', cols=[[5, 1, 2], [1, 1, 0]], sc=[255, 128, 255], twod=True, dts=_dts_wide([255])))
    c.append(_case('index_of', arr=[65535, 3, 40000, 40000], lookup=[40000, 3, 65535], dts=['uint16', 'int32', 'uint32', 'int64']))
    c.append(_case('sic', sc=[40000, 3, 65535, 40000], cl=[40000, 7, 65535], dts=['uint16', 'int32', 'uint32', 'int64']))
    c.append(_case('spikes_of', v=[40000, 3, 65535, 40000], c=40000, which='template', dts=['uint16', 'int32', 'uint32', 'int64']))
    c.append(_case('counts', sc=[1, 1, 2, 1], st=[300, 1000, 3, 300], nt=4, c=1, dts=DT_ALL))   # histogram as long as the largest template id
    # stage 5, seed C07-m11: the same queries on a TemplateModel built by the real loader from a directory (spike_templates.npy in
    # the dtype of the case, spike_clusters.npy present or absent = copied from the templates); ids present = exactly 1..n,
    # 0..n, with gaps
    c.append(_case('spikes_of', v=[1, 2, 3, 2, 1, 3], c=1, which='template', via='loader', nt=5, aux=None, dts=DT_ALL))
    c.append(_case('spikes_of', v=[1, 2, 3, 2, 1, 3], c=0, which='template', via='loader', nt=5, aux=None, dts=DT_ALL))
    c.append(_case('spikes_of', v=[1, 1, 1], c=1, which='template', via='loader', nt=2, aux=[4, 4, 0], dts=DT_ALL))
    c.append(_case('spikes_of', v=[1, 2, 3, 2, 1, 3], c=3, which='cluster', via='loader', nt=5, aux=None, dts=DT_ALL))
    c.append(_case('spikes_of', v=[7, 7, 3, 7, 7, 3], c=7, which='cluster', via='loader', nt=5, aux=[1, 2, 3, 2, 1, 3], dts=DT_ALL))
    c.append(_case('spikes_of', v=[0, 2, 0, 3], c=2, which='template', via='loader', nt=4, aux=None, dts=DT_ALL))
    c.append(_case('counts', sc=[1, 2, 3, 2, 1, 3], st=[1, 2, 3, 2, 1, 3], nt=5, c=2, via='loader', sc_absent=True, dts=DT_ALL))
    c.append(_case('counts', sc=[7, 7, 3, 7, 7, 3], st=[1, 2, 3, 2, 1, 3], nt=5, c=7, via='loader', sc_absent=False, dts=DT_ALL))
    c.append(_case('counts', sc=[0, 0, 5], st=[0, 1, 1], nt=2, c=0, via='loader', sc_absent=False, dts=DT_ALL))
    c.append(_case('counts', sc=[2, 2], st=[2, 2], nt=3, c=2, via='loader', sc_absent=True, dts=DT_ALL))
    # stage 6, seed C07-m12: selection with SPARSE ids and a LONG request (np.isin leaves its lookup table when the range of the
    # requested ids exceeds 6 * (n_spikes + n_requested), and its per-id loop when n_requested >= 10 * n_spikes ** 0.145: the
    # sort-based branch); a non-requested cluster with several spikes; request = absent ids + two of the three present ones
    sc12 = [17, 2017, 17, 4017, 2017, 2017, 4017, 17, 2017, 4017, 2017, 17]
    c.append(_case('sic', sc=sc12, cl=[1017, 4017, 3017, 5017, 6017, 17, 7017, 8017, 9017, 10017, 11017, 12017, 13017, 14017, 15017, 16017, 18017],
                   dts=DT_ALL))
    c.append(_case('sic', sc=sc12, cl=[40000 - 1000 * j for j in range(40)] + [17, 17], dts=DT_ALL, clform='array'))
    c.append(_case('sic', sc=[5, 9, 5, 9, 9], cl=[2 ** 31 - 1 - 10 ** 6 * j for j in range(14)] + [5], dts=DT_ALL, clform='tuple'))
    c.append(_case('sic', sc=[70000, 3, 70000, 3, 3, 1000000, 3], cl=[1000000] + [100000 * j for j in range(1, 16)], dts=['int32', 'int64', 'uint32'],
                   clform='strided'))
    # stage 6, seed C07-m13: one object used for several calls.  The lookup as the caller's own ndarray of the dtype of the case
    # (for int32 np.asarray(lookup, dtype=np.int32) IS that object), earlier calls `pre` on it, then the judged call; `rep` =
    # the same call again on the same argument objects, every result judged
    c.append(_case('index_of', arr=[7, 7, 3], lookup=[3, 5, 7], dts=DT_ALL, lform='array', pre=[[3, 5, 7]]))
    c.append(_case('index_of', arr=[7, 0, 3, 3, 0, 7, 2], lookup=[7, 3, 0, 2], dts=DT_ALL, lform='array', rep=3))
    c.append(_case('index_of', arr=[-1, 2, -1], lookup=[2, 0], dts=DT_SIGNED, lform='array', pre=[[0], [-1, 2]], rep=2))
    c.append(_case('index_of', arr=[5], lookup=[3, 5, 7], dts=DT_ALL, pre=[[3, 5, 7], [7, 7, 3]], rep=2))           # a list: copied
    c.append(_case('unique', x=[3, 0, 3, 7, 0], dts=DT_ALL, rep=2))
    c.append(_case('sic', sc=[7, 0, 3, 3, 0, 7, 2], cl=[9, 3, 0, 3], dts=DT_ALL, rep=2, clform='array'))
    c.append(_case('spc', sc=[7, 0, 3, 3, 0, 7, 2], ids=[10, 5, 8, 9, 1, 2, 3], dts=DT_ALL, rep=2))
    c.append(_case('gmean', cols=[[1, 2, 3, 4, 5, 6, 8]], sc=[7, 0, 3, 3, 0, 7, 2], twod=False, dts=DT_ALL, rep=2))
    c.append(_case('spc_flatten', sc=[7, 0, 3, 3, 0, 7, 2], ids=None, dts=DT_ALL, rep=2))
    c.append(_case('spikes_of', v=[7, 0, 3, 3, 0, 7, 2], c=3, which='cluster', dts=DT_ALL, rep=2))
    c.append(_case('counts', sc=[7, 0, 3, 3, 0, 7, 2], st=[1, 1, 0, 2, 1, 0, 0], nt=4, c=3, dts=DT_ALL, rep=2))
    return c


SMALL_DT = (('int8', (-128, -1, 0, 1, 127)), ('uint8', (0, 1, 128, 255)))


def _dt_cases(kmax):
    """Every vector up to length kmax over the extreme values of the two 8-bit dtypes (wrapping and not)."""
    out = []
    for dt, alpha in SMALL_DT:
        for v in _vectors(alpha, kmax, 1):
            out.append(_case('spc_dt', sc=v, ids=None, dts=[dt]))
    return out


def _random_dt_cases(rng, count, nmax):
    out = []
    for _ in range(count):
        dt = rng.choice(['uint8', 'uint16', 'uint32', 'int8', 'int32', 'int64'])
        lo, hi = LIMITS[dt]
        pool = [lo, lo + 1, hi, hi - 1, 0, 1, (lo + hi) // 2, (lo + hi) // 2 + 1, rng.randint(lo, hi), rng.randint(lo, hi)]
        pool = rng.sample(pool, rng.randint(1, len(pool)))
        n = rng.randint(1, nmax)
        sc = [rng.choice(pool) for _ in range(n)]
        ids = None
        if rng.random() < .3:
            ids = [rng.randint(0, 50) for _ in range(n + rng.randint(0, 1))]
        out.append(_case('spc_dt', sc=sc, ids=ids, dts=[dt]))
    return out


def _vdt_values(rng, vdt, n):
    """n values of the dtype vdt, mostly at the ends of its range (so that a cluster of >= 2 spikes has a sum outside it)"""
    lo, hi = VDT[vdt]
    pool = sorted(set([lo, lo + 1, hi, hi - 1, hi // 2 + 1, 0, 1]))
    return [rng.choice(pool) if rng.random() < .85 else rng.randint(lo, hi) for _ in range(n)]


def _gmean_dtype_cases(rng, kmax):
    """round-3 seed C07-m9: for every values dtype (int8 / uint8 / int16 / uint16 / int32 / float32 / bool) every cluster vector up
    to length kmax - 1 over the gapped alphabet and a quarter of those of length kmax, values at the ends of the dtype's range,
    one-dimensional and (shorter vectors) with two columns; every id dtype on the shorter vectors, one in rotation on the longest"""
    out = []
    k = 0
    for vdt in ('int8', 'uint8', 'int16', 'uint16', 'int32', 'float32', 'bool'):
        for v in _vectors(ALPHA, kmax, 1):
            k += 1
            if len(v) == kmax and k % 4:
                continue
            dts = DT_ALL if len(v) < kmax else [DT_ALL[(k // 4) % 4]]
            out.append(_case('gmean', cols=[_vdt_values(rng, vdt, len(v))], sc=v, twod=k % 5 == 0, dts=dts, vdt=vdt))
            if len(v) in (2, 3) and k % 3 == 0:
                out.append(_case('gmean', cols=[_vdt_values(rng, vdt, len(v)) for _ in range(2)], sc=v, twod=True, dts=dts, vdt=vdt))
    return out


def _wide_cases(rng, count):
    """stage 5 (seed C07-m10): ids anywhere in the range of the dtype.  Every vector up to length 2 over WIDE for _unique and
    grouped_mean, then `count` random ones (up to 10 spikes; ids from WIDE, next to its members and uniform below 2^17) for every
    table-based helper and the selection / query routes; each under every dtype of DT_WIDE that holds the ids."""
    out = []
    for v in _vectors(WIDE, 2, 1):
        out.append(_case('unique', x=v, dts=_dts_wide(v)))
        if len(v) == 2:
            out.append(_case('gmean', cols=[[rng.randint(-9, 9) for _ in v]], sc=v, twod=False, dts=_dts_wide(v)))
    for n in range(count):
        top = rng.choice([255, 255, 32767, 65535, 65535, 65535, 131071])
        base = [w for w in WIDE if w <= top]
        pool = set(rng.sample(base, rng.randint(1, min(5, len(base)))))
        for _ in range(rng.randint(0, 2)):
            pool.add(min(top, max(0, rng.choice(base) + rng.randint(-2, 2))))
        if rng.random() < .5:
            pool.add(rng.randint(top // 2 + 1, top))          # upper half of the range
        pool = sorted(pool)
        m = rng.randint(1, 10)
        sc = [rng.choice(pool) for _ in range(m)]
        dts = _dts_wide(sc)
        kind = n % 7
        if kind == 0:
            out.append(_case('unique', x=sc, dts=dts))
        elif kind == 1:
            cols = [[rng.randint(-99, 99) for _ in sc] for _ in range(rng.choice([1, 1, 2]))]
            out.append(_case('gmean', cols=cols, sc=sc, twod=len(cols) > 1, dts=dts))
        elif kind == 2:
            lookup = list(pool)
            rng.shuffle(lookup)
            out.append(_case('index_of', arr=[rng.choice(lookup) for _ in range(m)], lookup=lookup, dts=_dts_wide(lookup)))
        elif kind == 3:
            out.append(_case('sic', sc=sc, cl=_rand_req(rng, pool + [top, 1]), dts=dts))
        elif kind == 4:
            out.append(_case('spc_flatten', sc=sc, ids=None, dts=dts))
        elif kind == 5:
            out.append(_case('spikes_of', v=sc, c=rng.choice(pool), which=rng.choice(['cluster', 'template']), dts=dts))
        else:
            out.append(_case('spc', sc=sc, ids=None, dts=dts))
    return out


def _loader_cases(rng, quick):
    """stage 5 (seed C07-m11): the three TemplateModel queries on an instance built by the real loader (TemplateModel(dir_path=...))
    from a directory written for the case: every template vector of length 2 .. 3 (quick) / 4 over {0,1,2,3} (so every set of ids
    present: 0..n, exactly 1..n, a gap at 0 and elsewhere, one id only), spike_clusters.npy absent (= copied from the templates by
    the loader) or present (a merge / relabelling of the templates), in every dtype of int32/int64/uint16/uint32; then random
    longer ones."""
    out = []
    alpha = (0, 1, 2, 3)
    k = 0
    for st in _vectors(alpha, 3 if quick else 4, 2):
        for c in (0, 1, 2, 3, 4):
            k += 1
            dts = DT_ALL if (not quick or len(st) < 3) else [DT_ALL[k % 4]]
            out.append(_case('spikes_of', v=st, c=c, which='template', via='loader', nt=4 + k % 2, aux=None, dts=dts))
            if c in st or k % 3 == 0:
                out.append(_case('spikes_of', v=st, c=c, which='cluster', via='loader', nt=4 + k % 2, aux=None, dts=dts))
                out.append(_case('counts', sc=st, st=st, nt=4 + k % 2, c=c, via='loader', sc_absent=True, dts=dts))
        sc = [(9, 9, 2, 5)[t] for t in st]             # templates 0 and 1 merged into cluster 9, 3 relabelled 5
        for c in (9, 2, 5, 0):
            k += 1
            dts = DT_ALL if (not quick or len(st) < 3) else [DT_ALL[k % 4]]
            out.append(_case('counts', sc=sc, st=st, nt=4 + k % 2, c=c, via='loader', sc_absent=False, dts=dts))
            if k % 2:
                out.append(_case('spikes_of', v=sc, c=c, which='cluster', via='loader', nt=4, aux=st, dts=dts))
    for _ in range(40 if quick else 600):
        n = rng.randint(2, 40 if quick else 300)
        nt = rng.randint(1, 9)
        lo = rng.choice([0, 0, 1, 1, 2])
        pool = [t for t in range(lo, nt + 1) if rng.random() < .8] or [lo]
        st = [rng.choice(pool) for _ in range(n)]
        style = rng.randrange(3)
        if style == 0:
            out.append(_case('spikes_of', v=st, c=rng.choice(pool + [0, nt]), which=rng.choice(['cluster', 'template']),
                             via='loader', nt=nt + 1, aux=None, dts=DT_ALL))
        elif style == 1:
            out.append(_case('counts', sc=st, st=st, nt=nt + 1, c=rng.choice(pool + [0]), via='loader', sc_absent=True, dts=DT_ALL))
        else:
            sc = [t if rng.random() < .6 else nt + 1 + t % 2 for t in st]
            out.append(_case('counts', sc=sc, st=st, nt=nt + 1, c=rng.choice(sc + [0]), via='loader', sc_absent=False, dts=DT_ALL))
    return out


def _sparse_pool(rng, p):
    """p distinct non-negative cluster ids, from dense to widely spaced (ids that kept growing over a long curation session):
    spacing 1 .. 10^7, optional jitter, an offset; below 2^16 in a quarter of the draws (so that uint16 holds them)"""
    narrow = rng.random() < .25
    step = rng.choice([1, 2, 7, 50, 300, 1000, 2500] if narrow else [1, 3, 50, 1000, 10 ** 4, 10 ** 5, 10 ** 6, 10 ** 7, 8 * 10 ** 7])
    top = 2 ** 16 - 1 if narrow else 2 ** 31 - 1
    step = max(1, min(step, top // (p + 1)))
    base = rng.randint(0, max(0, min(top - step * p, 3 * step + 20)))
    jit = rng.choice([0, 0, step // 3])
    return sorted(set(min(top, base + j * step + (rng.randint(0, jit) if jit else 0)) for j in range(p)))


def _sparse_sic_cases(rng, count, nmax):
    """stage 6 (seed C07-m12): _spikes_in_clusters over the two axes that choose np.isin's internal algorithm -- the SPREAD of
    the ids (range of the request against 6 * (n_spikes + n_requested)) and the LENGTH of the request (against
    10 * n_spikes ** 0.145) -- jointly: n spikes (2 .. nmax) over 1 .. 24 present clusters with spacing 1 .. 10^7, a request of
    0 .. 70 ids (present / absent between and beyond the present ones / duplicated, shuffled, sorted or reversed), given as
    a list, a tuple, an int64 array or a strided view; every dtype that holds the ids.  One in eight draws goes to the
    single-id TemplateModel queries and one in eight to grouping + flatten on the same sparse vector."""
    out = []
    for n_case in range(count):
        n = rng.choice([rng.randint(2, 12), rng.randint(2, 40), rng.randint(2, nmax)])
        p = rng.randint(1, 24)
        universe = _sparse_pool(rng, 2 * p + 2)            # present and absent ids interleaved
        rng.shuffle(universe)
        present, absent = sorted(universe[:p]), universe[p:]
        sc = [rng.choice(present) for _ in range(n)]
        if rng.random() < .5:                                # a few big clusters, the rest small
            big = rng.sample(present, min(len(present), 2))
            sc = [rng.choice(big) if rng.random() < .6 else x for x in sc]
        dts = _dts(sc)
        sel = n_case % 8
        if sel == 6:
            out.append(_case('spikes_of', v=sc, c=rng.choice(present + absent[:1]), which=rng.choice(['cluster', 'template']), dts=dts))
            continue
        if sel == 7:
            out.append(_case(rng.choice(['spc', 'spc_flatten']), sc=sc, ids=None, dts=dts))
            continue
        k = rng.choice([rng.randint(0, 8), rng.randint(8, 30), rng.randint(20, 70)])
        frac = rng.choice([0., .3, .5, .8, 1.])
        req = []
        for _ in range(k):
            r = rng.random()
            if r < frac:
                req.append(rng.choice(present))
            elif r < frac + .1 and req:
                req.append(rng.choice(req))                  # duplicate
            else:
                req.append(rng.choice(absent) if rng.random() < .8 else rng.choice(present) + rng.choice([-1, 1, 2]))
        if rng.random() < .5:                                # leave at least one present cluster unrequested
            drop = rng.choice(present)
            req = [x for x in req if x != drop]
        order = rng.randrange(3)
        if order == 1:
            req.sort()
        elif order == 2:
            req.sort(reverse=True)
        form = rng.choice(['list', 'list', 'tuple', 'array', 'strided'])
        kw = {} if form == 'list' else {'clform': form}
        if rng.random() < .1:
            kw['rep'] = 2
        out.append(_case('sic', sc=sc, cl=req, dts=dts, **kw))
    return out


def _reuse_cases(rng, count):
    """stage 6 (seed C07-m13): histories on one object.  _index_of with the lookup given as the caller's own ndarray of the
    dtype of the case (or as a list), 0 .. 3 earlier calls with other query vectors on the same lookup object, the judged call
    made 1 .. 3 times on the same argument objects; the other helpers called twice / three times on the same argument objects.
    Every result is judged against the same (history-free) definition."""
    out = []
    for n_case in range(count):
        pool = sorted(rng.sample(range(0, 40), rng.randint(1, 8)))
        if rng.random() < .2:
            pool = sorted(set(pool + [rng.choice([255, 256, 40000, 65535])]))
        n = rng.randint(1, 12)
        sc = [rng.choice(pool) for _ in range(n)]
        sel = n_case % 8
        if sel < 4:
            lookup = list(pool)
            rng.shuffle(lookup)
            lookup = lookup[:rng.randint(1, len(lookup))]
            neg = rng.random() < .3
            qpool = lookup + ([-1] if neg else [])
            arr = [rng.choice(qpool) for _ in range(n)]
            pre = [[rng.choice(qpool) for _ in range(rng.randint(0, 5))] for _ in range(rng.randint(0, 3))]
            if rng.random() < .15:
                pre.append([max(lookup) + 1])                # an earlier call that raises
            kw = {'lform': 'array'} if rng.random() < .75 else {}
            if pre:
                kw['pre'] = pre
            r = rng.choice([1, 2, 2, 3])
            if r > 1 or not pre:
                kw['rep'] = max(r, 2)
            dts = _dts(lookup, arr, *[a for a in pre if a])
            out.append(_case('index_of', arr=arr, lookup=lookup, dts=dts, **kw))
        elif sel == 4:
            out.append(_case('unique', x=sc, dts=_dts(sc), rep=rng.choice([2, 3])))
        elif sel == 5:
            out.append(_case('sic', sc=sc, cl=_rand_req(rng, pool + [1, 41]), dts=_dts(sc), rep=2, clform=rng.choice(['list', 'array'])))
        elif sel == 6:
            ids = _rand_ids(rng, n) if rng.random() < .5 else None
            if ids is not None and len(ids) < n:
                ids = None
            out.append(_case(rng.choice(['spc', 'spc_flatten']), sc=sc, ids=ids, dts=_dts(sc, ids or []), rep=2))
        else:
            cols = [[rng.randint(-99, 99) for _ in sc] for _ in range(rng.choice([1, 2]))]
            out.append(_case('gmean', cols=cols, sc=sc, twod=len(cols) > 1, dts=_dts(sc), rep=2))
    return out


def _random_cases(rng, count, nmax, idmax):
    out = []
    for _ in range(count):
        n = rng.choice([rng.randint(2, 60), rng.randint(60, nmax)])
        k = rng.choice([1, 2, 3, 8, 40, idmax])
        pool = sorted(rng.sample(range(0, idmax + 1), min(k, idmax + 1)))
        sc = [rng.choice(pool) for _ in range(n)]
        dts = _dts(sc)
        kind = rng.randrange(8)
        if kind == 0:
            out.append(_case('spc', sc=sc, ids=None, dts=dts))
        elif kind == 1:
            ids = _rand_ids(rng, n)
            out.append(_case('spc', sc=sc, ids=ids, dts=_dts(sc, ids)))
        elif kind == 2:
            req = _rand_req(rng, pool + [idmax + 5, 1])
            out.append(_case('sic', sc=sc, cl=req, dts=dts))
        elif kind == 3:
            out.append(_case('unique', x=sc, dts=dts))
        elif kind == 4:
            lookup = list(pool)
            rng.shuffle(lookup)
            arr = [rng.choice(lookup) for _ in range(min(n, 300))]
            out.append(_case('index_of', arr=arr, lookup=lookup, dts=dts))
        elif kind == 5:
            m = min(n, 600)
            cols = [[rng.randint(-1000, 1000) for _ in range(m)] for _ in range(rng.choice([1, 1, 2]))]
            if rng.random() < .5:
                # round 3: the values in a narrow integer / float32 / boolean dtype, at the ends of its range
                vdt = rng.choice(sorted(VDT))
                cols = [_vdt_values(rng, vdt, m) for _ in cols]
                out.append(_case('gmean', cols=cols, sc=sc[:m], twod=len(cols) > 1 or rng.random() < .3, dts=dts, vdt=vdt))
                continue
            out.append(_case('gmean', cols=cols, sc=sc[:m], twod=len(cols) > 1 or rng.random() < .3, dts=dts))
        elif kind == 6:
            nt = rng.randint(1, 12)
            st = [rng.randrange(nt) for _ in range(n)]
            out.append(_case('counts', sc=sc, st=st, nt=rng.choice([nt, nt + 2]), c=rng.choice(pool), dts=dts))
        else:
            m = min(n, 800)
            ids = _rand_ids(rng, m) if rng.random() < .5 else None
            if ids is not None and len(ids) < m:
                ids = None
            out.append(_case('spc_flatten', sc=sc[:m], ids=ids, dts=_dts(sc, ids or [])))
    return out


def generate(tier, rng):
    cases = _corpus()
    if tier == 'search':
        for v in _vectors(ALPHA, 7, 7):
            if rng.random() < .25:
                cases.append(_case('spc', sc=v, ids=None, dts=DT_ALL))
                cases.append(_case('sic', sc=v, cl=_rand_req(rng, REQ), dts=DT_ALL))
        cases += _random_cases(rng, 1500, 400, 60)
        cases += _dt_cases(4) + _random_dt_cases(rng, 400, 40)
        cases += _wide_cases(rng, 400) + _loader_cases(rng, True)
        cases += _sparse_sic_cases(rng, 1200, 400) + _reuse_cases(rng, 400)
        return cases
    quick = tier == 'quick'
    L = 6 if quick else 8              # grouping, unique
    LS = 3 if quick else 5             # selection x every subset of REQ
    # ---- grouping: every vector, without and with a spike-id vector
    for n, v in enumerate(_vectors(ALPHA, L)):
        cases.append(_case('spc', sc=v, ids=None, dts=DT_ALL))
        if v and (len(v) < L or n % (4 if quick else 2) == 0):
            ids = _rand_ids(rng, len(v))
            cases.append(_case('spc', sc=v, ids=ids, dts=DT_ALL))
    # ---- selection: every subset of REQ on short vectors; unsorted/duplicated lists on the long ones
    subsets = list(_subsets(REQ))
    for v in _vectors(ALPHA, LS):
        for s in subsets:
            cases.append(_case('sic', sc=v, cl=s, dts=DT_ALL))
    for v in _vectors(ALPHA, L, LS + 1):
        cases.append(_case('sic', sc=v, cl=_rand_req(rng, REQ), dts=DT_ALL))
    # ---- unique
    for v in _vectors(ALPHA, L - 1):          # order-insensitive: one length less than grouping
        cases.append(_case('unique', x=v, dts=DT_ALL))
    for v in _vectors((-1,) + ALPHA, 4 if quick else 5, 1):
        if -1 in v:
            cases.append(_case('unique', x=v, dts=DT_SIGNED))
    # ---- index_of: every permutation of every subset as lookup, every query vector over lookup + {-1}
    qlen = 3 if quick else 4
    for s in _subsets(ALPHA):
        for lookup in itertools.permutations(s):
            lookup = list(lookup)
            for arr in _vectors(tuple(lookup) + (-1,), qlen):
                cases.append(_case('index_of', arr=arr, lookup=lookup, dts=DT_SIGNED if -1 in arr else DT_ALL))
            # non-member queries (model equality only), including out-of-range ones
            for arr in ([1], [8], [9], [max(lookup or [0]) + 1], [-2], [-3]):
                cases.append(_case('index_of', arr=arr, lookup=lookup, dts=_dts(arr)))
    # ---- grouped mean
    for v in _vectors(ALPHA, 5 if quick else 6):
        col = [rng.randint(-9, 9) for _ in v]
        cases.append(_case('gmean', cols=[col], sc=v, twod=False, dts=DT_ALL))
    for v in _vectors(ALPHA, 3 if quick else 4, 1):
        cols = [[rng.randint(-50, 50) for _ in v] for _ in range(2)]
        cases.append(_case('gmean', cols=cols, sc=v, twod=True, dts=DT_ALL))
    cases += _gmean_dtype_cases(rng, 4 if quick else 5)
    # ---- TemplateModel queries
    for v in _vectors(ALPHA, 4 if quick else 5):
        for c in REQ:
            if not quick or len(v) < 4:
                cases.append(_case('spikes_of', v=v, c=c, which='cluster', dts=['int32']))
            cases.append(_case('spikes_of', v=v, c=c, which='template', dts=DT_ALL))
    for k in range(0, (3 if quick else 4) + 1):
        for sc in itertools.product((0, 2, 3), repeat=k):
            for st in itertools.product((0, 1, 2), repeat=k):
                for c in (0, 2, 5):
                    for nt in (3, 5):
                        cases.append(_case('counts', sc=list(sc), st=list(st), nt=nt, c=c, dts=DT_ALL))
    # ---- flatten
    for v in _vectors(ALPHA, 5 if quick else 6):
        cases.append(_case('spc_flatten', sc=v, ids=None, dts=DT_ALL))
    for _ in range(600 if quick else 4000):
        ng = rng.randint(1, 4)
        d = [[g, [rng.randint(0, 9) for _ in range(rng.randint(0, 4))]] for g in range(ng)]
        cases.append(_case('flatten', d=d))
    # ---- the dtype-aware model: every short vector over the extreme values of int8 / uint8; random ones
    cases += _dt_cases(3 if quick else 5)
    cases += _random_dt_cases(rng, 150 if quick else 3000, 30 if quick else 200)
    # ---- stage 5: ids anywhere in the dtype's range (m10); queries through the real loader (m11)
    cases += _wide_cases(rng, 140 if quick else 1500)
    cases += _loader_cases(rng, quick)
    # ---- stage 6: sparse ids x long requests (m12); several calls on one object (m13)
    cases += _sparse_sic_cases(rng, 400 if quick else 6000, 300 if quick else 3000)
    cases += _reuse_cases(rng, 240 if quick else 3000)
    # ---- random long vectors
    if quick:
        cases += _random_cases(rng, 240, 1500, 500)
    else:
        cases += _random_cases(rng, 2000, 3000, 500)
        cases += _random_cases(rng, 24, 10000, 500)
    return cases


# ---- implementation side -------------------------------------------------------------------------

class _Bad(Exception):
    pass


def _arr(np, values, dt):
    if dt == 'none':              # the argument None (accepted by _unique and _spikes_per_cluster)
        if values:
            raise _Bad('None stands for the empty vector only')
        return None
    if dt == 'pylist':            # a plain Python list (np.asarray of an empty one is float64)
        return list(values)
    lo, hi = LIMITS[dt]
    for v in values:
        if not (lo <= v <= hi):
            raise _Bad('value %r does not fit %s' % (v, dt))
    return np.array(values, dtype=getattr(np, dt))


def _ints(a):
    return [int(x) for x in a]


def _iarr(np, a):
    """An index array returned by a helper: it must have an integer dtype (an empty float64 array cannot index)."""
    a = np.asarray(a)
    if a.dtype.kind not in 'iu' or a.ndim != 1:
        raise TypeError('result has dtype %s, ndim %d' % (a.dtype, a.ndim))
    return [int(x) for x in a]


def _ftok(x):
    x = float(x)
    if math.isnan(x):
        return ['nan']
    if math.isinf(x):
        return ['inf', x < 0]
    m, e = math.frexp(x)
    mant = int(m * (1 << 53))
    assert mant * 2.0 ** (e - 53) == x
    neg = math.copysign(1.0, x) < 0
    return ['fin', neg, abs(mant), e - 53]


def _loaded_model(np, tmp, st, sc, nt, dt):
    """TemplateModel built by the real loader from a minimal dataset directory: spike_templates.npy in dtype dt,
    spike_clusters.npy (dtype dt when it holds the ids, else int32) or none, nt templates on 2 channels."""
    import logging
    from pathlib import Path
    from phylib.io.model import TemplateModel
    if len(st) < 2 or (sc is not None and len(sc) != len(st)) or min(st) < 0 or max(st) >= 2 ** 15:
        # (a one-spike dataset is refused by _load_spike_samples -- squeeze() makes spike_times 0-d --: dataset loading is C04)
        raise _Bad('loader cases: at least two spikes, non-negative templates, clusters of the same length')
    d = Path(tmp)
    n = len(st)
    np.save(d / 'spike_times.npy', np.arange(n, dtype=np.uint64) * 30 + 10)
    np.save(d / 'spike_templates.npy', _arr(np, st, dt))
    if sc is not None:
        lo, hi = LIMITS[dt]
        np.save(d / 'spike_clusters.npy', _arr(np, sc, dt if lo <= min(sc) and max(sc) <= hi else 'int32'))
    np.save(d / 'templates.npy', ((np.arange(nt * 3 * 2) % 7) - 3.).reshape((nt, 3, 2)).astype(np.float32))
    np.save(d / 'channel_map.npy', np.arange(2, dtype=np.int32))
    np.save(d / 'channel_positions.npy', np.array([[0., 0.], [0., 20.]]))
    np.save(d / 'amplitudes.npy', np.ones(n))
    logging.disable(logging.CRITICAL)
    try:
        return TemplateModel(dir_path=d, sample_rate=30000., n_channels_dat=2, dtype=np.int16)
    finally:
        logging.disable(logging.NOTSET)


def _one_loader(np, k, i, dt):
    import tempfile
    with tempfile.TemporaryDirectory(prefix='vt_c07_') as tmp:
        if k == 'spikes_of':
            if i['which'] == 'template':
                st, sc = i['v'], i.get('aux')
            elif i.get('aux') is None:
                st, sc = i['v'], None                      # no spike_clusters.npy: the clusters are the templates
            else:
                st, sc = i['aux'], i['v']
            m = _loaded_model(np, tmp, st, sc, i['nt'], dt)
            q = m.get_template_spikes if i['which'] == 'template' else m.get_cluster_spikes
            return ['list', _iarr(np, q(i['c']))]
        if k == 'counts':
            if i['sc_absent'] and i['sc'] != i['st']:
                raise _Bad('sc_absent: the clusters are the templates')
            m = _loaded_model(np, tmp, i['st'], None if i['sc_absent'] else i['sc'], i['nt'], dt)
            if m.n_templates != i['nt']:
                raise ValueError('n_templates = %r' % (m.n_templates,))
            return ['list', _iarr(np, m.get_template_counts(i['c']))]
    raise _Bad('no loader route for kind %r' % k)


def _req(np, cl, form):
    """The requested cluster list in the argument form of the case: a Python list (default), a tuple, an int64 ndarray, or a
    non-contiguous view (every second element of a longer int64 array)."""
    if form in (None, 'list'):
        return list(cl)
    if form == 'tuple':
        return tuple(cl)
    if form == 'array':
        return np.array(list(cl), dtype=np.int64)
    if form == 'strided':
        a = np.zeros(2 * len(cl), dtype=np.int64)
        a[::2] = list(cl)
        return a[::2]
    raise _Bad('unknown request form %r' % (form,))


def _thunk(np, k, i, dt):
    """Build the arguments of the call ONCE and return a function that makes the call on those same objects (stage 6: the
    same argument objects are used for `rep` calls, and for the earlier calls `pre` of an _index_of history)."""
    from phylib.io import array as A
    if k in ('spc', 'spc_dt'):
        sc = _arr(np, i['sc'], dt)
        ids = None if i['ids'] is None else _arr(np, i['ids'], 'int64' if k == 'spc_dt' else dt)

        def f():
            d = A._spikes_per_cluster(sc, ids) if ids is not None else A._spikes_per_cluster(sc)
            return ['dict', [[int(key), _ints(val)] for key, val in d.items()]]
        return f
    if k == 'spc_flatten':
        sc = _arr(np, i['sc'], dt)
        ids = None if i['ids'] is None else _arr(np, i['ids'], dt)

        def f():
            d = A._spikes_per_cluster(sc, ids) if ids is not None else A._spikes_per_cluster(sc)
            return ['list', _iarr(np, A._flatten_per_cluster(d))]
        return f
    if k == 'sic':
        sc = _arr(np, i['sc'], dt)
        cl = _req(np, i['cl'], i.get('clform'))
        return lambda: ['list', _iarr(np, A._spikes_in_clusters(sc, cl))]
    if k == 'unique':
        x = _arr(np, i['x'], dt)
        return lambda: ['list', _iarr(np, A._unique(x))]
    if k in ('index_of', 'index_of_dt'):
        arr = _arr(np, i['arr'], dt)
        # stage 6 (seed C07-m13): the lookup as the caller's own ndarray of the dtype of the case (np.asarray(lookup, int32)
        # is then the SAME object for int32), used again for every call of the history
        lookup = _arr(np, i['lookup'], dt) if i.get('lform') == 'array' else list(i['lookup'])
        pre = [_arr(np, a, dt) for a in i.get('pre') or []]
        state = {'first': True}

        def f():
            if state['first']:
                state['first'] = False
                for a in pre:                       # the earlier calls of the history, same lookup object
                    try:
                        A._index_of(a, lookup)
                    except Exception:
                        pass
            return ['list', _iarr(np, A._index_of(arr, lookup))]
        return f
    if k == 'flatten':
        d = {key: np.array(val, dtype=np.int64) for key, val in i['d']}
        return lambda: ['list', _iarr(np, A._flatten_per_cluster(d))]
    if k == 'gmean':
        sc = _arr(np, i['sc'], dt)
        cols = i['cols']
        vdt = i.get('vdt', 'int64')
        lo, hi = VDT[vdt]
        for col in cols:
            for v in col:
                if not (lo <= v <= hi):
                    raise _Bad('value %r is not held exactly by %s' % (v, vdt))
        vtype = np.bool_ if vdt == 'bool' else getattr(np, vdt)
        if i['twod']:
            arr = np.array(cols, dtype=np.int64).T.reshape(len(cols[0]), len(cols)).astype(vtype)
        else:
            arr = np.array(cols[0], dtype=np.int64).astype(vtype)
        if arr.dtype != np.dtype(vtype) or arr.astype(np.float64).tolist() != np.array(cols, dtype=np.float64).T.reshape(arr.shape).tolist():
            raise _Bad('the values are not held exactly by %s' % vdt)

        def f():
            out = np.asarray(A.grouped_mean(arr, sc))
            if out.dtype != np.float64:
                raise TypeError('grouped_mean returned dtype %s' % out.dtype)
            if i['twod']:
                if out.ndim != 2 or out.shape[1] != len(cols):
                    raise ValueError('grouped_mean returned shape %r' % (out.shape,))
                return ['floats', [[_ftok(x) for x in out[:, j]] for j in range(len(cols))]]
            if out.ndim != 1:
                raise ValueError('grouped_mean returned shape %r' % (out.shape,))
            return ['floats', [[_ftok(x) for x in out]]]
        return f
    if k == 'spikes_of':
        from phylib.io.model import TemplateModel
        m = TemplateModel.__new__(TemplateModel)
        if i['which'] == 'cluster':
            m.spike_clusters = _arr(np, i['v'], dt)
            return lambda: ['list', _iarr(np, m.get_cluster_spikes(i['c']))]
        m.spike_templates = _arr(np, i['v'], dt)
        return lambda: ['list', _iarr(np, m.get_template_spikes(i['c']))]
    if k == 'counts':
        from phylib.io.model import TemplateModel
        m = TemplateModel.__new__(TemplateModel)
        m.spike_clusters = _arr(np, i['sc'], 'int32')          # the loader casts spike_clusters to int32
        m.spike_templates = _arr(np, i['st'], dt)
        m.n_templates = i['nt']
        return lambda: ['list', _iarr(np, m.get_template_counts(i['c']))]
    raise _Bad('unknown kind %r' % k)


def _guarded(f):
    try:
        return f()
    except _Bad:
        raise
    except AssertionError:
        return ['crash', 'AssertionError']
    except Exception as e:  # the implementation raised: an observable
        return ['crash', type(e).__name__]


def _one(np, k, i, dt):
    """The observations of the case under dtype dt: one per call; `rep` calls (default 1) on the SAME argument objects."""
    if i.get('via') == 'loader':
        return [_guarded(lambda: _one_loader(np, k, i, dt))]
    rep = i.get('rep', 1)
    if not (isinstance(rep, int) and 1 <= rep <= 4):
        raise _Bad('rep must be 1..4')
    box = []
    o = _guarded(lambda: box.append(_thunk(np, k, i, dt)))
    if not box:
        return [o]
    return [_guarded(box[0]) for _ in range(rep)]


def run_case(case):
    import numpy as np
    k, i = case['kind'], case['inp']
    dts = i.get('dts') or ['int64']
    seen = []          # [[observation, [dtypes]]]
    for dt in dts:
        try:
            obs = _one(np, k, i, dt)
        except _Bad as e:
            return ['bad', str(e)]
        for o in obs:
            for s in seen:
                if s[0] == o:
                    if dt not in s[1]:
                        s[1].append(dt)
                    break
            else:
                seen.append([o, [dt]])
    return ['multi', seen]


# ---- encoding for Coq ---------------------------------------------------------------------------

def _groups(d):
    return q.lst(d, lambda g: '(mkg %s %s)' % (q.z(g[0]), q.zl(g[1])))


def _tok(t):
    if t[0] == 'nan':
        return 'FNaN'
    if t[0] == 'inf':
        return '(FInf %s)' % q.b(t[1])
    return '(FFin %s %s %s)' % (q.b(t[1]), q.z(t[2]), q.z(t[3]))


def _obs1(o):
    if o[0] == 'crash':
        return 'ObsCrash'
    if o[0] == 'dict':
        return q.app('ObsDict', _groups(o[1]))
    if o[0] == 'list':
        return q.app('ObsList', q.zl(o[1]))
    if o[0] == 'floats':
        return q.app('ObsFloats', q.lst(o[1], lambda col: q.lst(col, _tok)))
    raise ValueError(o[0])


def encode(case, obs):
    k, i = case['kind'], case['inp']
    if obs[0] == 'bad':
        return 'InBad', 'ObsAll []'
    if obs[0] == 'crash':          # time-out or death of the worker: counts as a crash under every dtype
        cobs = 'ObsAll [ObsCrash]'
    else:
        cobs = 'ObsAll ' + q.lst([_obs1(o) for o, _ in obs[1]])
    if k == 'spc':
        cin = q.app('InSpc', q.zl(i['sc']), q.opt(i['ids'], q.zl))
    elif k == 'spc_flatten':
        cin = q.app('InSpcFlatten', q.zl(i['sc']), q.opt(i['ids'], q.zl))
    elif k == 'sic':
        cin = q.app('InSic', q.zl(i['sc']), q.zl(i['cl']))
    elif k == 'unique':
        cin = q.app('InUnique', q.zl(i['x']))
    elif k == 'index_of':
        cin = q.app('InIndexOf', q.zl(i['arr']), q.zl(i['lookup']))
    elif k == 'spc_dt':
        lo, hi = LIMITS[i['dts'][0]]
        cin = q.app('InSpcDt', q.z(lo), q.z(hi), q.zl(i['sc']), q.opt(i['ids'], q.zl))
    elif k == 'index_of_dt':
        cin = q.app('InIndexOfDt', q.zl(i['arr']), q.zl(i['lookup']))
    elif k == 'flatten':
        cin = q.app('InFlatten', _groups(i['d']))
    elif k == 'gmean':
        cin = q.app('InGMean', q.zll(i['cols']), q.zl(i['sc']))
    elif k == 'spikes_of':
        cin = q.app('InSpikesOf', q.zl(i['v']), q.z(i['c']))
    elif k == 'counts':
        cin = q.app('InCounts', q.zl(i['sc']), q.zl(i['st']), q.z(i['nt']), q.z(i['c']))
    else:
        raise ValueError(k)
    return cin, cobs


def _main_vec(case):
    i = case['inp']
    for key in ('sc', 'x', 'arr', 'v'):
        if key in i:
            return i[key]
    if 'd' in i:
        return [x for g in i['d'] for x in g[1]]
    return []


def nontrivial(case, obs):
    if obs[0] != 'multi' or any(o[0] == 'crash' for o, _ in obs[1]):
        return False
    v = _main_vec(case)
    return len(v) >= 2 and (len(set(v)) >= 2 or case['kind'] in ('unique', 'gmean', 'counts', 'flatten'))


def _bucket(n):
    return str(n) if n <= 3 else '4-8' if n <= 8 else '9-99' if n <= 99 else '100-999' if n <= 999 else '1000+'


def dist(case, obs):
    k, i = case['kind'], case['inp']
    out = ['kind=' + k, '%s.len=%s' % (k, _bucket(len(_main_vec(case))))]
    if i.get('via') == 'loader':
        st = i['st'] if k == 'counts' else i['v'] if i['which'] == 'template' or i.get('aux') is None else i['aux']
        ids = sorted(set(st))
        out.append('%s.via=loader' % k)
        out.append('loader.spike_clusters_file=%s' % (not i['sc_absent'] if k == 'counts' else i.get('aux') is not None))
        out.append('loader.template_ids=%s' % ('empty' if not ids else '0..n' if ids == list(range(len(ids))) else
                                               '1..n' if ids == list(range(1, len(ids) + 1)) else 'gapped'))
    mv = _main_vec(case)
    if mv and k in ('unique', 'gmean', 'index_of', 'sic', 'spikes_of', 'spc_flatten', 'counts'):
        top = max(max(mv), max(i.get('st') or [0]), max(i.get('lookup') or [0]))
        out.append('ids.max=%s' % ('<128' if top < 128 else '<256' if top < 256 else '<2^15' if top < 2 ** 15 else
                                   '<2^16' if top < 2 ** 16 else '>=2^16'))
        for dt in i.get('dts', []):
            if dt in LIMITS and LIMITS[dt][0] == 0 and top > LIMITS[dt][1] // 2:
                out.append('ids.top_bit_set_in=' + dt)
    for dt in i.get('dts', []):
        out.append('dtype=' + dt)
    if obs[0] == 'multi':
        if len(obs[1]) > 1:
            out.append('dtypes-disagree')
        for o, _ in obs[1]:
            if o[0] == 'crash':
                out.append('%s.raises=%s' % (k, o[1]))
    else:
        out.append('outcome=' + str(obs[0]))
    if k == 'spc_dt':
        lo, hi = LIMITS[i['dts'][0]]
        out.append('spc_dt.span=%s' % ('fits' if not i['sc'] or max(i['sc']) - min(i['sc']) <= hi else 'wraps'))
        out.append('spc_dt.signed=%s' % (lo < 0))
    if k == 'spc':
        out.append('spc.ids=%s' % ('none' if i['ids'] is None else 'short' if len(i['ids']) < len(i['sc'])
                                   else 'long' if len(i['ids']) > len(i['sc']) else 'given'))
        out.append('spc.distinct=%s' % _bucket(len(set(i['sc']))))
    if k == 'sic':
        out.append('sic.req=%s' % _bucket(len(i['cl'])))
        out.append('sic.absent=%s' % bool(set(i['cl']) - set(i['sc'])))
        out.append('sic.unsorted=%s' % (list(i['cl']) != sorted(set(i['cl']))))
        out.append('sic.req_form=%s' % i.get('clform', 'list'))
        if i['cl'] and i['sc']:
            # which of np.isin's three internal algorithms the sizes select (NumPy 2: table if the range of the request is at
            # most 6 * (n + k), else the per-id loop if k < 10 * n ** 0.145, else merge sort)
            n_, k_ = len(i['sc']), len(i['cl'])
            wide = max(i['cl']) - min(i['cl']) > 6 * (n_ + k_)
            out.append('sic.ids_spread=%s' % ('sparse' if wide else 'dense'))
            out.append('sic.isin_algorithm=%s' % ('table' if not wide else 'loop' if k_ < 10 * n_ ** 0.145 else 'sort'))
            left = set(i['sc']) - set(i['cl'])
            out.append('sic.unrequested_cluster_with_2+_spikes=%s' % any(i['sc'].count(c) > 1 for c in left))
    if k == 'gmean':
        vdt = i.get('vdt', 'int64')
        out.append('gmean.values_dtype=' + vdt)
        lo, hi = VDT[vdt]
        if vdt == 'float32':
            hi, lo = 2 ** 24, -2 ** 24
        sums = {}
        for j, col in enumerate(i['cols']):
            for c, v in zip(i['sc'], col):
                sums[(j, c)] = sums.get((j, c), 0) + v
        out.append('gmean.cluster_sum_outside_values_dtype=%s' % any(not (lo <= t <= hi) for t in sums.values()))
    if k == 'index_of':
        out.append('index_of.lookup_sorted=%s' % (list(i['lookup']) == sorted(i['lookup'])))
        out.append('index_of.lookup_form=%s' % i.get('lform', 'list'))
        out.append('index_of.earlier_calls_on_same_lookup=%s' % _bucket(len(i.get('pre') or [])))
    if i.get('rep', 1) > 1:
        out.append('%s.calls_on_same_objects=%d' % (k, i['rep']))
    return out


def size(case):
    return sum(len(v) if isinstance(v, list) else 1 for v in case['inp'].values()) + len(_main_vec(case))


PAR = {'spc': [('sc', 'ids')], 'spc_dt': [('sc', 'ids')], 'spc_flatten': [('sc', 'ids')], 'sic': [('sc',), ('cl',)], 'unique': [('x',)],
       'index_of': [('arr',), ('lookup',)], 'spikes_of': [('v', 'aux')], 'counts': [('sc', 'st')]}


def _with(case, **kw):
    i = dict(case['inp'])
    i.update(kw)
    return {'kind': case['kind'], 'inp': i}


def shrink(case):
    k, i = case['kind'], case['inp']
    if len(i.get('dts', [])) > 1:
        for dt in i['dts']:
            yield _with(case, dts=[dt])
    if i.get('pre'):
        for j in range(len(i['pre'])):
            yield _with(case, pre=i['pre'][:j] + i['pre'][j + 1:])
        for j, a in enumerate(i['pre']):
            for p_ in range(len(a)):
                yield _with(case, pre=i['pre'][:j] + [a[:p_] + a[p_ + 1:]] + i['pre'][j + 1:])
    if i.get('rep', 1) > 1:
        yield _with(case, rep=i['rep'] - 1)
    if i.get('clform') not in (None, 'list'):
        yield _with(case, clform='list')
    if i.get('lform') == 'array':
        yield _with(case, lform='list')
    if k == 'gmean':
        n = len(i['sc'])
        if len(i['cols']) > 1:
            yield _with(case, cols=[i['cols'][0]], twod=False)
        for cut in _cuts(n):
            yield _with(case, sc=_drop(i['sc'], cut), cols=[_drop(c, cut) for c in i['cols']])
        for j, col in enumerate(i['cols']):
            for p, v in enumerate(col):
                if v != 0:
                    yield _with(case, cols=[c if jj != j else col[:p] + [0] + col[p + 1:] for jj, c in enumerate(i['cols'])])
        if i.get('vdt'):
            yield {'kind': k, 'inp': {key: val for key, val in i.items() if key != 'vdt'}}
        return
    if k == 'flatten':
        d = i['d']
        for j in range(len(d)):
            yield _with(case, d=d[:j] + d[j + 1:])
            for p in range(len(d[j][1])):
                yield _with(case, d=d[:j] + [[d[j][0], d[j][1][:p] + d[j][1][p + 1:]]] + d[j + 1:])
        return
    for keys in PAR.get(k, []):
        n = len(i[keys[0]])
        for cut in _cuts(n):
            kw = {}
            for key in keys:
                if i.get(key) is not None:
                    kw[key] = _drop(i[key], cut) if len(i[key]) == n or key == keys[0] else i[key]
            yield _with(case, **kw)
    if k in ('spc', 'spc_dt', 'spc_flatten') and i['ids'] is not None:
        yield _with(case, ids=None)
    # lower the ids towards a dense alphabet (keeps the order structure)
    for key in ('sc', 'x', 'v'):
        if key in i and i[key]:
            vals = sorted(set(i[key]))
            dense = {v: r for r, v in enumerate(vals)}
            if any(dense[v] != v for v in vals) and min(vals) >= 0 and k in ('spc', 'unique', 'spc_flatten'):
                yield _with(case, **{key: [dense[v] for v in i[key]]})


def _cuts(n):
    """Index sets to drop: halves first, then single positions."""
    out = []
    if n > 3:
        out += [range(0, n // 2), range(n // 2, n)]
    if n > 7:
        q4 = n // 4
        out += [range(j * q4, (j + 1) * q4) for j in range(4)]
    out += [range(j, j + 1) for j in range(min(n, 40))]
    return out


def _drop(l, cut):
    s = set(cut)
    return [x for j, x in enumerate(l) if j not in s]


def repro(case):
    return ("import sys; sys.path[:0] = ['/verif/harness', '/repo']\n"
            "from vt import npshim; npshim.setup_process()\n"
            "from vt.props import c07\n"
            "print(c07.run_case(%r))   # [observation, dtypes] per distinct outcome; see CLAUSES for the violated clause\n"
            % (case,))
