"""C05 -- template records aligned with their channel list, dense and sparse storage (DESIGN.md section 8 C05)."""
import copy
import os
import shutil
import tempfile

from .. import coqenc as q
from .. import datasets as D
from .. import datasets_c05 as D5

ID = 'C05'
RULE = ('generated dataset directories loaded by the real TemplateModel, then get_template / get_template_channels / '
        'get_template_waveforms / get_cluster_channels on every template: integer templates (random, tie-heavy, '
        'distinct-amplitude, localised, all-zero, wide-range), inverse whitening matrix absent / diagonal / signed '
        'permutation / unit-triangular / full integer given as whitening_mat.npy, whitening_mat_inv.npy or both, probe '
        'geometries of 1-2 columns x 2-20 rows plus irregular (tie-free) layouts with fewer AND more channels than '
        'n_closest_channels in {12 (class default), 2, 3, 0}, 1-3 shanks or no shank file, thresholds {0, 1/4, 1/2, 1} as '
        'class attribute and as argument, template_scaling absent or in {1, 2, 3}, explicit channel lists (array, uint32 array, Python list, empty, repeated, out of '
        'range), unwhiten on/off, sparse column tables with -1, all-zero and below-1e-6 columns; in half of the datasets a '
        'HISTORY on the one model object: 1-4 other read-only operations (get_amplitudes_true for templates / clusters, '
        'get_cluster_mean_waveforms, cluster_waveforms, the templates_* / clusters_* properties, spike / count / merge-map '
        'accessors, describe, a second TemplateModel on the same directory, repeated get_template, the caller overwriting '
        'arrays it was returned) inserted anywhere between the requests, requests in shuffled template order, a request '
        'repeated at the end; amplitudes.npy present or absent; in a third of the datasets an ENVIRONMENT: 1-5 bystander '
        'files in the directory that the model must not take for its own (templates_ind.npy as KiloSort2 writes it, '
        'near-miss spellings / .bak / other-case / sub-directory copies of template_ind, templates, whitening_mat(_inv), '
        'channel_shanks, channel_positions, channel_map with other contents, similar_templates.npy, cluster_*.tsv, logs, '
        'junk binaries), dir_path given as Path, str or through a symlink. Corpus (the inputs of the '
        'repaired amplitude-alignment defect and one boundary case per operator) first, then a pairwise sweep of the '
        'configuration axes, then seeded random. Non-trivial = a record with at least two listed channels was returned; '
        'distinct = distinct abstract (dataset, requests).')
EXHAUSTIVE = {'quick': False, 'thorough': False}
CLAUSES = {
    1: 'observed record differs from the Coq model PV.C05.Model.get_template on a determined observable',
    21: 'C05_dense_channels: listed channels = nearest /\\ same shank /\\ reaching the threshold (or the explicit list)',
    22: 'C05_dense_aligned: column j = template on channel_ids[j], amplitude[j] = peak-to-peak of column j',
    23: 'C05_sorted: distinct channels, non-increasing amplitudes, peak channel listed, maximal and first',
    24: 'C05_sparse_channels: listed = stored channels minus -1 and signal-free ones',
    25: 'C05_sparse_aligned: column j / amplitude j belong to channel_ids[j] (unwhitened on the kept sub-matrix)',
    26: 'C05_sparse_sorted: distinct, non-increasing, peak channel listed, maximal and first',
    27: 'derived accessors get_template_channels / get_template_waveforms / get_cluster_channels',
}
TRUSTED = ['np.load/np.save, np.dot (BLAS) and the float32 cast: exact on the generated integer data (regime re-checked in Corr.v: '
           'every value of the unwhitened template below 2^24 in magnitude)',
           'np.argsort tie order (judged relationally), np.intersect1d, np.argmax (first maximum), np.ix_',
           'np.linalg.inv of signed-permutation / diagonal power-of-two matrices (exact; the loaded inverse is compared with the generated one)',
           'TemplateModel loading (property C04) of the generated directory']
ASSUMES = ['loaded dataset state: pairwise distinct channel positions, shank vector of length n_channels, square inverse whitening '
           'matrix, templates with n_channels columns (dense) or as many columns as the column table (sparse)',
           'exact regime: integer templates, positions and inverse whitening matrices; threshold fractions p/2^k; sparse columns '
           'not within 0.1% of the 1e-6 signal threshold; no axis of length 1 (phylib squeezes loaded arrays)',
           'sparse column tables with entries in [-1, n_channels) and pairwise distinct entries other than -1; explicit '
           'channel ids non-negative; template_scaling absent or a small integer; an all-zero sparse template raises (model: None)']
TIMEOUT = {'quick': 30, 'thorough': 60}

THRS = [[0, 1], [1, 4], [1, 2], [1, 1]]

# The history axis: operations a caller may perform on the SAME model object between two get_template requests.
# Each is read-only with respect to the stored dataset (an accessor of TemplateModel, a second model object on the
# same directory in the same process, or the caller writing into arrays that it was HANDED by an accessor); none has
# an observable of its own here -- the records returned afterwards must still be those of the stored dataset.
TOUCH = ['amps_t',        # 0  m.get_amplitudes_true()                      (the call of the ALF exporter)
         'amps_c',        # 1  m.get_amplitudes_true(use='clusters')
         'amps_scribble', # 2  the caller overwrites the arrays returned by get_amplitudes_true()
         'rec_scribble',  # 3  the caller overwrites template / amplitude / channel_ids of a record it was returned
         'cmean',         # 4  m.get_cluster_mean_waveforms(cid, unwhiten=arg parity)
         'cluster_wf',    # 5  m.cluster_waveforms() and overwriting its .data
         'props',         # 6  templates_channels / clusters_channels / *_amplitudes / *_waveforms_durations / templates_probes
         'spikes',        # 7  get_template_counts / get_template_spikes / get_cluster_spikes / get_merge_map / get_depths
         'describe',      # 8  m.describe()
         'model2',        # 9  a second TemplateModel on the same directory (other neighbourhood size / threshold), used and closed
         'reget']         # 10 get_template of every template with both unwhiten values, results dropped


# ---- generator ----------------------------------------------------------------------------------------------

def _geometry(rng, kind, nc):
    if kind == 'lin':          # one column, regular pitch: every neighbour pair at equal distance (ties)
        pos = [[0, 20 * i] for i in range(nc)]
    elif kind == 'grid2':      # two columns, Neuropixels-like interleaving
        pos = [[16 * (i % 2), 20 * (i // 2)] for i in range(nc)]
    elif kind == 'stagger':    # two staggered columns
        pos = [[32 * (i % 2), 20 * (i // 2) + 10 * (i % 2)] for i in range(nc)]
    elif kind == 'cols':       # two columns, column-major numbering
        h = (nc + 1) // 2
        pos = [[0, 20 * i] for i in range(h)] + [[16, 20 * i] for i in range(nc - h)]
    elif kind == 'irregular':  # random distinct sites: distances almost always pairwise distinct
        cells = set()
        while len(cells) < nc:
            cells.add((rng.randint(0, 60), rng.randint(0, 400)))
        pos = [list(c) for c in cells]
        rng.shuffle(pos)
    elif kind == 'quad':       # one column with growing pitch: tie-free from every channel
        pos = [[0, 3 * i * i + 20 * i] for i in range(nc)]
    else:
        raise ValueError(kind)
    if kind in ('lin', 'grid2', 'stagger') and rng.random() < 0.3:
        rng.shuffle(pos)
    return pos


def _shanks(rng, kind, nc, pos):
    if kind == 'none':
        return None
    if kind == 'one':
        return [0] * nc
    if kind == 'bycol':
        xs = sorted(set(p[0] for p in pos))
        return [xs.index(p[0]) % 3 for p in pos]
    if kind == 'blocks':
        k = rng.choice([2, 3])
        return [min(k - 1, i * k // nc) for i in range(nc)]
    if kind == 'random':
        return [rng.randrange(3) for _ in range(nc)]
    raise ValueError(kind)


def _template(rng, style, ns, ncols, pos=None):
    if style == 'zero':
        return [[0] * ncols for _ in range(ns)]
    if style == 'random':
        return [[rng.randint(-50, 50) if rng.random() < 0.8 else 0 for _ in range(ncols)] for _ in range(ns)]
    if style == 'ties':
        return [[rng.choice([-1, 0, 0, 1, 2]) for _ in range(ncols)] for _ in range(ns)]
    if style == 'distinct':     # one spike per channel with pairwise distinct heights
        hs = rng.sample(range(1, 50), ncols) if ncols < 49 else [i + 1 for i in range(ncols)]
        t = [[0] * ncols for _ in range(ns)]
        for c in range(ncols):
            t[rng.randrange(ns)][c] = hs[c] * rng.choice([1, -1])
        return t
    if style == 'local':        # amplitude decays away from a peak channel, with some equal heights
        pc = rng.randrange(ncols)
        t = [[0] * ncols for _ in range(ns)]
        for c in range(ncols):
            a = max(0, 48 - 6 * abs(c - pc) - rng.choice([0, 0, 1, 2]))
            s = rng.randrange(ns)
            t[s][c] = -a
            t[(s + 1) % ns][c] = a // 4
        return t
    if style == 'big':          # values spanning 1 .. 2^21: the 1e-6 signal threshold of sparse templates bites
        t = [[0] * ncols for _ in range(ns)]
        big = rng.randrange(ncols)
        for c in range(ncols):
            t[rng.randrange(ns)][c] = rng.choice([1, 2, 3, 5, 40, 1000, 100000])
        t[rng.randrange(ns)][big] = rng.choice([2 ** 21, 2 ** 21, 2 ** 20, 4000000]) * rng.choice([1, -1])
        return t
    raise ValueError(style)


def _wbound(wmi, nc):
    if wmi is None:
        return 1
    return max(sum(abs(wmi[i][j]) for i in range(nc)) for j in range(nc))


def _mk(rng, **f):
    """One abstract case: a dataset and a list of requests."""
    storage = f.get('storage', rng.choice(['dense', 'dense', 'sparse']))
    ncl = f.get('nclosest', rng.choice([12, 12, 12, 2, 3, 3, 0]))
    if 'nc' in f:
        nc = f['nc']
    elif ncl == 12:
        nc = rng.choice([4, 6, 9, 11, 12, 13, 14, 16, 20, 24]) if f.get('size', 'small') == 'small' else rng.choice([30, 40])
    else:
        nc = rng.randint(2, 9)
    geo = f.get('geo', rng.choice(['lin', 'grid2', 'stagger', 'cols', 'irregular', 'irregular', 'quad']))
    pos = _geometry(rng, geo, nc)
    shk = f.get('shanks', rng.choice(['none', 'one', 'bycol', 'blocks', 'random']))
    shanks = _shanks(rng, shk, nc, pos)
    ns = f.get('ns', rng.randint(2, 5))
    nt = f.get('nt', rng.randint(2, 4))
    wkind = f.get('wmi', rng.choice(['none', 'diag', 'perm', 'tri', 'full']))
    wmi = None if wkind == 'none' else D5.gen_wmi(rng, nc, wkind)
    if wkind in ('diag', 'perm'):
        wfiles = f.get('wfiles', rng.choice(['wmi', 'wm', 'both']))
    else:
        wfiles = 'none' if wmi is None else 'wmi'
    styles = f.get('styles') or [rng.choice(['random', 'random', 'random', 'ties', 'ties', 'distinct', 'distinct', 'local', 'local', 'zero', 'big', 'big'])
                                 for _ in range(nt)]
    if storage == 'dense':
        nloc, cols = nc, None
    else:
        nloc = f.get('nloc', rng.choice([2, 3, 4, 6, nc]))
        nloc = max(2, min(nloc, nc))
        cols = []
    templates = []
    for k in range(nt):
        st_ = styles[k % len(styles)]
        if storage == 'dense' and st_ == 'big':
            st_ = 'random'
        t = _template(rng, st_, ns, nloc)
        if storage == 'sparse':
            row = rng.sample(range(nc), nloc)
            for j in range(nloc):
                u = rng.random()
                if u < 0.15:
                    row[j] = -1                       # unused column (sometimes with data under it)
                    if rng.random() < 0.6:
                        for s in range(ns):
                            t[s][j] = 0
                elif u < 0.3:
                    for s in range(ns):               # stored channel without signal
                        t[s][j] = 0
            cols.append(row)
        templates.append(t)
    # keep every unwhitened value exactly representable in float32
    mx = max([abs(v) for t in templates for r in t for v in r] + [1])
    scale = f.get('scale', rng.choice([None, None, None, 1, 2, 3]))
    if mx * _wbound(wmi, nc) * (scale or 1) >= 2 ** 23:
        wmi, wfiles, scale = None, 'none', None
    nspk = rng.randint(3, 10)
    st = [rng.randrange(nt) for _ in range(nspk)]
    st[0], st[1] = 0, nt - 1
    sc = None
    if f.get('curated', rng.random() < 0.25):
        sc = list(st)
        for _ in range(rng.randint(1, 3)):
            i = rng.randrange(nspk)
            sc[i] = rng.randint(0, nt)
        if sc == st:
            sc = None
    sem = {'nc': nc, 'ns': ns, 'nt': nt, 'templates': templates, 'cols': cols, 'wmi': wmi, 'wfiles': wfiles,
           'positions': pos, 'shanks': shanks, 'nclosest': ncl, 'thr': f.get('thr', rng.choice([[0, 1]] * 5 + THRS)),
           'tmpl_dtype': f.get('tmpl_dtype', rng.choice(['float32', 'float32', 'float64'])),
           'cols_dtype': rng.choice(['int32', 'int64']), 'st': st, 'sc': sc, 'scale': scale,
           'opts': {'storage': storage, 'geo': geo, 'shanks': shk, 'wmi': wkind, 'styles': styles}}
    # environment axis (stage 6): bystander files in the directory, the form of dir_path
    xmode = f.get('extras', rng.choice(['none', 'none', 'none', 'none', 'ks2', 'any']))
    if xmode != 'none':
        sem['extras'] = D5.gen_extras(rng, sem, xmode)
        sem['dirform'] = rng.choice(['path', 'path', 'str', 'symlink'])
    sem['opts']['extras'] = xmode
    reqs = []
    for tid in range(nt):
        # 'bare': m.get_template(tid) with no keyword at all (the signature's own defaults)
        reqs.append({'k': 'get', 'tid': tid, 'chans': None, 'form': None, 'thr': None, 'unw': True, 'bare': True})
        extra = f.get('n_extra', 2)
        for _ in range(extra):
            u = rng.random()
            r = {'k': 'get', 'tid': tid, 'chans': None, 'form': None, 'thr': None, 'unw': rng.random() < 0.7}
            if u < 0.4:
                r['thr'] = rng.choice(THRS + [[3, 4], [1, 8]])
            elif u < 0.8 and storage == 'dense':
                kind = rng.choice(['sub', 'sub', 'perm', 'dup', 'empty', 'oob', 'one'])
                if kind == 'sub':
                    ch = rng.sample(range(nc), rng.randint(1, min(nc, 5)))
                elif kind == 'perm':
                    ch = rng.sample(range(nc), nc) if nc <= 8 else rng.sample(range(nc), 6)
                elif kind == 'dup':
                    ch = [rng.randrange(nc) for _ in range(rng.randint(2, 5))]
                elif kind == 'empty':
                    ch = []
                elif kind == 'one':
                    ch = [rng.randrange(nc)]
                else:
                    ch = [rng.randrange(nc), nc + rng.randint(0, 2)]
                r['chans'] = ch
                r['form'] = 'array' if not ch else rng.choice(['array', 'array', 'u32', 'list'])
                if rng.random() < 0.3:
                    r['thr'] = rng.choice(THRS)
            reqs.append(r)
        if rng.random() < 0.5:
            reqs.append({'k': 'acc', 'tid': tid})
    for cid in sorted(set(sc if sc is not None else st)):
        if rng.random() < 0.5:
            reqs.append({'k': 'clu', 'cid': cid})
    if rng.random() < 0.2:
        reqs.append({'k': 'clu', 'cid': nt + 3})              # a cluster without spikes: phylib raises
    # history axis: other accessors of the same object (or caller-side writes into returned arrays) between the requests
    hist = f.get('hist', rng.random() < 0.5)
    if hist:
        sem['amps'] = rng.random() < 0.85
        if rng.random() < 0.5:
            rng.shuffle(reqs)                                 # templates no longer asked in increasing order
        for _ in range(rng.randint(1, 4)):
            reqs.insert(rng.randint(0, max(0, len(reqs) - 1)), _T(rng.randrange(len(TOUCH)), rng.randrange(24)))
        if rng.random() < 0.3:                                # the same request again at the end of the history
            reqs.append(copy.deepcopy(next(r for r in reqs if r['k'] != 'touch')))
    return {'kind': 'get', 'inp': {'ds': sem, 'reqs': reqs}}


def _T(op, arg=0):
    return {'k': 'touch', 'op': TOUCH.index(op) if isinstance(op, str) else op, 'arg': arg}


def _corpus():
    """The failing inputs of the repaired defect (amplitude not aligned with the returned channels) and one boundary
    case per operator of the anchored code."""
    out = []
    tpl = [[[0, 0, 0, 0], [5, 3, 9, 7], [0, 0, 0, 0]], [[0, 0, 0, 0], [0, 1, 1, 1], [1, 1, 1, 1]]]
    base = {'nc': 4, 'ns': 3, 'nt': 2, 'templates': tpl, 'cols': None, 'wmi': None, 'wfiles': 'none',
            'positions': [[0, 0], [0, 20], [0, 40], [0, 60]], 'shanks': [0, 1, 1, 1], 'nclosest': 12, 'thr': [0, 1],
            'tmpl_dtype': 'float32', 'cols_dtype': 'int32', 'st': [0, 1, 0], 'sc': None,
            'opts': {'storage': 'dense', 'geo': 'lin', 'shanks': 'corpus', 'wmi': 'none', 'styles': ['corpus']}}
    G = lambda tid, **k: dict({'k': 'get', 'tid': tid, 'chans': None, 'form': None, 'thr': None, 'unw': True, 'bare': not k}, **k)
    # dense, channel set restricted by the shank: amplitude was that of other channels
    out.append({'ds': base, 'reqs': [G(0), G(1), G(0, thr=[1, 2]), G(0, unw=False), {'k': 'acc', 'tid': 0},
                                     {'k': 'clu', 'cid': 0}, {'k': 'clu', 'cid': 1}, {'k': 'clu', 'cid': 7}]})
    # explicit list (array and Python list): amplitude had the wrong length and the wrong channels
    out.append({'ds': base, 'reqs': [G(0, chans=[1, 0], form='array'), G(0, chans=[1, 0], form='list'),
                                     G(0, chans=[3], form='u32'), G(0, chans=[], form='array'),
                                     G(0, chans=[1, 1, 3], form='array'), G(0, chans=[2, 4], form='array')]})
    # sparse: amplitude was left in storage order
    sp = copy.deepcopy(base)
    sp['cols'] = [[3, 1, -1, 0], [0, 1, 2, 3]]
    sp['opts'] = dict(sp['opts'], storage='sparse')
    out.append({'ds': sp, 'reqs': [G(0), G(1), G(0, unw=False), {'k': 'acc', 'tid': 0}, {'k': 'clu', 'cid': 0}]})
    # neighbourhood restricted by n_closest_channels = 2 on a 5-channel line; 12 on 13 and on 12 channels
    for ncl, nc in [(2, 5), (3, 5), (12, 13), (12, 12), (12, 11), (0, 5), (1, 4)]:
        t0 = [[0] * nc, [nc - abs(c - nc // 2) + (3 if c == 0 else 0) for c in range(nc)]]
        t1 = [[-(c + 1) for c in range(nc)], [c % 3 for c in range(nc)]]
        ds = dict(base, nc=nc, ns=2, templates=[t0, t1], positions=[[0, 3 * i * i + 20 * i] for i in range(nc)],
                  shanks=None, nclosest=ncl)
        out.append({'ds': ds, 'reqs': [G(0), G(1), G(0, thr=[1, 2]), G(1, thr=[1, 1]), G(1, thr=[1, 4])]})
    # threshold exactly reached / just missed: amplitudes 8, 4, 2, 1 with thresholds 1/2, 1/4 and 1
    t0 = [[0, 0, 0, 0], [8, 4, 2, 1]]
    ds = dict(base, ns=2, templates=[t0, [[1, 2, 3, 4], [0, 0, 0, 0]]], shanks=None)
    out.append({'ds': ds, 'reqs': [G(0, thr=[1, 2]), G(0, thr=[1, 4]), G(0, thr=[1, 1]), G(0, thr=[1, 8]), G(1, thr=[3, 4]),
                                   G(0, thr=[5, 4])]})
    out.append({'ds': dict(ds, thr=[1, 2]), 'reqs': [G(0), G(1), G(0, thr=[0, 1])]})
    # unwhitening moves the peak: wmi = signed permutation
    ds = dict(base, shanks=None, wmi=[[0, 2, 0, 0], [1, 0, 0, 0], [0, 0, 0, -1], [0, 0, 4, 0]], wfiles='both')
    out.append({'ds': ds, 'reqs': [G(0), G(0, unw=False), G(1), G(0, chans=[0, 1, 2, 3], form='array')]})
    # template_scaling multiplies the unwhitened template only
    out.append({'ds': dict(ds, scale=2), 'reqs': [G(0), G(0, unw=False), G(1)]})
    out.append({'ds': dict(sp, scale=3, wmi=ds['wmi'], wfiles='wmi'), 'reqs': [G(0), G(0, unw=False), G(1)]})
    # sparse: 1e-6 signal threshold (2^21 * 1e-6 = 2.097: a column of height 2 is dropped, of height 3 kept)
    sp2 = dict(sp, templates=[[[2, 3, 0, 2097152], [0, 0, 0, 0], [0, -1, 0, 5]], [[1, 1, 1, 1], [0, 2, 0, 0], [0, 0, 0, 0]]],
               cols=[[2, 0, 3, 1], [-1, 2, 1, 0]], shanks=None)
    out.append({'ds': sp2, 'reqs': [G(0), G(1), G(0, unw=False), G(1, unw=False)]})
    # sparse all-zero template: get_template raises (argmax of an empty sequence) -- the model returns None
    sp3 = dict(sp, templates=[[[0, 0, 0, 0]] * 3, [[1, 1, 1, 1], [0, 2, 0, 0], [0, 0, 0, 0]]], shanks=None)
    out.append({'ds': sp3, 'reqs': [G(0), G(1)]})
    # two channels tie for the maximal amplitude: np.argmax takes the first of them as best_channel while
    # np.argsort(...)[::-1] may list the other one first (relational reading of "peak channel first": the first listed
    # channel has the maximal amplitude; best_channel is listed and maximal) -- dense and sparse, threshold 1 keeps only the tied ones
    tt = [[[0, 0, 0, 0], [9, 9, 3, 1]], [[0, 0, 0, 0], [3, 9, 1, 9]]]
    ds = dict(base, ns=2, templates=tt, shanks=None)
    out.append({'ds': ds, 'reqs': [G(0), G(1), G(0, thr=[1, 1]), G(1, thr=[1, 1]), G(0, unw=False), {'k': 'acc', 'tid': 0},
                                   {'k': 'acc', 'tid': 1}, {'k': 'clu', 'cid': 0}, {'k': 'clu', 'cid': 1}]})
    spt = dict(sp, ns=2, templates=tt, cols=[[0, 1, 2, 3], [2, 0, 3, 1]], shanks=None)
    out.append({'ds': spt, 'reqs': [G(0), G(1), G(0, unw=False), {'k': 'acc', 'tid': 1}, {'k': 'clu', 'cid': 1}]})
    # history on one object (stage 5): a request, every other accessor, then the same requests again -- dense with a
    # non-identity inverse whitening matrix (one file each way), dense curated, sparse
    dh = dict(base, shanks=None, wmi=[[0, 2, 0, 0], [1, 0, 0, 0], [0, 0, 0, -1], [0, 0, 4, 0]], wfiles='wm', amps=True)
    again = [G(0), G(0, unw=False), G(1), G(1, thr=[1, 2]), {'k': 'acc', 'tid': 0}, {'k': 'clu', 'cid': 1}]
    for ops in (['amps_t'], ['amps_c'], ['amps_scribble', 'rec_scribble'], ['cmean', 'cluster_wf', 'props', 'spikes', 'describe'],
                ['model2'], ['reget', 'amps_t', 'amps_t']):
        out.append({'ds': dh, 'reqs': [G(0)] + [_T(o, 5) for o in ops] + again})
    dt = dict(dh, wmi=[[1, 0, 0, 0], [2, 1, 0, 0], [0, -1, 1, 0], [1, 0, 2, 1]], wfiles='wmi', sc=[0, 1, 2], scale=2)
    out.append({'ds': dt, 'reqs': [_T('amps_c'), _T('cluster_wf'), _T('cmean', 2)] + again + [_T('amps_t')] + again})
    out.append({'ds': dict(sp, amps=True, wmi=dh['wmi'], wfiles='both'),
                'reqs': [G(0)] + [_T(o, 3) for o in TOUCH] + [G(0), G(1), G(0, unw=False), {'k': 'acc', 'tid': 0}]})
    # environment (stage 6): bystander files in the dataset directory.  A KiloSort2 directory = DENSE templates.npy next
    # to templates_ind.npy (with an s; every row 0..n-1): still dense storage -- two shanks, 5 channels with a
    # neighbourhood of 2, a threshold, an explicit list (where dense and sparse records differ); a sparse dataset next to
    # a templates_ind.npy with other columns; look-alikes of every other file the records depend on, with other contents
    import random
    xr = random.Random(6)
    X = lambda sem_, kind, name=None, form=None: D5.gen_extra(xr, sem_, kind, name, form)
    reqs6 = [G(0), G(1), G(0, thr=[1, 2]), G(0, unw=False), G(0, chans=[1, 0], form='array'), {'k': 'acc', 'tid': 0},
             {'k': 'clu', 'cid': 0}]
    out.append({'ds': dict(base, extras=[X(base, 'ind', 'templates_ind.npy', 'ks2')]), 'reqs': reqs6})
    nc = 5
    ds5 = dict(base, nc=nc, ns=2, templates=[[[0] * nc, [6, 4, 8, 5, 7]], [[-(c + 1) for c in range(nc)], [c % 3 for c in range(nc)]]],
               positions=[[0, 3 * i * i + 20 * i] for i in range(nc)], shanks=None, nclosest=2)
    out.append({'ds': dict(ds5, extras=[X(ds5, 'ind', 'templates_ind.npy', 'ks2'), X(ds5, 'other', 'similar_templates.npy'),
                                        X(ds5, 'other', 'cluster_KSLabel.tsv')], dirform='str'), 'reqs': reqs6[:4]})
    out.append({'ds': dict(ds5, extras=[X(ds5, 'ind', 'template_ind.npy.bak', 'perm'), X(ds5, 'ind', 'backup/template_ind.npy', 'minus'),
                                        X(ds5, 'ind', 'Template_ind.npy', 'ks2')], dirform='symlink'), 'reqs': reqs6[:4]})
    out.append({'ds': dict(sp, extras=[X(sp, 'ind', 'templates_ind.npy', 'ks2'), X(sp, 'ind', 'template_inds.npy', 'perm')]),
                'reqs': [G(0), G(1), G(0, unw=False), {'k': 'acc', 'tid': 0}, {'k': 'clu', 'cid': 0}]})
    dw = dict(base, wmi=[[0, 2, 0, 0], [1, 0, 0, 0], [0, 0, 0, -1], [0, 0, 4, 0]], wfiles='wm')
    out.append({'ds': dict(dw, extras=[X(dw, 'wm', 'backup/whitening_mat_inv.npy'), X(dw, 'wm', 'whitening_mat_inv.npy.bak'),
                                       X(dw, 'shank', 'channel_shank.npy'), X(dw, 'pos', 'channel_position.npy'),
                                       X(dw, 'tmpl', 'templates_unw.npy'), X(dw, 'cmap', 'channel_map_old.npy'),
                                       X(dw, 'other', 'rez.mat'), X(dw, 'other', 'phy.log')]), 'reqs': reqs6})
    db = dict(base, shanks=None)
    out.append({'ds': dict(db, extras=[X(db, 'shank', 'channel_shanks.npy.bak'), X(db, 'shank', 'backup/channel_shanks.npy'),
                                       X(db, 'wm', 'Whitening_mat.npy'), X(db, 'wm', 'whitening_matrix.npy')], dirform='symlink'),
                'reqs': reqs6})
    return[{'kind': 'get', 'inp': copy.deepcopy(c)} for c in out]


AXES = [
    ('storage', ['dense', 'sparse']), ('nclosest', [12, 2, 3, 0]),
    ('geo', ['lin', 'grid2', 'stagger', 'cols', 'irregular', 'quad']),
    ('shanks', ['none', 'one', 'bycol', 'blocks', 'random']), ('wmi', ['none', 'diag', 'perm', 'tri', 'full']),
    ('thr', THRS), ('tmpl_dtype', ['float32', 'float64']), ('extras', ['none', 'ks2', 'any']),
]


def generate(tier, rng):
    cases = _corpus()
    n_pair, n_rand = {'quick': (1, 300), 'thorough': (6, 2600), 'search': (1, 900)}[tier]
    for i, (a, va) in enumerate(AXES):
        for b, vb in AXES[i + 1:]:
            for x in va:
                for y in vb:
                    for _ in range(n_pair):
                        if tier == 'quick' and rng.random() < 0.5:
                            continue
                        cases.append(_mk(rng, **{a: x, b: y}))
    for _ in range(n_rand):
        cases.append(_mk(rng))
    if tier == 'thorough':
        for _ in range(40):
            cases.append(_mk(rng, size='large', nclosest=12, n_extra=1))
    return cases


# ---- implementation -----------------------------------------------------------------------------------------

def _ints(a):
    """Exact integers of an array (nested lists), or None if some value is not a finite integer."""
    import numpy as np
    a = np.asarray(a)
    if a.dtype.kind == 'f':
        if not np.all(np.isfinite(a)) or np.any(a != np.round(a)):
            return None
        return np.round(a).astype(np.int64).tolist()
    if a.dtype.kind in 'iub':
        return a.astype(object).tolist() if a.dtype.kind == 'u' else a.astype(np.int64).tolist()
    return None


def _scribble(a):
    import numpy as np
    if isinstance(a, np.ndarray) and a.flags.writeable and a.size:
        a[...] = 77 if a.dtype.kind in 'iu' else -12345.5


def _touch(m, rq, kw0):
    """One operation of the history axis (see TOUCH).  Exceptions are the caller's business (sparse storage makes
    get_amplitudes_true raise, a dataset without amplitudes.npy makes the amplitude accessors raise): swallowed."""
    import contextlib
    import io
    import numpy as np
    from phylib.io.model import TemplateModel
    op, arg = TOUCH[rq['op']], int(rq.get('arg', 0))
    nt = int(m.n_templates)
    with contextlib.redirect_stdout(io.StringIO()):
        if op == 'amps_t':
            m.get_amplitudes_true()
        elif op == 'amps_c':
            m.get_amplitudes_true(use='clusters')
        elif op == 'amps_scribble':
            for a in m.get_amplitudes_true(sample2unit=1. + arg % 2, use='clusters' if arg % 3 == 2 else 'templates'):
                _scribble(a)
        elif op == 'rec_scribble':
            b = m.get_template(arg % nt, unwhiten=bool(arg // nt % 2))
            for k in ('template', 'amplitude', 'channel_ids'):
                _scribble(b[k])
        elif op == 'cmean':
            b = m.get_cluster_mean_waveforms(arg % (nt + 1), unwhiten=bool(arg // (nt + 1) % 2))
            _scribble(b.mean_waveforms)
        elif op == 'cluster_wf':
            _scribble(m.cluster_waveforms().data)
        elif op == 'props':
            for name in ('templates_channels', 'clusters_channels', 'templates_amplitudes', 'clusters_amplitudes',
                         'templates_waveforms_durations', 'clusters_waveforms_durations', 'templates_probes'):
                try:
                    getattr(m, name)
                except Exception:  # noqa
                    pass
        elif op == 'spikes':
            m.get_template_counts(arg % (nt + 1))
            m.get_template_spikes(arg % nt)
            m.get_cluster_spikes(arg % (nt + 1))
            m.get_merge_map()
            m.get_depths()
        elif op == 'describe':
            m.describe()
        elif op == 'model2':
            kw = dict(kw0, n_closest_channels=1 + arg % 4, amplitude_threshold=[0., .5, 1.][arg % 3])
            m2 = TemplateModel(**kw)
            try:
                for t in range(nt):
                    b = m2.get_template(t, unwhiten=bool(arg % 2))
                    _scribble(b.template)
                m2.get_amplitudes_true()
            finally:
                m2.close()
        elif op == 'reget':
            for t in range(nt):
                m.get_template(t)
                m.get_template(t, unwhiten=False)
        else:
            raise ValueError(op)


def _one(m, rq):
    import numpy as np
    if rq['k'] == 'get':
        kw = {'unwhiten': bool(rq['unw'])}
        if rq.get('bare') and rq['unw'] and rq['chans'] is None and rq['thr'] is None:
            kw = {}                                             # the defaults of get_template itself
        if rq['chans'] is not None:
            ch = rq['chans']
            kw['channel_ids'] = (list(ch) if rq['form'] == 'list' else
                                 np.array(ch, dtype=np.uint32 if rq['form'] == 'u32' else np.int64))
        if rq['thr'] is not None:
            kw['amplitude_threshold'] = rq['thr'][0] / rq['thr'][1]
        b = m.get_template(rq['tid'], **kw)
        tpl = np.asarray(b.template)
        if tpl.ndim != 2:
            return ['bad']
        cols = _ints(tpl.T)
        amp = _ints(np.asarray(b.amplitude).reshape(-1)) if np.asarray(b.amplitude).ndim == 1 else None
        ch = _ints(np.asarray(b.channel_ids).reshape(-1)) if np.asarray(b.channel_ids).ndim == 1 else None
        bc = _ints(np.asarray(b.best_channel).reshape(-1))
        if cols is None or amp is None or ch is None or bc is None or len(bc) != 1:
            return ['bad']
        return ['rec', cols, amp, bc[0], ch]
    if rq['k'] == 'acc':
        ch = _ints(np.asarray(m.get_template_channels(rq['tid'])).reshape(-1))
        w = np.asarray(m.get_template_waveforms(rq['tid']))
        cols = _ints(w.T) if w.ndim == 2 else None
        if ch is None or cols is None:
            return ['bad']
        return ['acc', ch, cols]
    if rq['k'] == 'clu':
        ch = _ints(np.asarray(m.get_cluster_channels(rq['cid'])).reshape(-1))
        return ['bad'] if ch is None else ['clu', ch]
    raise ValueError(rq['k'])


def run_case(case):
    from phylib.io.model import TemplateModel
    inp = case['inp']
    sem = inp['ds']
    d = tempfile.mkdtemp(prefix='c05_', dir=os.environ.get('VT_WORK') or None)
    try:
        kw = D.materialise(D5.files_of(sem), d)
        D5.write_extras(sem, d)                                 # bystander files: not part of the abstract dataset
        if sem.get('dirform') == 'str':
            kw['dir_path'] = str(kw['dir_path'])
        elif sem.get('dirform') == 'symlink':
            link = d + '_ln'
            os.symlink(d, link)
            kw['dir_path'] = type(kw['dir_path'])(link)
        if sem['nclosest'] != 12:
            kw['n_closest_channels'] = sem['nclosest']          # 12 = the class attribute itself
        if sem['thr'] != [0, 1]:
            kw['amplitude_threshold'] = sem['thr'][0] / sem['thr'][1]
        if sem.get('scale') is not None:
            kw['template_scaling'] = float(sem['scale'])        # absent = getattr default 1.0
        m = TemplateModel(**kw)
        out = []
        for rq in inp['reqs']:
            if rq['k'] == 'touch':
                try:
                    _touch(m, rq, kw)
                    out.append(['touch', 'ok'])
                except Exception as e:  # noqa: not an observable of this property (recorded for the coverage table only)
                    out.append(['touch', type(e).__name__])
                continue
            try:
                out.append(_one(m, rq))
            except Exception as e:  # noqa: an exception of one request is an observable of that request
                out.append(['crash', type(e).__name__, str(e)[:120]])
        wmi = _ints(m.wmi)
        m.close()
        return ('ok', wmi, out)
    finally:
        if os.path.islink(d + '_ln'):
            os.unlink(d + '_ln')
        shutil.rmtree(d, ignore_errors=True)


# ---- encoding -----------------------------------------------------------------------------------------------

def _req(rq):
    if rq['k'] == 'get':
        ch = 'None' if rq['chans'] is None else '(Some %s)' % D5.zl(rq['chans'])
        th = 'None' if rq['thr'] is None else '(Some %s)' % D5.coq_thr(rq['thr'])
        return '(RGet (mkreq %s %s %s %s))' % (D5.nat(rq['tid']), ch, th, q.b(rq['unw']))
    if rq['k'] == 'acc':
        return '(RAcc %s)' % D5.nat(rq['tid'])
    if rq['k'] == 'touch':
        return '(RTouch %s)' % D5.z(rq['op'])
    return '(RClu %s)' % D5.z(rq['cid'])


def _obs1(o):
    if o[0] == 'rec':
        return '(ORec %s %s %s %s)' % (D5.zll(o[1]), D5.zl(o[2]), D5.z(o[3]), D5.zl(o[4]))
    if o[0] == 'acc':
        return '(OAcc %s %s)' % (D5.zl(o[1]), D5.zll(o[2]))
    if o[0] == 'clu':
        return '(OClu %s)' % D5.zl(o[1])
    if o[0] == 'bad':
        return 'OBad'
    if o[0] == 'touch':
        return 'OTouch'
    return 'OCrash'


def encode(case, obs):
    inp = case['inp']
    sem = inp['ds']
    sc = sem['sc'] if sem.get('sc') is not None else sem['st']
    cin = '(InGet (mkinp %s %s %s %s))' % (D5.coq_dataset(sem), D5.natl(sem['st']), D5.zl(sc), q.lst(inp['reqs'], _req))
    if obs[0] != 'ok':
        return cin, 'ObsCrash'
    wmi = 'None' if obs[1] is None else '(Some %s)' % D5.zll(obs[1])
    return cin, '(ObsAll %s %s)' % (wmi, q.lst(obs[2], _obs1))


def nontrivial(case, obs):
    return obs[0] == 'ok' and any(o[0] == 'rec' and len(o[4]) >= 2 for o in obs[2])


def dist(case, obs):
    sem = case['inp']['ds']
    o = sem.get('opts', {})
    nc, ncl = sem['nc'], sem['nclosest']
    out = ['storage=%s' % o.get('storage'), 'geo=%s' % o.get('geo'), 'shanks=%s' % o.get('shanks'), 'wmi=%s/%s' % (o.get('wmi'), sem['wfiles']),
           'nclosest=%d' % ncl, 'channels_vs_nclosest=%s' % ('all' if ncl == 0 else 'fewer' if nc < ncl else 'equal' if nc == ncl else 'more'),
           'default_thr=%d/%d' % tuple(sem['thr']), 'tmpl_dtype=%s' % sem['tmpl_dtype'], 'template_scaling=%s' % sem.get('scale'), 'curated=%s' % (sem.get('sc') is not None),
           'outcome=%s' % (obs[0] if obs[0] == 'ok' else 'crash:' + str(obs[1]))]
    out.append('dirform=%s' % sem.get('dirform', 'path'))
    for x in sem.get('extras') or [None]:
        out.append('bystander=%s' % (None if x is None else x['name']))
        if x is not None and x['name'].endswith('_ind.npy') or x is not None and 'ind' in x['name'] and 'npy' in x:
            out.append('bystander_ind_with=%s/%s' % (o.get('storage'), 'more' if ncl and nc > ncl else 'notmore'))
    for rq in case['inp']['reqs']:
        if rq['k'] == 'get':
            out.append('req=get%s%s%s' % ('' if rq['chans'] is None else ':explicit-' + str(rq['form']),
                                          '' if rq['thr'] is None else ':thr%d/%d' % tuple(rq['thr']),
                                          '' if rq['unw'] else ':whitened') + (':no-keywords' if rq.get('bare') else ''))
        elif rq['k'] == 'touch':
            out.append('req=touch:' + TOUCH[rq['op']])
        else:
            out.append('req=' + rq['k'])
    seen_touch = False
    for rq in case['inp']['reqs']:
        if rq['k'] == 'touch':
            seen_touch = True
        elif seen_touch:
            out.append('history=%s-after-touch' % rq['k'])
    if obs[0] == 'ok':
        for rq, ob in zip(case['inp']['reqs'], obs[2]):
            if ob[0] == 'touch':
                out.append('obs=touch:%s:%s' % (TOUCH[rq['op']], ob[1]))
                continue
            out.append('obs=' + ob[0] + (':' + ob[1] if ob[0] == 'crash' else ''))
            if ob[0] == 'rec':
                out.append('listed=%s' % ('0' if not ob[4] else '1' if len(ob[4]) == 1 else '2-5' if len(ob[4]) <= 5 else '6-12' if len(ob[4]) <= 12 else '13+'))
                if len(set(ob[2])) < len(ob[2]):
                    out.append('amplitude_ties=True')
    return out


def size(case):
    sem = case['inp']['ds']
    return len(case['inp']['reqs']) * 1000 + sem['nc'] * sem['ns'] * sem['nt']


def _drop_extra_channel(x, sem, c):
    """Keep a bystander array in step with the dataset when the shrinker removes channel c (so that a look-alike file
    keeps the shape of the file it resembles)."""
    import numpy as np
    if 'npy' not in x:
        return x
    nc, name, sp = sem['nc'], x['name'].lower(), x['npy']
    a = np.array(sp['data'], dtype=object).reshape(sp['shape'])
    dense = sem['cols'] is None
    if 'ind' in name and a.ndim == 2:
        if dense and a.shape[1] == nc:
            a = np.delete(a, c, axis=1)
        elif dense:
            return x
        f = (lambda v: type(v)(-1) if v == c else (v - 1 if v > c else v))
        a = np.array([f(v) for v in a.ravel()], dtype=object).reshape(a.shape)
    elif 'whiten' in name and a.shape == (nc, nc):
        a = np.delete(np.delete(a, c, axis=0), c, axis=1)
    elif a.ndim == 1 and a.shape[0] == nc and ('shank' in name or 'map' in name):
        a = np.delete(a, c, axis=0)
    elif a.ndim == 2 and a.shape == (nc, 2) and ('pos' in name or 'coord' in name):
        a = np.delete(a, c, axis=0)
    elif a.ndim == 3 and dense and a.shape[2] == nc and 'template' in name:
        a = np.delete(a, c, axis=2)
    else:
        return x
    dt = 'int64' if sp['dtype'].startswith('u') and any(v < 0 for v in a.ravel()) else sp['dtype']
    return dict(x, npy={'dtype': dt, 'shape': list(a.shape), 'data': a.ravel().tolist()})


def _drop_channel(sem, c):
    s = copy.deepcopy(sem)
    nc = s['nc']
    if nc <= 2:
        return None
    if s.get('extras'):
        s['extras'] = [_drop_extra_channel(x, sem, c) for x in s['extras']]
    s['nc'] = nc - 1
    s['positions'].pop(c)
    if s['shanks'] is not None:
        s['shanks'].pop(c)
    if s['wmi'] is not None:
        s['wmi'] = [[v for j, v in enumerate(r) if j != c] for i, r in enumerate(s['wmi']) if i != c]
        if s['wfiles'] in ('wm', 'both') and D5.exact_inverse(s['wmi']) is None:
            s['wfiles'] = 'wmi'
        elif s['wfiles'] in ('wm', 'both'):
            s['wfiles'] = 'wmi'
    if s['cols'] is None:
        s['templates'] = [[[v for j, v in enumerate(r) if j != c] for r in t] for t in s['templates']]
    else:
        s['cols'] = [[-1 if v == c else (v - 1 if v > c else v) for v in r] for r in s['cols']]
    return s


def shrink(case):
    inp = case['inp']
    sem, reqs = inp['ds'], inp['reqs']
    gets = [i for i, r in enumerate(reqs) if r['k'] != 'touch']
    if sem.get('dirform') not in (None, 'path'):
        yield {'kind': 'get', 'inp': {'ds': dict(sem, dirform='path'), 'reqs': reqs}}
    xs = sem.get('extras') or []
    if len(xs) > 1:                                             # one bystander file alone, then one fewer
        for x in xs:
            yield {'kind': 'get', 'inp': {'ds': dict(sem, extras=[x]), 'reqs': reqs}}
        for i in range(len(xs)):
            yield {'kind': 'get', 'inp': {'ds': dict(sem, extras=xs[:i] + xs[i + 1:]), 'reqs': reqs}}
    if len(gets) > 1:
        for i in gets:                                          # one request, without any history
            yield {'kind': 'get', 'inp': {'ds': sem, 'reqs': [reqs[i]]}}
        if len(gets) < len(reqs):
            for i in gets:                                      # one request after the touches that precede it
                pre = [r for r in reqs[:i] if r['k'] == 'touch']
                if pre:
                    yield {'kind': 'get', 'inp': {'ds': sem, 'reqs': pre + [reqs[i]]}}
            for i in gets:                                      # ... or with the earlier requests kept
                yield {'kind': 'get', 'inp': {'ds': sem, 'reqs': reqs[:i + 1]}}
            for i in gets:
                yield {'kind': 'get', 'inp': {'ds': sem, 'reqs': reqs[:i] + reqs[i + 1:]}}
    if len(gets) == 1 and len(reqs) > 1:
        for i, r in enumerate(reqs):                            # drop one touch / the touches after the request
            if r['k'] == 'touch':
                yield {'kind': 'get', 'inp': {'ds': sem, 'reqs': reqs[:i] + reqs[i + 1:]}}
    if len(gets) == 1:
        rq = reqs[gets[0]]
        _w = lambda s_, r_: {'kind': 'get', 'inp': {'ds': s_, 'reqs': [r_ if j == gets[0] else copy.deepcopy(x) for j, x in enumerate(reqs)]}}
        for c in range(sem['nc'] - 1, -1, -1):
            s = _drop_channel(sem, c)
            if s is None:
                continue
            r = copy.deepcopy(rq)
            if r.get('chans'):
                if c in r['chans']:
                    continue
                r['chans'] = [v - 1 if v > c else v for v in r['chans']]
            yield _w(s, r)
        if sem['ns'] > 2:
            for k in range(sem['ns']):
                s = copy.deepcopy(sem)
                s['ns'] -= 1
                s['templates'] = [[r for i, r in enumerate(t) if i != k] for t in s['templates']]
                yield _w(s, rq)
        for key, val in (('wmi', None), ('shanks', None), ('sc', None), ('tmpl_dtype', 'float32'), ('thr', [0, 1]), ('scale', None)):
            if sem.get(key) != val:
                s = copy.deepcopy(sem)
                s[key] = val
                if key == 'wmi':
                    s['wfiles'] = 'none'
                yield _w(s, rq)
        # zero the templates that are not requested, simplify values
        tid = rq.get('tid')
        if tid is not None:
            for k in range(sem['nt']):
                if k != tid and any(v for r in sem['templates'][k] for v in r):
                    s = copy.deepcopy(sem)
                    s['templates'][k] = [[1 if (i == 0 and j == 0) else 0 for j, _ in enumerate(r)] for i, r in enumerate(s['templates'][k])]
                    yield _w(s, rq)
                    break


def repro(case):
    return ("import sys, tempfile; sys.path[:0] = ['/verif/harness', '/repo']\n"
            "from vt import npshim; npshim.setup_process()\n"
            "from vt.props import c05\n"
            "case = %r\n"
            "for rq, ob in zip(case['inp']['reqs'], c05.run_case(case)[2]): print(rq, '->', ob)\n"
            "# each record is [rec, columns of .template, .amplitude, .best_channel, .channel_ids]; column j and amplitude[j]\n"
            "# must belong to channel_ids[j] (see notes/C05.md)\n" % (case,))
